"""jwt-memory.c `jwt_strcmp` -> Lean (tie/strcmp.py).

The comparison every name match (algorithm names, provider names, JWK member values) and the HS* signature check go
through.  The body is parsed with tie/cmini.py and translated statement by statement; every store into a variable is
wrapped in the width of the variable's declared type (`int`: as is, under the stated assumption that strings are shorter
than 2^31; `unsigned char` / `uint8_t`: modulo 256; ...), so that a narrower accumulator changes the generated definition
and the theorem `jwtStrcmp a b = 0 <-> a = b` no longer checks.  Anything but the known statement forms is refused."""
import re
import cmini


class StrcmpError(Exception):
    pass


WIDTH = {"int": None, "size_t": None, "unsigned int": None, "unsigned": None, "long": None, "unsigned long": None, "ssize_t": None,
         "char": 256, "unsigned char": 256, "signed char": 256, "uint8_t": 256, "short": 65536, "unsigned short": 65536, "uint16_t": 65536}


def find_body(src, name):
    m = re.search(r"\bint\s+%s\s*\(\s*const\s+char\s*\*\s*(\w+)\s*,\s*const\s+char\s*\*\s*(\w+)\s*\)\s*\{" % name, src)
    if not m:
        raise StrcmpError("%s(const char *, const char *) not found" % name)
    i = m.end()
    depth = 1
    while depth:
        c = src[i]
        depth += (c == "{") - (c == "}")
        i += 1
    body = "{" + re.sub(r"/\*.*?\*/", " ", src[m.end():i - 1], flags=re.S) + "}"
    return m.group(1), m.group(2), body


class Tr:
    def __init__(self, p1, p2):
        self.p = {p1: "a", p2: "b"}
        self.types = {}
        self.lines = []

    def width(self, name):
        t = self.types[name]
        if t not in WIDTH:
            raise StrcmpError("variable %s has type `%s`, whose width is not known to the translator" % (name, t))
        return WIDTH[t]

    def wrap(self, name, e):
        w = self.width(name)
        return e if w is None else "((%s) %% %d)" % (e, w)

    def expr(self, e):
        k = e[0]
        if k == "num":
            return str(e[1])
        if k == "id":
            if e[1] in self.p:
                raise StrcmpError("the string %s used as a value" % e[1])
            if e[1] not in self.types:
                raise StrcmpError("unknown name %s" % e[1])
            return e[1]
        if k == "call" and e[1] == "strlen" and len(e[2]) == 1 and e[2][0][0] == "id" and e[2][0][1] in self.p:
            return "%s.length" % self.p[e[2][0][1]]
        if k == "idx" and e[1][0] == "id" and e[1][1] in self.p:
            return "(%s.getD (%s) 0)" % (self.p[e[1][1]], self.expr(e[2]))
        if k == "cond":
            return "(if %s then %s else %s)" % (self.cond(e[1]), self.expr(e[2]), self.expr(e[3]))
        if k == "bin" and e[1] in ("^", "|", "&"):
            return "(%s %s %s)" % (self.expr(e[2]), {"^": "^^^", "|": "|||", "&": "&&&"}[e[1]], self.expr(e[3]))
        if k == "cast":
            return self.expr(e[2]) if WIDTH.get(e[1].strip(), 0) is None else "((%s) %% %d)" % (self.expr(e[2]), WIDTH.get(e[1].strip()) or self._bad(e))
        self._bad(e)

    def _bad(self, e):
        raise StrcmpError("expression `%s` is not one the translator knows" % cmini.show(e))

    def cond(self, e):
        if e[0] == "bin" and e[1] in ("<", "<=", ">", ">=", "==", "!="):
            return "(%s %s %s)" % (self.expr(e[2]), {"==": "=", "!=": "≠", "<=": "≤", ">=": "≥"}.get(e[1], e[1]), self.expr(e[3]))
        raise StrcmpError("condition `%s` is not one the translator knows" % cmini.show(e))

    # statements of a straight-line block -> list of "let" lines; the loop body -> function of (i, ret-like state)
    def decl(self, st, out):
        ty = " ".join(w for w in st[1].split() if w not in ("const", "register", "volatile"))
        for name, stars, arr, init in st[2]:
            if stars or arr is not None:
                raise StrcmpError("declaration of %s is a pointer or an array" % name)
            self.types[name] = ty
            self.width(name)
            if init is not None:
                out.append("let %s := %s" % (name, self.wrap(name, self.expr(init))))

    def assign(self, e, out):
        if e[0] != "assign" or e[2][0] != "id" or e[2][1] not in self.types:
            raise StrcmpError("statement `%s` is not a store into a local variable" % cmini.show(e))
        name, op = e[2][1], e[1]
        rhs = self.expr(e[3])
        if op == "=":
            val = rhs
        elif op in ("|=", "^=", "&="):
            val = "(%s %s %s)" % (name, {"|=": "|||", "^=": "^^^", "&=": "&&&"}[op], rhs)
        else:
            raise StrcmpError("operator %s in `%s`" % (op, cmini.show(e)))
        out.append("let %s := %s" % (name, self.wrap(name, val)))
        return name


def generate(repo):
    src = open(repo + "/libjwt/jwt-memory.c").read()
    p1, p2, body = find_body(src, "jwt_strcmp")
    stmts = cmini.parse_body("jwt_strcmp", body)
    tr = Tr(p1, p2)
    pre, post, loop = [], [], None
    for st in stmts:
        cur = pre if loop is None else post
        if st[0] == "decl":
            tr.decl(st, cur)
        elif st[0] == "expr":
            tr.assign(st[1], cur)
        elif st[0] == "for" and loop is None:
            loop = st
            cur = None
        elif st[0] == "return":
            if st[1] is None or st[1][0] != "id" or st is not stmts[-1]:
                raise StrcmpError("the function does not end in `return <variable>`")
            ret = st[1][1]
        else:
            raise StrcmpError("statement kind %s" % st[0])
    if loop is None:
        raise StrcmpError("no loop found")
    init, cond, step, lbody = loop[1], loop[2], loop[3], loop[4]
    # for (i = 0; i < BOUND; i++)
    ok = (init and init[0] == "expr" and init[1][0] == "assign" and init[1][1] == "=" and init[1][2][0] == "id" and init[1][3] == ("num", 0)
          and cond and cond[0] == "bin" and cond[1] == "<" and cond[2] == init[1][2] and cond[3][0] == "id"
          and step and step[0] in ("postinc", "preinc") and step[1] == init[1][2])
    if not ok:
        raise StrcmpError("the loop is not `for (i = 0; i < bound; i++)`")
    ivar, bound = init[1][2][1], cond[3][1]
    if ivar not in tr.types or bound not in tr.types:
        raise StrcmpError("loop variable or bound not declared")
    body_l, stored = [], []
    for st in (lbody[1] if lbody[0] == "block" else [lbody]):
        if st[0] == "decl":
            tr.decl(st, body_l)
        elif st[0] == "expr":
            stored.append(tr.assign(st[1], body_l))
        else:
            raise StrcmpError("statement kind %s inside the loop" % st[0])
    local = {n for st in (lbody[1] if lbody[0] == "block" else [lbody]) if st[0] == "decl" for n, _, _, _ in st[2]}
    carried = [n for n in dict.fromkeys(stored) if n not in local]
    if carried != [ret]:
        raise StrcmpError("the loop carries %s, the function returns %s" % (carried, ret))
    free_pre = [l.split()[1] for l in pre]
    L = []
    L.append("/- GENERATED by tie/strcmp.py from libjwt/jwt-memory.c -- do not edit.  Regenerated from /repo on every check run. -/")
    L.append("set_option linter.unusedVariables false")
    L.append("namespace Jwt.Generated.StrCmpCode\n")
    L.append("/-- the statements before the loop of `jwt_strcmp` (strings as lists of octets 1..255): what the loop and the tail read -/")
    L.append("structure Pre where")
    for n in free_pre:
        L.append("  %s : Nat" % n)
    L.append("\ndef pre (a b : List Nat) : Pre :=")
    for l in pre:
        L.append("  " + l)
    L.append("  { " + ", ".join(free_pre) + " }\n")
    L.append("/-- one round of the loop: the new value of `%s` -/" % ret)
    L.append("def round (a b : List Nat) (p : Pre) (%s %s : Nat) : Nat :=" % (ivar, ret))
    for n in free_pre:
        if n != ret:
            L.append("  let %s := p.%s" % (n, n))
    for l in body_l:
        L.append("  " + l)
    L.append("  %s\n" % ret)
    L.append("/-- `jwt_strcmp`: the loop `for (%s = 0; %s < %s; %s++)` as a fold over the indices, then the statements after it -/" % (ivar, ivar, bound, ivar))
    L.append("def jwtStrcmp (a b : List Nat) : Nat :=")
    L.append("  let p := pre a b")
    for n in free_pre:
        L.append("  let %s := p.%s" % (n, n))
    L.append("  let %s := (List.range %s).foldl (fun %s %s => round a b p %s %s) %s" % (ret, bound, ret, ivar, ivar, ret, ret))
    for l in post:
        L.append("  " + l)
    L.append("  %s\n" % ret)
    L.append("end Jwt.Generated.StrCmpCode")
    info = {"function": "jwt_strcmp", "accumulator": ret, "types": dict(tr.types), "loop_bound": bound}
    return "\n".join(L) + "\n", info


if __name__ == "__main__":
    import sys
    print(generate(sys.argv[1] if len(sys.argv) > 1 else "/repo")[0])
