"""Translator for the keyring functions of libjwt/jwks.c into Lean (Jwt/Generated/JwksLoops.lean).

Each function is parsed with tie/cmini.py and translated statement by statement:

  * `list_for_each_entry(item, &set->head, node) BODY` becomes a recursive function over the node heap of
    Jwt/LlHeap.lean, written exactly as the macro of ll.h expands: `pos = head->next` (a checked load);
    loop while `pos != head` (an address comparison, no load); after BODY `pos = pos->next` (a checked load).
    `list_for_each_entry_safe(item, n, ...)` keeps the second cursor and reloads it after BODY from the heap
    BODY left behind.  `fuel` bounds the recursion (running out is `none`); Jwt/Lemmas/Ll.lean proves that on a
    well-formed list `length + 1` suffices.
  * a read of `item->error` / `item->kid` is a load through `pos` (checked) followed by the item view;
    counters (`size_t`, `int`) are natural numbers (no keyring has 2^31 members); pointer locals are `Option Addr`.
  * `return`, `break`, `continue`, `if/else`, `x++`, `x = e`, and the calls `__item_free`, `list_del`,
    `list_add_tail`, `jwt_freemem(item)` and `jwks_item_free` are translated; calls that release what hangs off an
    item but is no part of the node heap (key material, kid, JSON) are listed per function in `notModelled`.
Anything else is refused, which breaks the tie (and with it the check) rather than being skipped."""
import os
import re

import cmini


class LoopError(Exception):
    pass


OUTSIDE_HEAP = {"jwt_freemem(todel->oct->key)", "jwt_ops->process_item_free(todel)", "jwt_freemem(todel->kid)", "json_decrefp(&todel->json)"}


def strip_c(src):
    src = re.sub(r"/\*.*?\*/", " ", src, flags=re.S)
    src = re.sub(r"//[^\n]*", " ", src)
    src = re.sub(r"^[ \t]*#(?:[^\n]*\\\n)*[^\n]*", " ", src, flags=re.M)
    return src


def find_function(src, name):
    """(return type text, params text, body text)"""
    m = re.search(r"\n((?:static\s+)?(?:const\s+)?[\w]+[\s\*]+)%s\s*\(([^;{}]*)\)\s*\{" % re.escape(name), src)
    if not m:
        raise LoopError("function %s not found in jwks.c" % name)
    i = src.index("{", m.end() - 1)
    depth, j = 0, i
    while j < len(src):
        if src[j] == "{":
            depth += 1
        elif src[j] == "}":
            depth -= 1
            if depth == 0:
                return m.group(1).strip(), m.group(2).strip(), src[i:j + 1]
        j += 1
    raise LoopError("unbalanced braces in %s" % name)


class Fn:
    """translation of one function"""

    def __init__(self, name, rtype, params, body):
        self.name, self.rtype = name, rtype
        self.params = [p.strip() for p in params.split(",") if p.strip()]
        self.body = cmini.parse_body(name, body)
        self.ptr_result = "*" in rtype
        self.void = rtype.replace("static", "").strip() == "void"
        self.mutates = False
        self.not_modelled = []
        self.uses_view = False
        self.lean_params = []          # (lean name, lean type) beyond h/view/head
        self.nat_params, self.bytes_params = set(), set()
        for p in self.params:
            pname = re.search(r"(\w+)\s*$", p).group(1)
            if re.search(r"jwk_set_t\s*\*", p):
                self.set_name = pname
            elif re.search(r"jwk_item_t\s*\*", p):
                self.item_param = pname
                self.lean_params.append(("a_" + pname, "Addr"))
            elif re.search(r"\bsize_t\b|\bint\b", p):
                self.nat_params.add(pname)
                self.lean_params.append((pname, "Nat"))
            elif re.search(r"const\s+char\s*\*", p):
                self.bytes_params.add(pname)
                self.lean_params.append((pname, "List UInt8"))
            else:
                raise LoopError("%s: parameter %r" % (name, p))

    # ---- expressions ----
    def value(self, e, env):
        """Lean text of a C expression used as a VALUE; returns (text, kind) kind in nat | optaddr | bool"""
        k = e[0]
        if k == "num":
            return str(e[1]), "nat"
        if k == "id":
            n = e[1]
            if n == "NULL":
                return "none", "optaddr"
            if n in env:
                return env[n]
            raise LoopError("%s: unknown variable %s" % (self.name, n))
        if k == "mem" and e[1][0] == "id" and e[1][1] == getattr(self, "set_name", None) and e[2] == "error":
            if ("setError", "Nat") not in self.lean_params:
                self.lean_params.append(("setError", "Nat"))
            return "setError", "nat"
        if k == "cond":          # c ? 1 : 0
            return "(if %s then %s else %s)" % (self.cond(e[1], env), self.value(e[2], env)[0], self.value(e[3], env)[0]), "nat"
        raise LoopError("%s: value expression %s" % (self.name, cmini.show(e)))

    def item_field(self, e, env):
        """`item->f` for the loop cursor (or an item parameter): (lean text, kind)"""
        if e[0] == "mem" and e[1][0] == "id" and e[1][1] in env and env[e[1][1]][1] == "addr":
            self.uses_view = True
            a = env[e[1][1]][0]
            if e[2] == "error":
                return "(view %s).error" % a, "bool"
            if e[2] == "kid":
                return "(view %s).kid" % a, "optbytes"
        return None

    def cond(self, e, env):
        """Lean proposition (decidable) of a C expression in boolean context"""
        k = e[0]
        if k == "bin" and e[1] in ("||", "&&"):
            return "(%s %s %s)" % (self.cond(e[2], env), "∨" if e[1] == "||" else "∧", self.cond(e[3], env))
        if k == "un" and e[1] == "!":
            f = self.item_field(e[2], env)
            if f and f[1] == "bool":
                return "(%s = false)" % f[0]
            return "(¬ %s)" % self.cond(e[2], env)
        if k == "bin" and e[1] in ("==", "!="):
            l, r = e[2], e[3]
            fl = self.item_field(l, env)
            if fl and fl[1] == "optbytes" and r == ("id", "NULL"):
                return "(%s %s none)" % (fl[0], "=" if e[1] == "==" else "≠")
            (lt, lk), (rt, rk) = self.value(l, env), self.value(r, env)
            if lk != rk:
                raise LoopError("%s: comparison of %s with %s" % (self.name, lk, rk))
            return "(%s %s %s)" % (lt, "=" if e[1] == "==" else "≠", rt)
        if k == "call" and e[1] == "strcmp" and len(e[2]) == 2:
            # non-zero = the strings differ; the first operand was tested against NULL to the left of `||`
            fl = self.item_field(e[2][0], env)
            if fl and fl[1] == "optbytes" and e[2][1][0] == "id" and e[2][1][1] in self.bytes_params:
                return "(%s ≠ some %s)" % (fl[0], e[2][1][1])
        f = self.item_field(e, env)
        if f and f[1] == "bool":
            return "(%s = true)" % f[0]
        if k == "id" and e[1] in env and env[e[1]][1] == "nat":
            return "(%s ≠ 0)" % env[e[1]][0]
        raise LoopError("%s: condition %s" % (self.name, cmini.show(e)))

    def reads_item(self, e, env):
        """does the expression load through an item pointer?"""
        if self.item_field(e, env):
            return True
        return any(self.reads_item(x, env) for x in e[1:] if isinstance(x, tuple)) or \
            any(self.reads_item(y, env) for x in e[1:] if isinstance(x, list) for y in x if isinstance(y, tuple))

    # ---- statements ----
    def ret(self, e, env):
        if self.void:
            return "pure h" if self.mutates else "pure ()"
        if self.ptr_result:
            t, k = self.value(e, env)
            if k == "addr":
                t = "some " + t
            elif k != "optaddr":
                raise LoopError("%s: returns %s where a pointer is expected" % (self.name, k))
        else:
            t, k = self.value(e, env)
            if k != "nat":
                raise LoopError("%s: returns %s where a number is expected" % (self.name, k))
        return "pure (h, %s)" % t if self.mutates else "pure (%s)" % t

    def stmts(self, ss, env, ctx, ind):
        """Lean do-block lines for a statement list.  ctx: dict(cont=fn(env)->text or None, brk=fn(env)->text or None)
        Every path ends in a return, a continue or a break; falling off the end takes ctx['fall'](env)."""
        pad = "  " * ind
        if not ss:
            if ctx.get("fall") is None:
                raise LoopError("%s: control reaches the end without a return" % self.name)
            return [pad + ctx["fall"](env)]
        s, rest = ss[0], ss[1:]
        k = s[0]
        if k == "block":
            return self.stmts(list(s[1]) + list(rest), env, ctx, ind)
        if k == "empty":
            return self.stmts(rest, env, ctx, ind)
        if k == "decl":
            env = dict(env)
            for name, stars, arr, init in s[2]:
                if arr is not None:
                    raise LoopError("%s: array local %s" % (self.name, name))
                if stars:
                    if init is not None and init != ("id", "NULL"):
                        raise LoopError("%s: pointer local %s initialised with %s" % (self.name, name, cmini.show(init)))
                    env[name] = ("none", "optaddr")
                else:
                    env[name] = self.value(init, env) if init is not None else ("0", "nat")
            return self.stmts(rest, env, ctx, ind)
        if k == "return":
            return [pad + self.ret(s[1], env)]
        if k == "continue":
            if not ctx.get("cont"):
                raise LoopError("%s: continue outside a loop" % self.name)
            return [pad + ctx["cont"](env)]
        if k == "break":
            if not ctx.get("brk"):
                raise LoopError("%s: break outside a loop" % self.name)
            return [pad + ctx["brk"](env)]
        if k == "if" and self.only_outside(s[2]) and (s[3] is None or self.only_outside(s[3])):
            # both branches release things that hang off the item but are no part of the node heap
            for b in (s[2], s[3]):
                if b is not None:
                    self.not_modelled += [cmini.show(x[1]) for x in (b[1] if b[0] == "block" else [b])]
            return self.stmts(rest, env, ctx, ind)
        if k == "if":
            pre = []
            if self.reads_item(s[1], env):
                pre = [pad + "let _ ← h.getNext %s" % self.cursor(env)]       # `item->f` is a load through the cursor
            c = self.cond(s[1], env)
            th = self.stmts([s[2]] + list(rest), env, ctx, ind + 1)
            el = self.stmts(([s[3]] if s[3] else []) + list(rest), env, ctx, ind + 1)
            return pre + [pad + "if %s then do" % c] + th + [pad + "else do"] + el
        if k == "expr":
            e = s[1]
            if e[0] == "postinc" and e[1][0] == "id" and e[1][1] in env and env[e[1][1]][1] == "nat":
                env = dict(env)
                env[e[1][1]] = ("(%s + 1)" % env[e[1][1]][0], "nat")
                return self.stmts(rest, env, ctx, ind)
            if e[0] == "assign" and e[1] == "=" and e[2][0] == "id" and e[2][1] in env:
                t, kk = self.value(e[3], env)
                env = dict(env)
                if env[e[2][1]][1] == "optaddr":
                    if kk == "addr":
                        t, kk = "(some %s)" % t, "optaddr"
                    if kk != "optaddr":
                        raise LoopError("%s: %s assigned a %s" % (self.name, e[2][1], kk))
                env[e[2][1]] = (t, kk)
                return self.stmts(rest, env, ctx, ind)
            if e[0] in ("call", "callp"):
                txt = cmini.show(e)
                if txt in OUTSIDE_HEAP:
                    self.not_modelled.append(txt)
                    return self.stmts(rest, env, ctx, ind)
                if e[0] == "call" and e[1] == "__item_free" and len(e[2]) == 1:
                    t, kk = self.value(e[2][0], env)
                    self.mutates = True
                    if kk == "addr":
                        return [pad + "let h ← item_free h %s" % t] + self.stmts(rest, env, ctx, ind)
                    if kk == "optaddr":       # a pointer local that was tested against NULL before
                        return [pad + "match %s with" % t, pad + "| none => none", pad + "| some a_del => do",
                                pad + "  let h ← item_free h a_del"] + self.stmts(rest, env, ctx, ind + 1)
                if e[0] == "call" and e[1] == "list_del" and e[2] == [("addr", ("mem", ("id", getattr(self, "item_param", "?")), "node"))]:
                    self.mutates = True
                    return [pad + "let h ← list_del h a_%s" % self.item_param] + self.stmts(rest, env, ctx, ind)
                if e[0] == "call" and e[1] == "jwt_freemem" and e[2] == [("id", getattr(self, "item_param", "?"))]:
                    self.mutates = True
                    return [pad + "let h ← h.free a_%s" % self.item_param] + self.stmts(rest, env, ctx, ind)
                if e[0] == "call" and e[1] == "list_add_tail" and e[2] == [("addr", ("mem", ("id", getattr(self, "item_param", "?")), "node")),
                                                                             ("addr", ("mem", ("id", getattr(self, "set_name", "?")), "head"))]:
                    self.mutates = True
                    return [pad + "let h ← list_add_tail h a_%s head" % self.item_param] + self.stmts(rest, env, ctx, ind)
            raise LoopError("%s: statement %s" % (self.name, cmini.show(e)))
        if k == "loopmacro":
            return self.loop(s, rest, env, ctx, ind)
        if k == "for":
            return self.for_call(s, rest, env, ctx, ind)
        raise LoopError("%s: statement kind %s" % (self.name, k))

    @staticmethod
    def only_outside(b):
        ss = b[1] if b[0] == "block" else [b]
        return bool(ss) and all(x[0] == "expr" and x[1][0] in ("call", "callp") and cmini.show(x[1]) in OUTSIDE_HEAP for x in ss)

    def cursor(self, env):
        for n, (t, kk) in env.items():
            if kk == "addr" and t == "pos":
                return "pos"
        for n, (t, kk) in env.items():
            if kk == "addr":
                return t
        raise LoopError("%s: no item in scope" % self.name)

    # ---- list_for_each_entry[_safe] ----
    def loop(self, s, rest, env, ctx, ind):
        macro, args, body = s[1], s[2], s[3]
        safe = macro == "list_for_each_entry_safe"
        if macro not in ("list_for_each_entry", "list_for_each_entry_safe"):
            raise LoopError("%s: loop macro %s" % (self.name, macro))
        want_head = ("addr", ("mem", ("id", self.set_name), "head"))
        if args[-2] != want_head or args[-1] != ("id", "node"):
            raise LoopError("%s: the loop does not run over &%s->head by `node`" % (self.name, self.set_name))
        item = args[0][1]
        nxt = args[1][1] if safe else None
        # variables the loop carries: those assigned in the body (or after it) that were declared before it
        carried = [n for n, (t, kk) in env.items() if kk in ("nat", "optaddr") and n not in self.nat_params and n != item and n != nxt]
        lname = self.name + "_loop"
        pad = "  " * ind
        benv = dict(env)
        benv[item] = ("pos", "addr")
        for n in carried:
            benv[n] = (n, env[n][1])
        mut_before = self.mutates
        # does the body mutate the heap?  (decided by a dry run)
        probe = Fn.__new__(Fn)
        probe.__dict__.update(self.__dict__)
        probe.not_modelled, probe.lean_params = [], list(self.lean_params)
        probe.mutates = False
        try:
            probe.stmts([body], benv, {"cont": lambda e: "x", "brk": lambda e: "x", "fall": lambda e: "x"}, 0)
            probe.stmts(list(rest), benv, {"fall": None}, 0)
        except LoopError:
            pass
        self.mutates = self.mutates or probe.mutates
        heap_arg = "h " if self.mutates else ""

        def call(e, first, second=None):
            vals = " ".join(e[n][0] for n in carried)
            return "%s %sfuel %s%s%s%s" % (lname, "FIXED", heap_arg, first, (" " + second) if second else "", (" " + vals) if vals else "")

        if safe:
            cont = lambda e: "(do let n' ← h.getNext n; %s)" % call(e, "n", "n'")
        else:
            cont = lambda e: "(do let nx ← h.getNext pos; %s)" % call(e, "nx")
        after_env = lambda e: {**env, **{n: e[n] for n in carried}}
        after_lines_cache = {}

        def after(e):
            lines = self.stmts(list(rest), after_env(e), {"fall": ctx.get("fall")}, 0)
            return "(do\n" + "\n".join("        " + l for l in lines) + ")" if len(lines) > 1 else lines[0].strip()
        body_lines = self.stmts([body], benv, {"cont": cont, "brk": after, "fall": cont}, 3)
        exit_txt = after(benv)
        res = self.result_type()
        fixed = "(h : Heap) " if not self.mutates else ""
        sig_state = ("Heap → " if self.mutates else "") + "Addr → " + ("Addr → " if safe else "") + "".join("%s → " % ("Nat" if env[n][1] == "nat" else "Option Addr") for n in carried)
        zero = ", ".join(["0"] + ["_"] * ((1 if self.mutates else 0) + (2 if safe else 1) + len(carried)))
        succ = ", ".join(["fuel + 1"] + (["h"] if self.mutates else []) + ["pos"] + (["n"] if safe else []) + carried)
        uv = self.uses_view_in(body, rest, benv)
        par = "".join(" " + p[0] for p in self.lean_params)
        fixed_args = ("" if self.mutates else "h ") + ("view " if uv else "") + "head" + par + " "
        self.loop_def = [l.replace("FIXED", fixed_args) for l in [
            "def %s %s%s(head : Addr)%s : Nat → %sOption %s" % (
                lname, fixed, "(view : Addr → ItemView) " if uv else "", "".join(" (%s : %s)" % p for p in self.lean_params), sig_state, res),
            "  | %s => none" % zero,
            "  | %s =>" % succ,
            "    if pos = head then %s" % exit_txt,
            "    else do"] + body_lines]
        # the loop statement itself: pos = head->next (and n = pos->next)
        start = [pad + "let pos ← h.getNext head"]
        if safe:
            start.append(pad + "let n ← h.getNext pos")
        vals = " ".join(env[n][0] for n in carried)
        start.append(pad + "%s %sfuel %spos%s%s" % (lname, fixed_args, heap_arg, " n" if safe else "", (" " + vals) if vals else ""))
        return start

    def uses_view_in(self, body, rest, benv):
        self.uses_view = False
        probe = Fn.__new__(Fn)
        probe.__dict__.update(self.__dict__)
        probe.not_modelled, probe.lean_params = [], list(self.lean_params)
        try:
            probe.stmts([body], benv, {"cont": lambda e: "x", "brk": lambda e: "x", "fall": lambda e: "x"}, 0)
        except LoopError:
            pass
        self.uses_view = probe.uses_view
        return probe.uses_view

    # ---- for (i = 0; jwks_item_free(set, 0); i++) ; ----
    def for_call(self, s, rest, env, ctx, ind):
        init, cond, step, body = s[1], s[2], s[3], s[4]
        pad = "  " * ind
        if not (init and init[0] == "expr" and init[1][0] == "assign" and init[1][2][0] == "id" and init[1][3] == ("num", 0)
                and cond == ("call", "jwks_item_free", [("id", self.set_name), ("num", 0)])
                and step == ("postinc", init[1][2]) and body == ("empty",)):
            raise LoopError("%s: for-loop of an unknown shape" % self.name)
        v = init[1][2][1]
        self.mutates = True
        lname = self.name + "_loop"
        lines = self.stmts(list(rest), {**env, v: (v, "nat")}, {"fall": ctx.get("fall")}, 0)
        if len(lines) != 1:
            raise LoopError("%s: statements after the for-loop" % self.name)
        self.loop_def = ["def %s (head : Addr) (fuel : Nat) : Nat → Heap → Nat → Option (Heap × Nat)" % lname,
                         "  | 0, _, _ => none",
                         "  | k + 1, h, %s => do" % v,
                         "    let (h, r) ← jwks_item_free h head false 0 fuel",
                         "    if r ≠ 0 then %s head fuel k h (%s + 1) else %s" % (lname, v, lines[0].strip())]
        return [pad + "%s head fuel fuel h 0" % lname]

    def result_type(self):
        if self.void:
            return "Heap" if self.mutates else "Unit"
        r = "(Option Addr)" if self.ptr_result else "Nat"
        return "(Heap × %s)" % r.strip("()") if self.mutates and not self.ptr_result else ("(Heap × Option Addr)" if self.mutates else r)

    def translate(self):
        self.loop_def = None
        env = {}
        for p in self.params:
            pname = re.search(r"(\w+)\s*$", p).group(1)
            if pname in self.nat_params:
                env[pname] = (pname, "nat")
            elif pname in self.bytes_params:
                env[pname] = (pname, "bytes")
            elif pname == getattr(self, "item_param", None):
                env[pname] = ("a_" + pname, "addr")
        body = list(self.body)
        guard = None
        # `if (set == NULL) return K;` -- the model's keyring always exists; the guard becomes a flag
        for i, s in enumerate(body):
            if s[0] == "if" and s[1] == ("bin", "==", ("id", getattr(self, "set_name", "?")), ("id", "NULL")) and s[2][0] == "return" and s[3] is None:
                guard = s
                body = body[:i] + body[i + 1:]
                break
        # dry run to learn whether the function mutates the heap (decides the result type)
        probe = Fn.__new__(Fn)
        probe.__dict__.update(self.__dict__)
        probe.not_modelled, probe.lean_params, probe.loop_def = [], list(self.lean_params), None
        probe.mutates = False
        probe.stmts(body, env, {"fall": (lambda e: "pure h") if self.void else None}, 2)
        self.mutates = probe.mutates
        self.lean_params = list(self.lean_params)
        lines = self.stmts(body, env, {"fall": (lambda e: "pure h" if self.mutates else "pure ()") if self.void else None}, 2)
        uses_view = any("view" in l for l in lines) or (self.loop_def and any("view" in l for l in self.loop_def))
        has_head = hasattr(self, "set_name")
        sig = "def %s (h : Heap) %s%s%s%s%s : Option %s := do" % (
            self.name, "(view : Addr → ItemView) " if uses_view else "", "(head : Addr)" if has_head else "",
            " (setNull : Bool)" if guard else "", "".join(" (%s : %s)" % p for p in self.lean_params),
            " (fuel : Nat)" if self.loop_def else "", self.result_type())
        out = []
        if self.loop_def:
            out += self.loop_def + [""]
        out.append(sig)
        if guard:
            g = self.ret(guard[2][1], env)
            out.append("  if setNull then %s else do" % g)
            out += lines
        else:
            out += [l[2:] for l in lines]
        return out


FUNCTIONS = ["__item_free", "jwks_item_get", "jwks_error_any", "jwks_item_add", "jwks_find_bykid", "jwks_item_free", "jwks_item_count",
             "jwks_item_free_bad", "jwks_item_free_all"]


def generate(repo):
    src = strip_c(open(os.path.join(repo, "libjwt/jwks.c")).read())
    out = ["/- GENERATED by tie/extract.py (tie/loops.py, tie/cmini.py) from libjwt/jwks.c -- do not edit.",
           "   The keyring functions translated statement by statement over the node heap of Jwt/LlHeap.lean and the list",
           "   functions generated from ll.h.  `list_for_each_entry` is written as the macro expands (load head->next; while",
           "   pos != head; after the body load pos->next); counters are natural numbers; `fuel` bounds every walk.",
           "   Jwt/Lemmas/JwksLoops.lean proves each of these equal to the loops of Jwt/Ll.lean that the keyring theorems are about. -/",
           "import Jwt.Generated.LlOps", "namespace Jwt.Ll.Src", "open Jwt.Ll", ""]
    info = {}
    notes = []
    for name in FUNCTIONS:
        rtype, params, body = find_function(src, name)
        f = Fn(name, rtype, params, body)
        lines = f.translate()
        if name == "__item_free":
            lines = [l.replace("def __item_free", "def item_free") for l in lines]
        out.append("/-- jwks.c `%s(%s)`%s -/" % (name, params, ("; outside the node heap, not modelled: " + ", ".join(f.not_modelled)) if f.not_modelled else ""))
        out += lines
        out.append("")
        info[name] = {"mutates": f.mutates, "not_modelled": f.not_modelled}
        notes += f.not_modelled
    out.append("end Jwt.Ll.Src")
    return "\n".join(out) + "\n", info


if __name__ == "__main__":
    import sys
    text, info = generate(sys.argv[1])
    sys.stdout.write(text)
