"""A parser for the small subset of C that libjwt's control code is written in.

Not a C front end: it reads ONE function body (comments and preprocessor lines already removed) into a
tree of statements and expressions, and refuses (CParseError) whatever it does not know -- so a translator
built on it can never silently skip a statement.  Used by tie/extract.py for the keyring loops of jwks.c
and for the verification pipeline.

Expressions:  ("num", int) ("str", text) ("chr", code) ("id", name) ("un", op, e) ("bin", op, l, r)
              ("call", name, [args]) ("mem", e, field) (both `.` and `->`) ("idx", e, i) ("addr", e)
              ("deref", e) ("postinc", e) ("postdec", e) ("assign", op, lhs, rhs) ("cast", type, e)
              ("cond", c, a, b)
Statements:   ("decl", type, [(name, stars, array_size|None, init|None)]) ("if", c, then, else|None)
              ("block", [stmts]) ("return", e|None) ("break",) ("continue",) ("expr", e) ("empty",)
              ("for", init_stmt|None, cond|None, step|None, body) ("while", cond, body)
              ("loopmacro", name, [args], body)          e.g. list_for_each_entry(item, &set->head, node) body
              ("switch", e, [(labels, [stmts])])         labels: list of exprs, or ["default"]
"""
import re


class CParseError(Exception):
    pass


TOKEN = re.compile(r"""\s*(
    "(?:[^"\\]|\\.)*" | '(?:[^'\\]|\\.)*' |
    0[xX][0-9a-fA-F]+[uUlL]* | \d+[uUlL]* |
    [A-Za-z_]\w* |
    -> | \+\+ | -- | <<= | >>= | << | >> | <= | >= | == | != | && | \|\| | \+= | -= | \*= | /= | \|= | &= | \^= |
    [-+*/%<>=!&|^~?:;,.(){}\[\]]
)""", re.X)

TYPE_WORDS = {"const", "struct", "unsigned", "signed", "int", "long", "short", "char", "void", "size_t", "ssize_t", "time_t", "static", "volatile",
              "uint8_t", "uint16_t", "uint32_t", "uint64_t", "int64_t", "FILE", "json_int_t", "double", "register"}
LOOP_MACROS = {"list_for_each_entry", "list_for_each_entry_safe", "json_object_foreach", "json_array_foreach"}


def is_type_name(t):
    return t in TYPE_WORDS or t.endswith("_t") or t.endswith("_auto") or t == "BIGNUM" or t.startswith("EVP_") or t.startswith("gnutls_")


class Parser:
    def __init__(self, name, text):
        self.name = name
        self.toks = []
        pos = 0
        text = text.strip()
        while pos < len(text):
            m = TOKEN.match(text, pos)
            if not m:
                if text[pos:].strip() == "":
                    break
                raise CParseError("%s: cannot tokenise at %r" % (name, text[pos:pos + 40]))
            self.toks.append(m.group(1))
            pos = m.end()
        self.i = 0

    # ---- token helpers ----
    def peek(self, k=0):
        return self.toks[self.i + k] if self.i + k < len(self.toks) else None

    def eat(self, t=None):
        tok = self.peek()
        if tok is None or (t is not None and tok != t):
            raise CParseError("%s: expected %r, found %r (near %s)" % (self.name, t, tok, " ".join(self.toks[max(0, self.i - 6):self.i + 4])))
        self.i += 1
        return tok

    def at_end(self):
        return self.i >= len(self.toks)

    # ---- expressions (precedence climbing) ----
    BIN = [["||"], ["&&"], ["|"], ["^"], ["&"], ["==", "!="], ["<", ">", "<=", ">="], ["<<", ">>"], ["+", "-"], ["*", "/", "%"]]

    def expr(self):
        e = self.assign()
        while self.peek() == ",":          # comma operator (for-steps)
            self.eat()
            e = ("bin", ",", e, self.assign())
        return e

    def assign(self):
        l = self.cond()
        if self.peek() in ("=", "+=", "-=", "*=", "/=", "|=", "&=", "^=", "<<=", ">>="):
            op = self.eat()
            return ("assign", op, l, self.assign())
        return l

    def cond(self):
        c = self.binary(0)
        if self.peek() == "?":
            self.eat()
            a = self.expr()
            self.eat(":")
            return ("cond", c, a, self.cond())
        return c

    def binary(self, lvl):
        if lvl == len(self.BIN):
            return self.unary()
        l = self.binary(lvl + 1)
        while self.peek() in self.BIN[lvl]:
            op = self.eat()
            l = ("bin", op, l, self.binary(lvl + 1))
        return l

    def looks_like_cast(self):
        if self.peek() != "(":
            return False
        j = self.i + 1
        if j >= len(self.toks) or not is_type_name(self.toks[j]):
            return False
        while j < len(self.toks) and (is_type_name(self.toks[j]) or self.toks[j] == "*" or re.fullmatch(r"[A-Za-z_]\w*", self.toks[j]) and self.toks[j - 1] == "struct"):
            j += 1
        return j < len(self.toks) and self.toks[j] == ")"

    def unary(self):
        t = self.peek()
        if t in ("!", "-", "~", "+"):
            self.eat()
            return ("un", t, self.unary())
        if t == "&":
            self.eat()
            return ("addr", self.unary())
        if t == "*":
            self.eat()
            return ("deref", self.unary())
        if t in ("++", "--"):
            self.eat()
            return ("assign", "+=" if t == "++" else "-=", self.unary(), ("num", 1))
        if t == "sizeof":
            self.eat()
            self.eat("(")
            depth, inner = 1, []
            while depth:
                x = self.eat()
                depth += x == "("
                depth -= x == ")"
                if depth:
                    inner.append(x)
            return ("sizeof", " ".join(inner))
        if self.looks_like_cast():
            self.eat("(")
            ty = []
            while self.peek() != ")":
                ty.append(self.eat())
            self.eat(")")
            return ("cast", " ".join(ty), self.unary())
        return self.postfix()

    def postfix(self):
        t = self.eat()
        if t == "(":
            e = self.expr()
            self.eat(")")
        elif re.fullmatch(r"0[xX][0-9a-fA-F]+[uUlL]*|\d+[uUlL]*", t):
            e = ("num", int(re.sub(r"[uUlL]+$", "", t), 0))
        elif t.startswith('"'):
            s = t[1:-1]
            while self.peek() and self.peek().startswith('"'):      # adjacent literals
                s += self.eat()[1:-1]
            e = ("str", s)
        elif t.startswith("'"):
            body = t[1:-1]
            esc = {"\\0": 0, "\\n": 10, "\\t": 9, "\\r": 13, "\\\\": 92, "\\'": 39, '\\"': 34}
            e = ("chr", esc[body] if body in esc else ord(body))
        elif re.fullmatch(r"[A-Za-z_]\w*", t):
            if self.peek() == "(":
                self.eat("(")
                args = []
                while self.peek() != ")":
                    args.append(self.assign())
                    if self.peek() == ",":
                        self.eat()
                self.eat(")")
                e = ("call", t, args)
            else:
                e = ("id", t)
        else:
            raise CParseError("%s: unexpected %r in expression" % (self.name, t))
        while True:
            p = self.peek()
            if p in ("->", "."):
                self.eat()
                e = ("mem", e, self.eat())
            elif p == "[":
                self.eat()
                i = self.expr()
                self.eat("]")
                e = ("idx", e, i)
            elif p == "++":
                self.eat()
                e = ("postinc", e)
            elif p == "--":
                self.eat()
                e = ("postdec", e)
            elif p == "(" and e[0] == "mem":              # call through a function pointer member: jwt_ops->f(...)
                self.eat("(")
                args = []
                while self.peek() != ")":
                    args.append(self.assign())
                    if self.peek() == ",":
                        self.eat()
                self.eat(")")
                e = ("callp", e, args)
            else:
                return e

    # ---- statements ----
    def is_decl_start(self):
        t = self.peek()
        if t is None or not re.fullmatch(r"[A-Za-z_]\w*", t):
            return False
        if t in ("return", "if", "for", "while", "switch", "break", "continue", "goto", "do", "else", "case", "default", "sizeof"):
            return False
        if is_type_name(t):
            return True
        return False

    def decl(self):
        ty = []
        while is_type_name(self.peek()) or (ty and ty[-1] == "struct"):
            ty.append(self.eat())
        items = []
        while True:
            stars = 0
            while self.peek() == "*":
                self.eat()
                stars += 1
            while self.peek() == "const":
                self.eat()
            name = self.eat()
            if not re.fullmatch(r"[A-Za-z_]\w*", name):
                raise CParseError("%s: declarator %r" % (self.name, name))
            arr = None
            if self.peek() == "[":
                self.eat()
                arr = self.expr() if self.peek() != "]" else ("num", 0)
                self.eat("]")
            init = None
            if self.peek() == "=":
                self.eat()
                if self.peek() == "{":          # aggregate initialiser: kept as text
                    depth, inner = 0, []
                    while True:
                        x = self.eat()
                        depth += x == "{"
                        depth -= x == "}"
                        inner.append(x)
                        if depth == 0:
                            break
                    init = ("aggr", " ".join(inner))
                else:
                    init = self.assign()
            items.append((name, stars, arr, init))
            if self.peek() == ",":
                self.eat()
                continue
            break
        self.eat(";")
        return ("decl", " ".join(ty), items)

    def stmt(self):
        t = self.peek()
        if t == "{":
            self.eat()
            body = []
            while self.peek() != "}":
                body.append(self.stmt())
            self.eat("}")
            return ("block", body)
        if t == ";":
            self.eat()
            return ("empty",)
        if t == "if":
            self.eat()
            self.eat("(")
            c = self.expr()
            self.eat(")")
            th = self.stmt()
            el = None
            if self.peek() == "else":
                self.eat()
                el = self.stmt()
            return ("if", c, th, el)
        if t == "return":
            self.eat()
            e = None if self.peek() == ";" else self.expr()
            self.eat(";")
            return ("return", e)
        if t in ("break", "continue"):
            self.eat()
            self.eat(";")
            return (t,)
        if t == "for":
            self.eat()
            self.eat("(")
            init = None
            if self.peek() != ";":
                init = self.decl() if self.is_decl_start() else ("expr", self.expr())
                if init[0] == "expr":
                    self.eat(";")
            else:
                self.eat(";")
            cond = None if self.peek() == ";" else self.expr()
            self.eat(";")
            step = None if self.peek() == ")" else self.expr()
            self.eat(")")
            return ("for", init, cond, step, self.stmt())
        if t == "while":
            self.eat()
            self.eat("(")
            c = self.expr()
            self.eat(")")
            return ("while", c, self.stmt())
        if t == "switch":
            self.eat()
            self.eat("(")
            e = self.expr()
            self.eat(")")
            self.eat("{")
            arms, labels, body = [], [], []
            while self.peek() != "}":
                if self.peek() in ("case", "default"):
                    if body:
                        arms.append((labels, body))
                        labels, body = [], []
                    if self.eat() == "case":
                        labels.append(self.cond())
                    else:
                        labels.append("default")
                    self.eat(":")
                else:
                    body.append(self.stmt())
            if labels or body:
                arms.append((labels, body))
            self.eat("}")
            return ("switch", e, arms)
        if t in LOOP_MACROS:
            self.eat()
            self.eat("(")
            args = []
            while self.peek() != ")":
                args.append(self.assign())
                if self.peek() == ",":
                    self.eat()
            self.eat(")")
            return ("loopmacro", t, args, self.stmt())
        if t in ("goto", "do"):
            raise CParseError("%s: `%s` is outside the translated subset" % (self.name, t))
        if self.is_decl_start() and (self.peek(1) == "*" or re.fullmatch(r"[A-Za-z_]\w*", self.peek(1) or "")):
            return self.decl()
        e = self.expr()
        self.eat(";")
        return ("expr", e)

    def body(self):
        """the whole function body `{ ... }`"""
        s = self.stmt()
        if s[0] != "block" or not self.at_end():
            raise CParseError("%s: trailing text after the function body" % self.name)
        return s[1]


def parse_body(name, text):
    return Parser(name, text).body()


def show(e):
    """C-like text of an expression (for messages and for matching shapes)"""
    k = e[0]
    if k == "num":
        return str(e[1])
    if k == "str":
        return '"%s"' % e[1]
    if k == "chr":
        return "'\\x%02x'" % e[1]
    if k == "id":
        return e[1]
    if k == "un":
        return "%s%s" % (e[1], show(e[2]))
    if k == "bin":
        return "(%s %s %s)" % (show(e[2]), e[1], show(e[3]))
    if k == "call":
        return "%s(%s)" % (e[1], ", ".join(show(a) for a in e[2]))
    if k == "callp":
        return "%s(%s)" % (show(e[1]), ", ".join(show(a) for a in e[2]))
    if k == "mem":
        return "%s->%s" % (show(e[1]), e[2])
    if k == "idx":
        return "%s[%s]" % (show(e[1]), show(e[2]))
    if k == "addr":
        return "&" + show(e[1])
    if k == "deref":
        return "*" + show(e[1])
    if k == "postinc":
        return show(e[1]) + "++"
    if k == "postdec":
        return show(e[1]) + "--"
    if k == "assign":
        return "%s %s %s" % (show(e[2]), e[1], show(e[3]))
    if k == "cast":
        return "(%s)%s" % (e[1], show(e[2]))
    if k == "cond":
        return "(%s ? %s : %s)" % (show(e[1]), show(e[2]), show(e[3]))
    if k == "sizeof":
        return "sizeof(%s)" % e[1]
    return repr(e)
