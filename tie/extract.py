#!/usr/bin/env python3
"""Translator: /repo source  ->  lean/Jwt/Generated/*.lean

Deliberately narrow: it extracts *tables and constants* (where extraction is
robust against refactoring) and refuses -- raising ExtractError, which the
check reports as a broken tie -- rather than guessing when it cannot find what
it expects.  Control flow is modelled by hand and tied by the correspondence
harness instead.

Usage: extract.py REPO BUILD_DIR OUT_DIR   (BUILD_DIR provides jwt_export.h)
Writes OUT_DIR/*.lean only when the content changed (keeps lake incremental),
and prints a JSON summary (what was parsed, with hashes) on stdout.
"""
import hashlib
import json
import os
import re
import subprocess
import sys


class ExtractError(Exception):
    pass


def cpp(repo, build, path, extra=()):
    cmd = ["gcc", "-E", "-P", "-DHAVE_OPENSSL", "-DHAVE_GNUTLS",
           "-I", os.path.join(repo, "include"), "-I", os.path.join(repo, "libjwt"),
           "-I", build, *extra, os.path.join(repo, path)]
    r = subprocess.run(cmd, capture_output=True, text=True)
    if r.returncode != 0:
        raise ExtractError("cpp failed on %s: %s" % (path, r.stderr[-400:]))
    return r.stdout


def cpp_macros(repo, build, path, extra=()):
    out = cpp(repo, build, path, ("-dM",) + tuple(extra))
    macros = {}
    for line in out.splitlines():
        m = re.match(r"#define\s+(\w+)(\([^)]*\))?\s*(.*)$", line)
        if m:
            macros[m.group(1)] = (m.group(2), m.group(3).strip())
    return macros


_ESC = {"n": 10, "t": 9, "r": 13, "0": 0, "\\": 92, "'": 39, '"': 34, "a": 7, "b": 8, "f": 12, "v": 11}


def c_int(tok):
    tok = tok.strip()
    m = re.fullmatch(r"'(\\?.)'", tok)
    if m:
        s = m.group(1)
        if s.startswith("\\"):
            if s[1] not in _ESC:
                raise ExtractError("unknown escape %r" % tok)
            return _ESC[s[1]]
        return ord(s)
    m = re.fullmatch(r"\(?\s*(-?\s*(?:0[xX][0-9a-fA-F]+|\d+))\s*[uUlL]*\s*\)?", tok)
    if m:
        return int(m.group(1).replace(" ", ""), 0)
    raise ExtractError("cannot evaluate C constant %r" % tok)


def split_top(s):
    """split a brace-initialiser body on top-level commas, respecting char literals"""
    out, cur, i = [], "", 0
    while i < len(s):
        ch = s[i]
        if ch == "'":
            j = i + 1
            if s[j] == "\\":
                j += 1
            j += 1
            if s[j] != "'":
                raise ExtractError("bad char literal near %r" % s[i:i + 6])
            cur += s[i:j + 1]
            i = j + 1
            continue
        if ch == ",":
            out.append(cur)
            cur = ""
        else:
            cur += ch
        i += 1
    if cur.strip():
        out.append(cur)
    return [x.strip() for x in out if x.strip()]


def array_init(src, name):
    m = re.search(r"\b%s\s*\[\s*\]\s*=\s*\{(.*?)\}\s*;" % re.escape(name), src, re.S)
    if not m:
        raise ExtractError("array %s not found" % name)
    return [c_int(t) for t in split_top(m.group(1))]


def c_expr_to_lean(expr, var):
    """translate a C arithmetic macro body over one parameter into a Lean Nat expression"""
    e = expr
    e = re.sub(r"\(\s*(unsigned\s+int|unsigned|int|size_t)\s*\)", "", e)
    e = re.sub(r"\(\s*%s\s*\)" % re.escape(var), var, e)
    if not re.fullmatch(r"[\s\d%s()+*/-]*" % re.escape(var), e):
        raise ExtractError("macro body outside the translatable fragment: %r" % expr)
    if "-" in e:
        raise ExtractError("subtraction in size macro needs manual review: %r" % expr)
    return e.strip()


def lean_list(vals, per=16):
    lines = []
    for i in range(0, len(vals), per):
        lines.append("  " + ", ".join(str(v) for v in vals[i:i + per]))
    return "[\n" + ",\n".join(lines) + "]"


def lean_str(s):
    return '"' + s.replace("\\", "\\\\").replace('"', '\\"') + '"'


def func_body(src, header_re):
    m = re.search(header_re, src)
    if not m:
        raise ExtractError("function %s not found" % header_re)
    i = src.index("{", m.end() - 1)
    depth, j = 0, i
    while j < len(src):
        if src[j] == "{":
            depth += 1
        elif src[j] == "}":
            depth -= 1
            if depth == 0:
                return src[i:j + 1]
        j += 1
    raise ExtractError("unbalanced braces after %s" % header_re)


def enum_values(src, typename):
    m = re.search(r"typedef\s+enum\s*\{([^}]*)\}\s*%s\s*;" % re.escape(typename), src, re.S)
    if not m:
        raise ExtractError("enum %s not found" % typename)
    vals, nxt = [], 0
    for item in m.group(1).split(","):
        item = item.strip()
        if not item:
            continue
        if "=" in item:
            n, v = item.split("=")
            nxt = c_int(v)
            n = n.strip()
        else:
            n = item
        vals.append((n, nxt))
        nxt += 1
    return vals


# ---------------------------------------------------------------------------

def gen_base64(repo, build):
    src = cpp(repo, build, "libjwt/base64.c")
    mac = cpp_macros(repo, build, "libjwt/base64.c")
    en = array_init(src, "base64en")
    de = array_init(src, "base64de")
    for k in ("BASE64_PAD", "BASE64DE_FIRST", "BASE64DE_LAST", "BASE64_ENCODE_OUT_SIZE", "BASE64_DECODE_OUT_SIZE"):
        if k not in mac:
            raise ExtractError("macro %s not found" % k)
    pad, first, last = (c_int(mac[k][1]) for k in ("BASE64_PAD", "BASE64DE_FIRST", "BASE64DE_LAST"))
    for v in en + de + [pad, first, last]:
        if not 0 <= v <= 255:
            raise ExtractError("table value %d outside a byte" % v)

    def macro_fn(name):
        params, body = mac[name]
        var = params.strip("()").strip()
        return c_expr_to_lean(body, var), var
    enc_e, enc_v = macro_fn("BASE64_ENCODE_OUT_SIZE")
    dec_e, dec_v = macro_fn("BASE64_DECODE_OUT_SIZE")
    text = f"""/- GENERATED by tie/extract.py from libjwt/base64.c and base64.h -- do not edit.
   Regenerated from /repo on every check run; theorems in Jwt/Lemmas/TableFacts.lean and
   Jwt/Props/C11.lean are stated over these definitions. -/
namespace Jwt.Generated

/-- `static const char base64en[]` -/
def base64en : List UInt8 := {lean_list(en)}

/-- `static const unsigned char base64de[]` -/
def base64de : List UInt8 := {lean_list(de)}

/-- `BASE64_PAD` -/
def pad : UInt8 := {pad}
/-- `BASE64DE_FIRST` -/
def deFirst : UInt8 := {first}
/-- `BASE64DE_LAST` -/
def deLast : UInt8 := {last}

/-- `BASE64_ENCODE_OUT_SIZE({enc_v})` = `{mac['BASE64_ENCODE_OUT_SIZE'][1]}` -/
def encodeOutSize ({enc_v} : Nat) : Nat := {enc_e}
/-- `BASE64_DECODE_OUT_SIZE({dec_v})` = `{mac['BASE64_DECODE_OUT_SIZE'][1]}` -/
def decodeOutSize ({dec_v} : Nat) : Nat := {dec_e}

end Jwt.Generated
"""
    info = {"base64en_len": len(en), "base64de_len": len(de), "pad": pad, "deFirst": first, "deLast": last,
            "encodeOutSize": enc_e, "decodeOutSize": dec_e}
    return "Base64Tables.lean", text, info


ALG_LEAN = {  # C enumerator -> Lean constructor of Jwt.Alg (hand-written in Jwt/Alg.lean)
    "JWT_ALG_NONE": "none", "JWT_ALG_HS256": "hs256", "JWT_ALG_HS384": "hs384", "JWT_ALG_HS512": "hs512",
    "JWT_ALG_RS256": "rs256", "JWT_ALG_RS384": "rs384", "JWT_ALG_RS512": "rs512",
    "JWT_ALG_ES256": "es256", "JWT_ALG_ES384": "es384", "JWT_ALG_ES512": "es512",
    "JWT_ALG_PS256": "ps256", "JWT_ALG_PS384": "ps384", "JWT_ALG_PS512": "ps512",
    "JWT_ALG_ES256K": "es256k", "JWT_ALG_EDDSA": "eddsa", "JWT_ALG_INVAL": "inval",
}


def gen_alg(repo, build):
    hdr = cpp(repo, build, "include/jwt.h")
    src = cpp(repo, build, "libjwt/jwt.c")
    enum = enum_values(hdr, "jwt_alg_t")
    for n, _ in enum:
        if n not in ALG_LEAN:
            raise ExtractError("unknown jwt_alg_t enumerator %s (model has no constructor for it)" % n)
    body = func_body(src, r"\bjwt_alg_str\s*\(\s*jwt_alg_t\s+\w+\s*\)\s*\{")
    alg_str = re.findall(r"case\s+(\w+)\s*:\s*return\s+\"([^\"]*)\"\s*;", body)
    if not alg_str:
        raise ExtractError("jwt_alg_str: no case/return pairs found")
    body2 = func_body(src, r"\bjwt_str_alg\s*\(\s*const\s+char\s*\*\s*\w+\s*\)\s*\{")
    str_alg = re.findall(r"if\s*\(\s*!\s*jwt_strcmp\s*\(\s*\w+\s*,\s*\"([^\"]*)\"\s*\)\s*\)\s*return\s+(\w+)\s*;", body2)
    if not str_alg:
        raise ExtractError("jwt_str_alg: no compare/return chain found")
    n_returns = len(re.findall(r"\breturn\b", body2))
    # chain entries + NULL guard + final INVAL
    if n_returns != len(str_alg) + 2:
        raise ExtractError("jwt_str_alg: %d return statements, expected %d (unrecognised shape)" % (n_returns, len(str_alg) + 2))
    if not re.search(r"return\s+JWT_ALG_INVAL\s*;\s*\}\s*$", body2):
        raise ExtractError("jwt_str_alg: does not end in return JWT_ALG_INVAL")
    if "strcasecmp" in body2 or "strncmp" in body2 or "strncasecmp" in body2:
        raise ExtractError("jwt_str_alg: uses a comparison the model does not describe")

    def pairs(lst, flip=False):
        out = []
        for a, b in lst:
            c, s = (b, a) if flip else (a, b)
            if c not in ALG_LEAN:
                raise ExtractError("unknown enumerator %s" % c)
            out.append("(.%s, [%s]) /- %s -/" % (ALG_LEAN[c], ", ".join(str(b) for b in s.encode()), lean_str(s)))
        return "[" + ",\n  ".join(out) + "]"
    text = f"""/- GENERATED by tie/extract.py from include/jwt.h and libjwt/jwt.c -- do not edit. -/
import Jwt.AlgType
namespace Jwt.Generated
open Jwt

/-- `jwt_alg_t` enumerators with their ordinals -/
def algOrd : List (Alg × Nat) := [{", ".join("(.%s, %d)" % (ALG_LEAN[n], v) for n, v in enum)}]

/-- `jwt_alg_str`: `case X: return "s";` pairs, in source order (anything else returns NULL) -/
def algStrTable : List (Alg × List UInt8) := {pairs(alg_str)}

/-- `jwt_str_alg`: the `!jwt_strcmp(alg, "s")` chain, in source order (falls through to INVAL) -/
def strAlgTable : List (Alg × List UInt8) := {pairs(str_alg, flip=True)}

end Jwt.Generated
"""
    info = {"algOrd": enum, "algStr": alg_str, "strAlg": str_alg}
    return "AlgTables.lean", text, info


def gen_common(repo, build):
    hdr = cpp(repo, build, "include/jwt.h")
    claims = dict(enum_values(hdr, "jwt_claims_t"))
    for k in ("JWT_CLAIM_ISS", "JWT_CLAIM_SUB", "JWT_CLAIM_AUD", "JWT_CLAIM_EXP", "JWT_CLAIM_NBF", "JWT_CLAIM_IAT", "JWT_CLAIM_JTI"):
        if k not in claims:
            raise ExtractError("jwt_claims_t lacks %s" % k)
    out = {}
    for side, macro in (("builder", "JWT_BUILDER"), ("checker", "JWT_CHECKER")):
        mac = cpp_macros(repo, build, "libjwt/jwt-common.c", ("-D" + macro, "-include", "stdlib.h", "-include", "string.h",
                                                             "-include", "jwt.h", "-include", "jwt-private.h"))
        for k in ("CLAIMS_DEF", "__DISABLE"):
            if k not in mac:
                raise ExtractError("%s not defined for %s" % (k, side))
        expr = mac["CLAIMS_DEF"][1]
        toks = [t.strip() for t in expr.strip("() ").split("|")]
        val = 0
        for t in toks:
            if t not in claims:
                raise ExtractError("CLAIMS_DEF term %r is not a jwt_claims_t enumerator" % t)
            val |= claims[t]
        out[side] = (val, c_int(mac["__DISABLE"][1]), expr)
    # __get_name: which claim types the checker maps to which member names
    src = cpp(repo, build, "libjwt/jwt-common.c", ("-DJWT_CHECKER", "-include", "stdlib.h", "-include", "string.h",
                                                    "-include", "jwt.h", "-include", "jwt-private.h"))
    body = func_body(src, r"\b__get_name\s*\(\s*jwt_claims_t\s+\w+\s*\)\s*\{")
    names = re.findall(r"type\s*==\s*(\w+)\s*\)\s*return\s+\"([^\"]*)\"", body)
    if not names:
        raise ExtractError("__get_name: no type/name pairs found")
    for c, _ in names:
        if c not in claims:
            raise ExtractError("__get_name: unknown claim %s" % c)
    text = f"""/- GENERATED by tie/extract.py from include/jwt.h and libjwt/jwt-common.c -- do not edit. -/
namespace Jwt.Generated

/-- `jwt_claims_t` bit values -/
def claimIss : Nat := {claims['JWT_CLAIM_ISS']}
def claimSub : Nat := {claims['JWT_CLAIM_SUB']}
def claimAud : Nat := {claims['JWT_CLAIM_AUD']}
def claimExp : Nat := {claims['JWT_CLAIM_EXP']}
def claimNbf : Nat := {claims['JWT_CLAIM_NBF']}
def claimIat : Nat := {claims['JWT_CLAIM_IAT']}
def claimJti : Nat := {claims['JWT_CLAIM_JTI']}

/-- checker: `CLAIMS_DEF` = `{out['checker'][2]}`, `__DISABLE` = {out['checker'][1]} -/
def checkerClaimsDef : Nat := {out['checker'][0]}
def checkerDisable : Int := {out['checker'][1]}
/-- builder: `CLAIMS_DEF` = `{out['builder'][2]}`, `__DISABLE` = {out['builder'][1]} -/
def builderClaimsDef : Nat := {out['builder'][0]}
def builderDisable : Int := {out['builder'][1]}

/-- `__get_name`: claim bit ↦ member name, in source order -/
def checkerClaimNames : List (Nat × List UInt8) := [{", ".join("(%d, [%s]) /- %s -/" % (claims[c], ", ".join(str(b) for b in n.encode()), n) for c, n in names)}]

end Jwt.Generated
"""
    info = {"claims": claims, "checker": out["checker"], "builder": out["builder"], "get_name": names}
    return "CommonDefs.lean", text, info


def gen_jwk(repo, build):
    hdr = cpp(repo, build, "include/jwt.h")
    src = cpp(repo, build, "libjwt/jwks.c")
    ops = dict(enum_values(hdr, "jwk_key_op_t"))
    kty = dict(enum_values(hdr, "jwk_key_type_t"))
    use = dict(enum_values(hdr, "jwk_pub_key_use_t"))
    body = func_body(src, r"\bjwk_key_op_j\s*\(\s*json_t\s*\*\s*\w+\s*\)\s*\{")
    chain = re.findall(r"!\s*jwt_strcmp\s*\(\s*\w+\s*,\s*\"([^\"]*)\"\s*\)\s*\)\s*return\s+(\w+)\s*;", body)
    if not chain:
        raise ExtractError("jwk_key_op_j: no compare/return chain")
    for _, c in chain:
        if c not in ops:
            raise ExtractError("jwk_key_op_j: unknown enumerator " + c)
    body1 = func_body(src, r"\bjwk_process_one\s*\(")
    ktys = re.findall(r"!\s*jwt_strcmp\s*\(\s*kty\s*,\s*\"([^\"]*)\"\s*\)\s*\)\s*\{\s*item->kty\s*=\s*(\w+)\s*;", body1)
    if len(ktys) < 1:
        raise ExtractError("jwk_process_one: kty chain not found")
    body2 = func_body(src, r"\bjwk_process_values\s*\(")
    uses = re.findall(r"!\s*jwt_strcmp\s*\(\s*use\s*,\s*\"([^\"]*)\"\s*\)\s*\)\s*item->use\s*=\s*(\w+)\s*;", body2)
    if not uses:
        raise ExtractError("jwk_process_values: use chain not found")

    # which JWK member ends up in which provider parameter (openssl/jwk-parse.c, preprocessed so that the
    # OSSL_PKEY_PARAM_* macros are the strings the library sees)
    psrc = cpp(repo, build, "libjwt/openssl/jwk-parse.c")
    psrc = re.sub(r'"\s+"', "", psrc)          # adjacent string literals ("rsa-factor" "1")
    pmaps = {}
    for fn in ("openssl_process_rsa", "openssl_process_ec", "openssl_process_eddsa"):
        fb = func_body(psrc, r"\b%s\s*\([^)]*\)\s*\{" % fn)
        var_member = dict(re.findall(r"(\w+)\s*=\s*json_object_get\s*\(\s*jwk\s*,\s*\"([^\"]*)\"\s*\)", fb))
        pairs = []
        for par, var in re.findall(r"set_one_(?:bn|octet)\s*\(\s*build\s*,\s*\"([^\"]*)\"\s*,\s*(\w+)\s*\)", fb):
            if var not in var_member:
                raise ExtractError("%s: parameter %s is filled from %s, which is not a JWK member read in this function" % (fn, par, var))
            pairs.append((var_member[var], par))
        m_ = re.search(r"set_ec_pub_key\s*\(\s*build\s*,\s*(\w+)\s*,\s*(\w+)\s*,", fb)
        if m_:
            for pos, var in zip(("pub.x", "pub.y"), m_.groups()):
                if var not in var_member:
                    raise ExtractError("%s: set_ec_pub_key argument %s is not a JWK member" % (fn, var))
                pairs.append((var_member[var], pos))
        if len(pairs) < 2:
            raise ExtractError("%s: member/parameter pairs not found" % fn)
        pmaps[fn] = pairs
    eb = func_body(psrc, r"\bset_ec_pub_key\s*\([^)]*\)\s*\{")
    m_ = re.search(r"set_ec_pub_key\s*\(\s*OSSL_PARAM_BLD\s*\*\s*\w+\s*,\s*json_t\s*\*\s*(\w+)\s*,\s*json_t\s*\*\s*(\w+)", psrc)
    m2_ = re.search(r"EC_POINT_set_affine_coordinates\s*\(\s*\w+\s*,\s*\w+\s*,\s*(\w+)\s*,\s*(\w+)\s*,", eb)
    bn_of = dict((b, j) for b, j in re.findall(r"(\w+)\s*=\s*BN_bin2bn\s*\(\s*bin_(\w+)\s*,", eb))
    str_of = dict((b, j) for b, j in re.findall(r"str_(\w+)\s*=\s*json_string_value\s*\(\s*(\w+)\s*\)", eb))
    if not (m_ and m2_) or m2_.group(1) not in bn_of or m2_.group(2) not in bn_of:
        raise ExtractError("set_ec_pub_key: coordinate flow not in the recognised shape")
    # argument position -> affine coordinate position
    flow = []
    for coord, bnv in zip(("X", "Y"), m2_.groups()):
        suffix = bn_of[bnv]                 # x / y of bin_x / bin_y
        jarg = str_of.get(suffix)
        if jarg not in m_.groups():
            raise ExtractError("set_ec_pub_key: cannot trace coordinate %s to an argument" % coord)
        flow.append((m_.groups().index(jarg), coord))

    def bl(s_):
        return "[%s]" % ", ".join(str(b) for b in s_.encode())

    def pm(pairs):
        return "[" + ", ".join('("%s", "%s")' % pr for pr in pairs) + "]"
    text = f"""/- GENERATED by tie/extract.py from include/jwt.h and libjwt/jwks.c -- do not edit. -/
namespace Jwt.Generated

/-- `jwk_key_op_j`: the `!jwt_strcmp(op, "…")` chain with the `jwk_key_op_t` bit it returns -/
def keyOpTable : List (List UInt8 × Nat) := [{", ".join("(%s, %d) /- %s -/" % (bl(n), ops[c], n) for n, c in chain)}]

/-- `jwk_process_one`: kty string ↦ `jwk_key_type_t` ordinal, in source order -/
def ktyTable : List (List UInt8 × Nat) := [{", ".join("(%s, %d) /- %s -/" % (bl(n), kty[c], n) for n, c in ktys)}]

/-- `jwk_process_values`: use string ↦ `jwk_pub_key_use_t` ordinal -/
def useTable : List (List UInt8 × Nat) := [{", ".join("(%s, %d) /- %s -/" % (bl(n), use[c], n) for n, c in uses)}]

/-- openssl/jwk-parse.c: (JWK member, provider parameter it fills) per key type; `pub.x`/`pub.y` = first/second
coordinate argument of `set_ec_pub_key` -/
def rsaParamMap : List (String × String) := {pm(pmaps["openssl_process_rsa"])}
def ecParamMap : List (String × String) := {pm(pmaps["openssl_process_ec"])}
def okpParamMap : List (String × String) := {pm(pmaps["openssl_process_eddsa"])}

/-- `set_ec_pub_key`: which argument (0 = first JSON value) reaches which affine coordinate -/
def ecCoordFlow : List (Nat × String) := [{", ".join('(%d, "%s")' % f for f in flow)}]

end Jwt.Generated
"""
    return "JwkTables.lean", text, {"key_ops": chain, "kty": ktys, "use": uses, "param_maps": pmaps, "ec_coord_flow": flow}


def gen_ops(repo, build):
    hdr = cpp(repo, build, "include/jwt.h")
    prov = dict(enum_values(hdr, "jwt_crypto_provider_t"))
    src = cpp(repo, build, "libjwt/jwt-crypto-ops.c")
    m = re.search(r"jwt_ops_available\s*\[\s*\]\s*=\s*\{(.*?)\}\s*;", src, re.S)
    if not m:
        raise ExtractError("jwt_ops_available not found")
    entries = [e.strip() for e in m.group(1).split(",") if e.strip()]
    if not entries or not re.fullmatch(r"\(\(void\s*\*\)\s*0\)|NULL|0", entries[-1]):
        raise ExtractError("jwt_ops_available does not end in NULL: %r" % entries[-1:])
    names = [e.lstrip("&").strip() for e in entries[:-1]]
    # the initial value of jwt_ops
    m0 = re.search(r"struct\s+jwt_crypto_ops\s*\*\s*jwt_ops\s*=\s*&\s*(\w+)\s*;", src)
    if not m0:
        raise ExtractError("initial jwt_ops not found")
    tables = []
    files = {"jwt_openssl_ops": "libjwt/openssl/sign-verify.c", "jwt_gnutls_ops": "libjwt/gnutls/sign-verify.c",
             "jwt_mbedtls_ops": "libjwt/mbedtls/sign-verify.c"}
    for n in names:
        if n not in files:
            raise ExtractError("unknown ops table " + n)
        fsrc = cpp(repo, build, files[n])
        mm = re.search(r"struct\s+jwt_crypto_ops\s+%s\s*=\s*\{(.*?)\}\s*;" % n, fsrc, re.S)
        if not mm:
            raise ExtractError("definition of %s not found" % n)
        fields = dict(re.findall(r"\.(\w+)\s*=\s*([^,]+?)\s*,", mm.group(1) + ","))
        for k in ("name", "provider", "process_rsa", "process_ec", "process_eddsa", "process_item_free"):
            if k not in fields:
                raise ExtractError("%s lacks .%s" % (n, k))
        pname = fields["name"].strip().strip('"')
        if fields["provider"] not in prov:
            raise ExtractError("%s: unknown provider enumerator %s" % (n, fields["provider"]))
        tables.append((n, pname, prov[fields["provider"]], [fields[k] for k in ("process_rsa", "process_ec", "process_eddsa", "process_item_free")]))
    init_idx = names.index(m0.group(1))
    # how the name is compared / how init falls back
    sbody = func_body(src, r"\bjwt_set_crypto_ops\s*\(\s*const\s+char\s*\*\s*\w+\s*\)\s*\{")
    if "jwt_strcmp" not in sbody or "strcasecmp" in sbody or "strncmp" in sbody or "strstr" in sbody:
        raise ExtractError("jwt_set_crypto_ops no longer compares names with jwt_strcmp only")

    def bl(s_):
        return "[%s]" % ", ".join(str(b) for b in s_.encode())
    text = f"""/- GENERATED by tie/extract.py from libjwt/jwt-crypto-ops.c and the providers' ops tables -- do not edit. -/
namespace Jwt.Generated

/-- `jwt_ops_available[]` (before the terminating NULL) in order: (`.name`, `.provider`) -/
def providers : List (List UInt8 × Nat) := [{", ".join("(%s, %d) /- %s -/" % (bl(t[1]), t[2], t[1]) for t in tables)}]

/-- index into `providers` of the initial value of `jwt_ops` -/
def providerInit : Nat := {init_idx}

/-- per provider: the functions its ops table uses to parse RSA / EC / OKP JWKs and to free items -/
def providerJwkParsers : List (List String) := [{", ".join("[" + ", ".join('"%s"' % f for f in t[3]) + "]" for t in tables)}]

/-- `jwt_crypto_provider_t` enumerators -/
def providerEnum : List (String × Nat) := [{", ".join('("%s", %d)' % kv for kv in prov.items())}]

end Jwt.Generated
"""
    return "OpsTables.lean", text, {"providers": [(t[1], t[2]) for t in tables], "init": init_idx, "parsers": [t[3] for t in tables]}


def gen_cli(repo, build):
    tools = {}
    for tool in ("jwt-verify", "jwt-generate", "key2jwk", "jwk2key"):
        raw = open(os.path.join(repo, "tools", tool + ".c")).read()
        m = re.search(r'optstr\s*=\s*"([^"]*)"', raw)
        if not m:
            raise ExtractError("%s: optstr not found" % tool)
        optstr = m.group(1)
        longs = re.findall(r'\{\s*"([\w-]+)"\s*,\s*(no_argument|required_argument|optional_argument)\s*,\s*NULL\s*,\s*\'(.)\'\s*\}', raw)
        if not longs:
            raise ExtractError("%s: long option table not found" % tool)
        usage = re.findall(r'^\s*-(\w), --([\w-]+)(=[\w:=<>.]+)?\s', raw, re.M)
        if not usage:
            raise ExtractError("%s: usage option lines not found" % tool)
        tools[tool] = (optstr, longs, usage)
    # how jwt-verify turns the number of failed tokens into its exit argument
    raw = open(os.path.join(repo, "tools", "jwt-verify.c")).read()
    body = func_body(raw, r"\bint\s+main\s*\(")
    exits = re.findall(r"exit\s*\(([^;]*)\)\s*;", body)
    last = exits[-1].strip() if exits else ""
    forms = [
        (r"err", "err"),
        (r"err\s*>\s*(\d+)\s*\?\s*(\d+)\s*:\s*err", None),
        (r"err\s*\?\s*(EXIT_FAILURE|1)\s*:\s*(EXIT_SUCCESS|0)", "if err ≠ 0 then 1 else 0"),
        (r"!!\s*err|err\s*!=\s*0", "if err ≠ 0 then 1 else 0"),
    ]
    lean_exit = None
    for rx, lean in forms:
        mm = re.fullmatch(rx, last)
        if mm:
            lean_exit = lean if lean is not None else "if err > %s then %s else err" % (mm.group(1), mm.group(2))
            break
    if lean_exit is None:
        raise ExtractError("jwt-verify main: final exit(%s) is not one of the forms the translator knows" % last)
    if not re.search(r"err\s*\+=\s*process_one", body):
        raise ExtractError("jwt-verify main: `err += process_one(...)` accumulation not found")
    # which EC members key2jwk exports with a fixed width
    raw = open(os.path.join(repo, "tools", "key2jwk.c")).read()
    body = func_body(raw, r"\bprocess_ec_key\s*\(")
    ec = []
    for name in ("x", "y", "d"):
        mm = re.search(r"(get_one_bn\w*)\s*\(([^;]*?)\"%s\"([^;]*?)\)\s*;" % name, body)
        if not mm:
            raise ExtractError("key2jwk process_ec_key: export of %s not found" % name)
        ec.append((name, mm.group(1) != "get_one_bn" and mm.group(3).strip().strip(",").strip() not in ("", "0")))
    padfn = func_body(raw, r"\bget_one_bn_pad\s*\(") if "get_one_bn_pad" in raw else ""
    uses_binpad = "BN_bn2binpad" in padfn

    def q(s_):
        return '"' + s_ + '"'
    rows = []
    for tool, (optstr, longs, usage) in tools.items():
        rows.append("  { tool := %s, optstr := %s,\n    longs := [%s],\n    usage := [%s] }" % (
            q(tool), q(optstr),
            ", ".join("(%s, %s, %s)" % (q(n), "true" if a == "required_argument" else "false", q(c)) for n, a, c in longs),
            ", ".join("(%s, %s, %s)" % (q(c), q(n), "true" if a else "false") for c, n, a in usage)))
    rows_text = ",\n".join(rows)
    text = f"""/- GENERATED by tie/extract.py from tools/*.c -- do not edit. -/
namespace Jwt.Generated

structure ToolOpts where
  tool : String
  optstr : String
  /-- long name, takes an argument, short letter -/
  longs : List (String × Bool × String)
  /-- usage text lines: short letter, long name, shows `=ARG` -/
  usage : List (String × String × Bool)

def toolOpts : List ToolOpts := [
{rows_text}]

/-- jwt-verify `main`: the argument of the final `exit(...)` as a function of `err`, the number of
tokens that failed (`err += process_one(...)`); source text: `exit({last})` -/
def verifyExitArg (err : Nat) : Nat := {lean_exit}

/-- key2jwk `process_ec_key`: member ↦ exported with the full coordinate width -/
def ecMembersFixedWidth : List (String × Bool) := [{", ".join("(%s, %s)" % (q(n), "true" if (f and uses_binpad) else "false") for n, f in ec)}]

end Jwt.Generated
"""
    return "CliTables.lean", text, {"exit": last, "ec": ec, "binpad": uses_binpad, "optstr": {t: v[0] for t, v in tools.items()}}


def enclosing_function(src, pos):
    """name of the function whose body contains offset pos (brace matching from the top level)"""
    depth, name, i = 0, None, 0
    last_header = None
    for m in re.finditer(r"[{}]|\b(\w+)\s*\([^;{}]*\)\s*(?=\{)", src[:pos]):
        t = m.group(0)
        if t == "{":
            if depth == 0:
                name = last_header
            depth += 1
        elif t == "}":
            depth -= 1
            if depth == 0:
                name = None
        elif depth == 0:
            last_header = m.group(1)
    return name if depth > 0 else None


def gen_conc(repo, build):
    lib = os.path.join(build, "libjwt.a")
    r = subprocess.run(["nm", "-A", "--defined-only", lib], capture_output=True, text=True)
    if r.returncode != 0:
        raise ExtractError("nm failed on libjwt.a: " + r.stderr[-200:])
    writable = []
    for line in r.stdout.splitlines():
        m = re.match(r"[^:]*:([^:]+):\s*[0-9a-f]*\s+([dDbBcC])\s+(\S+)$", line)
        if not m:
            continue
        obj, kind, sym = m.groups()
        if sym.startswith("__") or "asan" in sym or "tsan" in sym or "ubsan" in sym or sym.startswith(".L"):
            continue
        writable.append((os.path.basename(obj).replace(".c.o", ".c"), sym, kind))
    writable.sort()
    # who assigns the writable globals, and is anything written through an ops table or a cast-away const key?
    writers = {}
    casts = 0
    table_writes = 0
    srcs = []
    for root in ("libjwt", "libjwt/openssl", "libjwt/gnutls"):
        d = os.path.join(repo, root)
        for fn in sorted(os.listdir(d)):
            if fn.endswith(".c") or fn.endswith(".h") or fn.endswith(".i"):
                srcs.append(os.path.join(d, fn))
    names = sorted({w[1].split(".")[0] for w in writable})
    for path in srcs:
        raw = open(path).read()
        raw = re.sub(r"/\*.*?\*/", lambda m_: " " * len(m_.group(0)), raw, flags=re.S)
        raw = re.sub(r"//[^\n]*", lambda m_: " " * len(m_.group(0)), raw)
        casts += len(re.findall(r"\(\s*(?:struct\s+jwk_item|jwk_item_t)\s*\*\s*\)", raw))
        table_writes += len(re.findall(r"\bjwt_\w+_ops\s*\.\s*\w+\s*(?:=[^=]|\+\+|--|[-+|&]=)", raw))
        table_writes += len(re.findall(r"\bjwt_ops(?:_available\s*\[[^\]]*\])?\s*->\s*\w+\s*(?:=[^=]|\+\+|--|[-+|&]=)", raw))
        for n in names:
            for m in re.finditer(r"(?<![\w.>])%s\s*(?:=[^=]|\+\+|--|[-+|&]=)" % re.escape(n), raw):
                fn = enclosing_function(raw, m.start())
                if fn is not None:
                    writers.setdefault(n, set()).add(fn)
    # the library itself never reconfigures the process: calls to the switch functions from inside library code
    reconf = []
    for path in srcs:
        if not path.endswith(".c"):
            continue
        raw = open(path).read()
        raw = re.sub(r"/\*.*?\*/", lambda m_: " " * len(m_.group(0)), raw, flags=re.S)
        raw = re.sub(r"//[^\n]*", lambda m_: " " * len(m_.group(0)), raw)
        for m in re.finditer(r"\b(jwt_set_crypto_ops_t|jwt_set_crypto_ops|jwt_set_alloc|jwt_init)\s*\(", raw):
            fn = enclosing_function(raw, m.start())
            if fn is not None and fn != m.group(1):
                reconf.append((m.group(1), fn))
    rc_txt = ", ".join('("%s", "%s")' % t for t in sorted(set(reconf)))
    # functions that return or fill a buffer shared by the whole process
    nonre = []
    for path in srcs:
        if not path.endswith(".c"):
            continue
        raw = open(path).read()
        raw = re.sub(r"/\*.*?\*/", lambda m_: " " * len(m_.group(0)), raw, flags=re.S)
        raw = re.sub(r"//[^\n]*", lambda m_: " " * len(m_.group(0)), raw)
        for m in re.finditer(r"(?<![\w>.])(strtok|localtime|gmtime|asctime|ctime|strerror|rand|srand|setlocale|tmpnam|putenv|setenv|unsetenv|"
                             r"readdir|getpwnam|getpwuid|gethostbyname|inet_ntoa|ttyname|getlogin|ERR_error_string)\s*\(", raw):
            if m.group(1) == "ERR_error_string":
                # with a caller-supplied buffer the call is re-entrant; with NULL it formats into a static one
                args = raw[m.end():raw.index(")", m.end())]
                if not re.search(r",\s*NULL\s*$", args):
                    continue
            nonre.append((os.path.relpath(path, repo), m.group(1)))
    nr_txt = ", ".join('("%s", "%s")' % t for t in sorted(set(nonre)))
    # queries on a (shared) keyring must not write it: list mutations, stores through pointers, allocation
    jsrc = open(os.path.join(repo, "libjwt/jwks.c")).read()
    jsrc = re.sub(r"/\*.*?\*/", " ", jsrc, flags=re.S)
    jsrc = re.sub(r"//[^\n]*", " ", jsrc)
    queries = ["jwks_find_bykid", "jwks_item_get", "jwks_item_count", "jwks_error_any", "jwks_item_is_private", "jwks_item_error",
               "jwks_item_error_msg", "jwks_item_curve", "jwks_item_kid", "jwks_item_alg", "jwks_item_kty", "jwks_item_use",
               "jwks_item_key_ops", "jwks_item_pem", "jwks_item_key_oct", "jwks_item_key_bits", "jwks_error", "jwks_error_msg"]
    qwrites = []
    for q in queries:
        try:
            qb = func_body(jsrc, r"\b%s\s*\([^;{]*\)\s*\{" % q)
        except ExtractError:
            raise ExtractError("jwks.c: query function %s not found" % q)
        nw = len(re.findall(r"\b(?:list_add|list_add_tail|list_del|list_insert|list_join_nodes|list_splice\w*|INIT_LIST_HEAD|jwt_freemem|jwt_malloc|jwt_realloc|memset|memcpy|strcpy|snprintf)\s*\(", qb))
        nw += len(re.findall(r"(?:->|\.)\s*\w+(?:\s*\[[^\]]*\])?\s*(?:=[^=]|\+\+|--|[-+|&^]=)", qb))
        nw += len(re.findall(r"(?:\+\+|--)\s*\w+\s*(?:->|\.)", qb))
        qwrites.append((q, nw))
    qw = ", ".join('("%s", %d)' % t for t in qwrites)
    rows = ", ".join('("%s", "%s", "%s")' % w for w in writable)
    wr = ", ".join('("%s", [%s])' % (n, ", ".join('"%s"' % f for f in sorted(fs))) for n, fs in sorted(writers.items()))
    text = f"""/- GENERATED by tie/extract.py from the symbol table of the freshly built libjwt.a (nm: writable data/bss,
including function-local statics) and from the library sources -- do not edit. -/
namespace Jwt.Generated

/-- every writable object with static storage duration in the library: (source file, symbol, nm class) -/
def mutableStatics : List (String × String × String) := [{rows}]

/-- functions that assign to one of them (by name, comments stripped) -/
def staticWriters : List (String × List String) := [{wr}]

/-- assignments through `jwt_ops->field` or to a field of a provider ops table -/
def opsTableWrites : Nat := {table_writes}

/-- casts to a non-const `jwk_item_t *` in the library sources (a way to write through the const key) -/
def keyConstCasts : Nat := {casts}

/-- jwks.c: per query function on a keyring or key item (lookups and getters, the calls verify/generate
callbacks make on a shared keyring), the number of list mutations, allocations/frees, buffer writes and
stores through a pointer or member in its body -/
def keyringQueryWrites : List (String × Nat) := [{qw}]

/-- calls to the process-wide switches (`jwt_set_crypto_ops(_t)`, `jwt_set_alloc`, `jwt_init`) from inside
library functions other than themselves: (callee, caller) -/
def internalReconfigCalls : List (String × String) := [{rc_txt}]

/-- calls, anywhere in the library sources, of C / OpenSSL / GnuTLS functions that return or fill a buffer shared by the whole
process (`strtok`, `localtime`, `gmtime`, `asctime`, `ctime`, `strerror`, `rand`, `getenv`-modifying calls, `setlocale`,
`tmpnam`, `ERR_error_string` with a NULL buffer, `gnutls_strerror_name`-style static tables are const and not listed):
(file, function) -/
def nonReentrantCalls : List (String × String) := [{nr_txt}]

end Jwt.Generated
"""
    return "ConcFacts.lean", text, {"statics": writable, "non_reentrant": nonre, "writers": {k: sorted(v) for k, v in writers.items()}, "table_writes": table_writes, "casts": casts,
                                    "query_writes": qwrites, "internal_reconfig_calls": sorted(set(reconf))}


def gen_ecframe(repo, build):
    """constants of the ECDSA r||s framing in both provider glues"""
    g = open(os.path.join(repo, "libjwt/gnutls/sign-verify.c")).read()
    o = open(os.path.join(repo, "libjwt/openssl/sign-verify.c")).read()
    # gnutls sign: `if (jwt->alg == A [|| jwt->alg == B]) adj = N;`
    adj = []
    for m in re.finditer(r"if\s*\(((?:\s*jwt->alg\s*==\s*JWT_ALG_\w+\s*(?:\|\|)?)+)\)\s*adj\s*=\s*(\d+)\s*;", g):
        for a in re.findall(r"JWT_ALG_\w+", m.group(1)):
            adj.append((a, int(m.group(2))))
    if len(adj) < 3 or len(set(a for a, _ in adj)) != len(adj):
        raise ExtractError("gnutls sign: expected `if (jwt->alg == ...) adj = N;` per ES algorithm, found %r" % adj)
    if len(re.findall(r"\badj\s*=", g)) != len(set(v for _, v in adj)):
        raise ExtractError("gnutls sign: an assignment to adj outside the recognised shape")
    m = re.search(r"out_size\s*=\s*adj\s*<<\s*1\s*;", g)
    if not m:
        raise ExtractError("gnutls sign: out_size = adj << 1 not found")
    # gnutls verify: width chosen from the algorithm, exact-length test, the two halves
    m = re.search(r"((?:(?:else\s+)?if\s*\(\s*jwt->alg\s*==\s*JWT_ALG_\w+\s*\)\s*r\.size\s*=\s*\d+\s*;\s*)+)else\s+r\.size\s*=\s*(\d+)\s*;", g)
    if not m:
        raise ExtractError("gnutls verify: `if (jwt->alg == A) r.size = N; ... else r.size = D;` not found")
    vw = [(a_, int(n_)) for a_, n_ in re.findall(r"jwt->alg\s*==\s*(JWT_ALG_\w+)\s*\)\s*r\.size\s*=\s*(\d+)", m.group(1))]
    vw_default = int(m.group(2))
    if len(re.findall(r"\br\.size\s*=", g)) != len(vw) + 1 or len(re.findall(r"\bs\.size\s*=", g)) != 1:
        raise ExtractError("gnutls verify: an assignment to r.size / s.size outside the recognised shape")
    m = re.search(r"if\s*\(\(unsigned int\)sig_len\s*!=\s*(\d+)\s*\*\s*r\.size\)\s*VERIFY_ERROR", g)
    if not m:
        raise ExtractError("gnutls verify: exact-length test `sig_len != N * r.size` not found")
    gv_mul = int(m.group(1))
    if not re.search(r"r\.data\s*=\s*sig\s*;\s*s\.size\s*=\s*r\.size\s*;\s*s\.data\s*=\s*sig\s*\+\s*r\.size\s*;", g):
        raise ExtractError("gnutls verify: halves `r.data = sig; s.size = r.size; s.data = sig + r.size;` not found")
    # openssl: bn_len expression at the sign and the verify site, the total length, the length test
    bn = re.findall(r"bn_len\s*=\s*([^;]+);", o)
    if len(bn) != 2:
        raise ExtractError("openssl: expected two assignments to bn_len, found %d" % len(bn))
    bn_l = []
    for e in bn:
        e2 = e.replace("jwt->key->bits", "bits")
        if not re.fullmatch(r"\(\s*bits\s*\+\s*\d+\s*\)\s*/\s*\d+", e2.strip()):
            raise ExtractError("openssl: bn_len expression outside the translatable fragment: %r" % e)
        bn_l.append(e2.strip())
    m = re.search(r"buf_len\s*=\s*(\d+)\s*\*\s*bn_len\s*;", o)
    if not m:
        raise ExtractError("openssl sign: buf_len = N * bn_len not found")
    buf_mul = int(m.group(1))
    m = re.search(r"if\s*\(\(bn_len\s*\*\s*(\d+)\)\s*!=\s*\(unsigned int\)slen\)", o)
    if not m:
        raise ExtractError("openssl verify: length test (bn_len * N) != slen not found")
    ver_mul = int(m.group(1))
    text = f"""/- GENERATED by tie/extract.py from libjwt/gnutls/sign-verify.c and libjwt/openssl/sign-verify.c -- do not edit.
   Regenerated from /repo on every check run; Jwt/EcFrame.lean and Jwt/Props/C05.lean are stated over these. -/
import Jwt.AlgType
namespace Jwt.Generated

/-- gnutls/sign-verify.c: `if (jwt->alg == …) adj = N;` -/
def gnutlsAdj : List (Alg × Nat) := [{", ".join("(.%s, %d)" % (ALG_LEAN[a], v) for a, v in adj)}]

/-- gnutls/sign-verify.c verify: `if (jwt->alg == …) r.size = N; … else r.size = D;` -/
def gnutlsVerifyWidth (a : Alg) : Nat :=
  {" ".join("if a = .%s then %d else" % (ALG_LEAN[a_], n_) for a_, n_ in vw)} {vw_default}

/-- `sig_len != N * r.size` -/
def gnutlsVerifyMul : Nat := {gv_mul}

/-- openssl/sign-verify.c `jwt_ec_d2i`: bn_len -/
def osslBnLenSign (bits : Nat) : Nat := {bn_l[0]}

/-- openssl/sign-verify.c verify: bn_len -/
def osslBnLenVerify (bits : Nat) : Nat := {bn_l[1]}

/-- `buf_len = N * bn_len` -/
def osslBufMul : Nat := {buf_mul}

/-- `(bn_len * N) != slen` -/
def osslVerifyMul : Nat := {ver_mul}

end Jwt.Generated
"""
    return "EcTables.lean", text, {"gnutlsAdj": adj, "gnutlsVerifyWidth": vw, "gnutlsVerifyDefault": vw_default, "gnutlsVerifyMul": gv_mul, "bn_len": bn_l, "buf_mul": buf_mul, "ver_mul": ver_mul}


def gen_ll(repo, build):
    """ll.h: the pointer operations of the intrusive list, translated statement by statement into heap
    transformers (Option = a dereference of an invalid pointer)"""
    src = open(os.path.join(repo, "libjwt/ll.h")).read()
    src = re.sub(r"/\*.*?\*/", "", src, flags=re.S)
    src = re.sub(r"//[^\n]*", "", src)
    fns = {}
    order = []
    for m in re.finditer(r"static\s+inline\s+void\s+(\w+)\s*\(([^)]*)\)\s*\{([^}]*)\}", src):
        name, params, body = m.group(1), m.group(2), m.group(3)
        ps = []
        for prm in params.split(","):
            pm = re.fullmatch(r"\s*(?:struct\s+ll_head|ll_t)\s*\*\s*(\w+)\s*", prm)
            if not pm:
                raise ExtractError("ll.h: parameter %r of %s outside the translatable fragment" % (prm, name))
            ps.append(pm.group(1))
        fns[name] = (ps, [st.strip() for st in body.split(";") if st.strip()])
        order.append(name)
    need = ["INIT_LIST_HEAD", "list_insert", "list_add", "list_add_tail", "list_join_nodes", "list_del"]
    for n_ in need:
        if n_ not in fns:
            raise ExtractError("ll.h: function %s not found" % n_)
    out = []
    info = {}
    for name in order:
        ps, stmts = fns[name]
        lines = []
        tmp = [0]

        def rd(e):
            """an rvalue: parameter, NULL, or P->field (a read through a pointer)"""
            e = e.strip()
            if e == "NULL":
                return "0"
            if re.fullmatch(r"\w+", e):
                if e not in ps:
                    raise ExtractError("ll.h %s: unknown identifier %r" % (name, e))
                return "a_" + e
            fm = re.fullmatch(r"(\w+)->(next|prev)", e)
            if fm and fm.group(1) in ps:
                t = "t%d" % tmp[0]
                tmp[0] += 1
                lines.append("  let %s ← h.get%s a_%s" % (t, fm.group(2).capitalize(), fm.group(1)))
                return t
            raise ExtractError("ll.h %s: expression %r outside the translatable fragment" % (name, e))
        for st in stmts:
            am = re.fullmatch(r"(\w+)->(next|prev)\s*=\s*(.+)", st)
            cm = re.fullmatch(r"(\w+)\s*\((.*)\)", st)
            if am and am.group(1) in ps:
                v = rd(am.group(3))
                lines.append("  let h ← h.set%s a_%s %s" % (am.group(2).capitalize(), am.group(1), v))
            elif cm and cm.group(1) in fns:
                args = [rd(a) for a in cm.group(2).split(",")]
                lines.append("  let h ← %s h %s" % (cm.group(1), " ".join(args)))
            else:
                raise ExtractError("ll.h %s: statement %r outside the translatable fragment" % (name, st))
        out.append("/-- ll.h `%s(%s)` -/\ndef %s (h : Heap) %s : Option Heap := do\n%s\n  pure h\n" % (
            name, ", ".join(ps), name, " ".join("(a_%s : Addr)" % p_ for p_ in ps), "\n".join(lines)))
        info[name] = stmts
    # the two iteration macros libjwt uses: only their shape is checked (the loops are modelled by hand)
    mac = {}
    raw = open(os.path.join(repo, "libjwt/ll.h")).read()
    for mname, want in (("list_for_each_entry", r"for\(pos=list_entry\(\(head\)->next,__typeof__\(\*pos\),member\);&pos->member!=\(head\);pos=list_entry\(pos->member\.next,__typeof__\(\*pos\),member\)\)"),
                        ("list_for_each_entry_safe", r"for\(pos=list_entry\(\(head\)->next,__typeof__\(\*pos\),member\),n=list_entry\(pos->member\.next,__typeof__\(\*pos\),member\);&pos->member!=\(head\);pos=n,n=list_entry\(n->member\.next,__typeof__\(\*n\),member\)\)")):
        mm = re.search(r"#define\s+%s\(([^)]*)\)((?:[^\n]*\\\n)*[^\n]*)" % mname, raw)
        if not mm:
            raise ExtractError("ll.h: macro %s not found" % mname)
        body = re.sub(r"[\s\\]+", "", mm.group(2))
        if not re.fullmatch(want, body):
            raise ExtractError("ll.h: macro %s no longer has the shape the hand-written loop models assume: %s" % (mname, body))
        mac[mname] = True
    text = f"""/- GENERATED by tie/extract.py from libjwt/ll.h -- do not edit.
   Each `static inline` list function translated statement by statement: `P->f = E` becomes a checked store,
   `P->f` on the right a checked load (Option.none = dereference of an invalid pointer), calls become calls.
   Regenerated from /repo on every check run; Jwt/Lemmas/Ll.lean proves the list invariant over these. -/
import Jwt.LlHeap
namespace Jwt.Ll

{chr(10).join(out)}
end Jwt.Ll
"""
    return "LlOps.lean", text, {"functions": info, "macros_checked": sorted(mac)}


def c_bits_to_lean(expr, ren):
    """a C expression over bytes built from >> << & | , hex/decimal literals, parentheses and the variables in `ren`"""
    e = expr.strip()
    if re.search(r"[+\-*/%^~!?:]", e):
        raise ExtractError("base64.c: expression %r outside the translatable fragment" % expr)
    toks = re.findall(r"0[xX][0-9a-fA-F]+|\d+|>>|<<|[&|()]|\w+", e)
    if "".join(toks) != re.sub(r"\s+", "", e):
        raise ExtractError("base64.c: cannot tokenise %r" % expr)
    out = []
    for t in toks:
        if t in (">>", "<<"):
            out.append(" " + t + t[0] + " ")
        elif t == "&":
            out.append(" &&& ")
        elif t == "|":
            out.append(" ||| ")
        elif t in "()":
            out.append(t)
        elif re.fullmatch(r"0[xX][0-9a-fA-F]+|\d+", t):
            out.append(t.replace("0X", "0x"))
        elif t in ren:
            out.append(ren[t])
        else:
            raise ExtractError("base64.c: unknown identifier %r in %r" % (t, expr))
    return "".join(out)


def gen_base64code(repo, build):
    """base64.c: the arms of the three `switch` statements, translated expression by expression"""
    src = open(os.path.join(repo, "libjwt/base64.c")).read()
    src = re.sub(r"/\*.*?\*/", " ", src, flags=re.S)
    src = re.sub(r"//[^\n]*", " ", src)
    enc = func_body(src, r"\bbase64_encode\s*\([^)]*\)\s*\{")
    dec = func_body(src, r"\bbase64_decode\s*\([^)]*\)\s*\{")
    flat = lambda t: re.sub(r"\s+", "", t)
    # the skeleton the hand-written loops assume
    for need, where, what in (("for(i=j=0;i<inlen;i++){c=in[i];switch(s){", enc, "encode loop head"), ("}l=c;}switch(s){", enc, "encode: l = c, trailing switch"),
                              ("}out[j]=0;returnj;}", enc, "encode: terminator and return"), ("s=0;l=0;", enc, "encode: initial state"),
                              ("if(inlen&0x3){return0;}", dec, "decode: length test"), ("for(i=j=0;i<inlen;i++){if(in[i]==BASE64_PAD){break;}", dec, "decode: loop head and pad break"),
                              ("if(in[i]<BASE64DE_FIRST||in[i]>BASE64DE_LAST){return0;}", dec, "decode: range test"),
                              ("c=base64de[(unsignedchar)in[i]];if(c==255){return0;}switch(i&0x3){", dec, "decode: table lookup"), ("}}returnj;}", dec, "decode: return")):
        if need not in flat(where):
            raise ExtractError("base64.c: %s no longer has the shape the hand-written loop models assume" % what)
    sw = [m.start() for m in re.finditer(r"switch\s*\(\s*s\s*\)", enc)]
    if len(sw) != 2:
        raise ExtractError("base64_encode: expected two switch (s) statements")
    loop_sw, tail_sw = enc[sw[0]:sw[1]], enc[sw[1]:]

    def cases(text):
        out = []
        for m in re.finditer(r"case\s+(\d+)\s*:(.*?)break\s*;", text, flags=re.S):
            out.append((int(m.group(1)), [st.strip() for st in m.group(2).split(";") if st.strip()]))
        return out
    step = []
    for k, sts in cases(loop_sw):
        ns, outs = None, []
        for st in sts:
            m1 = re.fullmatch(r"s\s*=\s*(\d+)", st)
            m2 = re.fullmatch(r"out\s*\[\s*j\+\+\s*\]\s*=\s*base64en\s*\[(.*)\]", st, flags=re.S)
            if m1:
                ns = int(m1.group(1))
            elif m2:
                outs.append("enAt (%s)" % c_bits_to_lean(m2.group(1), {"c": "c", "l": "l"}))
            else:
                raise ExtractError("base64_encode loop: statement %r outside the translatable fragment" % st)
        if ns is None or not outs:
            raise ExtractError("base64_encode loop: case %d incomplete" % k)
        step.append((k, ns, outs))
    if [k for k, _, _ in step] != [0, 1, 2]:
        raise ExtractError("base64_encode loop: cases are %r" % [k for k, _, _ in step])
    tail = []
    for k, sts in cases(tail_sw):
        outs = []
        for st in sts:
            m2 = re.fullmatch(r"out\s*\[\s*j\+\+\s*\]\s*=\s*base64en\s*\[(.*)\]", st, flags=re.S)
            m3 = re.fullmatch(r"out\s*\[\s*j\+\+\s*\]\s*=\s*BASE64_PAD", st)
            if m2:
                outs.append("enAt (%s)" % c_bits_to_lean(m2.group(1), {"l": "l"}))
            elif m3:
                outs.append("pad")
            else:
                raise ExtractError("base64_encode tail: statement %r outside the translatable fragment" % st)
        tail.append((k, outs))
    dsw = dec[dec.index("switch"):]
    darms = []
    for k, sts in cases(dsw):
        lines, jo, buf = [], 0, "out"
        for st in sts:
            m1 = re.fullmatch(r"out\s*\[\s*j\s*\]\s*=\s*(.*)", st, flags=re.S)
            m2 = re.fullmatch(r"out\s*\[\s*j\+\+\s*\]\s*\|=\s*(.*)", st, flags=re.S)
            idx = "j" if jo == 0 else "(j + %d)" % jo
            if m1:
                lines.append("    let o ← bufSet %s %s (%s)" % (buf, idx, c_bits_to_lean(m1.group(1), {"c": "v"})))
                buf = "o"
            elif m2:
                lines.append("    let x ← %s[%s]?" % (buf, idx.strip("()")))
                lines.append("    let o ← bufSet %s %s (x ||| (%s))" % (buf, idx, c_bits_to_lean(m2.group(1), {"c": "v"})))
                buf = "o"
                jo += 1
            else:
                raise ExtractError("base64_decode: statement %r outside the translatable fragment" % st)
        lines.append("    pure (%s, o)" % ("j" if jo == 0 else "j + %d" % jo))
        darms.append((k, lines))
    if [k for k, _ in darms] != [0, 1, 2, 3]:
        raise ExtractError("base64_decode: switch cases are %r" % [k for k, _ in darms])
    pat = lambda k, last: "_" if last else str(k)
    text = f"""/- GENERATED by tie/extract.py from libjwt/base64.c -- do not edit.
   The arms of the three `switch` statements, translated expression by expression (`>>`, `<<`, `&`, `|` on bytes;
   `out[j++] = base64en[E]` appends `enAt E`; `out[j] = E` / `out[j++] |= E` are checked stores into the buffer).
   The loops around them are written by hand in Jwt/Base64.lean; the extractor checks that the C loops still have
   the shape those assume. Regenerated from /repo on every check run; all C11 theorems are about these definitions. -/
import Jwt.Base64Prelude
namespace Jwt.Base64
open Jwt Jwt.Generated

/-- one iteration of the `for` loop of `base64_encode`: state `s`, previous byte `l`, current byte `c`;
returns the next state and the bytes appended to `out` -/
def encStep (s : Nat) (l c : UInt8) : Nat × Bytes :=
  match s with
{chr(10).join("  | %s => (%d, [%s])" % (pat(k, i == len(step) - 1), ns, ", ".join(outs)) for i, (k, ns, outs) in enumerate(step))}

/-- the trailing `switch (s)` of `base64_encode` -/
def encTail (s : Nat) (l : UInt8) : Bytes :=
  match s with
{chr(10).join("  | %d => [%s]" % (k, ", ".join(outs)) for k, outs in tail)}
  | _ => []

/-- the body of `switch (i & 0x3)` of `base64_decode` for table value `v`; `none` = out of bounds -/
def decStep (i j : Nat) (out : Bytes) (v : UInt8) : Option (Nat × Bytes) :=
  match i &&& 0x3 with
{chr(10).join("  | %s => do%s%s" % (pat(k, i == len(darms) - 1), chr(10), chr(10).join(lines)) for i, (k, lines) in enumerate(darms))}

end Jwt.Base64
"""
    return "Base64Code.lean", text, {"encode_step": step, "encode_tail": tail, "decode_arms": [(k, len(l)) for k, l in darms]}


def gen_digests(repo, build):
    """which digest (and key kind) each provider function selects for each algorithm"""
    out_tables = {}
    info = {}
    for path, fns in (("libjwt/openssl/sign-verify.c", ["openssl_sign_sha_hmac", "openssl_sign_sha_pem", "openssl_verify_sha_pem"]),
                      ("libjwt/gnutls/sign-verify.c", ["gnutls_sign_sha_hmac", "gnutls_sign_sha_pem", "gnutls_verify_sha_pem"])):
        src = open(os.path.join(repo, path)).read()
        src = re.sub(r"/\*.*?\*/", " ", src, flags=re.S)
        src = re.sub(r"//[^\n]*", " ", src)
        for fn in fns:
            body = func_body(src, r"\b%s\s*\([^)]*\)\s*\{" % fn)
            m = re.search(r"switch\s*\(\s*jwt->alg\s*\)\s*\{", body)
            if not m:
                raise ExtractError("%s: switch (jwt->alg) not found" % fn)
            # the first switch on jwt->alg is the digest selection
            i, depth = m.end(), 1
            while i < len(body) and depth:
                depth += body[i] == "{"
                depth -= body[i] == "}"
                i += 1
            sw = body[m.end():i - 1]
            rows = []
            for cm in re.finditer(r"((?:case\s+JWT_ALG_\w+\s*:\s*)+)(.*?)(?=case\s+JWT_ALG_|default\s*:|$)", sw, flags=re.S):
                labels = re.findall(r"JWT_ALG_\w+", cm.group(1))
                stmts = cm.group(2)
                am = re.search(r"\balg\s*=\s*([A-Za-z_0-9]+)", stmts)
                if not am:
                    raise ExtractError("%s: no `alg = ...` under %s" % (fn, labels))
                tok = am.group(1)
                km = re.search(r"\b(?:type|pk_alg)\s*=\s*([A-Za-z_0-9]+)", stmts)
                kind_tok = km.group(1) if km else ""
                dm = re.search(r"(sha|SHA)_?(256|384|512)", tok)
                if dm:
                    digest = "sha" + dm.group(2)
                elif "JWT_ALG_EDDSA" in labels and (tok in ("NULL", "EVP_md_null") or "md_null" in tok or "gnutls_pubkey_get_pk_algorithm" in tok or "gnutls_privkey_get_pk_algorithm" in tok or "EDDSA" in tok.upper()):
                    digest = "by-key"
                else:
                    raise ExtractError("%s: digest token %r not recognised" % (fn, tok))
                up = (tok + " " + kind_tok).upper()
                kind = "pss" if "PSS" in up else "rsa" if "RSA" in up else "ec" if ("EC" in up.replace("SECP", "") and "ECDSA" in up or "PKEY_EC" in up or "PK_EC" in up) else \
                    "eddsa" if digest == "by-key" else "mac"
                for lab in labels:
                    if lab == "JWT_ALG_EDDSA":
                        rows.append((lab, "by-key", "eddsa"))      # the digest is fixed by the curve of the key, not chosen here
                    else:
                        rows.append((lab, digest, kind))
            if not rows:
                raise ExtractError("%s: no cases" % fn)
            out_tables[fn] = rows
            info[fn] = rows
    def tbl(rows):
        return "[" + ", ".join('(.%s, "%s", "%s")' % (ALG_LEAN[a], d, k) for a, d, k in rows) + "]"
    text = f"""/- GENERATED by tie/extract.py from libjwt/openssl/sign-verify.c and libjwt/gnutls/sign-verify.c -- do not edit.
   For each provider entry point, the digest and the kind of key operation its `switch (jwt->alg)` selects per algorithm.
   Regenerated from /repo on every check run; Jwt/Props/C12.lean proves the six tables agree with RFC 7518 and with each other. -/
import Jwt.AlgType
namespace Jwt.Generated

{chr(10).join("def %sDigests : List (Alg × String × String) := %s%s" % (fn.replace("_sha_", "_").replace("openssl_", "ossl").replace("gnutls_", "gtls").replace("_", ""), tbl(rows), chr(10)) for fn, rows in out_tables.items())}
end Jwt.Generated
"""
    return "DigestTables.lean", text, info


def gen_gates(repo, build):
    """jwt.c __check_hmac / __check_key_bits: per algorithm the size condition and the key type demanded"""
    src = open(os.path.join(repo, "libjwt/jwt.c")).read()
    src = re.sub(r"/\*.*?\*/", " ", src, flags=re.S)
    src = re.sub(r"//[^\n]*", " ", src)
    KTY = {"JWK_KEY_TYPE_OCT": "oct", "JWK_KEY_TYPE_RSA": "rsa", "JWK_KEY_TYPE_EC": "ec", "JWK_KEY_TYPE_OKP": "okp"}
    rows = []
    for fn in ("__check_hmac", "__check_key_bits"):
        body = func_body(src, r"\b%s\s*\(\s*jwt_t\s*\*\s*jwt\s*\)\s*\{" % fn)
        if not re.search(r"int\s+key_bits\s*=\s*jwt->key->bits\s*;", body):
            raise ExtractError("%s: key_bits is no longer jwt->key->bits" % fn)
        m = re.search(r"switch\s*\(\s*jwt->alg\s*\)\s*\{", body)
        if not m:
            raise ExtractError("%s: switch (jwt->alg) not found" % fn)
        sw = body[m.end():]
        seen = 0
        for cm in re.finditer(r"((?:case\s+JWT_ALG_\w+\s*:\s*)+)(.*?)(?=case\s+JWT_ALG_|default\s*:)", sw, flags=re.S):
            labels = re.findall(r"JWT_ALG_\w+", cm.group(1))
            im = re.search(r"if\s*\((.*?)\)\s*return\s+__check_key_type\s*\(\s*jwt\s*,\s*(\w+)\s*\)\s*;", cm.group(2), flags=re.S)
            if not im or im.group(2) not in KTY:
                raise ExtractError("%s: case %s is not `if (<size test>) return __check_key_type(jwt, TYPE);`" % (fn, labels))
            if len(re.findall(r"\breturn\b", cm.group(2))) != 1:
                raise ExtractError("%s: case %s has another return" % (fn, labels))
            terms = []
            for t in im.group(1).split("||"):
                tm = re.fullmatch(r"\s*key_bits\s*(>=|==)\s*(\d+)\s*", t)
                if not tm:
                    raise ExtractError("%s: size test %r outside the translatable fragment" % (fn, im.group(1)))
                terms.append(("bits ≥ %s" if tm.group(1) == ">=" else "bits = %s") % tm.group(2))
            for lab in labels:
                rows.append((lab, " ∨ ".join(terms), KTY[im.group(2)], fn))
            seen += len(labels)
        if seen == 0:
            raise ExtractError("%s: no cases" % fn)
    text = f"""/- GENERATED by tie/extract.py from libjwt/jwt.c (__check_hmac, __check_key_bits) -- do not edit.
   Per algorithm: the test on `jwt->key->bits` that lets the key through, and the key type `__check_key_type` then demands.
   Regenerated from /repo on every check run; Jwt/Lemmas/Policy.lean proves the model's gates equal these. -/
import Jwt.Keys
namespace Jwt.Generated
open Jwt

/-- the size test of the case for algorithm `a` (false for algorithms neither function handles) -/
def gateSize (a : Alg) (bits : Nat) : Prop :=
  match a with
{chr(10).join("  | .%s => %s" % (ALG_LEAN[l], c) for l, c, _, _ in rows)}
  | _ => False

/-- the key type `__check_key_type` is called with in that case -/
def gateType (a : Alg) : Option Kty :=
  match a with
{chr(10).join("  | .%s => some .%s" % (ALG_LEAN[l], k) for l, _, k, _ in rows)}
  | _ => none

/-- which of the two functions handles the algorithm -/
def gateFn : List (Alg × String) := [{", ".join('(.%s, "%s")' % (ALG_LEAN[l], f) for l, _, _, f in rows)}]

end Jwt.Generated
"""
    return "GateTables.lean", text, {"rows": rows}


# ---- a translator for C decision functions (if / else / return / error reports) --------------------------------
class DecisionTranslator:
    """Translates the body of a C function made of `if (...) ... else ...`, blocks, `return N;` and calls that only
    report an error (jwt_write_error) into a Lean expression of type `Nat × Bool`: (return value, was a message written).
    `atoms` maps C l-values / calls to (Lean text, kind) with kind in ptr | alg | bool | nat; everything else is refused."""
    TOK = re.compile(r'\s*("(?:[^"\\]|\\.)*"|->|==|!=|&&|\|\||[A-Za-z_]\w*|\d+|[(){};,!.])')

    def __init__(self, name, text, atoms, consts):
        self.name, self.atoms, self.consts = name, atoms, consts
        self.toks = []
        pos = 0
        text = text.strip()
        while pos < len(text):
            m = self.TOK.match(text, pos)
            if not m:
                raise ExtractError("%s: cannot tokenise at %r" % (name, text[pos:pos + 30]))
            self.toks.append(m.group(1))
            pos = m.end()
        self.i = 0

    def peek(self):
        return self.toks[self.i] if self.i < len(self.toks) else None

    def eat(self, t=None):
        tok = self.peek()
        if tok is None or (t is not None and tok != t):
            raise ExtractError("%s: expected %r, found %r" % (self.name, t, tok))
        self.i += 1
        return tok

    # ----- expressions -----
    def primary(self):
        t = self.eat()
        if t == "(":
            e = self.expr_or()
            self.eat(")")
            return e
        if t == "!":
            txt, kind = self.primary()
            return self.negate(self.as_bool((txt, kind))), "bool"
        if re.fullmatch(r"\d+", t):
            return t, "nat"
        if t == "NULL":
            return "NULL", "null"
        if t in self.consts:
            return self.consts[t], "alg"
        # identifier chain or call
        chain = t
        while self.peek() in ("->", "."):
            chain += self.eat() + self.eat()
        if self.peek() == "(":
            self.eat("(")
            depth, args = 1, []
            while depth:
                x = self.eat()
                depth += x == "("
                depth -= x == ")"
                if depth:
                    args.append(x)
            chain += "(" + "".join(args) + ")"
        if chain not in self.atoms:
            raise ExtractError("%s: unknown operand %r" % (self.name, chain))
        return self.atoms[chain]

    def as_bool(self, e):
        txt, kind = e
        if kind == "bool":
            return txt
        if kind == "ptr":
            return "(%s = false)" % txt          # txt is the `…Null` flag: pointer in boolean context = not null
        if kind == "nat":
            return "(%s ≠ 0)" % txt
        raise ExtractError("%s: %r used as a condition" % (self.name, txt))

    @staticmethod
    def negate(b):
        return "(¬ %s)" % b

    def expr_eq(self):
        l = self.primary()
        while self.peek() in ("==", "!="):
            op = self.eat()
            r = self.primary()
            if r[1] == "null" or l[1] == "null":
                p_ = l if r[1] == "null" else r
                if p_[1] != "ptr":
                    raise ExtractError("%s: NULL compared with a non-pointer" % self.name)
                txt = "(%s = %s)" % (p_[0], "true" if op == "==" else "false")
            elif l[1] == r[1] and l[1] in ("alg", "nat"):
                txt = "(%s %s %s)" % (l[0], "=" if op == "==" else "≠", r[0])
            else:
                raise ExtractError("%s: comparison of %r with %r" % (self.name, l, r))
            l = (txt, "bool")
        return l

    def expr_and(self):
        l = self.expr_eq()
        while self.peek() == "&&":
            self.eat()
            r = self.expr_eq()
            l = ("(%s ∧ %s)" % (self.as_bool(l), self.as_bool(r)), "bool")
        return l

    def expr_or(self):
        l = self.expr_and()
        while self.peek() == "||":
            self.eat()
            r = self.expr_and()
            l = ("(%s ∨ %s)" % (self.as_bool(l), self.as_bool(r)), "bool")
        return l

    # ----- statements: returns Lean text given the continuation text `k` (what runs after the statement) -----
    def stmt(self, k, ind):
        t = self.peek()
        pad = "  " * ind
        if t == "{":
            self.eat("{")
            body = []
            while self.peek() != "}":
                body.append(self.i)
                self.skip_stmt()
            self.eat("}")
            end = self.i
            # translate right-to-left so that each statement gets the rest of the block as continuation
            res = k
            for st in reversed(body):
                self.i = st
                res = self.stmt(res, ind)
            self.i = end
            return res
        if t == "if":
            self.eat("if")
            self.eat("(")
            c = self.as_bool(self.expr_or())
            self.eat(")")
            a = self.stmt(k, ind + 1)
            b = k
            if self.peek() == "else":
                self.eat("else")
                b = self.stmt(k, ind + 1)
            return "(if %s then\n%s  %s\n%selse\n%s  %s)" % (c, pad, a, pad, pad, b)
        if t == "return":
            self.eat("return")
            v = self.eat()
            if not re.fullmatch(r"\d+", v):
                raise ExtractError("%s: return of %r" % (self.name, v))
            self.eat(";")
            return "(%s, w)" % v
        if t in ("jwt_write_error",):
            self.eat()
            self.eat("(")
            depth = 1
            while depth:
                x = self.eat()
                depth += x == "("
                depth -= x == ")"
            self.eat(";")
            return "(let w := true;\n%s %s)" % (pad, k)
        raise ExtractError("%s: statement starting with %r outside the translatable fragment" % (self.name, t))

    def skip_stmt(self):
        t = self.peek()
        if t == "{":
            self.eat("{")
            while self.peek() != "}":
                self.skip_stmt()
            self.eat("}")
        elif t == "if":
            self.eat("if")
            self.eat("(")
            depth = 1
            while depth:
                x = self.eat()
                depth += x == "("
                depth -= x == ")"
            self.skip_stmt()
            if self.peek() == "else":
                self.eat("else")
                self.skip_stmt()
        else:
            while self.eat() != ";":
                pass


def gen_decisions(repo, build):
    """`__setkey_check` (jwt-common.c, both compilations) and `__verify_config_post` (jwt-verify.c), translated"""
    def clean(path):
        t = open(os.path.join(repo, path)).read()
        t = re.sub(r"/\*.*?\*/", " ", t, flags=re.S)
        return re.sub(r"//[^\n]*", " ", t)
    common = clean("libjwt/jwt-common.c")
    body = func_body(common, r"\b__setkey_check\s*\([^)]*\)\s*\{")
    variants = {}
    for side in ("Builder", "Checker"):
        b = body
        if side == "Builder":
            b = re.sub(r"#\s*ifdef\s+JWT_BUILDER\s*\n(.*?)#\s*endif", r"\1", b, flags=re.S)
        else:
            b = re.sub(r"#\s*ifdef\s+JWT_BUILDER\s*\n.*?#\s*endif", " ", b, flags=re.S)
        if "#" in b:
            raise ExtractError("__setkey_check: preprocessor conditionals other than #ifdef JWT_BUILDER")
        atoms = {"__cmd": ("cmdNull", "ptr"), "key": ("keyNull", "ptr"), "alg": ("alg", "alg"), "key->alg": ("keyAlg", "alg"),
                 "key->is_private_key": ("keyPriv", "bool")}
        tr = DecisionTranslator("__setkey_check", b, atoms, {"JWT_ALG_NONE": "Alg.none"})
        variants[side] = tr.stmt("(0, w)", 1)
        if tr.i != len(tr.toks):
            raise ExtractError("__setkey_check: trailing tokens")
    vbody = func_body(clean("libjwt/jwt-verify.c"), r"\b__verify_config_post\s*\([^)]*\)\s*\{")
    atoms = {"__verify_claims(jwt)": ("claimsFail", "bool"), "sig_len": ("sigLen", "nat"), "config->key": ("cfgKeyNull", "ptr"),
             "config->alg": ("cfgAlg", "alg"), "jwt->alg": ("jwtAlg", "alg"), "config->key->alg": ("cfgKeyAlg", "alg")}
    tr = DecisionTranslator("__verify_config_post", vbody, atoms, {"JWT_ALG_NONE": "Alg.none"})
    post = tr.stmt("(0, w)", 1)
    text = f"""/- GENERATED by tie/extract.py from libjwt/jwt-common.c (__setkey_check, compiled as builder and as checker) and
   libjwt/jwt-verify.c (__verify_config_post) -- do not edit.
   The functions' bodies translated statement by statement: `if`/`else`, blocks, `return N`, and `jwt_write_error(...)`
   (recorded as "a message was written"). Pointers appear as their `…Null` flag, fields read through them as separate
   arguments (the equivalence theorems hold for every value of a field whose pointer is NULL: the code never depends on it).
   Result: (return value, message written). Regenerated from /repo on every check run; Jwt/Lemmas/Decisions.lean proves
   the hand-written model equal to these. -/
import Jwt.AlgType
namespace Jwt.Generated
open Jwt

def setkeyCheckBuilder (cmdNull keyNull keyPriv : Bool) (alg keyAlg : Alg) : Nat × Bool :=
  let w := false;
  {variants["Builder"]}

def setkeyCheckChecker (cmdNull keyNull keyPriv : Bool) (alg keyAlg : Alg) : Nat × Bool :=
  let w := false;
  {variants["Checker"]}

def verifyConfigPost (claimsFail cfgKeyNull : Bool) (sigLen : Nat) (cfgAlg cfgKeyAlg jwtAlg : Alg) : Nat × Bool :=
  let w := false;
  {post}

end Jwt.Generated
"""
    return "Decisions.lean", text, {"functions": ["__setkey_check (builder)", "__setkey_check (checker)", "__verify_config_post"]}


def gen_dispatch(repo, build):
    """jwt.c jwt_sign / jwt_verify_sig: per algorithm the strength gate called, the primitive called, and that the gate comes first"""
    src = open(os.path.join(repo, "libjwt/jwt.c")).read()
    src = re.sub(r"/\*.*?\*/", " ", src, flags=re.S)
    src = re.sub(r"//[^\n]*", " ", src)
    tables = {}
    for fn, prims in (("jwt_sign", ["sign_sha_hmac", "jwt_ops->sign_sha_pem"]), ("jwt_verify_sig", ["_verify_sha_hmac", "jwt_ops->verify_sha_pem"])):
        body = func_body(src, r"\b%s\s*\([^)]*\)\s*\{" % fn)
        m = re.search(r"switch\s*\(\s*jwt->alg\s*\)\s*\{", body)
        if not m:
            raise ExtractError("%s: switch (jwt->alg) not found" % fn)
        sw = body[m.end():]
        rows = []
        for cm in re.finditer(r"((?:case\s+JWT_ALG_\w+\s*:\s*)+)(.*?)(?=case\s+JWT_ALG_|default\s*:)", sw, flags=re.S):
            labels = re.findall(r"JWT_ALG_\w+", cm.group(1))
            code = cm.group(2)
            gates = [(g.start(), g.group(1)) for g in re.finditer(r"\b(__check_hmac|__check_key_bits)\s*\(\s*jwt\s*\)", code)]
            calls = [(code.find(p_ + "("), p_) for p_ in prims if (p_ + "(") in re.sub(r"\s+", "", code) or (p_ + "(") in code]
            calls = [(re.search(re.escape(p_) + r"\s*\(", code).start(), p_) for p_ in prims if re.search(re.escape(p_) + r"\s*\(", code)]
            if len(gates) > 1 or len(calls) != 1:
                raise ExtractError("%s: case %s: expected at most one gate call and one primitive call, found %r / %r" % (fn, labels, gates, calls))
            if not gates:
                # no gate in the case itself: it has to sit inside the primitive's own path (see verifyHmacVia)
                for lab in labels:
                    rows.append((lab, "-", calls[0][1], False))
                continue
            # the gate's failure must leave the case before the primitive is reached
            gm = re.search(r"if\s*\(\s*%s\s*\(\s*jwt\s*\)\s*\)\s*(return\s+1\s*;|break\s*;)" % re.escape(gates[0][1]), code)
            first = gm is not None and gates[0][0] < calls[0][0]
            for lab in labels:
                rows.append((lab, gates[0][1], calls[0][1], first))
        tables[fn] = rows
    vb = func_body(src, r"\b_verify_sha_hmac\s*\([^)]*\)\s*\{")
    via = "jwt_sign" if re.search(r"\bjwt_sign\s*\(", vb) else ("sign_sha_hmac" if re.search(r"\bsign_sha_hmac\s*\(", vb) else "?")
    kty_guard = re.search(r"jwt->key->kty\s*!=\s*JWK_KEY_TYPE_OCT\s*\|\|\s*_verify_sha_hmac\s*\(", func_body(src, r"\bjwt_verify_sig\s*\([^)]*\)\s*\{")) is not None

    def tbl(rows):
        return "[" + ", ".join('(.%s, "%s", "%s", %s)' % (ALG_LEAN[a], g, p_, "true" if f else "false") for a, g, p_, f in rows) + "]"
    text = f"""/- GENERATED by tie/extract.py from libjwt/jwt.c (jwt_sign, jwt_verify_sig, _verify_sha_hmac) -- do not edit.
   Per algorithm: the strength gate the case calls, the primitive it calls, and whether the gate's failure leaves the case
   before the primitive is reached. Regenerated from /repo on every check run; Jwt/Props/C09.lean proves the dispatch. -/
import Jwt.AlgType
namespace Jwt.Generated

def signDispatch : List (Alg × String × String × Bool) := {tbl(tables["jwt_sign"])}

def verifyDispatch : List (Alg × String × String × Bool) := {tbl(tables["jwt_verify_sig"])}

/-- what `_verify_sha_hmac` recomputes the MAC with (`jwt_sign` carries the HMAC size gate) -/
def verifyHmacVia : String := "{via}"

/-- `jwt_verify_sig` tests `key->kty != JWK_KEY_TYPE_OCT ||` before `_verify_sha_hmac` -/
def verifyHmacKtyGuard : Bool := {"true" if kty_guard else "false"}

end Jwt.Generated
"""
    return "DispatchTables.lean", text, {"jwt_sign": tables["jwt_sign"], "jwt_verify_sig": tables["jwt_verify_sig"], "verify_hmac_via": via, "kty_guard": kty_guard}


def gen_claims(repo, build):
    """jwt-verify.c __verify_claims / __check_str_claim: the comparisons the time claims are judged with, and the string claims"""
    src = open(os.path.join(repo, "libjwt/jwt-verify.c")).read()
    src = re.sub(r"/\*.*?\*/", " ", src, flags=re.S)
    src = re.sub(r"//[^\n]*", " ", src)
    body = func_body(src, r"\b__verify_claims\s*\(\s*jwt_t\s*\*\s*jwt\s*\)\s*\{")
    flat = re.sub(r"\s+", "", body)
    if "time_tnow=time(NULL);" not in flat:
        raise ExtractError("__verify_claims: the clock is no longer read once into `now`")
    rules = []
    for m in re.finditer(r"if\(checker->c\.claims&JWT_CLAIM_(\w+)\)\{jwt_set_GET_INT\(&jval,\"(\w+)\"\);err=jwt_claim_get\(jwt,&jval\);"
                         r"if\(err==JWT_VALUE_ERR_NONE\)\{if\(jval\.int_val(<=|<|>=|>)\(now([+-])checker->c\.(\w+)\)\)\{failed\|=JWT_CLAIM_(\w+);\}\}"
                         r"elseif\(err!=JWT_VALUE_ERR_NOEXIST\)failed\|=JWT_CLAIM_(\w+);\}", flat):
        bit, name, op, sign, field, f1, f2 = m.groups()
        if not (bit == f1 == f2) or name != bit.lower() or field != name:
            raise ExtractError("__verify_claims: block for %s mixes claims (%s, %s, %s, %s)" % (bit, name, field, f1, f2))
        rules.append((bit, name, op, sign))
    if [r[0] for r in rules] != ["EXP", "NBF"]:
        raise ExtractError("__verify_claims: time-claim blocks not in the recognised shape: %r" % rules)
    strs = re.findall(r"if\(__check_str_claim\(jwt,JWT_CLAIM_(\w+),\"(\w+)\"\)\)failed\|=JWT_CLAIM_(\w+);", flat)
    if [s_[0] for s_ in strs] != ["ISS", "SUB", "AUD"] or any(a != c or b != a.lower() for a, b, c in strs):
        raise ExtractError("__verify_claims: string-claim calls not in the recognised shape: %r" % strs)
    if not flat.endswith("returnfailed;}"):
        raise ExtractError("__verify_claims: does not end in `return failed;`")
    sb = re.sub(r"\s+", "", func_body(src, r"\b__check_str_claim\s*\([^)]*\)\s*\{"))
    for need in ("if(!(checker->c.claims&claim))return0;", "str=jwt_checker_claim_get(checker,claim);if(str==NULL)return1;",
                 "jwt_set_GET_STR(&jval,claim_str);err=jwt_claim_get(jwt,&jval);if(err!=JWT_VALUE_ERR_NONE||strcmp(str,jval.str_val))return1;return0;}"):
        if need not in sb:
            raise ExtractError("__check_str_claim no longer has the shape the model assumes (missing %r)" % need[:40])
    OPS = {"<=": "≤", "<": "<", ">=": "≥", ">": ">"}
    text = f"""/- GENERATED by tie/extract.py from libjwt/jwt-verify.c (__verify_claims, __check_str_claim) -- do not edit.
   The comparison each time claim is judged with (translated), and the skeleton facts the hand-written model relies on
   (clock read once; NOEXIST passes, any other getter error fails; iss/sub/aud through __check_str_claim, which fails on
   a missing or non-string claim and on strcmp != 0). Regenerated from /repo on every check run. -/
namespace Jwt.Generated

/-- `jval.int_val {rules[0][2]} (now {rules[0][3]} checker->c.exp)`: the token has expired -/
def srcExpFails (v now leeway : Int) : Prop := v {OPS[rules[0][2]]} now {rules[0][3]} leeway

/-- `jval.int_val {rules[1][2]} (now {rules[1][3]} checker->c.nbf)`: the token is not valid yet -/
def srcNbfFails (v now leeway : Int) : Prop := v {OPS[rules[1][2]]} now {rules[1][3]} leeway

/-- the string claims checked, in source order: (mask bit, claim name) -/
def srcStrClaims : List (String × String) := [{", ".join('("%s", "%s")' % (a, b) for a, b, _ in strs)}]

end Jwt.Generated
"""
    return "ClaimRules.lean", text, {"time_rules": rules, "str_claims": strs}


def gen_jsonflags(repo, build):
    """every call into jansson's text <-> tree functions with the flags it passes (the JsonCodec oracle stands for exactly these)"""
    calls = []
    for rel in ("libjwt/jwks.c", "libjwt/jwt-encode.c", "libjwt/jwt-setget.c", "libjwt/jwt-verify.c", "libjwt/jwt-common.c", "libjwt/jwt.c"):
        src = open(os.path.join(repo, rel)).read()
        src = re.sub(r"/\*.*?\*/", lambda m_: " " * len(m_.group(0)), src, flags=re.S)
        src = re.sub(r"//[^\n]*", lambda m_: " " * len(m_.group(0)), src)
        for m in re.finditer(r"\b(json_dumps|json_dumpf|json_dump_callback|json_loads|json_loadb|json_loadf|json_load_file)\s*\(", src):
            depth, i = 1, m.end()
            while depth and i < len(src):
                depth += src[i] == "("
                depth -= src[i] == ")"
                i += 1
            args = split_top(src[m.end():i - 1])
            fn = enclosing_function(src, m.start()) or "?"
            flag_arg = {"json_dumps": 1, "json_dumpf": 2, "json_dump_callback": 3, "json_loads": 1, "json_loadb": 2, "json_loadf": 1, "json_load_file": 1}[m.group(1)]
            flags = re.sub(r"\s+", "", args[flag_arg]) if flag_arg < len(args) else "?"
            if flags == "flags":
                # a local variable: collect what the function ORs into it
                body = func_body(src, r"\b%s\s*\([^)]*\)\s*\{" % re.escape(fn)) if fn != "?" else ""
                parts = re.findall(r"flags\s*(?:\|?=)\s*([^;]+);", body)
                flags = "var:" + "|".join(sorted(re.sub(r"\s+", "", p_) for p_ in parts))
            calls.append((os.path.basename(rel), fn, m.group(1), flags))
    calls.sort()
    rows = ", ".join('("%s", "%s", "%s", "%s")' % c for c in calls)
    text = f"""/- GENERATED by tie/extract.py from the library sources -- do not edit.
   Every call of jansson's parser and printer in libjwt: (file, calling function, jansson function, flags expression).
   The model's JsonCodec oracle (answered by harness/jsonlib.py) stands for exactly these calls with exactly these flags.
   Regenerated from /repo on every check run; Jwt/Props/C10.lean pins the table. -/
namespace Jwt.Generated

def jsonCalls : List (String × String × String × String) := [{rows}]

end Jwt.Generated
"""
    return "JsonCalls.lean", text, {"calls": calls}


def gen_jwksloops(repo, build):
    """jwks.c: the keyring functions (list walks with early exits, removal during the walk, free_all) translated
    statement by statement over the node heap (tie/loops.py on the mini-C parser tie/cmini.py)"""
    sys.path.insert(0, os.path.dirname(os.path.abspath(__file__)))
    import cmini
    import loops
    try:
        text, info = loops.generate(repo)
    except (loops.LoopError, cmini.CParseError) as e:
        raise ExtractError("jwks.c keyring functions: %s" % e)
    return "JwksLoops.lean", text, info


def gen_pipeline(repo, build):
    """jwt-verify.c / jwt-common.c: decision skeletons of jwt_parse_payload, jwt_parse_head, jwt_parse, jwt_verify_complete and
    jwt_checker_verify (tie/pipeline.py on the mini-C parser)"""
    sys.path.insert(0, os.path.dirname(os.path.abspath(__file__)))
    import cmini
    import pipeline
    try:
        text, info = pipeline.generate(repo)
    except (pipeline.PipelineError, cmini.CParseError) as e:
        raise ExtractError("verification pipeline: %s" % e)
    return "Pipeline.lean", text, info


def gen_strcmp(repo, build):
    """jwt-memory.c: `jwt_strcmp`, the comparison behind every name match and the HS* signature check, translated statement by
    statement with every store wrapped in the width of the variable's declared type (tie/strcmp.py on the mini-C parser)"""
    sys.path.insert(0, os.path.dirname(os.path.abspath(__file__)))
    import cmini
    import strcmp
    try:
        text, info = strcmp.generate(repo)
    except (strcmp.StrcmpError, cmini.CParseError) as e:
        raise ExtractError("jwt_strcmp: %s" % e)
    return "StrCmpCode.lean", text, info


GENERATORS = [gen_base64, gen_alg, gen_common, gen_jwk, gen_ops, gen_cli, gen_conc, gen_ecframe, gen_ll, gen_base64code, gen_digests, gen_gates, gen_decisions, gen_dispatch, gen_claims, gen_jsonflags, gen_jwksloops, gen_pipeline, gen_strcmp]


def main():
    repo, build, out = sys.argv[1:4]
    os.makedirs(out, exist_ok=True)
    summary = {"files": {}, "errors": []}
    for g in GENERATORS:
        try:
            name, text, info = g(repo, build)
        except ExtractError as e:
            import inspect
            outs = re.findall(r'return "(\w+)\.lean"', inspect.getsource(g))
            summary["errors"].append({"generator": g.__name__, "error": str(e), "modules": ["Jwt.Generated." + o for o in outs]})
            continue
        path = os.path.join(out, name)
        old = open(path).read() if os.path.exists(path) else None
        if old != text:
            with open(path, "w") as f:
                f.write(text)
        summary["files"][name] = {"sha256": hashlib.sha256(text.encode()).hexdigest()[:16], "changed": old != text, "info": info}
    print(json.dumps(summary))
    return 1 if summary["errors"] else 0


if __name__ == "__main__":
    sys.exit(main())
