#!/usr/bin/env python3
"""Fingerprints of the C functions the hand-written model transcribes.

`fingerprint.py snapshot REPO > tie/fingerprints.json` records, for the tree the model was validated
against, a hash of every function body (comments and white space removed) in libjwt/ and tools/.
On every check run the current tree is compared with it: a changed, added or removed function in a file
the property is anchored in is NOT a violation (the theorems and the correspondence decide that) -- it
makes the check explore at its thorough bounds, because the code the model was written from is no longer
the code that is there."""
import hashlib
import json
import os
import re
import sys

DIRS = ["libjwt", "libjwt/openssl", "libjwt/gnutls", "tools"]


def strip(src):
    src = re.sub(r"/\*.*?\*/", " ", src, flags=re.S)
    src = re.sub(r"//[^\n]*", " ", src)
    src = re.sub(r"#\s*ifdef\s+__cplusplus.*?#\s*endif", " ", src, flags=re.S)
    return src


def functions(path):
    src = strip(open(path, errors="replace").read())
    src = re.sub(r"^[ \t]*#(?:[^\n]*\\\n)*[^\n]*", " ", src, flags=re.M)     # preprocessor lines (macros are hashed below)
    out = {}
    # a definition: identifier '(' ... ')' followed by '{' at brace depth 0
    depth = 0
    i = 0
    n = len(src)
    last_stmt = 0
    while i < n:
        c = src[i]
        if c == '"' or c == "'":
            j = i + 1
            while j < n and src[j] != c:
                j += 2 if src[j] == "\\" else 1
            i = j + 1
            continue
        if c == "{":
            if depth == 0:
                head = src[last_stmt:i]
                m = re.search(r"(\w+(?:\s*\(\s*\w+\s*\))?)\s*\([^;{}()]*(?:\([^()]*\)[^;{}()]*)*\)\s*$", head, flags=re.S)
                # body
                d, j = 1, i + 1
                while j < n and d:
                    if src[j] == '"' or src[j] == "'":
                        q = src[j]
                        j += 1
                        while j < n and src[j] != q:
                            j += 2 if src[j] == "\\" else 1
                    elif src[j] == "{":
                        d += 1
                    elif src[j] == "}":
                        d -= 1
                    j += 1
                if m and m.group(1) not in ("if", "while", "for", "switch"):
                    body = re.sub(r"\s+", "", head[m.start():] + src[i:j])
                    name = re.sub(r"\s+", "", m.group(1))
                    k = 2
                    while name in out:          # the same name defined under different #if branches
                        name = "%s#%d" % (re.sub(r"#\d+$", "", name), k)
                        k += 1
                    out[name] = hashlib.sha1(body.encode()).hexdigest()[:16]
                    i = j
                    last_stmt = j
                    continue
            depth += 1
        elif c == "}":
            depth -= 1
        elif c == ";" and depth == 0:
            last_stmt = i + 1
        i += 1
    # macros with bodies count too (the list and base64 macros carry logic)
    raw = open(path, errors="replace").read()
    for m in re.finditer(r"^[ \t]*#[ \t]*define[ \t]+(\w+)\(([^)]*)\)((?:[^\n]*\\\n)*[^\n]*)", raw, flags=re.M):
        out["#" + m.group(1)] = hashlib.sha1(re.sub(r"[\s\\]+", "", strip(m.group(3))).encode()).hexdigest()[:16]
    return out


def snapshot(repo):
    snap = {}
    for d in DIRS:
        full = os.path.join(repo, d)
        if not os.path.isdir(full):
            continue
        for f in sorted(os.listdir(full)):
            if f.endswith((".c", ".h")):
                snap[os.path.join(d, f)] = functions(os.path.join(full, f))
    return snap


def diff(repo, ref_path):
    """[(file, function, 'changed'|'added'|'removed')]"""
    ref = json.load(open(ref_path))
    cur = snapshot(repo)
    out = []
    for f in sorted(set(ref) | set(cur)):
        a, b = ref.get(f, {}), cur.get(f, {})
        for fn in sorted(set(a) | set(b)):
            if fn not in b:
                out.append((f, fn, "removed"))
            elif fn not in a:
                out.append((f, fn, "added"))
            elif a[fn] != b[fn]:
                out.append((f, fn, "changed"))
    return out


if __name__ == "__main__":
    if sys.argv[1] == "snapshot":
        json.dump(snapshot(sys.argv[2]), sys.stdout, indent=0, sort_keys=True)
    else:
        for t in diff(sys.argv[2], sys.argv[3]):
            print(*t)
