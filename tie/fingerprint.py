#!/usr/bin/env python3
"""Fingerprints of the C functions the hand-written model transcribes.

`fingerprint.py snapshot REPO > tie/fingerprints.json` records, for the tree the model was validated
against, a hash of every function body (comments and white space removed) in libjwt/ and tools/.
On every check run the current tree is compared with it: a changed, added or removed function in a file
the property is anchored in is NOT a violation (the theorems and the correspondence decide that) -- it
makes the check explore at its thorough bounds, because the code the model was written from is no longer
the code that is there."""
import hashlib
import json
import os
import re
import sys

DIRS = ["libjwt", "libjwt/openssl", "libjwt/gnutls", "tools"]


def strip(src):
    src = re.sub(r"/\*.*?\*/", " ", src, flags=re.S)
    src = re.sub(r"//[^\n]*", " ", src)
    src = re.sub(r"#\s*ifdef\s+__cplusplus.*?#\s*endif", " ", src, flags=re.S)
    return src


def functions(path):
    src = strip(open(path, errors="replace").read())
    src = re.sub(r"^[ \t]*#(?:[^\n]*\\\n)*[^\n]*", " ", src, flags=re.M)     # preprocessor lines (macros are hashed below)
    out = {}
    # a definition: identifier '(' ... ')' followed by '{' at brace depth 0
    depth = 0
    i = 0
    n = len(src)
    last_stmt = 0
    while i < n:
        c = src[i]
        if c == '"' or c == "'":
            j = i + 1
            while j < n and src[j] != c:
                j += 2 if src[j] == "\\" else 1
            i = j + 1
            continue
        if c == "{":
            if depth == 0:
                head = src[last_stmt:i]
                m = re.search(r"(\w+(?:\s*\(\s*\w+\s*\))?)\s*\([^;{}()]*(?:\([^()]*\)[^;{}()]*)*\)\s*$", head, flags=re.S)
                # body
                d, j = 1, i + 1
                while j < n and d:
                    if src[j] == '"' or src[j] == "'":
                        q = src[j]
                        j += 1
                        while j < n and src[j] != q:
                            j += 2 if src[j] == "\\" else 1
                    elif src[j] == "{":
                        d += 1
                    elif src[j] == "}":
                        d -= 1
                    j += 1
                if m and m.group(1) not in ("if", "while", "for", "switch"):
                    body = re.sub(r"\s+", "", head[m.start():] + src[i:j])
                    name = re.sub(r"\s+", "", m.group(1))
                    k = 2
                    while name in out:          # the same name defined under different #if branches
                        name = "%s#%d" % (re.sub(r"#\d+$", "", name), k)
                        k += 1
                    out[name] = hashlib.sha1(body.encode()).hexdigest()[:16]
                    i = j
                    last_stmt = j
                    continue
            depth += 1
        elif c == "}":
            depth -= 1
        elif c == ";" and depth == 0:
            last_stmt = i + 1
        i += 1
    # macros with bodies count too (the list and base64 macros carry logic)
    raw = open(path, errors="replace").read()
    for m in re.finditer(r"^[ \t]*#[ \t]*define[ \t]+(\w+)\(([^)]*)\)((?:[^\n]*\\\n)*[^\n]*)", raw, flags=re.M):
        out["#" + m.group(1)] = hashlib.sha1(re.sub(r"[\s\\]+", "", strip(m.group(3))).encode()).hexdigest()[:16]
    return out


def snapshot(repo):
    snap = {}
    for d in DIRS:
        full = os.path.join(repo, d)
        if not os.path.isdir(full):
            continue
        for f in sorted(os.listdir(full)):
            if f.endswith((".c", ".h")):
                snap[os.path.join(d, f)] = functions(os.path.join(full, f))
    return snap


def diff(repo, ref_path):
    """[(file, function, 'changed'|'added'|'removed')]"""
    ref = json.load(open(ref_path))
    cur = snapshot(repo)
    out = []
    for f in sorted(set(ref) | set(cur)):
        a, b = ref.get(f, {}), cur.get(f, {})
        for fn in sorted(set(a) | set(b)):
            if fn not in b:
                out.append((f, fn, "removed"))
            elif fn not in a:
                out.append((f, fn, "added"))
            elif a[fn] != b[fn]:
                out.append((f, fn, "changed"))
    return out


def _eval_int(expr, macros, depth=0):
    """value of a constant expression made of integer literals, other object-like macros and + - * / << >> ( ); None otherwise"""
    expr = re.sub(r"\b(0[xX][0-9a-fA-F]+|\d+)[uUlL]*\b", lambda m: str(int(m.group(1), 0)) if not (m.group(1).startswith("0") and m.group(1).isdigit() and len(m.group(1)) > 1) else str(int(m.group(1), 8)), expr)
    def sub(m):
        v = macros.get(m.group(0))
        if v is None or depth > 6:
            raise ValueError(m.group(0))
        r = _eval_int(v, macros, depth + 1)
        if r is None:
            raise ValueError(m.group(0))
        return str(r)
    try:
        expr = re.sub(r"\b[A-Za-z_]\w*\b", sub, expr)
    except ValueError:
        return None
    if not re.fullmatch(r"[\d\s()+\-*/<>]+", expr) or not re.search(r"\d", expr):
        return None
    try:
        v = eval(expr.replace("/", "//"), {"__builtins__": {}}, {})
    except Exception:
        return None
    return v if isinstance(v, int) else None


def constants(repo):
    """{file: {value: occurrences}} -- integer literals in the code of each file plus the values its object-like
    macros evaluate to.  Used only to steer size sweeps (a size that newly appears in the source is a size worth
    standing on both sides of), never for a verdict."""
    macros, texts = {}, {}
    for d in DIRS:
        full = os.path.join(repo, d)
        if not os.path.isdir(full):
            continue
        for f in sorted(os.listdir(full)):
            if f.endswith((".c", ".h")):
                src = strip(open(os.path.join(full, f), errors="replace").read())
                src = re.sub(r'"(?:\\.|[^"\\\n])*"', '""', src)
                src = re.sub(r"'(?:\\.|[^'\\\n])*'", "0", src)
                texts[os.path.join(d, f)] = src
                for m in re.finditer(r"^[ \t]*#[ \t]*define[ \t]+(\w+)[ \t]+((?:[^\n]*\\\n)*[^\n]*)", src, flags=re.M):
                    macros.setdefault(m.group(1), m.group(2).replace("\\\n", " ").strip())
    out = {}
    for f, src in texts.items():
        cnt = {}
        for m in re.finditer(r"(?<![\w.])(0[xX][0-9a-fA-F]+|\d+)[uUlL]*(?![\w.])", src):
            try:
                v = int(m.group(1), 0) if not (m.group(1).isdigit() and m.group(1).startswith("0") and len(m.group(1)) > 1) else int(m.group(1), 8)
            except ValueError:
                continue
            cnt[v] = cnt.get(v, 0) + 1
        for m in re.finditer(r"^[ \t]*#[ \t]*define[ \t]+(\w+)[ \t]+((?:[^\n]*\\\n)*[^\n]*)", src, flags=re.M):
            v = _eval_int(m.group(2).replace("\\\n", " "), macros)
            if v is not None and not re.fullmatch(r"\s*\(?\s*(0[xX][0-9a-fA-F]+|\d+)[uUlL]*\s*\)?\s*", m.group(2)):
                cnt[v] = cnt.get(v, 0) + 1
        out[f] = {str(k): n for k, n in sorted(cnt.items())}
    return out


def hints(repo, ref_path):
    """sizes that occur more often in some file of the current tree than in the tree the model was validated against"""
    ref = json.load(open(ref_path))
    cur = constants(repo)
    out = set()
    for f, cnt in cur.items():
        old = ref.get(f, {})
        for k, n in cnt.items():
            if n > old.get(k, 0) and 8 <= int(k) <= 1 << 40:
                out.add(int(k))
    return sorted(out)


if __name__ == "__main__":
    if sys.argv[1] == "constants":
        json.dump(constants(sys.argv[2]), sys.stdout, indent=0, sort_keys=True)
    elif sys.argv[1] == "hints":
        print(hints(sys.argv[2], sys.argv[3]))
    elif sys.argv[1] == "snapshot":
        json.dump(snapshot(sys.argv[2]), sys.stdout, indent=0, sort_keys=True)
    else:
        for t in diff(sys.argv[2], sys.argv[3]):
            print(*t)
