"""Decision skeletons of the verification pipeline (jwt-verify.c, jwt-common.c) -> Jwt/Generated/Pipeline.lean.

For each function the ORDER of tests, which of them end the call, what each exit returns and whether it has written
(or copied) an error message are taken from the C text, statement by statement, over the mini-C parser tie/cmini.py.
What the tests are ABOUT -- the outcome of a callee, a pointer being NULL -- appears as a parameter of the generated
function (an "atom"); Jwt/Lemmas/Pipeline.lean instantiates the atoms with the corresponding values of the
hand-written model and proves the model's verdict equal to the generated one's.

Statements that only move data (assignments, releases, the calls whose outcome is an atom) must be listed per function;
an unlisted statement, an unknown condition or an unknown loop is refused (PipelineError), which breaks the tie."""
import os
import re

import cmini


class PipelineError(Exception):
    pass


def strip_c(src):
    src = re.sub(r"/\*.*?\*/", " ", src, flags=re.S)
    src = re.sub(r"//[^\n]*", " ", src)
    src = re.sub(r"^[ \t]*#(?:[^\n]*\\\n)*[^\n]*", " ", src, flags=re.M)
    return src


def find_body(src, header_re, what):
    m = re.search(header_re, src)
    if not m:
        raise PipelineError("%s not found" % what)
    i = src.index("{", m.end() - 1)
    depth, j = 0, i
    while j < len(src):
        if src[j] == "{":
            depth += 1
        elif src[j] == "}":
            depth -= 1
            if depth == 0:
                return src[i:j + 1]
        j += 1
    raise PipelineError("unbalanced braces in %s" % what)


class Skeleton:
    def __init__(self, name, body, atoms, effects, rets, scans=(), flags=("w",), drop_decl=True):
        self.name, self.atoms, self.effects, self.rets = name, atoms, set(effects), rets
        self.scans = list(scans)
        self.flags = list(flags)
        self.ast = cmini.parse_body(name, body)
        self.messages = []
        self.used_atoms = []
        self.seen_effects = set()

    # ---- conditions ----
    def cond(self, e):
        txt = cmini.show(e)
        if txt in self.atoms:
            lean, kind = self.atoms[txt]
            if lean not in self.used_atoms:
                self.used_atoms.append(lean)
            if kind == "ptr":
                return "(%s = false)" % lean            # a pointer in boolean context: not NULL
            if kind == "bool":
                return "(%s = true)" % lean
            raise PipelineError("%s: atom kind %s" % (self.name, kind))
        k = e[0]
        if k == "un" and e[1] == "!":
            return "(¬ %s)" % self.cond(e[2])
        if k == "bin" and e[1] in ("&&", "||"):
            return "(%s %s %s)" % (self.cond(e[2]), "∧" if e[1] == "&&" else "∨", self.cond(e[3]))
        if k == "bin" and e[1] in ("==", "!=") and e[3] == ("id", "NULL"):
            t2 = cmini.show(e[2])
            if t2 in self.atoms and self.atoms[t2][1] == "ptr":
                lean = self.atoms[t2][0]
                if lean not in self.used_atoms:
                    self.used_atoms.append(lean)
                return "(%s = %s)" % (lean, "true" if e[1] == "==" else "false")
        raise PipelineError("%s: condition `%s` is not among the known tests" % (self.name, txt))

    # ---- statements ----
    def is_effect(self, s):
        """a statement that only moves data: listed for this function"""
        if s[0] == "expr":
            t = cmini.show(s[1])
            if t in self.effects:
                self.seen_effects.add(t)
                return True
            return False
        if s[0] == "decl":
            for name, stars, arr, init in s[2]:
                t = "decl %s" % name + ((" = " + cmini.show(init)) if init is not None and init[0] != "aggr" else "")
                if t not in self.effects:
                    return False
                self.seen_effects.add(t)
            return True
        if s[0] == "empty":
            return True
        if s[0] == "block":
            return all(self.is_effect(x) for x in s[1])
        if s[0] == "if" and s[3] is None:
            # `if (p) release(p);` -- the test guards an effect only
            t = "if (%s) …" % cmini.show(s[1])
            if t in self.effects and self.is_effect(s[2]):
                self.seen_effects.add(t)
                return True
        return False

    def flag_set(self, env, name):
        env = dict(env)
        env[name] = "true"
        return env

    def result(self, val, env):
        return "(%s)" % ", ".join([val] + [env[f] for f in self.flags])

    def stmts(self, ss, env, ind):
        pad = "  " * ind
        if not ss:
            raise PipelineError("%s: control reaches the end of the function without a return" % self.name)
        s, rest = ss[0], list(ss[1:])
        if s[0] == "block" and not self.is_effect(s):
            return self.stmts(list(s[1]) + rest, env, ind)
        if self.is_effect(s):
            return self.stmts(rest, env, ind)
        k = s[0]
        if k == "return":
            t = cmini.show(s[1]) if s[1] is not None else "void"
            if t not in self.rets:
                raise PipelineError("%s: `return %s` is not among the known results" % (self.name, t))
            v = self.rets[t]
            if not re.fullmatch(r"\d+", v) and v not in self.used_atoms:
                self.used_atoms.append(v)
            return [pad + self.result(v, env)]
        if k == "expr" and s[1][0] == "call" and s[1][1] == "jwt_write_error":
            args = s[1][2]
            obj = cmini.show(args[0])
            msg = args[1][1] if args[1][0] == "str" else "?"
            self.messages.append((obj, msg))
            flag = "w" if len(self.flags) == 1 or obj == "__cmd" else "wj"
            if flag not in self.flags:
                raise PipelineError("%s: message written to %s" % (self.name, obj))
            return self.stmts(rest, self.flag_set(env, flag), ind)
        if k == "expr" and s[1][0] == "call" and s[1][1] == "jwt_copy_error":
            if "copied" not in self.flags:
                raise PipelineError("%s: jwt_copy_error" % self.name)
            return self.stmts(rest, self.flag_set(env, "copied"), ind)
        if k == "if":
            c = self.cond(s[1])
            th = self.stmts([s[2]] + rest, env, ind + 1)
            el = self.stmts(([s[3]] if s[3] else []) + rest, env, ind + 1)
            return [pad + "if %s then" % c] + th + [pad + "else"] + el
        if k == "for":
            # for (P = S; P[0] != '.'; P++) { if (P[0] == '\0') { …; return 1; } }   -- the scan for the next dot
            init, cnd, step, body = s[1], s[2], s[3], s[4]
            ok = (init and init[0] == "expr" and init[1][0] == "assign" and init[1][2][0] == "id")
            if ok:
                p = init[1][2]
                inner = body[1][0] if body[0] == "block" and len(body[1]) == 1 else body
                ok = (cnd == ("bin", "!=", ("idx", p, ("num", 0)), ("chr", 46)) and step == ("postinc", p) and inner[0] == "if" and inner[3] is None
                      and inner[1] == ("bin", "==", ("idx", p, ("num", 0)), ("chr", 0)))
            if not ok or not self.scans:
                raise PipelineError("%s: a loop that is not the scan for the next dot" % self.name)
            atom = self.scans.pop(0)
            self.used_atoms.append(atom)
            th = self.stmts([inner[2]], env, ind + 1)          # the NUL was met first: this branch must return
            el = self.stmts(rest, env, ind + 1)
            return [pad + "if (%s = true) then" % atom] + th + [pad + "else"] + el
        if k == "expr":
            raise PipelineError("%s: statement `%s` is neither a known data movement nor a test" % (self.name, cmini.show(s[1])))
        if k == "decl":
            raise PipelineError("%s: declaration of %s" % (self.name, ", ".join(n for n, _, _, _ in s[2])))
        raise PipelineError("%s: statement kind %s" % (self.name, k))

    def lean(self, lean_name, params, doc):
        env = {f: "false" for f in self.flags}
        lines = self.stmts(self.ast, env, 1)
        missing = [a for a in self.used_atoms if a not in [p for p, _ in params]]
        if missing:
            raise PipelineError("%s: tests on %s have no parameter" % (self.name, missing))
        unused = self.effects - self.seen_effects
        if unused:
            raise PipelineError("%s: expected data movements are gone: %s" % (self.name, sorted(unused)[:3]))
        sig = "def %s %s : %s :=" % (lean_name, " ".join("(%s : %s)" % p for p in params), " × ".join(["Nat"] + ["Bool"] * len(self.flags)))
        return ["/-- %s -/" % doc, sig] + lines


def generate(repo):
    ver = strip_c(open(os.path.join(repo, "libjwt/jwt-verify.c")).read())
    com = strip_c(open(os.path.join(repo, "libjwt/jwt-common.c"), errors="replace").read())
    # jwt-common.c is compiled twice (builder / checker); FUNC(verify) exists under JWT_CHECKER only -- take the text as written
    com_raw = open(os.path.join(repo, "libjwt/jwt-common.c"), errors="replace").read()
    com_raw = re.sub(r"/\*.*?\*/", " ", com_raw, flags=re.S)
    com_raw = re.sub(r"//[^\n]*", " ", com_raw)
    out = ["/- GENERATED by tie/extract.py (tie/pipeline.py over tie/cmini.py) from libjwt/jwt-verify.c and libjwt/jwt-common.c -- do not edit.",
           "   The decision skeleton of the verification pipeline: the order of the tests, which of them end the call, what every",
           "   exit returns, whether it has written a message (`w`; `wj` = on the per-call object) or copied the per-call object's",
           "   error state to the checker (`copied`).  What a test is about (a callee's outcome, a pointer being NULL) is a parameter.",
           "   Jwt/Lemmas/Pipeline.lean proves the hand-written model's verdicts equal to these. -/",
           "namespace Jwt.Generated.Pipeline", ""]
    info = {}

    def emit(sk, lean_name, params, doc):
        out.extend(sk.lean(lean_name, params, doc))
        out.append("")
        info[lean_name] = {"messages": sk.messages, "atoms": sk.used_atoms}

    # ---- jwt_parse_payload ----
    sk = Skeleton("jwt_parse_payload", find_body(ver, r"static\s+int\s+jwt_parse_payload\s*\(", "jwt_parse_payload"),
                  atoms={"jwt->claims": ("claimsNull", "ptr")},
                  effects={"if (jwt->claims) …", "json_decrefp(&jwt->claims)", "jwt->claims = jwt_base64uri_decode_to_json(payload)"},
                  rets={"0": "0", "1": "1"})
    # the first `if (jwt->claims)` guards a release of the PREVIOUS value; the test after the assignment is about the new one
    emit(sk, "parsePayload", [("claimsNull", "Bool")],
         "jwt-verify.c `jwt_parse_payload`: `claimsNull` = `jwt_base64uri_decode_to_json(payload)` returned NULL")
    # ---- jwt_parse_head ----
    sk = Skeleton("jwt_parse_head", find_body(ver, r"static\s+int\s+jwt_parse_head\s*\(", "jwt_parse_head"),
                  atoms={"jwt->headers": ("headersNull", "ptr"), "jalg": ("jalgNull", "ptr"), "json_is_string(jalg)": ("jalgIsString", "bool"),
                         "(jwt->alg >= JWT_ALG_INVAL)": ("algInval", "bool")},
                  effects={"decl jalg", "if (jwt->headers) …", "json_decrefp(&jwt->headers)", "jwt->headers = jwt_base64uri_decode_to_json(head)",
                           "jwt->alg = JWT_ALG_NONE", "jalg = json_object_get(jwt->headers, \"alg\")", "decl alg = json_string_value(jalg)",
                           "jwt->alg = jwt_str_alg(alg)"},
                  rets={"0": "0", "1": "1"})
    emit(sk, "parseHead", [("headersNull", "Bool"), ("jalgNull", "Bool"), ("jalgIsString", "Bool"), ("algInval", "Bool")],
         "jwt-verify.c `jwt_parse_head`: `headersNull` = the header segment did not decode to JSON; `jalgNull` = no `alg` member; "
         "`algInval` = `jwt_str_alg` of its text is `JWT_ALG_INVAL`")
    # ---- jwt_parse ----
    sk = Skeleton("jwt_parse", find_body(ver, r"\nint\s+jwt_parse\s*\(", "jwt_parse"),
                  atoms={"head": ("copyNull", "ptr"), "jwt_parse_head(jwt, head)": ("headFails", "bool"), "jwt_parse_payload(jwt, payload)": ("payloadFails", "bool")},
                  effects={"decl head = NULL", "decl payload", "decl sig", "decl head_len = (strlen(token) + 1)", "head = jwt_malloc(head_len)",
                           "memcpy(head, token, head_len)", "payload[0] = '\\x00'", "payload++", "sig[0] = '\\x00'", "*len = (sig - head)"},
                  rets={"0": "0", "1": "1"}, scans=["noDot1", "noDot2"])
    emit(sk, "parse", [("copyNull", "Bool"), ("noDot1", "Bool"), ("noDot2", "Bool"), ("headFails", "Bool"), ("payloadFails", "Bool")],
         "jwt-verify.c `jwt_parse`: `noDot1` / `noDot2` = the scan met the NUL before the first / second dot; `headFails` / `payloadFails` = "
         "`jwt_parse_head` / `jwt_parse_payload` returned non-zero (they have written the message)")
    # ---- jwt_verify_complete: every exit returns the token object; the result says whether the signature was looked at ----
    sk = Skeleton("jwt_verify_complete", find_body(ver, r"\njwt_t\s*\*\s*jwt_verify_complete\s*\(", "jwt_verify_complete"),
                  atoms={"__verify_config_post(jwt, config, sig_len)": ("configPostFails", "bool"), "sig_len": ("sigEmpty", "ptr")},
                  effects={"decl sig", "decl sig_len", "sig = (token + (payload_len + 1))", "sig_len = strlen(sig)", "jwt->key = config->key"},
                  rets={"jwt": "0", "jwt_verify_sig(jwt, token, payload_len, sig)": "1"})
    emit(sk, "verifyComplete", [("configPostFails", "Bool"), ("sigEmpty", "Bool")],
         "jwt-verify.c `jwt_verify_complete`: result 1 = the call ends in `jwt_verify_sig`, 0 = it returns before; `sigEmpty` = nothing follows the second dot")
    # ---- jwt_checker_verify ----
    body = find_body(com_raw, r"\nint\s+FUNC\s*\(\s*verify\s*\)\s*\(", "FUNC(verify)")
    body = re.sub(r"^[ \t]*#[^\n]*", " ", body, flags=re.M)
    body = body.replace("JWT_CONFIG_DECLARE(config);", "jwt_config_t config;").replace("jwt_auto_t", "jwt_t")
    sk = Skeleton("jwt_checker_verify", body,
                  atoms={"__cmd": ("cmdNull", "ptr"), "token": ("tokenNull", "ptr"), "strlen(token)": ("tokenEmpty", "ptr"), "jwt": ("jwtNull", "ptr"),
                         "jwt_parse(jwt, token, &payload_len)": ("parseFails", "bool"), "__cmd->c->cb": ("cbNull", "ptr"), "claims": ("claimsCopyNull", "ptr"),
                         "cb_ret": ("cbRetZero", "ptr"), "__setkey_check(__cmd, config->alg, config->key)": ("setkeyFails", "bool")},
                  effects={"decl config", "decl payload_len", "decl jwt = NULL", "jwt = jwt_new()", "config->key = __cmd->c->key", "config->alg = __cmd->c->alg",
                           "config->ctx = __cmd->c->cb_ctx", "decl claims = json_deep_copy(jwt->claims)", "decl cb_ret", "cb_ret = __cmd->c->cb(jwt, &config)",
                           "json_decref(jwt->claims)", "jwt->claims = claims", "jwt->key = config->key", "jwt->checker = __cmd",
                           "jwt = jwt_verify_complete(jwt, &config, token, payload_len)"},
                  rets={"1": "1", "__cmd->error": "errFlag"}, flags=("w", "copied"))
    emit(sk, "checkerVerify", [("cmdNull", "Bool"), ("tokenNull", "Bool"), ("tokenEmpty", "Bool"), ("jwtNull", "Bool"), ("parseFails", "Bool"), ("cbNull", "Bool"),
                               ("claimsCopyNull", "Bool"), ("cbRetZero", "Bool"), ("setkeyFails", "Bool"), ("errFlag", "Nat")],
         "jwt-common.c `jwt_checker_verify` (FUNC(verify)): `tokenEmpty` = `strlen(token)` is 0; `jwtNull` / `claimsCopyNull` = an allocation failed; "
         "`cbRetZero` = the callback returned 0; `setkeyFails` = `__setkey_check` on what the callback left refused (it has written the message); "
         "`errFlag` = the checker's error flag after `jwt_verify_complete` and the copy")
    out.append("end Jwt.Generated.Pipeline")
    return "\n".join(out) + "\n", info


if __name__ == "__main__":
    import sys
    text, info = generate(sys.argv[1])
    sys.stdout.write(text)
