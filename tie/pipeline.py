"""Decision skeletons of the verification pipeline (jwt-verify.c, jwt-common.c) -> Jwt/Generated/Pipeline.lean.

For each function the ORDER of tests, which of them end the call, what each exit returns and whether it has written
(or copied) an error message are taken from the C text, statement by statement, over the mini-C parser tie/cmini.py.
What the tests are ABOUT -- the outcome of a callee, a pointer being NULL -- appears as a parameter of the generated
function (an "atom"); Jwt/Lemmas/Pipeline.lean instantiates the atoms with the corresponding values of the
hand-written model and proves the model's verdict equal to the generated one's.

Statements that only move data (assignments, releases, the calls whose outcome is an atom) must be listed per function;
an unlisted statement, an unknown condition or an unknown loop is refused (PipelineError), which breaks the tie."""
import os
import re

import cmini


class PipelineError(Exception):
    pass


def strip_c(src):
    src = re.sub(r"/\*.*?\*/", " ", src, flags=re.S)
    src = re.sub(r"//[^\n]*", " ", src)
    src = re.sub(r"^[ \t]*#(?:[^\n]*\\\n)*[^\n]*", " ", src, flags=re.M)
    return src


def find_body(src, header_re, what):
    m = re.search(header_re, src)
    if not m:
        raise PipelineError("%s not found" % what)
    i = src.index("{", m.end() - 1)
    depth, j = 0, i
    while j < len(src):
        if src[j] == "{":
            depth += 1
        elif src[j] == "}":
            depth -= 1
            if depth == 0:
                return src[i:j + 1]
        j += 1
    raise PipelineError("unbalanced braces in %s" % what)


class Skeleton:
    def __init__(self, name, body, atoms, effects, rets, scans=(), flags=("w",), sets=None, consts=None, flag_effects=None):
        """sets: effect text -> (atom text, [terms]): the statement gives the atom a new value -- the next term of the list for each
        occurrence of the statement in the source ("true"/"false" or the name of a fresh parameter);
        consts: effect text -> (variable, value): `return variable` then returns that value"""
        self.name, self.atoms, self.effects, self.rets = name, atoms, set(effects), rets
        self.sets = {k: ([(a, list(t)) for a, t in v] if isinstance(v, list) else [(v[0], list(v[1]))]) for k, v in (sets or {}).items()}
        self.consts = dict(consts or {})
        self.flag_effects = dict(flag_effects or {})       # effect text -> flag it raises (what the call stores)
        self.node_term = {}
        self.scans = list(scans)
        self.flags = list(flags)
        self.ast = cmini.parse_body(name, body)
        self.messages = []
        self.used_atoms = []
        self.seen_effects = set()

    # ---- conditions ----
    def cond(self, e, env=None):
        env = env or {}
        txt = cmini.show(e)
        if txt in self.atoms:
            lean, kind = self.atoms[txt]
            lean = env.get("a:" + txt, lean)
            if lean in ("true", "false"):
                return "True" if (lean == "true") == (kind == "bool") else "False"
            if lean not in self.used_atoms:
                self.used_atoms.append(lean)
            if kind == "ptr":
                return "(%s = false)" % lean            # a pointer in boolean context: not NULL
            if kind == "bool":
                return "(%s = true)" % lean
            raise PipelineError("%s: atom kind %s" % (self.name, kind))
        k = e[0]
        if k == "un" and e[1] == "!":
            return "(¬ %s)" % self.cond(e[2], env)
        if k == "bin" and e[1] in ("&&", "||"):
            return "(%s %s %s)" % (self.cond(e[2], env), "∧" if e[1] == "&&" else "∨", self.cond(e[3], env))
        if k == "bin" and e[1] == "!=" and cmini.show(("bin", "==", e[2], e[3])) in self.atoms:
            return "(¬ %s)" % self.cond(("bin", "==", e[2], e[3]), env)
        if k == "bin" and e[1] in ("==", "!=") and e[3] == ("id", "NULL"):
            t2 = cmini.show(e[2])
            if t2 in self.atoms and self.atoms[t2][1] == "ptr":
                lean = env.get("a:" + t2, self.atoms[t2][0])
                if lean not in self.used_atoms:
                    self.used_atoms.append(lean)
                return "(%s = %s)" % (lean, "true" if e[1] == "==" else "false")
        raise PipelineError("%s: condition `%s` is not among the known tests" % (self.name, txt))

    # ---- statements ----
    def is_effect(self, s):
        """a statement that only moves data: listed for this function"""
        if s[0] == "expr":
            t = cmini.show(s[1])
            if t in self.effects:
                self.seen_effects.add(t)
                return True
            return False
        if s[0] == "decl":
            for name, stars, arr, init in s[2]:
                t = "decl %s" % name + ((" = " + cmini.show(init)) if init is not None and init[0] != "aggr" else "")
                if t not in self.effects:
                    return False
                self.seen_effects.add(t)
            return True
        if s[0] == "empty":
            return True
        if s[0] == "block":
            return all(self.is_effect(x) for x in s[1])
        if s[0] == "if" and s[3] is None:
            # `if (p) release(p);` -- the test guards an effect only
            t = "if (%s) …" % cmini.show(s[1])
            if t in self.effects and self.is_effect(s[2]):
                self.seen_effects.add(t)
                return True
        return False

    def flag_set(self, env, name):
        env = dict(env)
        env[name] = "true"
        return env

    def result(self, val, env):
        return "(%s)" % ", ".join([val] + [env[f] for f in self.flags])

    def expected_effects(self):
        return self.effects | set(self.sets) | set(self.flag_effects)

    def stmts(self, ss, env, ind):
        pad = "  " * ind
        if not ss:
            if "void" in self.rets:
                return [pad + self.result(self.rets["void"], env)]         # a void function ends
            raise PipelineError("%s: control reaches the end of the function without a return" % self.name)
        s, rest = ss[0], list(ss[1:])
        if s[0] == "block" and not self.is_effect(s):
            return self.stmts(list(s[1]) + rest, env, ind)
        if s[0] == "expr" and cmini.show(s[1]) in self.sets:
            t = cmini.show(s[1])
            if id(s) not in self.node_term:
                picked = []
                for atom, terms in self.sets[t]:
                    if not terms:
                        raise PipelineError("%s: more occurrences of `%s` than expected" % (self.name, t))
                    picked.append((atom, terms.pop(0)))
                self.node_term[id(s)] = picked
            self.seen_effects.add(t)
            env = dict(env)
            for atom, term in self.node_term[id(s)]:
                env["a:" + atom] = term
            return self.stmts(rest, env, ind)
        if s[0] == "loopmacro":
            # a loop whose body only moves data, listed as one effect: `json_array_foreach(a, i, x) <body>`
            body = s[3][1] if s[3][0] == "block" else [s[3]]
            t = "%s(%s) %s" % (s[1], ", ".join(cmini.show(a) for a in s[2]), "; ".join(cmini.show(b[1]) if b[0] == "expr" else b[0] for b in body))
            if t in self.flag_effects:
                self.seen_effects.add(t)
                return self.stmts(rest, self.flag_set(env, self.flag_effects[t]), ind)
            raise PipelineError("%s: loop `%s` is not a known data movement" % (self.name, t))
        if s[0] == "expr" and cmini.show(s[1]) in self.flag_effects:
            self.seen_effects.add(cmini.show(s[1]))
            return self.stmts(rest, self.flag_set(env, self.flag_effects[cmini.show(s[1])]), ind)
        if s[0] == "expr" and cmini.show(s[1]) in self.consts:
            var, val = self.consts[cmini.show(s[1])]
            env = dict(env)
            env["c:" + var] = val
            return self.stmts(rest, env, ind)
        if self.is_effect(s):
            return self.stmts(rest, env, ind)
        k = s[0]
        if k == "return":
            t = cmini.show(s[1]) if s[1] is not None else "void"
            if "c:" + t in env:
                return [pad + self.result(env["c:" + t], env)]
            if t not in self.rets:
                raise PipelineError("%s: `return %s` is not among the known results" % (self.name, t))
            v = self.rets[t]
            if not re.fullmatch(r"\d+", v) and v not in self.used_atoms:
                self.used_atoms.append(v)
            return [pad + self.result(v, env)]
        if k == "break":
            if not getattr(self, "_brk", None):
                raise PipelineError("%s: break outside a switch" % self.name)
            return self.stmts(list(self._brk[-1]), env, ind)
        if k == "expr" and s[1][0] == "call" and s[1][1] == "jwt_write_error":
            args = s[1][2]
            obj = cmini.show(args[0])
            msg = args[1][1] if args[1][0] == "str" else "?"
            self.messages.append((obj, msg))
            flag = "w" if (len(self.flags) == 1 or obj == "__cmd" or "wj" not in self.flags) else "wj"
            if flag not in self.flags:
                raise PipelineError("%s: message written to %s" % (self.name, obj))
            return self.stmts(rest, self.flag_set(env, flag), ind)
        if k == "expr" and s[1][0] == "call" and s[1][1] == "jwt_copy_error":
            if "copied" not in self.flags:
                raise PipelineError("%s: jwt_copy_error" % self.name)
            return self.stmts(rest, self.flag_set(env, "copied"), ind)
        if k == "if":
            c = self.cond(s[1], env)
            th = self.stmts([s[2]] + rest, env, ind + 1)
            el = self.stmts(([s[3]] if s[3] else []) + rest, env, ind + 1)
            return [pad + "if %s then" % c] + th + [pad + "else"] + el
        if k == "switch":
            # arms that end in `break` or `return`; no fall-through between non-empty arms (the parser merges stacked labels)
            arms = s[2]
            default = None
            chain = []

            def terminates(x):
                if x[0] in ("return", "break"):
                    return True
                if x[0] == "block":
                    return bool(x[1]) and terminates(x[1][-1])
                if x[0] == "if":
                    return x[3] is not None and terminates(x[2]) and terminates(x[3])
                return False
            if not hasattr(self, "_brk"):
                self._brk = []
            self._brk.append(rest)          # where a `break` (also one nested in an if) continues
            for ai, (labels, body) in enumerate(arms):
                if not (body and terminates(body[-1])):
                    if ai == len(arms) - 1:
                        body = list(body) + [("break",)]         # the last arm runs out of the switch
                    else:
                        raise PipelineError("%s: a switch arm that falls through" % self.name)
                if "default" in labels:
                    default = body
                    labels = [l for l in labels if l != "default"]
                    if labels:
                        raise PipelineError("%s: default stacked with other labels" % self.name)
                    continue
                chain.append((labels, body))
            def build(i, ind2):
                p2 = "  " * ind2
                if i == len(chain):
                    return self.stmts(list(default) if default is not None else [("break",)], env, ind2)
                labels, body = chain[i]
                cs = []
                for l in labels:
                    c_ = self.cond(("bin", "==", s[1], l), env)
                    if c_ not in cs:
                        cs.append(c_)
                c = cs[0] if len(cs) == 1 else "(" + " ∨ ".join(cs) + ")"
                return [p2 + "if %s then" % c] + self.stmts(list(body), env, ind2 + 1) + [p2 + "else"] + build(i + 1, ind2 + 1)
            try:
                return build(0, ind)
            finally:
                self._brk.pop()
        if k == "for":
            # for (P = S; P[0] != '.'; P++) { if (P[0] == '\0') { …; return 1; } }   -- the scan for the next dot
            init, cnd, step, body = s[1], s[2], s[3], s[4]
            ok = (init and init[0] == "expr" and init[1][0] == "assign" and init[1][2][0] == "id")
            if ok:
                p = init[1][2]
                inner = body[1][0] if body[0] == "block" and len(body[1]) == 1 else body
                ok = (cnd == ("bin", "!=", ("idx", p, ("num", 0)), ("chr", 46)) and step == ("postinc", p) and inner[0] == "if" and inner[3] is None
                      and inner[1] == ("bin", "==", ("idx", p, ("num", 0)), ("chr", 0)))
            if not ok or not self.scans:
                raise PipelineError("%s: a loop that is not the scan for the next dot" % self.name)
            atom = self.scans.pop(0)
            self.used_atoms.append(atom)
            th = self.stmts([inner[2]], env, ind + 1)          # the NUL was met first: this branch must return
            el = self.stmts(rest, env, ind + 1)
            return [pad + "if (%s = true) then" % atom] + th + [pad + "else"] + el
        if k == "expr":
            raise PipelineError("%s: statement `%s` is neither a known data movement nor a test" % (self.name, cmini.show(s[1])))
        if k == "decl":
            raise PipelineError("%s: declaration of %s" % (self.name, ", ".join(n for n, _, _, _ in s[2])))
        raise PipelineError("%s: statement kind %s" % (self.name, k))

    def lean(self, lean_name, params, doc):
        env = {f: "false" for f in self.flags}
        lines = self.stmts(self.ast, env, 1)
        missing = [a for a in self.used_atoms if a not in [p for p, _ in params]]
        if missing:
            raise PipelineError("%s: tests on %s have no parameter" % (self.name, missing))
        unused = self.expected_effects() - self.seen_effects
        if unused:
            raise PipelineError("%s: expected data movements are gone: %s" % (self.name, sorted(unused)[:3]))
        sig = "def %s %s : %s :=" % (lean_name, " ".join("(%s : %s)" % p for p in params), " × ".join(["Nat"] + ["Bool"] * len(self.flags)))
        return ["/-- %s -/" % doc, sig] + lines


def generate(repo):
    ver = strip_c(open(os.path.join(repo, "libjwt/jwt-verify.c")).read())
    com = strip_c(open(os.path.join(repo, "libjwt/jwt-common.c"), errors="replace").read())
    # jwt-common.c is compiled twice (builder / checker); FUNC(verify) exists under JWT_CHECKER only -- take the text as written
    com_raw = open(os.path.join(repo, "libjwt/jwt-common.c"), errors="replace").read()
    com_raw = re.sub(r"/\*.*?\*/", " ", com_raw, flags=re.S)
    com_raw = re.sub(r"//[^\n]*", " ", com_raw)

    _fb = find_body

    def find_body_pp(src, header_re, what):
        """bodies taken from the template file: preprocessor lines inside a body are dropped (both compilations' lines are read)"""
        return re.sub(r"^[ \t]*#[^\n]*", " ", _fb(src, header_re, what), flags=re.M)
    out = ["/- GENERATED by tie/extract.py (tie/pipeline.py over tie/cmini.py) from libjwt/jwt-verify.c and libjwt/jwt-common.c -- do not edit.",
           "   The decision skeleton of the verification pipeline: the order of the tests, which of them end the call, what every",
           "   exit returns, whether it has written a message (`w`; `wj` = on the per-call object) or copied the per-call object's",
           "   error state to the checker (`copied`).  What a test is about (a callee's outcome, a pointer being NULL) is a parameter.",
           "   Jwt/Lemmas/Pipeline.lean proves the hand-written model's verdicts equal to these. -/",
           "namespace Jwt.Generated.Pipeline", ""]
    info = {}

    def emit(sk, lean_name, params, doc):
        out.extend(sk.lean(lean_name, params, doc))
        out.append("")
        info[lean_name] = {"messages": sk.messages, "atoms": sk.used_atoms}

    # ---- jwt_parse_payload ----
    sk = Skeleton("jwt_parse_payload", find_body(ver, r"static\s+int\s+jwt_parse_payload\s*\(", "jwt_parse_payload"),
                  atoms={"jwt->claims": ("claimsNull", "ptr")},
                  effects={"if (jwt->claims) …", "json_decrefp(&jwt->claims)", "jwt->claims = jwt_base64uri_decode_to_json(payload)"},
                  rets={"0": "0", "1": "1"})
    # the first `if (jwt->claims)` guards a release of the PREVIOUS value; the test after the assignment is about the new one
    emit(sk, "parsePayload", [("claimsNull", "Bool")],
         "jwt-verify.c `jwt_parse_payload`: `claimsNull` = `jwt_base64uri_decode_to_json(payload)` returned NULL")
    # ---- jwt_parse_head ----
    sk = Skeleton("jwt_parse_head", find_body(ver, r"static\s+int\s+jwt_parse_head\s*\(", "jwt_parse_head"),
                  atoms={"jwt->headers": ("headersNull", "ptr"), "jalg": ("jalgNull", "ptr"), "json_is_string(jalg)": ("jalgIsString", "bool"),
                         "(jwt->alg >= JWT_ALG_INVAL)": ("algInval", "bool")},
                  effects={"decl jalg", "if (jwt->headers) …", "json_decrefp(&jwt->headers)", "jwt->headers = jwt_base64uri_decode_to_json(head)",
                           "jwt->alg = JWT_ALG_NONE", "jalg = json_object_get(jwt->headers, \"alg\")", "decl alg = json_string_value(jalg)",
                           "jwt->alg = jwt_str_alg(alg)"},
                  rets={"0": "0", "1": "1"})
    emit(sk, "parseHead", [("headersNull", "Bool"), ("jalgNull", "Bool"), ("jalgIsString", "Bool"), ("algInval", "Bool")],
         "jwt-verify.c `jwt_parse_head`: `headersNull` = the header segment did not decode to JSON; `jalgNull` = no `alg` member; "
         "`algInval` = `jwt_str_alg` of its text is `JWT_ALG_INVAL`")
    # ---- jwt_parse ----
    sk = Skeleton("jwt_parse", find_body(ver, r"\nint\s+jwt_parse\s*\(", "jwt_parse"),
                  atoms={"head": ("copyNull", "ptr"), "jwt_parse_head(jwt, head)": ("headFails", "bool"), "jwt_parse_payload(jwt, payload)": ("payloadFails", "bool")},
                  effects={"decl head = NULL", "decl payload", "decl sig", "decl head_len = (strlen(token) + 1)", "head = jwt_malloc(head_len)",
                           "memcpy(head, token, head_len)", "payload[0] = '\\x00'", "payload++", "sig[0] = '\\x00'", "*len = (sig - head)"},
                  rets={"0": "0", "1": "1"}, scans=["noDot1", "noDot2"])
    emit(sk, "parse", [("copyNull", "Bool"), ("noDot1", "Bool"), ("noDot2", "Bool"), ("headFails", "Bool"), ("payloadFails", "Bool")],
         "jwt-verify.c `jwt_parse`: `noDot1` / `noDot2` = the scan met the NUL before the first / second dot; `headFails` / `payloadFails` = "
         "`jwt_parse_head` / `jwt_parse_payload` returned non-zero (they have written the message)")
    # ---- __check_str_claim / __verify_claims ----
    sk = Skeleton("__check_str_claim", find_body(ver, r"static\s+int\s+__check_str_claim\s*\(", "__check_str_claim"),
                  atoms={"(checker->c->claims & claim)": ("bitOn", "bool"), "str": ("expectedNull", "ptr"), "(err != JWT_VALUE_ERR_NONE)": ("getFails", "bool"),
                         "strcmp(str, jval->str_val)": ("equal", "ptr")},
                  effects={"decl checker = jwt->checker", "decl jval", "decl str", "decl err", "str = jwt_checker_claim_get(checker, claim)",
                           "jwt_set_GET_STR(&jval, claim_str)", "err = jwt_claim_get(jwt, &jval)"},
                  rets={"0": "0", "1": "1"})
    emit(sk, "checkStrClaim", [("bitOn", "Bool"), ("expectedNull", "Bool"), ("getFails", "Bool"), ("equal", "Bool")],
         "jwt-verify.c `__check_str_claim`: 1 = the claim fails; `bitOn` = the claim is checked at all, `expectedNull` = the checker holds no expected string, "
         "`getFails` = the token's claim is absent or not a string, `equal` = `strcmp` of the two is 0")
    EOK, ENX = "(err == JWT_VALUE_ERR_NONE)", "(err != JWT_VALUE_ERR_NOEXIST)"
    sk = Skeleton("__verify_claims", find_body(ver, r"static\s+jwt_claims_t\s+__verify_claims\s*\(", "__verify_claims"),
                  atoms={"(checker->c->claims & JWT_CLAIM_EXP)": ("expOn", "bool"), "(checker->c->claims & JWT_CLAIM_NBF)": ("nbfOn", "bool"),
                         EOK: ("?", "bool"), ENX: ("?", "bool"), "(jval->int_val <= (now - checker->c->exp))": ("expPast", "bool"),
                         "(jval->int_val > (now + checker->c->nbf))": ("nbfFuture", "bool"),
                         '__check_str_claim(jwt, JWT_CLAIM_ISS, "iss")': ("issFails", "bool"), '__check_str_claim(jwt, JWT_CLAIM_SUB, "sub")': ("subFails", "bool"),
                         '__check_str_claim(jwt, JWT_CLAIM_AUD, "aud")': ("audFails", "bool")},
                  effects={"decl checker = jwt->checker", "decl jval", "decl now = time(NULL)", "decl err", "decl failed = 0", 'jwt_set_GET_INT(&jval, "exp")',
                           'jwt_set_GET_INT(&jval, "nbf")'},
                  sets={"err = jwt_claim_get(jwt, &jval)": [(EOK, ["expGetOk", "nbfGetOk"]), (ENX, ["expGetOther", "nbfGetOther"])]},
                  flag_effects={"failed |= JWT_CLAIM_EXP": "fExp", "failed |= JWT_CLAIM_NBF": "fNbf", "failed |= JWT_CLAIM_ISS": "fIss",
                                "failed |= JWT_CLAIM_SUB": "fSub", "failed |= JWT_CLAIM_AUD": "fAud"},
                  rets={"failed": "0"}, flags=("w", "fExp", "fNbf", "fIss", "fSub", "fAud"))
    emit(sk, "verifyClaims", [("expOn", "Bool"), ("expGetOk", "Bool"), ("expGetOther", "Bool"), ("expPast", "Bool"), ("nbfOn", "Bool"), ("nbfGetOk", "Bool"),
                              ("nbfGetOther", "Bool"), ("nbfFuture", "Bool"), ("issFails", "Bool"), ("subFails", "Bool"), ("audFails", "Bool")],
         "jwt-verify.c `__verify_claims`: the flags are the bits of the returned mask (which checks failed); `expGetOk` = the INT get of `exp` returned NONE, "
         "`expGetOther` = it returned something other than NOEXIST; likewise for nbf; `issFails` … = `__check_str_claim` returned non-zero")
    # ---- jwt_verify_complete: every exit returns the token object; the result says whether the signature was looked at ----
    sk = Skeleton("jwt_verify_complete", find_body(ver, r"\njwt_t\s*\*\s*jwt_verify_complete\s*\(", "jwt_verify_complete"),
                  atoms={"__verify_config_post(jwt, config, sig_len)": ("configPostFails", "bool"), "sig_len": ("sigEmpty", "ptr")},
                  effects={"decl sig", "decl sig_len", "sig = (token + (payload_len + 1))", "sig_len = strlen(sig)", "jwt->key = config->key"},
                  rets={"jwt": "0", "jwt_verify_sig(jwt, token, payload_len, sig)": "1"})
    emit(sk, "verifyComplete", [("configPostFails", "Bool"), ("sigEmpty", "Bool")],
         "jwt-verify.c `jwt_verify_complete`: result 1 = the call ends in `jwt_verify_sig`, 0 = it returns before; `sigEmpty` = nothing follows the second dot")
    # ---- jwt_checker_verify ----
    body = find_body(com_raw, r"\nint\s+FUNC\s*\(\s*verify\s*\)\s*\(", "FUNC(verify)")
    body = re.sub(r"^[ \t]*#[^\n]*", " ", body, flags=re.M)
    body = body.replace("JWT_CONFIG_DECLARE(config);", "jwt_config_t config;").replace("jwt_auto_t", "jwt_t")
    sk = Skeleton("jwt_checker_verify", body,
                  atoms={"__cmd": ("cmdNull", "ptr"), "token": ("tokenNull", "ptr"), "strlen(token)": ("tokenEmpty", "ptr"), "jwt": ("jwtNull", "ptr"),
                         "jwt_parse(jwt, token, &payload_len)": ("parseFails", "bool"), "__cmd->c->cb": ("cbNull", "ptr"), "claims": ("claimsCopyNull", "ptr"),
                         "cb_ret": ("cbRetZero", "ptr"), "__setkey_check(__cmd, config->alg, config->key)": ("setkeyFails", "bool")},
                  effects={"decl config", "decl payload_len", "decl jwt = NULL", "jwt = jwt_new()", "config->key = __cmd->c->key", "config->alg = __cmd->c->alg",
                           "config->ctx = __cmd->c->cb_ctx", "decl claims = json_deep_copy(jwt->claims)", "decl cb_ret", "cb_ret = __cmd->c->cb(jwt, &config)",
                           "json_decref(jwt->claims)", "jwt->claims = claims", "jwt->key = config->key", "jwt->checker = __cmd",
                           "jwt = jwt_verify_complete(jwt, &config, token, payload_len)"},
                  rets={"1": "1", "__cmd->error": "errFlag"}, flags=("w", "copied"))
    emit(sk, "checkerVerify", [("cmdNull", "Bool"), ("tokenNull", "Bool"), ("tokenEmpty", "Bool"), ("jwtNull", "Bool"), ("parseFails", "Bool"), ("cbNull", "Bool"),
                               ("claimsCopyNull", "Bool"), ("cbRetZero", "Bool"), ("setkeyFails", "Bool"), ("errFlag", "Nat")],
         "jwt-common.c `jwt_checker_verify` (FUNC(verify)): `tokenEmpty` = `strlen(token)` is 0; `jwtNull` / `claimsCopyNull` = an allocation failed; "
         "`cbRetZero` = the callback returned 0; `setkeyFails` = `__setkey_check` on what the callback left refused (it has written the message); "
         "`errFlag` = the checker's error flag after `jwt_verify_complete` and the copy")
    # ---- jwt_checker_setkey / jwt_checker_setcb (the shared template FUNC(setkey) / FUNC(setcb)) ----
    body = find_body(com_raw, r"\nint\s+FUNC\s*\(\s*setkey\s*\)\s*\(", "FUNC(setkey)")
    sk = Skeleton("FUNC(setkey)", body, atoms={"__setkey_check(__cmd, alg, key)": ("setkeyFails", "bool")}, effects={"__cmd->c->alg = alg"},
                  flag_effects={"__cmd->c->key = key": "stored"}, rets={"0": "0", "1": "1"}, flags=("w", "stored"))
    emit(sk, "setkey", [("setkeyFails", "Bool")],
         "jwt-common.c `FUNC(setkey)` (`jwt_checker_setkey` / `jwt_builder_setkey`): `stored` = algorithm and key were written into the object; "
         "`setkeyFails` = `__setkey_check` refused the pair (it has written the message)")
    body = find_body(com_raw, r"\nint\s+FUNC\s*\(\s*setcb\s*\)\s*\(", "FUNC(setcb)")
    sk = Skeleton("FUNC(setcb)", body,
                  atoms={"__cmd": ("cmdNull", "ptr"), "cb": ("cbArgNull", "ptr"), "__cmd->c->cb": ("installedNull", "ptr"), "ctx": ("ctxNull", "ptr")},
                  effects={"__cmd->c->cb_ctx = ctx"}, flag_effects={"__cmd->c->cb = cb": "stored"}, rets={"0": "0", "1": "1"}, flags=("w", "stored"))
    emit(sk, "setcb", [("cmdNull", "Bool"), ("cbArgNull", "Bool"), ("installedNull", "Bool"), ("ctxNull", "Bool")],
         "jwt-common.c `FUNC(setcb)`: `stored` = the callback argument was written into the object (otherwise the installed one stays); "
         "`cbArgNull` / `ctxNull` = the arguments, `installedNull` = no callback is installed yet")
    # ---- jwt_checker_claim_set / claim_del / time_leeway (checker compilation of the template) ----
    chk = com_raw
    body = find_body(chk, r"\nint\s+FUNC\s*\(\s*claim_set\s*\)\s*\([^)]*jwt_claims_t[^)]*\)", "checker FUNC(claim_set)")
    sk = Skeleton("jwt_checker_claim_set", body,
                  atoms={"__cmd": ("cmdNull", "ptr"), "value": ("valueNull", "ptr"), "name": ("nameNull", "ptr")},
                  effects={"decl name = NULL", "decl jval", "name = __get_name(type)", "jwt_set_SET_STR(&jval, name, value)", "jval->replace = 1"},
                  flag_effects={"__cmd->c->claims |= type": "bitSet"},
                  rets={"1": "1", "(__run_it(__cmd, __CLAIM, &jval, __setter) ? 1 : 0)": "storeFails"}, flags=("w", "bitSet"))
    emit(sk, "checkerClaimSet", [("cmdNull", "Bool"), ("valueNull", "Bool"), ("nameNull", "Bool"), ("storeFails", "Nat")],
         "jwt-common.c `jwt_checker_claim_set`: `nameNull` = the claim is not iss/sub/aud; `bitSet` = the claim's bit was set in the checker's mask; "
         "`storeFails` = 1 when storing the expected value (replace) failed")
    body = find_body(chk, r"\nint\s+FUNC\s*\(\s*claim_del\s*\)\s*\([^)]*jwt_claims_t[^)]*\)", "checker FUNC(claim_del)")
    sk = Skeleton("jwt_checker_claim_del", body, atoms={"__cmd": ("cmdNull", "ptr"), "name": ("nameNull", "ptr")},
                  effects={"decl name = NULL", "name = __get_name(type)"}, flag_effects={"__cmd->c->claims &= ~type": "bitCleared"},
                  rets={"1": "1", "__deleter(__cmd->c->payload, name)": "delRet"}, flags=("w", "bitCleared"))
    emit(sk, "checkerClaimDel", [("cmdNull", "Bool"), ("nameNull", "Bool"), ("delRet", "Nat")],
         "jwt-common.c `jwt_checker_claim_del`: `bitCleared` = the claim's bit was cleared; `delRet` = what `__deleter` returned")
    body = find_body_pp(com_raw, r"\nint\s+FUNC\s*\(\s*time_leeway\s*\)\s*\([^)]*\)", "FUNC(time_offset/time_leeway)")
    sk = Skeleton("FUNC(time_leeway)", body,
                  atoms={"__cmd": ("cmdNull", "ptr"), "(claim == JWT_CLAIM_EXP)": ("isExp", "bool"), "(claim == JWT_CLAIM_NBF)": ("isNbf", "bool"),
                         "(secs <= __DISABLE)": ("disable", "bool")},
                  effects=set(), flag_effects={"__cmd->c->exp = secs": "expStored", "__cmd->c->nbf = secs": "nbfStored", "__cmd->c->claims &= ~claim": "bitCleared",
                                               "__cmd->c->claims |= claim": "bitSet"},
                  rets={"0": "0", "1": "1"}, flags=("w", "expStored", "nbfStored", "bitCleared", "bitSet"))
    emit(sk, "timeSpan", [("cmdNull", "Bool"), ("isExp", "Bool"), ("isNbf", "Bool"), ("disable", "Bool")],
         "jwt-common.c `jwt_builder_time_offset` / `jwt_checker_time_leeway` (one body): which field received `secs` as passed, and whether the claim's bit was "
         "cleared (`secs <= __DISABLE`) or set")
    # ================= the builder side =================
    enc = strip_c(open(os.path.join(repo, "libjwt/jwt-encode.c")).read())
    # ---- jwt_head_setup ----
    sk = Skeleton("jwt_head_setup", find_body(enc, r"\nint\s+jwt_head_setup\s*\(", "jwt_head_setup"),
                  atoms={"(jwt->alg != JWT_ALG_NONE)": ("algSigned", "bool"), "jwt_header_set(jwt, &jval)": ("?", "bool"),
                         "(jval->error != JWT_VALUE_ERR_EXIST)": ("typErrNotExist", "bool")},
                  effects={"decl jval", "jval->replace = 1"},
                  sets={'jwt_set_SET_STR(&jval, "typ", "JWT")': ("jwt_header_set(jwt, &jval)", ["typSetFails"]),
                        'jwt_set_SET_STR(&jval, "alg", jwt_alg_str(jwt->alg))': ("jwt_header_set(jwt, &jval)", ["algSetFails"])},
                  rets={"0": "0", "1": "1"})
    emit(sk, "headSetup", [("algSigned", "Bool"), ("typSetFails", "Bool"), ("typErrNotExist", "Bool"), ("algSetFails", "Bool")],
         "jwt-encode.c `jwt_head_setup`: `typSetFails` = setting the default `typ` (without replace) returned non-zero, `typErrNotExist` = for another "
         "reason than the member being there already; `algSetFails` = setting `alg` (with replace) failed")
    # ---- jwt_encode ----
    sk = Skeleton("jwt_encode", find_body(enc, r"static\s+int\s+jwt_encode\s*\(", "jwt_encode"),
                  atoms={"out": ("outArgNull", "ptr"), "ret": ("?", "bool"), "(head_len <= 0)": ("hdrEncFails", "bool"), "(payload_len <= 0)": ("payEncFails", "bool"),
                         "buf": ("bufNull", "ptr"), "(jwt->alg == JWT_ALG_NONE)": ("algNone", "bool"), "(ret < 0)": ("sigEncFails", "bool"), "*out": ("outAllocNull", "ptr")},
                  effects={"decl head = NULL", "decl payload = NULL", "decl sig = NULL", "decl buf = NULL", "decl ret", "decl head_len", "decl payload_len", "decl sig_len",
                           "*out = NULL", "head_len = jwt_base64uri_encode(&head, buf, (int)strlen(buf))", "jwt_freemem(buf)",
                           "payload_len = jwt_base64uri_encode(&payload, buf, (int)strlen(buf))", "buf = jwt_malloc(((head_len + payload_len) + 3))",
                           "strcpy(buf, head)", 'strcat(buf, ".")', "strcat(buf, payload)", "*out = buf", "ret = jwt_base64uri_encode(&buf, sig, sig_len)",
                           "ret = (((strlen(head) + strlen(payload)) + strlen(buf)) + 3)", "*out = jwt_malloc(ret)", 'sprintf(*out, "%s.%s.%s", head, payload, buf)'},
                  sets={"ret = write_js(jwt->headers, &buf)": ("ret", ["hdrDumpFails"]), "ret = write_js(jwt->claims, &buf)": ("ret", ["payDumpFails"]),
                        "ret = jwt_sign(jwt, &sig, &sig_len, buf, strlen(buf))": ("ret", ["signFails"])},
                  consts={"ret = 1": ("ret", "1"), "ret = 0": ("ret", "0")},
                  rets={"0": "0", "1": "1", "ret": "signRet"})
    emit(sk, "encode", [("outArgNull", "Bool"), ("hdrDumpFails", "Bool"), ("hdrEncFails", "Bool"), ("payDumpFails", "Bool"), ("payEncFails", "Bool"), ("bufNull", "Bool"),
                        ("algNone", "Bool"), ("signFails", "Bool"), ("signRet", "Nat"), ("sigEncFails", "Bool"), ("outAllocNull", "Bool")],
         "jwt-encode.c `jwt_encode`: the `…Fails` / `…Null` parameters are the outcomes of the serialisation, the base64 coding, the allocations and of `jwt_sign` "
         "(`signRet` = what it returned when it failed)")
    # ---- jwt_builder_generate ----
    body = find_body(com_raw, r"\nchar\s*\*\s*FUNC\s*\(\s*generate\s*\)\s*\(", "FUNC(generate)")
    body = re.sub(r"^[ \t]*#[^\n]*", " ", body, flags=re.M)
    body = body.replace("JWT_CONFIG_DECLARE(config);", "jwt_config_t config;").replace("jwt_auto_t", "jwt_t")
    JOK = "(jval->error == JWT_VALUE_ERR_NONE)"
    sk = Skeleton("jwt_builder_generate", body,
                  atoms={"__cmd": ("cmdNull", "ptr"), "jwt": ("jwtNull", "ptr"), "jwt->headers": ("hdrCopyNull", "ptr"), "jwt->claims": ("clCopyNull", "ptr"),
                         "(__cmd->c->claims & JWT_CLAIM_IAT)": ("iatOn", "bool"), "(__cmd->c->claims & JWT_CLAIM_NBF)": ("nbfOn", "bool"),
                         "(__cmd->c->claims & JWT_CLAIM_EXP)": ("expOn", "bool"), JOK: ("?", "bool"), "__cmd->c->cb": ("cbNull", "ptr"),
                         "__cmd->c->cb(jwt, &config)": ("cbRetNonzero", "bool"), "__setkey_check(__cmd, config->alg, config->key)": ("setkeyFails", "bool"),
                         "jwt_head_setup(jwt)": ("headSetupFails", "bool")},
                  effects={"decl config", "decl jwt = NULL", "decl out = NULL", "decl jval", "decl tm = time(NULL)", "jwt = jwt_malloc(sizeof(* jwt))",
                           "memset(jwt, 0, sizeof(* jwt))", "jwt->headers = json_deep_copy(__cmd->c->headers)", "jwt->claims = json_deep_copy(__cmd->c->payload)",
                           'jwt_set_SET_INT(&jval, "iat", (long)tm)', "jval->replace = 1", 'jwt_set_SET_INT(&jval, "nbf", (long)(tm + __cmd->c->nbf))',
                           'jwt_set_SET_INT(&jval, "exp", (long)(tm + __cmd->c->exp))', "config->alg = __cmd->c->alg",
                           "if (((config->alg == JWT_ALG_NONE) && __cmd->c->key)) …", "config->alg = __cmd->c->key->alg", "config->key = __cmd->c->key",
                           "config->ctx = __cmd->c->cb_ctx", "if (((config->alg == JWT_ALG_NONE) && config->key)) …", "config->alg = config->key->alg",
                           "jwt->alg = config->alg", "jwt->key = config->key", "out = jwt_encode_str(jwt)"},
                  sets={"jval->error = JWT_VALUE_ERR_NONE": (JOK, ["true"]), "jwt_claim_set(jwt, &jval)": (JOK, ["iatSetOk", "nbfSetOk", "expSetOk"])},
                  rets={"NULL": "0", "out": "outNonNull"}, flags=("w", "copied"))
    emit(sk, "builderGenerate", [("cmdNull", "Bool"), ("jwtNull", "Bool"), ("hdrCopyNull", "Bool"), ("clCopyNull", "Bool"), ("iatOn", "Bool"), ("iatSetOk", "Bool"),
                                 ("nbfOn", "Bool"), ("nbfSetOk", "Bool"), ("expOn", "Bool"), ("expSetOk", "Bool"), ("cbNull", "Bool"), ("cbRetNonzero", "Bool"),
                                 ("setkeyFails", "Bool"), ("headSetupFails", "Bool"), ("outNonNull", "Nat")],
         "jwt-common.c `jwt_builder_generate` (FUNC(generate)): result 0 = NULL, `outNonNull` = what `jwt_encode_str` returned (0 = NULL); `…SetOk` = the "
         "`jwt_claim_set` of iat / nbf / exp left `jval.error` at NONE; `setkeyFails` = `__setkey_check` on what the callback left refused")
    # ================= the dispatch of jwt.c =================
    jc_ = strip_c(open(os.path.join(repo, "libjwt/jwt.c")).read())
    HM = ["JWT_ALG_HS256", "JWT_ALG_HS384", "JWT_ALG_HS512"]
    PK = ["JWT_ALG_RS256", "JWT_ALG_RS384", "JWT_ALG_RS512", "JWT_ALG_PS256", "JWT_ALG_PS384", "JWT_ALG_PS512", "JWT_ALG_ES256", "JWT_ALG_ES256K", "JWT_ALG_ES384",
          "JWT_ALG_ES512", "JWT_ALG_EDDSA"]
    alg_atoms = dict([("(jwt->alg == %s)" % a, ("algIsHmac", "bool")) for a in HM] + [("(jwt->alg == %s)" % a, ("algIsPk", "bool")) for a in PK])
    sk = Skeleton("jwt_sign", find_body(jc_, r"\nint\s+jwt_sign\s*\(", "jwt_sign"),
                  atoms=dict(alg_atoms, **{"__check_hmac(jwt)": ("gateFails", "bool"), "sign_sha_hmac(jwt, out, len, str, str_len)": ("primFails", "bool"),
                                           "__check_key_bits(jwt)": ("gateFails", "bool"), "jwt_ops->sign_sha_pem(jwt, out, len, str, str_len)": ("primFails", "bool")}),
                  effects=set(), rets={"0": "0", "1": "1"})
    emit(sk, "sign", [("algIsHmac", "Bool"), ("algIsPk", "Bool"), ("gateFails", "Bool"), ("primFails", "Bool")],
         "jwt.c `jwt_sign`: `algIsHmac` / `algIsPk` = the algorithm is one of HS* / of RS* PS* ES* EdDSA (the case labels of the two arms), `gateFails` = the size-and-type "
         "gate of the arm refused the key (it has written the message), `primFails` = the arm's primitive failed")
    sk = Skeleton("_verify_sha_hmac", find_body(jc_, r"static\s+int\s+_verify_sha_hmac\s*\(", "_verify_sha_hmac"),
                  atoms={"ret": ("?", "bool"), "(ret <= 0)": ("encFails", "bool")},
                  effects={"decl res = NULL", "decl buf = NULL", "decl res_len", "decl ret"},
                  sets={"ret = jwt_sign(jwt, &res, &res_len, head, head_len)": ("ret", ["signFails"]),
                        "ret = jwt_base64uri_encode(&buf, res, res_len)": ("(ret <= 0)", ["encFails"])},
                  rets={"1": "1", "(jwt_strcmp(buf, sig) ? 1 : 0)": "differs"})
    emit(sk, "verifyShaHmac", [("signFails", "Bool"), ("encFails", "Bool"), ("differs", "Nat")],
         "jwt.c `_verify_sha_hmac`: the MAC is recomputed with `jwt_sign`, encoded, and compared as text with `jwt_strcmp`; `differs` = 1 when the texts differ")
    sk = Skeleton("jwt_verify_sig", find_body(jc_, r"\njwt_t\s*\*\s*jwt_verify_sig\s*\(", "jwt_verify_sig"),
                  atoms=dict(alg_atoms, **{"(jwt->key->kty != JWK_KEY_TYPE_OCT)": ("keyNotOct", "bool"), "_verify_sha_hmac(jwt, head, head_len, sig_b64)": ("hmacFails", "bool"),
                                           "__check_key_bits(jwt)": ("gateFails", "bool"), "sig": ("decodeNull", "ptr"),
                                           "jwt_ops->verify_sha_pem(jwt, head, head_len, (unsigned char *)sig, sig_len)": ("primFails", "bool")}),
                  effects={"decl sig_len", "decl sig = NULL", "sig = jwt_base64uri_decode(sig_b64, &sig_len)"}, rets={"jwt": "0"})
    emit(sk, "verifySig", [("algIsHmac", "Bool"), ("algIsPk", "Bool"), ("keyNotOct", "Bool"), ("hmacFails", "Bool"), ("gateFails", "Bool"), ("decodeNull", "Bool"), ("primFails", "Bool")],
         "jwt.c `jwt_verify_sig`: `w` = this function wrote \"Token failed verification\" / a decode or unknown-algorithm message (a failing gate writes its own); "
         "the token object is returned on every path")
    # ================= JWK import =================
    jwks = strip_c(open(os.path.join(repo, "libjwt/jwks.c")).read())
    sk = Skeleton("process_octet", find_body(jwks, r"static\s+int\s+process_octet\s*\(", "process_octet"),
                  atoms={"k": ("kNull", "ptr"), "json_is_string(k)": ("kIsString", "bool"), "str_k": ("strNull", "ptr"), "strlen(str_k)": ("strEmpty", "ptr"),
                         "bin_k": ("decodeNull", "ptr")},
                  effects={"decl bin_k = NULL", "decl str_k", "decl k", "decl len_k = 0", 'k = json_object_get(jwk, "k")', "str_k = json_string_value(k)",
                           "bin_k = jwt_base64uri_decode(str_k, &len_k)", "item->is_private_key = 1", "item->provider = JWT_CRYPTO_OPS_ANY", "item->oct->key = bin_k",
                           "item->oct->len = len_k", "item->bits = (len_k * 8)"},
                  rets={"0": "0", "-1": "1"})
    emit(sk, "processOctet", [("kNull", "Bool"), ("kIsString", "Bool"), ("strNull", "Bool"), ("strEmpty", "Bool"), ("decodeNull", "Bool")],
         "jwks.c `process_octet` (result 1 stands for -1): `kNull` = no member `k`; `strEmpty` = its text is empty; `decodeNull` = `jwt_base64uri_decode` refused it")
    sk = Skeleton("jwk_process_one", find_body(jwks, r"static\s+jwk_item_t\s*\*\s*jwk_process_one\s*\(", "jwk_process_one"),
                  atoms={"item": ("itemNull", "ptr"), "item->json": ("copyNull", "ptr"), "val": ("ktyNull", "ptr"), "json_is_string(val)": ("ktyIsString", "bool"),
                         'jwt_strcmp(kty, "EC")': ("ktyIsEC", "ptr"), 'jwt_strcmp(kty, "RSA")': ("ktyIsRSA", "ptr"), 'jwt_strcmp(kty, "OKP")': ("ktyIsOKP", "ptr"),
                         'jwt_strcmp(kty, "oct")': ("ktyIsOct", "ptr")},
                  effects={"decl kty", "decl val", "decl item", "item = jwt_malloc(sizeof(* item))", "memset(item, 0, sizeof(* item))", "item->json = json_deep_copy(jwk)",
                           "jwt_freemem(item)", 'val = json_object_get(item->json, "kty")', "kty = json_string_value(val)", "item->kty = JWK_KEY_TYPE_EC",
                           "item->kty = JWK_KEY_TYPE_RSA", "item->kty = JWK_KEY_TYPE_OKP", "item->kty = JWK_KEY_TYPE_OCT", "jwk_process_values(item->json, item)"},
                  consts={"jwt_ops->process_ec(item->json, item)": ("item", "1"), "jwt_ops->process_rsa(item->json, item)": ("item", "2"),
                          "jwt_ops->process_eddsa(item->json, item)": ("item", "3"), "process_octet(item->json, item)": ("item", "4")},
                  rets={"NULL": "9", "item": "0"})
    emit(sk, "processOne", [("itemNull", "Bool"), ("copyNull", "Bool"), ("ktyNull", "Bool"), ("ktyIsString", "Bool"), ("ktyIsEC", "Bool"), ("ktyIsRSA", "Bool"),
                            ("ktyIsOKP", "Bool"), ("ktyIsOct", "Bool")],
         "jwks.c `jwk_process_one`: the result says which importer the item went through before `jwk_process_values` -- 1 `process_ec`, 2 `process_rsa`, "
         "3 `process_eddsa`, 4 `process_octet`, 0 none (the item is returned flagged), 9 = NULL (allocation); `ktyIsEC` = `jwt_strcmp(kty, \"EC\")` is 0, …")
    # ---- jwk_process_values: alg, use, key_ops, kid of every key type ----
    sk = Skeleton("jwk_process_values", find_body(jwks, r"static\s+void\s+jwk_process_values\s*\(", "jwk_process_values"),
                  atoms={"j_alg": ("algAbsent", "ptr"), "json_is_string(j_alg)": ("algIsString", "bool"), "j_use": ("useAbsent", "ptr"),
                         "json_is_string(j_use)": ("useIsString", "bool"), 'jwt_strcmp(use, "sig")': ("useIsSig", "ptr"), 'jwt_strcmp(use, "enc")': ("useIsEnc", "ptr"),
                         "j_ops_a": ("opsAbsent", "ptr"), "json_is_array(j_ops_a)": ("opsIsArray", "bool"), "j_kid": ("kidAbsent", "ptr"),
                         "json_is_string(j_kid)": ("kidIsString", "bool"), "len": ("kidEmpty", "ptr"), "item->kid": ("kidAllocNull", "ptr")},
                  effects={"decl j_use", "decl j_ops_a", "decl j_kid", "decl j_alg", 'j_alg = json_object_get(jwk, "alg")', 'j_use = json_object_get(jwk, "use")',
                           "decl use = json_string_value(j_use)", 'j_ops_a = json_object_get(jwk, "key_ops")', "decl j_op", "decl i",
                           'j_kid = json_object_get(jwk, "kid")', "decl kid = json_string_value(j_kid)", "decl len = strlen(kid)", "item->kid = jwt_malloc((len + 1))"},
                  flag_effects={"item->alg = jwt_str_alg(json_string_value(j_alg))": "algStored", "item->use = JWK_PUB_KEY_USE_SIG": "useSig",
                                "item->use = JWK_PUB_KEY_USE_ENC": "useEnc", "json_array_foreach(j_ops_a, i, j_op) item->key_ops |= jwk_key_op_j(j_op)": "opsRead",
                                "strcpy(item->kid, kid)": "kidStored"},
                  rets={"void": "0"}, flags=("w", "algStored", "useSig", "useEnc", "opsRead", "kidStored"))
    emit(sk, "processValues", [("algAbsent", "Bool"), ("algIsString", "Bool"), ("useAbsent", "Bool"), ("useIsString", "Bool"), ("useIsSig", "Bool"), ("useIsEnc", "Bool"),
                               ("opsAbsent", "Bool"), ("opsIsArray", "Bool"), ("kidAbsent", "Bool"), ("kidIsString", "Bool"), ("kidEmpty", "Bool"), ("kidAllocNull", "Bool")],
         "jwks.c `jwk_process_values`: what is stored of alg / use / key_ops / kid (flags), and whether the item was flagged (`w`: an `alg` that is not a string ends "
         "the function before use, key_ops and kid are looked at)")
    # ================= the typed map (jwt-setget.c) =================
    sg = strip_c(open(os.path.join(repo, "libjwt/jwt-setget.c")).read())
    hdr = strip_c(open(os.path.join(repo, "include/jwt.h")).read())
    m = re.search(r"typedef\s+enum\s*\{([^}]*)\}\s*jwt_value_error_t\s*;", hdr, re.S)
    if not m:
        raise PipelineError("enum jwt_value_error_t not found in include/jwt.h")
    codes, nxt = {}, 0
    for it_ in m.group(1).split(","):
        it_ = it_.strip()
        if not it_:
            continue
        if "=" in it_:
            nm_, v_ = [x.strip() for x in it_.split("=")]
            nxt = int(v_, 0)
        else:
            nm_ = it_
        codes[nm_] = nxt
        nxt += 1
    E = lambda n: str(codes["JWT_VALUE_ERR_" + n])
    name_atoms = {"jval->name": ("nameNull", "ptr"), "strlen(jval->name)": ("nameEmpty", "ptr")}
    for fn, lean_name, pred, extra_eff, extra_atoms in (
            ("jwt_get_str", "getStr", "json_is_string(val)", {"jval->str_val = json_string_value(val)"}, {"jval->str_val": ("valueNull", "ptr")}),
            ("jwt_get_int", "getInt", "json_is_integer(val)", {"jval->int_val = (long)json_integer_value(val)"}, {}),
            ("jwt_get_bool", "getBool", "json_is_boolean(val)", {"jval->bool_val = (json_is_true(val) ? 1 : 0)"}, {})):
        sk = Skeleton(fn, find_body(sg, r"static\s+jwt_value_error_t\s+%s\s*\(" % fn, fn),
                      atoms=dict(name_atoms, **dict({"val": ("absent", "ptr"), pred: ("isType", "bool")}, **extra_atoms)),
                      effects={"decl val", "val = json_object_get(which, jval->name)"} | extra_eff,
                      consts={"jval->error = JWT_VALUE_ERR_INVALID": ("jval->error", E("INVALID"))},
                      rets={"jval->error = JWT_VALUE_ERR_INVALID": E("INVALID"), "jval->error = JWT_VALUE_ERR_NOEXIST": E("NOEXIST"),
                            "jval->error = JWT_VALUE_ERR_TYPE": E("TYPE"), "jval->error": "errIn"}, flags=("w",))
        params = [("nameNull", "Bool"), ("nameEmpty", "Bool"), ("absent", "Bool"), ("isType", "Bool")] + ([("valueNull", "Bool")] if extra_atoms else []) + [("errIn", "Nat")]
        emit(sk, lean_name, params, "jwt-setget.c `%s`: the code returned (and stored in `value->error`); `absent` = no such member, `isType` = it has the JSON type asked for, "
                                    "`errIn` = `value->error` on entry (`__getter` resets it to NONE)" % fn)
    sk = Skeleton("jwt_obj_check", find_body(sg, r"static\s+jwt_value_error_t\s+jwt_obj_check\s*\(", "jwt_obj_check"),
                  atoms={"json_object_get(which, jval->name)": ("absent", "ptr"), "jval->replace": ("noReplace", "ptr")}, effects=set(),
                  flag_effects={"json_object_del(which, jval->name)": "deleted"},
                  rets={"jval->error = JWT_VALUE_ERR_EXIST": E("EXIST"), "JWT_VALUE_ERR_NONE": E("NONE")}, flags=("w", "deleted"))
    emit(sk, "objCheck", [("absent", "Bool"), ("noReplace", "Bool")],
         "jwt-setget.c `jwt_obj_check`: a member that is there is deleted when `replace` is set (`deleted`), refused with EXIST otherwise")
    for fn, lean_name, ctor, more_atoms in (("jwt_set_int", "setInt", "json_integer((json_int_t)jval->int_val)", {}),
                                            ("jwt_set_bool", "setBool", "json_boolean(jval->bool_val)", {}),
                                            ("jwt_set_str", "setStr", "json_string(jval->str_val)", {"jval->str_val": ("valueNull", "ptr")})):
        sk = Skeleton(fn, find_body(sg, r"static\s+jwt_value_error_t\s+%s\s*\(" % fn, fn),
                      atoms=dict(name_atoms, **dict({"jwt_obj_check(which, jval)": ("checkPasses", "ptr"),
                                                     "json_object_set_new(which, jval->name, %s)" % ctor: ("storeFails", "bool")}, **more_atoms)),
                      effects=set(), consts={"jval->error = JWT_VALUE_ERR_INVALID": ("jval->error", E("INVALID"))},
                      sets={}, rets={"jval->error = JWT_VALUE_ERR_INVALID": E("INVALID"), "jval->error": "errNow"}, flags=("w",))
        params = [("nameNull", "Bool"), ("nameEmpty", "Bool")] + ([("valueNull", "Bool")] if more_atoms else []) + [("checkPasses", "Bool"), ("storeFails", "Bool"), ("errNow", "Nat")]
        emit(sk, lean_name, params, "jwt-setget.c `%s`: `checkPasses` = `jwt_obj_check` returned 0 (otherwise it has put EXIST into `value->error`), `storeFails` = the value "
                                    "could not be built or stored, `errNow` = `value->error` at the time of the return" % fn)
    out.append("end Jwt.Generated.Pipeline")
    return "\n".join(out) + "\n", info


if __name__ == "__main__":
    import sys
    text, info = generate(sys.argv[1])
    sys.stdout.write(text)
