import Jwt.Bytes
import Jwt.AlgType
import Jwt.Generated.Base64Tables
import Jwt.Generated.AlgTables
import Jwt.Base64
import Jwt.Base64Spec
import Jwt.StrCmp
import Jwt.Alg
