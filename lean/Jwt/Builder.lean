import Jwt.Verify
import Jwt.SetGet
import Jwt.Checker
/-! The builder object (jwt-common.c, `JWT_BUILDER` instantiation), `jwt_head_setup`, `jwt_encode`
(jwt-encode.c), `jwt_sign` (jwt.c) and `jwt_builder_generate`, after the "fix:" commits. -/
namespace Jwt
open Jwt.Base64 Jwt.Generated

/-- the generate callback: sees the per-token headers/claims and the config (with the algorithm
already resolved from the key), returns a code, the headers/claims it leaves, and the config -/
abbrev BuilderCb := (headers claims : Json) → Config → Int × Json × Json × Config

structure BuilderCfg where
  key : Option KeyItem := none
  alg : Alg := .none
  headers : Json := .obj []
  payload : Json := .obj []
  mask : ClaimMask
  expOff : Int := 0
  nbfOff : Int := 0
  cb : Option BuilderCb := none

structure Builder where
  cfg : BuilderCfg
  error : Bool := false
  msg : Option Err := none

def Builder.writeError (b : Builder) (e : Err) : Builder :=
  { b with error := true, msg := if b.msg.isSome then b.msg else some e }

/-- `jwt_builder_new()` -/
def Builder.new : Builder := { cfg := { mask := ClaimMask.ofBits builderClaimsDef } }

def Builder.setkey (b : Builder) (alg : Alg) (key : Option KeyItem) : Builder × Nat :=
  match setkeyCheck .builder alg key with
  | some e => (b.writeError e, 1)
  | none => ({ b with cfg := { b.cfg with alg := alg, key := key } }, 0)

/-- `jwt_builder_enable_iat(builder, enable)`: returns the previous setting -/
def Builder.enableIat (b : Builder) (enable : Int) : Builder × Nat :=
  ({ b with cfg := { b.cfg with mask := { b.cfg.mask with iat := enable ≠ 0 } } }, if b.cfg.mask.iat then 1 else 0)

/-- `jwt_builder_time_offset(builder, claim, secs)` -/
def Builder.timeOffset (b : Builder) (c : ClaimId) (secs : Int) : Builder × Nat :=
  match c with
  | .exp => ({ b with cfg := { b.cfg with expOff := secs, mask := { b.cfg.mask with exp := !(secs ≤ builderDisable) } } }, 0)
  | .nbf => ({ b with cfg := { b.cfg with nbfOff := secs, mask := { b.cfg.mask with nbf := !(secs ≤ builderDisable) } } }, 0)
  | _ => (b, 1)

def Builder.setcb (b : Builder) (cb : Option BuilderCb) : Builder × Nat :=
  ({ b with cfg := { b.cfg with cb := cb } }, 0)

/-- `jwt_builder_setcb(builder, NULL, ctx)` with `ctx ≠ NULL`: the context of an installed callback changes, the callback
stays; without one the call is refused with a message -/
def Builder.setcbCtx (b : Builder) : Builder × Nat :=
  if b.cfg.cb.isSome then (b, 0) else (b.writeError .cbCtxNoCb, 1)

def Builder.errorClear (b : Builder) : Builder := { b with error := false, msg := none }

def Builder.headerSet (ls : Bytes → Option Json) (b : Builder) (r : SetReq) : Builder × VErr :=
  let (h, e) := setter ls b.cfg.headers r
  ({ b with cfg := { b.cfg with headers := h } }, e)
def Builder.claimSet (ls : Bytes → Option Json) (b : Builder) (r : SetReq) : Builder × VErr :=
  let (c, e) := setter ls b.cfg.payload r
  ({ b with cfg := { b.cfg with payload := c } }, e)
def Builder.headerDel (b : Builder) (n : Option Bytes) : Builder × VErr :=
  ({ b with cfg := { b.cfg with headers := (deleter b.cfg.headers n).1 } }, .none)
def Builder.claimDel (b : Builder) (n : Option Bytes) : Builder × VErr :=
  ({ b with cfg := { b.cfg with payload := (deleter b.cfg.payload n).1 } }, .none)

/-! ### generating -/

/-- the replace-set of an integer claim the library does itself (`jwt_claim_set`, result ignored) -/
def setIntClaim (claims : Json) (name : Bytes) (v : Int) : Json :=
  (setter (fun _ => none) claims { type := .int, name := some name, intVal := v, replace := true }).1

/-- the claims of the per-token object before the callback: builder claims, then iat/nbf/exp -/
def baseClaims (b : BuilderCfg) (now : Int) : Json :=
  let c := b.payload
  let c := if b.mask.iat then setIntClaim c N.iat now else c
  let c := if b.mask.nbf then setIntClaim c N.nbf (now + b.nbfOff) else c
  if b.mask.exp then setIntClaim c N.exp (now + b.expOff) else c

/-- `jwt_head_setup`: default `typ` on signed tokens unless present, `alg` forced -/
def headSetup (headers : Json) (alg : Alg) : Except Err Json :=
  let h1 :=
    if alg ≠ .none then
      (setter (fun _ => none) headers { type := .str, name := some N.typ, strVal := some N.JWT, replace := false })
    else (headers, VErr.none)
  if h1.2 ≠ .none ∧ h1.2 ≠ .exist then .error .encode
  else
    let h2 := setter (fun _ => none) h1.1 { type := .str, name := some N.alg, strVal := algStr alg, replace := true }
    if h2.2 ≠ .none then .error .encode else .ok h2.1

/-- `jwt_sign`: the raw signature, or the error; plus the primitive calls made -/
def sign (env : Env) (k : KeyItem) (alg : Alg) (msg : Bytes) : Except Err Bytes × List CryptoCall :=
  match alg with
  | .hs256 | .hs384 | .hs512 =>
    match checkHmac alg k with
    | some e => (.error e, [])
    | none => (.ok (env.cr.hmac alg k.oct msg), [.hmac alg k])
  | .rs256 | .rs384 | .rs512 | .ps256 | .ps384 | .ps512 | .es256 | .es256k | .es384 | .es512 | .eddsa =>
    match checkKeyBits alg k with
    | some e => (.error e, [])
    | none =>
      if !env.prov.supports alg then (.error .signFailed, [])
      else match env.cr.pkSign env.prov k alg msg with
        | none => (.error .signFailed, [.pkSign alg k])
        | some s => (.ok s, [.pkSign alg k])
  | _ => (.error .unknownAlg, [])

/-- `jwt_encode`: the token text -/
def encodeToken (env : Env) (headers claims : Json) (alg : Alg) (key : Option KeyItem) :
    Except Err Bytes × List CryptoCall :=
  let hd := env.jc.dump headers
  let pd := env.jc.dump claims
  if uriEncodeRet hd = 0 ∨ uriEncodeRet pd = 0 then (.error .encode, [])
  else
    let msg := signingInput (uriEncode hd) (uriEncode pd)
    if alg = .none then (.ok (msg ++ [46]), [])
    else match key with
      | none => (.error .signFailed, [])          -- unreachable: admission gave a key to every non-none alg
      | some k =>
        match sign env k alg msg with
        | (.error e, tr) => (.error e, tr)
        | (.ok s, tr) => (.ok (msg ++ [46] ++ uriEncode s), tr)

/-- the config the callback leaves (own config, algorithm resolved from the key, without one),
its return code, and the per-token headers/claims it leaves -/
def genAfterCb (b : BuilderCfg) (now : Int) : Int × Json × Json × Config :=
  let alg0 := if b.alg = .none then (match b.key with | some k => k.alg | none => .none) else b.alg
  let cfg0 : Config := { key := b.key, alg := alg0 }
  match b.cb with
  | none => (0, b.headers, baseClaims b now, cfg0)
  | some cb => cb b.headers (baseClaims b now) cfg0

/-- the algorithm `generate` uses, given the config the callback left: the explicit one, else the
key's own (resolved again after the callback) -/
def usedAlg (cfg : Config) : Alg :=
  if cfg.alg = .none then (match cfg.key with | some k => k.alg | none => .none) else cfg.alg

/-- `jwt_builder_generate` up to the error plumbing -/
def generateCore (env : Env) (b : BuilderCfg) : Exit × Option Bytes × List CryptoCall :=
  let r := genAfterCb b env.now
  if r.1 ≠ 0 then (.direct .cbError, none, [])
  else
    match setkeyCheck .builder (usedAlg r.2.2.2) r.2.2.2.key with
    | some e => (.direct e, none, [])
    | none =>
      match headSetup r.2.1 (usedAlg r.2.2.2) with
      | .error e => (.viaJwt e, none, [])
      | .ok headers =>
        match encodeToken env headers r.2.2.1 (usedAlg r.2.2.2) r.2.2.2.key with
        | (.error e, tr) => (.viaJwt e, none, tr)
        | (.ok t, tr) => (.ok, some t, tr)

/-- `jwt_builder_generate(builder)`: new state and the token (none = NULL) -/
def generate (env : Env) (b : Builder) : Builder × Option Bytes :=
  match generateCore env b.cfg with
  | (.direct e, _, _) => (b.writeError e, none)
  | (.viaJwt e, _, _) => ({ b with error := true, msg := some e }, none)
  | (.ok, t, _) => ({ b with error := false, msg := none }, t)

end Jwt
