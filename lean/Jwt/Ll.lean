import Jwt.Generated.LlOps
/-!
# The keyring as `jwks.c` keeps it: loops over the intrusive list

`jwk_set_t` embeds the list head, every `jwk_item_t` embeds a node; `container_of` is the identity on
this level (an item is named by the address of its node). The loops below are the bodies of
`jwks_item_get`, `jwks_item_count`, `jwks_find_bykid`, `jwks_error_any`, `jwks_item_free`,
`jwks_item_free_bad`, `jwks_item_free_all` and `jwks_item_add`, written with the generated list
functions of `ll.h` and checked loads; `fuel` bounds every walk (running out of fuel is `none`, as is
any dereference of a dead pointer), so termination and memory safety on well-formed lists are theorems
(`Jwt/Lemmas/Ll.lean`), not assumptions.
-/
namespace Jwt.Ll

/-- `list_for_each_entry(item, head, node)`: the nodes visited, in order -/
def walkFrom (h : Heap) (head : Addr) : Nat → Addr → Option (List Addr)
  | 0, _ => none
  | fuel + 1, pos =>
    if pos = head then some []
    else do
      let nx ← h.getNext pos
      let rest ← walkFrom h head fuel nx
      pure (pos :: rest)

def walk (h : Heap) (head : Addr) (fuel : Nat) : Option (List Addr) := do
  let p ← h.getNext head
  walkFrom h head fuel p

/-- `jwks_item_get`: `if (i == index) return item; i++;` -/
def getFrom (h : Heap) (head : Addr) : Nat → Addr → Nat → Option (Option Addr)
  | 0, _, _ => none
  | fuel + 1, pos, idx =>
    if pos = head then some none
    else if idx = 0 then some (some pos)
    else do
      let nx ← h.getNext pos
      getFrom h head fuel nx (idx - 1)

def itemGet (h : Heap) (head : Addr) (fuel idx : Nat) : Option (Option Addr) := do
  let p ← h.getNext head
  getFrom h head fuel p idx

/-- `jwks_find_bykid`: `if (item->kid == NULL || strcmp(item->kid, kid)) continue; return item;` -/
def findFrom (h : Heap) (view : Addr → ItemView) (head : Addr) (kid : List UInt8) : Nat → Addr → Option (Option Addr)
  | 0, _ => none
  | fuel + 1, pos =>
    if pos = head then some none
    else do
      let nx ← h.getNext pos          -- reading `item->kid` goes through `pos` as well
      if (view pos).kid = some kid then pure (some pos) else findFrom h view head kid fuel nx

def itemFind (h : Heap) (view : Addr → ItemView) (head : Addr) (fuel : Nat) (kid : List UInt8) : Option (Option Addr) := do
  let p ← h.getNext head
  findFrom h view head kid fuel p

/-- `__item_free`: `list_del(&todel->node); jwt_freemem(todel);` -/
def itemRelease (h : Heap) (a : Addr) : Option Heap := do
  let h ← list_del h a
  h.free a

/-- `jwks_item_free`: 1 = an item was freed -/
def itemFree (h : Heap) (head : Addr) (fuel idx : Nat) : Option (Heap × Nat) := do
  match ← itemGet h head fuel idx with
  | none => pure (h, 0)
  | some a =>
    let h ← itemRelease h a
    pure (h, 1)

/-- `jwks_item_free_bad`: `list_for_each_entry_safe(item, pos, head, node) { if (!item->error) continue; __item_free(item); count++; }` -/
def freeBadFrom (view : Addr → ItemView) (head : Addr) : Nat → Heap → Addr → Addr → Nat → Option (Heap × Nat)
  | 0, _, _, _, _ => none
  | fuel + 1, h, pos, n, count =>
    if pos = head then some (h, count)
    else do
      let _ ← h.getNext pos           -- `item->error` is read through `pos`
      if (view pos).error then
        let h ← itemRelease h pos
        let n' ← h.getNext n          -- `n = list_entry(n->member.next, …)`
        freeBadFrom view head fuel h n n' (count + 1)
      else
        let n' ← h.getNext n
        freeBadFrom view head fuel h n n' count

def freeBad (h : Heap) (view : Addr → ItemView) (head : Addr) (fuel : Nat) : Option (Heap × Nat) := do
  let pos ← h.getNext head
  let n ← h.getNext pos
  freeBadFrom view head fuel h pos n 0

/-- `jwks_item_free_all`: `for (i = 0; jwks_item_free(jwk_set, 0); i++);` -/
def freeAllLoop (head : Addr) (fuel : Nat) : Nat → Heap → Nat → Option (Heap × Nat)
  | 0, _, _ => none
  | k + 1, h, i => do
    let (h', r) ← itemFree h head fuel 0
    if r = 0 then pure (h', i) else freeAllLoop head fuel k h' (i + 1)

/-- `jwks_item_add` after the item was allocated at `a` -/
def itemAdd (h : Heap) (head a : Addr) : Option Heap := do
  let h ← h.alloc a
  list_add_tail h a head

end Jwt.Ll
