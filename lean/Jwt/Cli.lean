import Jwt.Generated.CliTables
/-! Command-line tools (tools/*.c): exit-status arithmetic, getopt short-option semantics,
fixed-width export of EC integers. -/
namespace Jwt.Cli
open Jwt.Generated

/-- what `exit(n)` delivers to the parent: the low 8 bits -/
def status (n : Nat) : Nat := n % 256

/-- jwt-verify's exit status after `fails` tokens failed to verify -/
def verifyStatus (fails : Nat) : Nat := status (verifyExitArg fails)

/-- getopt short-option string: does letter `c` occur, and is it followed by `:`? -/
def optLookup : List Char → Char → Option Bool
  | [], _ => none
  | x :: rest, c =>
    if x = c ∧ x ≠ ':' then some (rest.head? = some ':') else optLookup rest c

/-- for one tool: every option the usage text documents has its short form in `optstr`, taking an
argument iff the usage line shows `=ARG` iff the long option is `required_argument` -/
def usageConsistent (t : ToolOpts) : Bool :=
  t.usage.all fun (c, long, arg) =>
    match c.toList with
    | [ch] =>
      optLookup t.optstr.toList ch = some arg &&
      (t.longs.any fun (n, a, s) => n = long && a = arg && s = c)
    | _ => false

/-- big-endian octets of a number, minimal length (`BN_bn2bin`) -/
def toBytesMin : Nat → List Nat
  | 0 => []
  | n + 1 => toBytesMin ((n + 1) / 256) ++ [(n + 1) % 256]
decreasing_by omega

/-- `BN_bn2binpad(bn, out, max (BN_num_bytes bn) w)`: left-padded with zero octets to `w` -/
def exportPad (w n : Nat) : List Nat :=
  let m := toBytesMin n
  List.replicate (w - m.length) 0 ++ m

/-- `BN_bin2bn`: the number a big-endian octet string denotes -/
def fromBytes (bs : List Nat) : Nat := bs.foldl (fun acc b => acc * 256 + b) 0

end Jwt.Cli
