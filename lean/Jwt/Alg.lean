import Jwt.StrCmp
import Jwt.Generated.AlgTables
/-! `jwt_alg_str` / `jwt_str_alg` (libjwt/jwt.c) over the generated tables. -/
namespace Jwt
open Jwt.Generated

/-- `jwt_alg_str`: the `switch`; `none` = `default: return NULL` -/
def algStr (a : Alg) : Option Bytes :=
  (algStrTable.find? (·.1 = a)).map (·.2)

/-- the `if (!jwt_strcmp(alg, "…")) return …; else if …` chain, first match wins -/
def strAlgChain : List (Alg × Bytes) → Bytes → Alg
  | [], _ => .inval
  | (a, s) :: rest, x => if jwtStrcmp x s = 0 then a else strAlgChain rest x

/-- `jwt_str_alg(alg)`; `none` = NULL pointer -/
def strAlg : Option Bytes → Alg
  | none => .inval
  | some x => strAlgChain strAlgTable x

def Alg.ord (a : Alg) : Nat := ((algOrd.find? (·.1 = a)).map (·.2)).getD 0
def Alg.ofOrd (n : Nat) : Option Alg := (algOrd.find? (·.2 = n)).map (·.1)

end Jwt
