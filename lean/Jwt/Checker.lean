import Jwt.Verify
import Jwt.Generated.CommonDefs
/-! The checker object's configuration calls (jwt-common.c, `JWT_CHECKER` instantiation). -/
namespace Jwt
open Jwt.Generated

/-- a `jwt_claims_t` argument: one of the enumerators or anything else -/
inductive ClaimId where | iss | sub | aud | exp | nbf | iat | jti | other
  deriving DecidableEq, Repr, Inhabited

def ClaimId.bit : ClaimId → Nat
  | .iss => claimIss | .sub => claimSub | .aud => claimAud | .exp => claimExp
  | .nbf => claimNbf | .iat => claimIat | .jti => claimJti | .other => 0

def ClaimMask.ofBits (n : Nat) : ClaimMask :=
  { iss := n &&& claimIss ≠ 0, sub := n &&& claimSub ≠ 0, aud := n &&& claimAud ≠ 0,
    exp := n &&& claimExp ≠ 0, nbf := n &&& claimNbf ≠ 0, iat := n &&& claimIat ≠ 0 }

/-- `claims |= type` / `claims &= ~type` for a single enumerator -/
def ClaimMask.set (m : ClaimMask) (c : ClaimId) (v : Bool) : ClaimMask :=
  match c with
  | .iss => { m with iss := v } | .sub => { m with sub := v } | .aud => { m with aud := v }
  | .exp => { m with exp := v } | .nbf => { m with nbf := v } | .iat => { m with iat := v }
  | _ => m

/-- `__get_name(type)` over the generated table -/
def checkerClaimName (c : ClaimId) : Option Bytes :=
  (checkerClaimNames.find? (·.1 = c.bit)).map (·.2)

/-- `jwt_checker_new()` -/
def Checker.new : Checker :=
  { cfg := { claims := { mask := ClaimMask.ofBits checkerClaimsDef, expLeeway := 0, nbfLeeway := 0,
                         expected := .obj [] } } }

/-- `jwt_checker_setkey` -/
def Checker.setkey (ck : Checker) (alg : Alg) (key : Option KeyItem) : Checker × Nat :=
  match setkeyCheck .checker alg key with
  | some e => (ck.writeError e, 1)
  | none => ({ ck with cfg := { ck.cfg with alg := alg, key := key } }, 0)

/-- `jwt_checker_claim_set(checker, type, value)` -/
def Checker.claimSet (ck : Checker) (c : ClaimId) (value : Option Bytes) : Checker × Nat :=
  match value, checkerClaimName c with
  | none, _ => (ck, 1)
  | _, none => (ck, 1)
  | some v, some name =>
    let cl := ck.cfg.claims
    let mask := cl.mask.set c true
    -- `jwt_set_str` with `replace = 1`: the old member is deleted first; `json_string` refuses
    -- text that is not valid UTF-8, and the set then fails with the member gone
    if validUtf8 v then
      ({ ck with cfg := { ck.cfg with claims := { cl with mask := mask, expected := (cl.expected.objDel name).objSet name (.str v) } } }, 0)
    else
      ({ ck with cfg := { ck.cfg with claims := { cl with mask := mask, expected := cl.expected.objDel name } } }, 1)

/-- `jwt_checker_claim_del(checker, type)` -/
def Checker.claimDel (ck : Checker) (c : ClaimId) : Checker × Nat :=
  match checkerClaimName c with
  | none => (ck, 1)
  | some name =>
    let cl := ck.cfg.claims
    ({ ck with cfg := { ck.cfg with claims := { cl with mask := cl.mask.set c false, expected := cl.expected.objDel name } } }, 0)

/-- `jwt_checker_claim_get(checker, type)` -/
def Checker.claimGet (ck : Checker) (c : ClaimId) : Option Bytes :=
  (checkerClaimName c).bind fun name => (ck.cfg.claims.expected.objGet name).bind Json.strVal

/-- `jwt_checker_time_leeway(checker, claim, secs)` -/
def Checker.timeLeeway (ck : Checker) (c : ClaimId) (secs : Int) : Checker × Nat :=
  let cl := ck.cfg.claims
  match c with
  | .exp => ({ ck with cfg := { ck.cfg with claims := { cl with expLeeway := secs, mask := cl.mask.set .exp (!(secs ≤ checkerDisable)) } } }, 0)
  | .nbf => ({ ck with cfg := { ck.cfg with claims := { cl with nbfLeeway := secs, mask := cl.mask.set .nbf (!(secs ≤ checkerDisable)) } } }, 0)
  | _ => (ck, 1)

/-- `jwt_checker_setcb(checker, cb, ctx)` with `cb` and `ctx` given together, or both NULL -/
def Checker.setcb (ck : Checker) (cb : Option CheckerCb) : Checker × Nat :=
  ({ ck with cfg := { ck.cfg with cb := cb } }, 0)

/-- `jwt_checker_setcb(checker, NULL, ctx)` with `ctx ≠ NULL`: with a callback installed only its context changes (the
callback stays); without one the call is refused with a message -/
def Checker.setcbCtx (ck : Checker) : Checker × Nat :=
  if ck.cfg.cb.isSome then (ck, 0) else (ck.writeError .cbCtxNoCb, 1)

/-- `jwt_checker_error_clear` -/
def Checker.errorClear (ck : Checker) : Checker := { ck with error := false, msg := none }

end Jwt
