import Jwt.Bytes
import Jwt.Generated.Base64Tables
import Jwt.Generated.Base64Code
/-!
# Literal model of `libjwt/base64.c` and of `jwt_base64uri_encode/decode` (`libjwt/jwt.c`)

The tables, the pad/range constants and the two size macros come from
`Jwt/Generated/Base64Tables.lean`, the arms of the three `switch` statements from
`Jwt/Generated/Base64Code.lean` (both regenerated from the source on every run).
The loops around the arms are written by hand, statement by statement after the C (the
translator checks that the C loops still have that shape), and tied to the code by the
`codec` correspondence suite.
-/
namespace Jwt.Base64
open Jwt Jwt.Generated

/-! ## `base64_encode`: three-state machine, `out[j++] = …`

`enAt`/`deAt` are in `Jwt/Base64Prelude.lean`; the arms `encStep`, `encTail` (and `decStep` below) are
**generated** from `base64.c` (`Jwt/Generated/Base64Code.lean`). -/

def encLoop : Bytes → Nat → UInt8 → Bytes
  | [], s, l => encTail s l
  | c :: cs, s, l => (encStep s l c).2 ++ encLoop cs (encStep s l c).1 c

/-- `base64_encode(in, inlen, out)`: the bytes written to `out[0..j-1]`; the function then writes
`out[j] = 0` and returns `j`, so it touches `out[0..j]`, i.e. `length + 1` cells. -/
def base64Encode (inp : Bytes) : Bytes := encLoop inp 0 0

/-! ## `base64_decode`: index loop over a bounds-checked output buffer -/

inductive DecRes where
  | oob                       -- a read or write outside the buffer (never happens: `C11_bounds`)
  | reject                    -- `return 0`
  | ok (j : Nat) (out : Bytes) -- `return j` with the buffer contents
  deriving DecidableEq, Repr

/-- the `for (i = j = 0; i < inlen; i++)` loop. `in[i]` is a (signed) `char`: bytes ≥ 128 are
negative and fail `in[i] < BASE64DE_FIRST`; on `UInt8` they fail `c > deLast` instead
(`TableFacts.deLast_lt_128`), so the test below rejects exactly the same bytes. -/
def decLoop : Bytes → Nat → Nat → Bytes → DecRes
  | [], _, j, out => .ok j out
  | c :: cs, i, j, out =>
    if c = pad then .ok j out
    else if c < deFirst || c > deLast then .reject
    else if deAt c = 255 then .reject
    else match decStep i j out (deAt c) with
      | none => .oob
      | some (j', out') => decLoop cs (i + 1) j' out'

/-- `base64_decode(in, inlen, out)` with `out` a buffer whose initial contents are arbitrary -/
def base64Decode (inp : Bytes) (out : Bytes) : DecRes :=
  if inp.length &&& 0x3 ≠ 0 then .reject else decLoop inp 0 0 out

/-! ## `jwt_base64uri_encode` -/

def swapEnc (c : UInt8) : UInt8 :=
  if c = 43 then 45        -- '+' -> '-'
  else if c = 47 then 95   -- '/' -> '_'
  else if c = 61 then 0    -- '=' -> NUL
  else c

/-- the C string left in `*_dst`: base64, alphabet swapped, cut at the first (replaced) pad -/
def uriEncode (plain : Bytes) : Bytes := cstr ((base64Encode plain).map swapEnc)

/-- the `int` returned by `jwt_base64uri_encode`: the *padded* length (callers use it only as an
upper bound and as a `<= 0` test) -/
def uriEncodeRet (plain : Bytes) : Nat := (base64Encode plain).length

/-- `jwt_malloc(len + 1)` with `len = BASE64_ENCODE_OUT_SIZE(plain_len)` -/
def uriEncodeAlloc (plainLen : Nat) : Nat := encodeOutSize plainLen + 1

/-! ## `jwt_base64uri_decode` -/

def swapDec (c : UInt8) : UInt8 :=
  if c = 45 then 43        -- '-' -> '+'
  else if c = 95 then 47   -- '_' -> '/'
  else c

/-- the `switch (len % 4)`: number of `=` to append, or `none` for "Something bad" -/
def padCount (len : Nat) : Option Nat :=
  match len % 4 with
  | 0 => some 0
  | 2 => some 2
  | 3 => some 1
  | _ => none

/-- the standard-alphabet, re-padded copy `new` -/
def prepare (src : Bytes) (z : Nat) : Bytes := src.map swapDec ++ List.replicate z pad

/-- `jwt_base64uri_decode(src, &ret_len)` for a NUL-free `src`; `garbage` is the arbitrary initial
content of the freshly allocated output buffer (its length is what the code allocates:
`BASE64_DECODE_OUT_SIZE(len) + 1`). Result: `none` = returns NULL; `some (buf, ret_len)`.
An out-of-bounds access is reported as `none` too but is separately proved impossible. -/
def uriDecodeBuf (src : Bytes) (buf : Bytes) : Option (Bytes × Nat) :=
  match padCount src.length with
  | none => none
  | some z =>
    match base64Decode (prepare src z) buf with
    | .ok j out => if j = 0 then none else some (out, j)
    | _ => none

/-- size of the output allocation for a source of length `len` needing `z` pads -/
def decodeAlloc (len z : Nat) : Nat := decodeOutSize (len + z) + 1

/-- the decoded bytes `buf[0..ret_len-1]`, with a zero-filled allocation of the size the code uses -/
def uriDecode (src : Bytes) : Option Bytes :=
  match padCount src.length with
  | none => none
  | some z =>
    match uriDecodeBuf src (List.replicate (decodeAlloc src.length z) 0) with
    | none => none
    | some (out, j) => some (out.take j)

end Jwt.Base64
