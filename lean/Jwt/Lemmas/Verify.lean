import Jwt.Verify
import Jwt.Lemmas.AlgFacts
import Jwt.Lemmas.Base64Round
/-! Structural lemmas about the verify pipeline: what acceptance implies, stage by stage. -/
namespace Jwt
open Jwt.Base64

/-! ### splitting at dots -/

theorem splitDot_spec (t a b : Bytes) (h : splitDot t = some (a, b)) : t = a ++ [46] ++ b ∧ (46 : UInt8) ∉ a := by
  induction t generalizing a b with
  | nil => simp [splitDot] at h
  | cons c cs ih =>
    unfold splitDot at h
    by_cases hc : c = 46
    · simp [hc] at h
      obtain ⟨rfl, rfl⟩ := h
      simp [hc]
    · simp only [hc, if_false] at h
      cases hs : splitDot cs with
      | none => simp [hs] at h
      | some r =>
        obtain ⟨a', b'⟩ := r
        simp [hs] at h
        obtain ⟨rfl, rfl⟩ := h
        obtain ⟨h1, h2⟩ := ih a' b' hs
        constructor
        · simp [h1]
        · simp only [List.mem_cons, not_or]
          exact ⟨fun e => hc e.symm, h2⟩

theorem splitDot_none (t : Bytes) : splitDot t = none ↔ (46 : UInt8) ∉ t := by
  induction t with
  | nil => simp [splitDot]
  | cons c cs ih =>
    unfold splitDot
    by_cases hc : c = 46
    · simp [hc]
    · simp only [hc, if_false, Option.map_eq_none_iff, ih, List.mem_cons, not_or]
      exact ⟨fun h => ⟨fun e => hc e.symm, h⟩, fun h => h.2⟩

theorem splitDot_append (a b : Bytes) (h : (46 : UInt8) ∉ a) : splitDot (a ++ 46 :: b) = some (a, b) := by
  induction a with
  | nil => simp [splitDot]
  | cons x xs ih =>
    simp only [List.mem_cons, not_or] at h
    have hx : x ≠ 46 := fun e => h.1 e.symm
    simp [splitDot, hx, ih h.2]

/-! ### what a successful parse means -/

theorem parse_ok (jc : JsonCodec) (tok : Bytes) (p : Parsed) (h : parse jc tok = .ok p) :
    tok = p.head ++ [46] ++ p.payload ++ [46] ++ p.sig ∧ (46 : UInt8) ∉ p.head ∧ (46 : UInt8) ∉ p.payload ∧
    decodeToJson jc p.head = some p.headers ∧ decodeToJson jc p.payload = some p.claims ∧
    parseHeadAlg p.headers = .ok p.alg := by
  unfold parse at h
  cases h1 : splitDot tok with
  | none => simp [h1] at h
  | some r1 =>
    obtain ⟨hd, rest⟩ := r1
    simp only [h1] at h
    cases h2 : splitDot rest with
    | none => simp [h2] at h
    | some r2 =>
      obtain ⟨pl, sg⟩ := r2
      simp only [h2] at h
      cases h3 : decodeToJson jc hd with
      | none => simp [h3] at h
      | some headers =>
        simp only [h3] at h
        cases h4 : parseHeadAlg headers with
        | error e => simp [h4] at h
        | ok alg =>
          simp only [h4] at h
          cases h5 : decodeToJson jc pl with
          | none => simp [h5] at h
          | some claims =>
            simp only [h5, Except.ok.injEq] at h
            subst h
            obtain ⟨e1, n1⟩ := splitDot_spec _ _ _ h1
            obtain ⟨e2, n2⟩ := splitDot_spec _ _ _ h2
            refine ⟨?_, n1, n2, h3, h5, h4⟩
            simp [e1, e2]

/-- the header's `alg` member is a string naming `a` exactly -/
theorem parseHeadAlg_ok (headers : Json) (a : Alg) (h : parseHeadAlg headers = .ok a) :
    ∃ s, headers.objGet N.alg = some (.str s) ∧ algStr a = some s ∧ a ≠ .inval := by
  unfold parseHeadAlg at h
  split at h
  · rename_i s hs
    by_cases hi : strAlg (some s) = .inval
    · simp [hi] at h
    · simp only [hi, if_false, Except.ok.injEq] at h
      subst h
      exact ⟨s, hs, (strAlg_exact s _ hi).1 rfl, hi⟩
  · simp at h

/-! ### what acceptance means -/

/-- the stages an accepted token went through -/
theorem verifyCore_ok (env : Env) (c : CheckerCfg) (tok : Bytes) (h : (verifyCore env c tok).1 = .ok) :
    ∃ p, parse env.jc tok = .ok p ∧ (afterCb c p).1 = 0 ∧
      setkeyCheck .checker (afterCb c p).2.alg (afterCb c p).2.key = none ∧
      claimsFail c.claims p.claims env.now = false ∧
      configPost (afterCb c p).2 p.alg p.sig.length = none ∧
      (p.sig.length = 0 ∨ ∃ k, (afterCb c p).2.key = some k ∧
        (verifySig env k p.alg (signingInput p.head p.payload) p.sig).1 = none) := by
  unfold verifyCore at h
  cases hp : parse env.jc tok with
  | error e => simp [hp] at h
  | ok p =>
    simp only [hp] at h
    by_cases hr : (afterCb c p).1 = 0
    · simp only [hr, ne_eq, not_true_eq_false, if_false] at h
      unfold judge at h
      refine ⟨p, rfl, hr, ?_⟩
      cases hs : setkeyCheck .checker (afterCb c p).2.alg (afterCb c p).2.key with
      | some e => simp [hs] at h
      | none =>
        simp only [hs] at h
        by_cases hc : claimsFail c.claims p.claims env.now = true
        · simp [hc] at h
        · simp only [hc, if_false] at h
          cases hcp : configPost (afterCb c p).2 p.alg p.sig.length with
          | some e => simp [hcp] at h
          | none =>
            simp only [hcp] at h
            refine ⟨rfl, by simpa using hc, rfl, ?_⟩
            by_cases hl : p.sig.length = 0
            · exact Or.inl hl
            · right
              simp only [hl, if_false] at h
              cases hk : (afterCb c p).2.key with
              | none => simp [hk] at h
              | some k =>
                simp only [hk] at h
                refine ⟨k, rfl, ?_⟩
                cases hv : verifySig env k p.alg (signingInput p.head p.payload) p.sig with
                | mk e tr =>
                  cases e with
                  | none => rfl
                  | some e =>
                    simp [hv] at h
    · simp [hr] at h

/-- `rc = 0` is exactly "the core ended ok" -/
theorem verify_rc_zero (env : Env) (ck : Checker) (tok : Option Bytes) :
    (verify env ck tok).2 = 0 ↔ ∃ t, tok = some t ∧ t ≠ [] ∧ (verifyCore env ck.cfg t).1 = .ok := by
  unfold verify
  cases tok with
  | none => simp
  | some t =>
    cases t with
    | nil => simp
    | cons x xs =>
      simp only [Option.some.injEq, exists_eq_left', ne_eq, reduceCtorEq, not_false_eq_true, true_and]
      cases (verifyCore env ck.cfg (x :: xs)).1 <;> simp

/-- pinning, from `configPost` alone: with a key, acceptance needs a signature and the token's
algorithm equal to the pinned one -/
theorem configPost_key (cfg : Config) (jalg : Alg) (n : Nat) (k : KeyItem) (hk : cfg.key = some k)
    (h : configPost cfg jalg n = none) : n ≠ 0 ∧ jalg ≠ .none ∧ jalg = pinned cfg := by
  unfold configPost at h
  unfold pinned
  by_cases hn : n = 0
  · simp [hn, hk] at h
  · simp only [hn, if_false, hk] at h
    refine ⟨hn, ?_⟩
    by_cases hj : jalg = .none
    · simp [hj] at h
    · simp only [hj, if_false] at h
      refine ⟨hj, ?_⟩
      by_cases ha : cfg.alg = .none
      · simp only [ha, if_true] at h
        by_cases hka : k.alg = jalg
        · simp [ha, hk, hka]
        · simp [hka] at h
      · simp only [ha, if_false] at h
        by_cases hkn : k.alg = .none
        · simp only [hkn, if_true] at h
          by_cases hca : cfg.alg = jalg
          · rw [if_pos (by simpa using ha)]; exact hca.symm
          · simp [hca] at h
        · simp only [hkn, if_false] at h
          by_cases hck : cfg.alg = k.alg
          · simp only [hck, ne_eq, not_true_eq_false, if_false] at h
            by_cases hkj : k.alg = jalg
            · rw [if_pos (by simpa using ha)]; rw [hck]; exact hkj.symm
            · simp [hkj] at h
          · simp [hck] at h

/-- without a key, acceptance needs: no explicit alg, token alg `none`, empty signature -/
theorem configPost_nokey (cfg : Config) (jalg : Alg) (n : Nat) (hk : cfg.key = none)
    (h : configPost cfg jalg n = none) : n = 0 ∧ jalg = .none ∧ cfg.alg = .none := by
  unfold configPost at h
  by_cases hn : n = 0
  · simp only [hn, if_true, hk, Option.isSome_none, Bool.false_eq_true, false_or] at h
    by_cases h2 : cfg.alg ≠ .none ∨ jalg ≠ .none
    · simp [h2] at h
    · simp only [not_or, ne_eq, Decidable.not_not] at h2
      exact ⟨hn, h2.2, h2.1⟩
  · simp only [hn, if_false, hk] at h
    by_cases hj : jalg = .none
    · simp [hj] at h
    · simp [hj] at h

end Jwt
