import Jwt.Verify
import Jwt.Generated.Pipeline
/-!
# The verification pipeline as modelled = its decision skeleton as written

`Jwt/Generated/Pipeline.lean` is produced from `jwt-verify.c` / `jwt-common.c` on every run: the order of the
tests of `jwt_parse_payload`, `jwt_parse_head`, `jwt_parse`, `jwt_verify_complete` and `jwt_checker_verify`,
which of them end the call, what every exit returns and whether it wrote or copied an error message. Here the
parameters of those skeletons ("atoms": the outcome of a callee, a pointer being NULL) are instantiated with the
corresponding quantities of the hand-written model (`Jwt/Parse.lean`, `Jwt/Verify.lean`), and the model's verdict
is proved equal to the skeleton's. Parameters that stand for something the code does not look at on a given path
(what lies behind a NULL pointer, the outcome of a callee that is not called) are universally quantified.
-/
namespace Jwt
open Jwt.Generated

/-- what `jwt_parse_head` does with the `alg` member it found (or did not find) -/
def algVerdict (j : Option Json) : Except Err Alg :=
  match j with
  | some (.str a) => if strAlg (some a) = .inval then .error .hdrAlgInvalid else .ok (strAlg (some a))
  | _ => .error .hdrAlgMissing

theorem parseHeadAlg_eq (hs : Json) : parseHeadAlg hs = algVerdict (hs.objGet N.alg) := by
  unfold parseHeadAlg algVerdict
  cases hs.objGet N.alg with
  | none => rfl
  | some j => cases j <;> rfl

def jIsString (j : Option Json) : Bool := match j with | some (.str _) => true | _ => false
def jInval (j : Option Json) : Bool := match j with | some (.str a) => strAlg (some a) = .inval | _ => false

theorem parseHead_core (j : Option Json) :
    ((∃ a, algVerdict j = .ok a) ↔ (Pipeline.parseHead false j.isNone (jIsString j) (jInval j)).1 = 0) ∧
    ((Pipeline.parseHead false j.isNone (jIsString j) (jInval j)).1 = 0 ∨ (Pipeline.parseHead false j.isNone (jIsString j) (jInval j)).1 = 1) ∧
    ((Pipeline.parseHead false j.isNone (jIsString j) (jInval j)).2 = true ↔ (Pipeline.parseHead false j.isNone (jIsString j) (jInval j)).1 = 1) := by
  cases j with
  | none => simp [Pipeline.parseHead, algVerdict, jIsString, jInval]
  | some v =>
    cases v with
    | str a =>
      by_cases h : strAlg (some a) = .inval <;> simp [Pipeline.parseHead, algVerdict, jIsString, jInval, h]
    | _ => simp [Pipeline.parseHead, algVerdict, jIsString, jInval]

/-- the translated `jwt_parse_head`, fed with what the model makes of a header segment -/
def parseHeadGen (jc : JsonCodec) (head : Bytes) (x1 x2 x3 : Bool) : Nat × Bool :=
  match decodeToJson jc head with
  | none => Pipeline.parseHead true x1 x2 x3
  | some hs => Pipeline.parseHead false (hs.objGet N.alg).isNone (jIsString (hs.objGet N.alg)) (jInval (hs.objGet N.alg))

/-- **`jwt_parse_head` as modelled = as written**: the header segment is taken exactly when the source returns 0;
every refusal has written a message. -/
theorem parseHead_generated (jc : JsonCodec) (head : Bytes) (x1 x2 x3 : Bool) :
    ((∃ hs a, decodeToJson jc head = some hs ∧ parseHeadAlg hs = .ok a) ↔ (parseHeadGen jc head x1 x2 x3).1 = 0) ∧
    ((parseHeadGen jc head x1 x2 x3).1 = 0 ∨ (parseHeadGen jc head x1 x2 x3).1 = 1) ∧
    ((parseHeadGen jc head x1 x2 x3).2 = true ↔ (parseHeadGen jc head x1 x2 x3).1 = 1) := by
  simp only [parseHeadGen]
  cases hd : decodeToJson jc head with
  | none => simp [Pipeline.parseHead]
  | some hs =>
    obtain ⟨c1, c2, c3⟩ := parseHead_core (hs.objGet N.alg)
    refine ⟨?_, c2, c3⟩
    simp only [Option.some.injEq, exists_and_left, exists_eq_left', parseHeadAlg_eq]
    exact c1

/-- **`jwt_parse_payload` as modelled = as written** -/
theorem parsePayload_generated (jc : JsonCodec) (payload : Bytes) :
    let r := Pipeline.parsePayload (decodeToJson jc payload).isNone
    ((decodeToJson jc payload).isSome ↔ r.1 = 0) ∧ (r.1 = 0 ∨ r.1 = 1) ∧ (r.2 = true ↔ r.1 = 1) := by
  cases decodeToJson jc payload <;> simp [Pipeline.parsePayload]

/-- the translated `jwt_parse`, fed with what the model makes of the token text (allocation succeeds) -/
def parseGen (jc : JsonCodec) (tok : Bytes) (x1 x2 x3 x4 x5 x6 : Bool) : Nat × Bool :=
  match splitDot tok with
  | none => Pipeline.parse false true x1 x2 x3
  | some (head, rest) =>
    match splitDot rest with
    | none => Pipeline.parse false false true x2 x3
    | some (payload, _) =>
      Pipeline.parse false false false ((parseHeadGen jc head x4 x5 x6).1 ≠ 0)
        ((Pipeline.parsePayload (decodeToJson jc payload).isNone).1 ≠ 0)

/-- **`jwt_parse` as modelled = as written**: the model parses a token exactly when the source returns 0 -- the two
dots are looked for first (in this order), then the header, then the payload; the source returns 0 or 1. -/
theorem parse_generated (jc : JsonCodec) (tok : Bytes) (x1 x2 x3 x4 x5 x6 : Bool) :
    ((∃ p, parse jc tok = .ok p) ↔ (parseGen jc tok x1 x2 x3 x4 x5 x6).1 = 0) ∧
    ((parseGen jc tok x1 x2 x3 x4 x5 x6).1 = 0 ∨ (parseGen jc tok x1 x2 x3 x4 x5 x6).1 = 1) := by
  simp only [parseGen, parse]
  cases h1 : splitDot tok with
  | none => simp [Pipeline.parse]
  | some hr =>
    obtain ⟨head, rest⟩ := hr
    simp only
    cases h2 : splitDot rest with
    | none => simp [Pipeline.parse]
    | some ps =>
      obtain ⟨payload, sg⟩ := ps
      simp only
      obtain ⟨hh1, hh2, _⟩ := parseHead_generated jc head x4 x5 x6
      cases hd : decodeToJson jc head with
      | none =>
        have : (parseHeadGen jc head x4 x5 x6).1 ≠ 0 := by
          intro h0; have := hh1.mpr h0; obtain ⟨hs, a, e, _⟩ := this; simp [hd] at e
        simp [Pipeline.parse, this]
      | some hs =>
        cases ha : parseHeadAlg hs with
        | error e =>
          have : (parseHeadGen jc head x4 x5 x6).1 ≠ 0 := by
            intro h0; have := hh1.mpr h0; obtain ⟨hs', a, e', ea⟩ := this
            rw [hd] at e'; cases e'; simp [ha] at ea
          simp [Pipeline.parse, this, ha]
        | ok a =>
          have h0 : (parseHeadGen jc head x4 x5 x6).1 = 0 := hh1.mp ⟨hs, a, hd, ha⟩
          cases hp : decodeToJson jc payload with
          | none => simp [Pipeline.parse, Pipeline.parsePayload, h0, ha]
          | some cl => simp [Pipeline.parse, Pipeline.parsePayload, h0, ha]

/-- the order of the tests in `jwt_parse`, read off the translated code: a missing first dot is reported whatever
else is wrong with the text, then a missing second dot; header and payload failures leave the message to the callee -/
theorem parse_order (c d e : Bool) :
    Pipeline.parse false true c d e = (1, true) ∧ Pipeline.parse false false true d e = (1, true) ∧
    Pipeline.parse false false false true e = (1, false) ∧ Pipeline.parse false false false false true = (1, false) ∧
    Pipeline.parse false false false false false = (0, false) := by
  simp [Pipeline.parse]

/-- **`jwt_verify_complete` as modelled = as written**: the signature is looked at exactly when the configuration
checks passed and something follows the second dot. -/
theorem verifyComplete_generated (cfgFails : Bool) (n : Nat) :
    (Pipeline.verifyComplete cfgFails (n = 0)).1 = 1 ↔ (cfgFails = false ∧ n ≠ 0) := by
  cases cfgFails <;> by_cases h : n = 0 <;> simp [Pipeline.verifyComplete, h]

/-- what the checker's error flag is once `jwt_verify_complete` has run and its error state was copied back -/
def errFlagOf (x : Exit) : Nat := match x with | .ok => 0 | _ => 1

/-- the translated `jwt_checker_verify`, fed with what the model makes of a call on a non-NULL checker with a
non-empty token (allocations succeed) -/
def checkerVerifyGen (env : Env) (c : CheckerCfg) (t : Bytes) (x : Bool) : Nat × Bool × Bool :=
  match parse env.jc t with
  | .error _ => Pipeline.checkerVerify false false false false true c.cb.isNone false x x 0
  | .ok p =>
    Pipeline.checkerVerify false false false false false c.cb.isNone false ((afterCb c p).1 = 0)
      (setkeyCheck .checker (afterCb c p).2.alg (afterCb c p).2.key).isSome
      (errFlagOf (judge env c.claims p (afterCb c p).2).1)

/-- **`jwt_checker_verify` as modelled = as written**, for every environment, configuration (with or without a
callback, whatever it does) and non-empty token: the same return value; the per-call object's error state is
copied to the checker exactly on the exits the model marks `viaJwt` / `ok`; the exits the model marks `direct`
are the ones where the source writes to the checker itself (or `__setkey_check` has). -/
theorem checkerVerify_generated (env : Env) (ck : Checker) (t : Bytes) (ht : t ≠ []) (x : Bool) :
    let r := checkerVerifyGen env ck.cfg t x
    (verify env ck (some t)).2 = r.1 ∧
    (r.2.2 = true ↔ ∀ e, (verifyCore env ck.cfg t).1 ≠ .direct e) := by
  cases t with
  | nil => exact absurd rfl ht
  | cons b bs =>
    simp only [verify, verifyCore, checkerVerifyGen]
    cases hp : parse env.jc (b :: bs) with
    | error e => simp [Pipeline.checkerVerify]
    | ok p =>
      simp only
      by_cases hcb : (afterCb ck.cfg p).1 = 0
      · simp only [hcb, ne_eq, not_true_eq_false, if_false, decide_true]
        simp only [judge]
        cases hs : setkeyCheck .checker (afterCb ck.cfg p).2.alg (afterCb ck.cfg p).2.key with
        | some e => cases hc : ck.cfg.cb <;> simp [Pipeline.checkerVerify, hc]
        | none =>
          simp only [Option.isSome_none]
          cases hc : ck.cfg.cb <;>
            simp only [Pipeline.checkerVerify, Option.isNone_none, Option.isNone_some, Bool.false_eq_true, if_false, if_true, or_self, not_false_eq_true,
              Bool.true_eq_false, Bool.not_eq_true, decide_eq_true_eq] <;>
            (repeat' split) <;> simp_all [errFlagOf]
      · have hne : (afterCb ck.cfg p).1 ≠ 0 := hcb
        simp only [hne, ne_eq, not_false_eq_true, if_true, decide_false]
        cases hc : ck.cfg.cb with
        | none => simp [afterCb, hc] at hcb
        | some cb => simp [Pipeline.checkerVerify]

/-- a callback that returns non-zero ends the call with 1 before the key, the claims or the signature are looked
at -- read off the translated code, for every value of everything else -/
theorem checkerVerify_cb_nonzero (a b c : Bool) (n : Nat) :
    Pipeline.checkerVerify false false false false false false false false a n = (1, true, false) ∧
    (∀ cbNull, Pipeline.checkerVerify false false false false true cbNull b c a n = (1, false, true)) := by
  simp [Pipeline.checkerVerify]

/-- the source returns non-zero on every exit that is not the last one, and there it returns the checker's flag -/
theorem checkerVerify_returns (a b c d e f g h i : Bool) (n : Nat) :
    (Pipeline.checkerVerify a b c d e f g h i n).1 = 1 ∨ (Pipeline.checkerVerify a b c d e f g h i n).1 = n := by
  simp only [Pipeline.checkerVerify]; (repeat' split) <;> simp

end Jwt
