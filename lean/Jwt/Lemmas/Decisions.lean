import Jwt.Policy
import Jwt.Generated.Decisions
/-! The hand-written admission model equals the functions translated from the source. -/
namespace Jwt
open Jwt.Generated

/-- the translated `__setkey_check` for the side, fed with what a (possibly NULL) key pointer shows;
`ka`, `kp` stand for whatever a read through a NULL `key` would yield — the result does not depend on them -/
def setkeyCheckGen (side : Side) (alg : Alg) (key : Option KeyItem) (ka : Alg) (kp : Bool) : Nat × Bool :=
  match side with
  | .builder => setkeyCheckBuilder false key.isNone (key.elim kp (·.isPrivate)) alg (key.elim ka (·.alg))
  | .checker => setkeyCheckChecker false key.isNone (key.elim kp (·.isPrivate)) alg (key.elim ka (·.alg))

/-- **`__setkey_check` as modelled = `__setkey_check` as written**, for both compilations (builder,
checker), every algorithm and every key (also NULL, whatever lies behind the NULL pointer): the model
admits exactly when the source returns 0; the source returns 0 or 1; and it has written a message
exactly when it returns 1. -/
theorem setkeyCheck_generated (side : Side) (alg : Alg) (key : Option KeyItem) (ka : Alg) (kp : Bool) :
    (setkeyCheck side alg key = none ↔ (setkeyCheckGen side alg key ka kp).1 = 0) ∧
    ((setkeyCheckGen side alg key ka kp).1 = 0 ∨ (setkeyCheckGen side alg key ka kp).1 = 1) ∧
    ((setkeyCheckGen side alg key ka kp).2 = true ↔ (setkeyCheckGen side alg key ka kp).1 = 1) := by
  cases side <;> cases key <;>
    simp only [setkeyCheckGen, setkeyCheckBuilder, setkeyCheckChecker, setkeyCheck, setkeyCheck.setkeyTable, Option.isNone_none,
      Option.isNone_some, Option.elim_none, Option.elim_some] <;>
    (repeat' split) <;> simp_all

/-- **`__verify_config_post` (after the claims passed) as modelled = as written**: same verdict for every
configuration, header algorithm and signature length; a message accompanies every refusal. -/
theorem configPost_generated (cfg : Config) (jalg : Alg) (n : Nat) (ka : Alg) :
    let r := verifyConfigPost false cfg.key.isNone n cfg.alg (cfg.key.elim ka (·.alg)) jalg
    (configPost cfg jalg n = none ↔ r.1 = 0) ∧ (r.1 = 0 ∨ r.1 = 1) ∧ (r.2 = true ↔ r.1 = 1) := by
  obtain ⟨key, calg⟩ := cfg
  cases key <;>
    simp only [verifyConfigPost, configPost, Option.isNone_none, Option.isNone_some, Option.elim_none, Option.elim_some,
      Option.isSome_none, Option.isSome_some] <;>
    (repeat' split) <;> simp_all

/-- a failing claims check is reported with a message before anything else is looked at -/
theorem configPost_claims_first (k : Bool) (n : Nat) (a b c : Alg) : verifyConfigPost true k n a b c = (1, true) := by
  simp [verifyConfigPost]

end Jwt
