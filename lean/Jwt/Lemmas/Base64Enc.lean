import Jwt.Lemmas.TableFacts
/-! Encoder: the literal three-state machine computes RFC 4648 §5. -/
namespace Jwt.Base64
open Jwt Jwt.Generated

/-! ### bit operations = arithmetic (per byte, by kernel evaluation over all 256 values) -/

theorem shr2_and (c : UInt8) : (c >>> 2) &&& 0x3F = UInt8.ofNat (c.toNat / 4) :=
  forall_u8 (P := fun c => (c >>> 2) &&& 0x3F = UInt8.ofNat (c.toNat / 4)) (by decide +kernel) c
theorem and3_shl4 (c : UInt8) : (c &&& 0x3) <<< 4 = UInt8.ofNat (c.toNat % 4 * 16) :=
  forall_u8 (P := fun c => (c &&& 0x3) <<< 4 = UInt8.ofNat (c.toNat % 4 * 16)) (by decide +kernel) c
theorem shr4_and (c : UInt8) : (c >>> 4) &&& 0xF = UInt8.ofNat (c.toNat / 16) :=
  forall_u8 (P := fun c => (c >>> 4) &&& 0xF = UInt8.ofNat (c.toNat / 16)) (by decide +kernel) c
theorem andF_shl2 (c : UInt8) : (c &&& 0xF) <<< 2 = UInt8.ofNat (c.toNat % 16 * 4) :=
  forall_u8 (P := fun c => (c &&& 0xF) <<< 2 = UInt8.ofNat (c.toNat % 16 * 4)) (by decide +kernel) c
theorem shr6_and (c : UInt8) : (c >>> 6) &&& 0x3 = UInt8.ofNat (c.toNat / 64) :=
  forall_u8 (P := fun c => (c >>> 6) &&& 0x3 = UInt8.ofNat (c.toNat / 64)) (by decide +kernel) c
theorem and3F (c : UInt8) : c &&& 0x3F = UInt8.ofNat (c.toNat % 64) :=
  forall_u8 (P := fun c => c &&& 0x3F = UInt8.ofNat (c.toNat % 64)) (by decide +kernel) c

theorem or_16 : ∀ x, x < 4 → ∀ y, y < 16 →
    UInt8.ofNat (x * 16) ||| UInt8.ofNat y = UInt8.ofNat (x * 16 + y) := by decide +kernel
theorem or_4 : ∀ x, x < 16 → ∀ y, y < 4 →
    UInt8.ofNat (x * 4) ||| UInt8.ofNat y = UInt8.ofNat (x * 4 + y) := by decide +kernel

theorem enc_idx2 (l c : UInt8) :
    ((l &&& 0x3) <<< 4) ||| ((c >>> 4) &&& 0xF) = UInt8.ofNat (l.toNat % 4 * 16 + c.toNat / 16) := by
  rw [and3_shl4, shr4_and]
  exact or_16 _ (Nat.mod_lt _ (by decide)) _ (by have := UInt8.toNat_lt c; omega)
theorem enc_idx3 (l c : UInt8) :
    ((l &&& 0xF) <<< 2) ||| ((c >>> 6) &&& 0x3) = UInt8.ofNat (l.toNat % 16 * 4 + c.toNat / 64) := by
  rw [andF_shl2, shr6_and]
  exact or_4 _ (Nat.mod_lt _ (by decide)) _ (by have := UInt8.toNat_lt c; omega)

/-- every index handed to `base64en[...]` is below 64 = the table length: the table read is in bounds -/
theorem enIdx_lt (l c : UInt8) :
    ((c >>> 2) &&& 0x3F).toNat < base64en.length ∧
    (((l &&& 0x3) <<< 4) ||| ((c >>> 4) &&& 0xF)).toNat < base64en.length ∧
    (((l &&& 0xF) <<< 2) ||| ((c >>> 6) &&& 0x3)).toNat < base64en.length ∧
    (c &&& 0x3F).toNat < base64en.length ∧
    ((l &&& 0x3) <<< 4).toNat < base64en.length ∧ ((l &&& 0xF) <<< 2).toNat < base64en.length := by
  rw [shr2_and, enc_idx2, enc_idx3, and3F, and3_shl4, andF_shl2, base64en_length]
  have := UInt8.toNat_lt c; have := UInt8.toNat_lt l
  simp only [UInt8.toNat_ofNat']
  omega

/-! ### the loop, three bytes at a time -/

/-- same chunking as `sextets`, on bytes (only used to drive the induction) -/
def sextetsB : Bytes → List Nat
  | a :: b :: c :: rest =>
    a.toNat / 4 :: (a.toNat % 4 * 16 + b.toNat / 16) :: (b.toNat % 16 * 4 + c.toNat / 64) :: c.toNat % 64 :: sextetsB rest
  | [a, b] => [a.toNat / 4, a.toNat % 4 * 16 + b.toNat / 16, b.toNat % 16 * 4]
  | [a] => [a.toNat / 4, a.toNat % 4 * 16]
  | [] => []

theorem sextetsB_eq (bs : Bytes) : sextetsB bs = sextets (bs.map (·.toNat)) := by
  fun_induction sextetsB bs <;> simp_all [sextets]

theorem sextetsB_lt (bs : Bytes) : ∀ n ∈ sextetsB bs, n < 64 := by
  fun_induction sextetsB bs
  all_goals
    intro n hn
    simp only [List.mem_cons, List.not_mem_nil, or_false] at hn
  · rename_i a b c rest ih
    have := UInt8.toNat_lt a; have := UInt8.toNat_lt b; have := UInt8.toNat_lt c
    rcases hn with h | h | h | h | h
    · omega
    · omega
    · omega
    · omega
    · exact ih n h
  · rename_i a b
    have := UInt8.toNat_lt a; have := UInt8.toNat_lt b
    rcases hn with h | h | h <;> omega
  · rename_i a
    have := UInt8.toNat_lt a
    rcases hn with h | h <;> omega

theorem cstr_cons_ne {x : UInt8} (h : x ≠ 0) (xs : Bytes) : cstr (x :: xs) = x :: cstr xs := by
  simp [cstr, h]
theorem cstr_cons_zero (xs : Bytes) : cstr (0 :: xs) = [] := by
  simp [cstr]

private theorem swapEnc_at (n : Nat) (h : n < 64) (xs : Bytes) :
    cstr (swapEnc (enAt (UInt8.ofNat n)) :: xs) = alphaUrl n :: cstr xs := by
  have := swapEnc_enAt n h
  rw [this.1, cstr_cons_ne this.2]

/-- **the literal encoder, URL-swapped and cut at the first pad, is unpadded RFC 4648 §5** -/
theorem uriEncode_loop (bs : Bytes) (l : UInt8) :
    cstr ((encLoop bs 0 l).map swapEnc) = (sextetsB bs).map alphaUrl := by
  fun_induction sextetsB bs generalizing l
  · rename_i a b c rest ih
    have ha := UInt8.toNat_lt a; have hb := UInt8.toNat_lt b; have hc := UInt8.toNat_lt c
    simp only [encLoop, encStep, List.cons_append, List.nil_append, List.map_cons]
    rw [shr2_and, enc_idx2, enc_idx3, and3F]
    rw [swapEnc_at _ (by omega), swapEnc_at _ (by omega), swapEnc_at _ (by omega), swapEnc_at _ (by omega), ih]
  · rename_i a b
    have ha := UInt8.toNat_lt a; have hb := UInt8.toNat_lt b
    simp only [encLoop, encStep, encTail, List.cons_append, List.nil_append, List.map_cons, List.map_nil]
    rw [shr2_and, enc_idx2, andF_shl2]
    rw [swapEnc_at _ (by omega), swapEnc_at _ (by omega), swapEnc_at _ (by omega), swapEnc_pad, cstr_cons_zero]
  · rename_i a
    have ha := UInt8.toNat_lt a
    simp only [encLoop, encStep, encTail, List.cons_append, List.nil_append, List.map_cons, List.map_nil]
    rw [shr2_and, and3_shl4]
    rw [swapEnc_at _ (by omega), swapEnc_at _ (by omega), swapEnc_pad, cstr_cons_zero]
  · simp [encLoop, encTail, cstr]

theorem uriEncode_eq_rfc (bs : Bytes) : uriEncode bs = rfc4648url bs := by
  unfold uriEncode base64Encode rfc4648url
  rw [uriEncode_loop, sextetsB_eq]

/-! ### output size: `base64_encode` writes `length + 1` cells, the buffer has `encodeOutSize + 1` -/

theorem encLoop_length (bs : Bytes) (l : UInt8) :
    (encLoop bs 0 l).length = (bs.length + 2) / 3 * 4 := by
  fun_induction sextetsB bs generalizing l
  · rename_i a b c rest ih
    simp only [encLoop, encStep, List.cons_append, List.nil_append, List.length_cons, ih]
    omega
  · simp [encLoop, encStep, encTail]
  · simp [encLoop, encStep, encTail]
  · simp [encLoop, encTail]

theorem base64Encode_length (bs : Bytes) : (base64Encode bs).length = (bs.length + 2) / 3 * 4 :=
  encLoop_length bs 0

end Jwt.Base64
