import Jwt.Builder
import Jwt.Lemmas.Policy
import Jwt.Lemmas.Json
/-! Structural lemmas about `generate`: what a produced token looks like, stage by stage. -/
namespace Jwt
open Jwt.Base64

theorem generateCore_ok (env : Env) (b : BuilderCfg) (t : Option Bytes) (tr : List CryptoCall)
    (h : generateCore env b = (.ok, t, tr)) :
    let r := genAfterCb b env.now
    ∃ headers tok, r.1 = 0 ∧ setkeyCheck .builder (usedAlg r.2.2.2) r.2.2.2.key = none ∧
      headSetup r.2.1 (usedAlg r.2.2.2) = .ok headers ∧
      encodeToken env headers r.2.2.1 (usedAlg r.2.2.2) r.2.2.2.key = (.ok tok, tr) ∧ t = some tok := by
  unfold generateCore at h
  by_cases hr : (genAfterCb b env.now).1 = 0
  · simp only [hr, ne_eq, not_true_eq_false, if_false] at h
    cases hs : setkeyCheck .builder (usedAlg (genAfterCb b env.now).2.2.2) (genAfterCb b env.now).2.2.2.key with
    | some e => simp [hs] at h
    | none =>
      simp only [hs] at h
      cases hh : headSetup (genAfterCb b env.now).2.1 (usedAlg (genAfterCb b env.now).2.2.2) with
      | error e => simp [hh] at h
      | ok headers =>
        simp only [hh] at h
        cases he : encodeToken env headers (genAfterCb b env.now).2.2.1 (usedAlg (genAfterCb b env.now).2.2.2)
            (genAfterCb b env.now).2.2.2.key with
        | mk res tr' =>
          cases res with
          | error e => simp [he] at h
          | ok tok =>
            simp only [he, Prod.mk.injEq, true_and] at h
            obtain ⟨rfl, rfl⟩ := h
            exact ⟨headers, tok, hr, hs, hh, he, rfl⟩
  · simp [hr] at h

theorem generate_some (env : Env) (b : Builder) (t : Bytes) (h : (generate env b).2 = some t) :
    ∃ tr, generateCore env b.cfg = (.ok, some t, tr) := by
  unfold generate at h
  cases hg : generateCore env b.cfg with
  | mk ex rest =>
    obtain ⟨t', tr⟩ := rest
    cases ex with
    | direct e => simp [hg] at h
    | viaJwt e => simp [hg] at h
    | ok =>
      simp only [hg] at h
      subst h
      exact ⟨tr, rfl⟩

/-- the shape of a produced token -/
theorem encodeToken_ok (env : Env) (headers claims : Json) (alg : Alg) (key : Option KeyItem) (tok : Bytes)
    (tr : List CryptoCall) (h : encodeToken env headers claims alg key = (.ok tok, tr)) :
    uriEncodeRet (env.jc.dump headers) ≠ 0 ∧ uriEncodeRet (env.jc.dump claims) ≠ 0 ∧
    ((alg = .none ∧ tr = [] ∧
        tok = signingInput (uriEncode (env.jc.dump headers)) (uriEncode (env.jc.dump claims)) ++ [46]) ∨
     (alg ≠ .none ∧ ∃ k sig, key = some k ∧
        sign env k alg (signingInput (uriEncode (env.jc.dump headers)) (uriEncode (env.jc.dump claims))) = (.ok sig, tr) ∧
        tok = signingInput (uriEncode (env.jc.dump headers)) (uriEncode (env.jc.dump claims)) ++ [46] ++ uriEncode sig)) := by
  unfold encodeToken at h
  by_cases h0 : uriEncodeRet (env.jc.dump headers) = 0 ∨ uriEncodeRet (env.jc.dump claims) = 0
  · simp [h0] at h
  · simp only [h0, if_false] at h
    simp only [not_or] at h0
    refine ⟨h0.1, h0.2, ?_⟩
    by_cases ha : alg = .none
    · simp only [ha, if_true, Prod.mk.injEq, Except.ok.injEq] at h
      left; exact ⟨ha, h.2.symm, h.1.symm⟩
    · simp only [ha, if_false] at h
      right
      refine ⟨ha, ?_⟩
      cases hk : key with
      | none => simp [hk] at h
      | some k =>
        simp only [hk] at h
        cases hs : sign env k alg (signingInput (uriEncode (env.jc.dump headers)) (uriEncode (env.jc.dump claims))) with
        | mk res tr' =>
          cases res with
          | error e => simp [hs] at h
          | ok sig =>
            simp only [hs, Prod.mk.injEq, Except.ok.injEq] at h
            obtain ⟨rfl, rfl⟩ := h
            exact ⟨k, sig, rfl, hs, rfl⟩

/-- `sign` succeeds only through the gate, and what it returns is the primitive's answer -/
theorem sign_ok (env : Env) (k : KeyItem) (a : Alg) (msg sig : Bytes) (tr : List CryptoCall)
    (h : sign env k a msg = (.ok sig, tr)) :
    strengthOk a k ∧
    ((a.isHmac = true ∧ sig = env.cr.hmac a k.oct msg ∧ tr = [.hmac a k]) ∨
     (a.isPk = true ∧ env.prov.supports a = true ∧ env.cr.pkSign env.prov k a msg = some sig ∧ tr = [.pkSign a k])) := by
  unfold sign at h
  cases a <;> simp only at h
  all_goals first
    | (simp at h; done)
    | (split at h
       · simp at h
       · rename_i hg
         have hs := (checkHmac_none_iff _ k).1 hg
         simp only [Prod.mk.injEq, Except.ok.injEq] at h
         exact ⟨hs.2, Or.inl ⟨hs.1, h.1.symm, h.2.symm⟩⟩)
    | (split at h
       · simp at h
       · rename_i hg
         have hs := (checkKeyBits_none_iff _ k).1 hg
         split at h
         · simp at h
         · rename_i hsup
           split at h
           · simp at h
           · rename_i s hps
             simp only [Prod.mk.injEq, Except.ok.injEq] at h
             refine ⟨hs.2, Or.inr ⟨hs.1, by simpa using hsup, ?_, h.2.symm⟩⟩
             rw [hps, h.1])

end Jwt
