import Jwt.Builder
import Jwt.Generated.Pipeline
/-!
# The generating pipeline as modelled = its decision skeleton as written

Companion of `Jwt/Lemmas/Pipeline.lean` for `jwt_head_setup`, `jwt_encode` (`jwt-encode.c`) and
`jwt_builder_generate` (`FUNC(generate)` of `jwt-common.c`). Allocation failures are not part of this model
(C17 treats them): the corresponding parameters of the generated skeletons are `false`.
-/
namespace Jwt
open Jwt.Generated Jwt.Base64

/-- the two header sets of `jwt_head_setup` -/
def typSet (headers : Json) (alg : Alg) : Json × VErr :=
  if alg ≠ .none then
    (setter (fun _ => none) headers { type := .str, name := some N.typ, strVal := some N.JWT, replace := false })
  else (headers, VErr.none)
def algSet (h : Json) (alg : Alg) : Json × VErr :=
  setter (fun _ => none) h { type := .str, name := some N.alg, strVal := algStr alg, replace := true }

theorem headSetup_core (sg x : Bool) (e1 e2 : VErr) :
    let r := Pipeline.headSetup sg (if sg then decide (e1 ≠ .none) else x) (decide (e1 ≠ .exist)) (decide (e2 ≠ .none))
    ((¬ (sg = true ∧ e1 ≠ .none ∧ e1 ≠ .exist) ∧ e2 = .none) ↔ r.1 = 0) ∧ (r.1 = 0 ∨ r.1 = 1) ∧ (r.2 = true ↔ r.1 = 1) := by
  cases sg <;> cases x <;> cases e1 <;> cases e2 <;> simp [Pipeline.headSetup]

/-- **`jwt_head_setup` as modelled = as written**: a failing `typ` set is tolerated exactly when the member exists
already; `alg` is set (replacing) afterwards; the source returns 0 exactly when the model yields headers. -/
theorem headSetup_generated (headers : Json) (alg : Alg) (x : Bool) :
    let t := typSet headers alg
    let r := Pipeline.headSetup (alg ≠ .none) (if alg ≠ .none then t.2 ≠ .none else x) (t.2 ≠ .exist) ((algSet t.1 alg).2 ≠ .none)
    ((∃ h, headSetup headers alg = .ok h) ↔ r.1 = 0) ∧ (r.1 = 0 ∨ r.1 = 1) ∧ (r.2 = true ↔ r.1 = 1) := by
  intro t r
  have hm : (∃ h, headSetup headers alg = .ok h) ↔ (¬ (decide (alg ≠ .none) = true ∧ t.2 ≠ .none ∧ t.2 ≠ .exist) ∧ (algSet t.1 alg).2 = .none) := by
    simp only [headSetup, t, typSet, algSet]
    by_cases ha : alg = .none
    · subst ha; simp; split <;> simp_all
    · simp only [ne_eq, ha, not_false_eq_true, if_true, decide_true, true_and]
      split
      · simp_all
      · split <;> simp_all
  have hc := headSetup_core (decide (alg ≠ .none)) x t.2 (algSet t.1 alg).2
  simp only at hc
  have hr : r = Pipeline.headSetup (decide (alg ≠ .none)) (if decide (alg ≠ .none) = true then decide (t.2 ≠ .none) else x) (decide (t.2 ≠ .exist))
      (decide ((algSet t.1 alg).2 ≠ .none)) := by
    simp only [r]; by_cases ha : alg = .none <;> simp [ha]
  rw [hr]
  exact ⟨hm.trans hc.1, hc.2.1, hc.2.2⟩

/-- the translated `jwt_encode`, fed with what the model makes of headers, claims, algorithm and key -/
def encodeGen (env : Env) (headers claims : Json) (alg : Alg) (key : Option KeyItem) (signRet : Nat) : Nat × Bool :=
  let msg := signingInput (uriEncode (env.jc.dump headers)) (uriEncode (env.jc.dump claims))
  Pipeline.encode false false (uriEncodeRet (env.jc.dump headers) = 0) false (uriEncodeRet (env.jc.dump claims) = 0) false (alg = .none)
    (match key with | none => true | some k => match (sign env k alg msg).1 with | .error _ => true | .ok _ => false) signRet false false

def signedTail (msg : Bytes) (x : Except Err Bytes × List CryptoCall) : Except Err Bytes × List CryptoCall :=
  match x with
  | (.error e, tr) => (.error e, tr)
  | (.ok s, tr) => (.ok (msg ++ [46] ++ uriEncode s), tr)

theorem encode_core (x : Except Err Bytes × List CryptoCall) (msg : Bytes) (signRet : Nat) (hs : signRet ≠ 0) :
    (∃ t, (signedTail msg x).1 = Except.ok t) ↔
    (if (match x.1 with | Except.error _ => true | Except.ok _ => false) = true then (signRet, true) else (0, false)).1 = 0 := by
  obtain ⟨r, tr⟩ := x
  cases r <;> simp [signedTail, hs]

/-- **`jwt_encode` as modelled = as written**: a token comes out exactly when the source returns 0 -- header and payload
serialise and encode to something, and (unless the algorithm is none, where the text ends after the second dot) `jwt_sign`
succeeded. `signRet` is what a failing `jwt_sign` returned (non-zero). -/
theorem encode_generated (env : Env) (headers claims : Json) (alg : Alg) (key : Option KeyItem) (signRet : Nat) (hs : signRet ≠ 0) :
    (∃ t, (encodeToken env headers claims alg key).1 = .ok t) ↔ (encodeGen env headers claims alg key signRet).1 = 0 := by
  simp only [encodeToken, encodeGen, Pipeline.encode]
  by_cases h1 : uriEncodeRet (env.jc.dump headers) = 0
  · simp [h1]
  · by_cases h2 : uriEncodeRet (env.jc.dump claims) = 0
    · simp [h1, h2]
    · simp only [h1, h2, or_self, if_false, decide_false, Bool.false_eq_true, if_true]
      by_cases ha : alg = .none
      · simp [ha]
      · simp only [ha, if_false, decide_false, Bool.false_eq_true]
        cases key with
        | none => simp [hs]
        | some k =>
          exact encode_core (sign env k alg (signingInput (uriEncode (env.jc.dump headers)) (uriEncode (env.jc.dump claims))))
            (signingInput (uriEncode (env.jc.dump headers)) (uriEncode (env.jc.dump claims))) signRet hs

/-- the translated `jwt_builder_generate`, fed with what the model makes of a call on a non-NULL builder (allocations
succeed, the integer sets of iat / nbf / exp go through) -/
def builderGenerateGen (env : Env) (b : BuilderCfg) : Nat × Bool × Bool :=
  let r := genAfterCb b env.now
  let alg := usedAlg r.2.2.2
  Pipeline.builderGenerate false false false false b.mask.iat true b.mask.nbf true b.mask.exp true b.cb.isNone (r.1 ≠ 0)
    (setkeyCheck .builder alg r.2.2.2.key).isSome
    (match headSetup r.2.1 alg with | .error _ => true | .ok _ => false)
    (match headSetup r.2.1 alg with
     | .error _ => 0
     | .ok headers => match (encodeToken env headers r.2.2.1 alg r.2.2.2.key).1 with | .ok _ => 1 | .error _ => 0)

/-- **`jwt_builder_generate` as modelled = as written**, for every environment and configuration (with or without a
callback, whatever it does): a token is returned exactly when the generated skeleton returns non-NULL; the per-token
object's error state is copied to the builder exactly on the exits the model does not mark `direct`. -/
theorem builderGenerate_generated (env : Env) (b : Builder) :
    ((generate env b).2.isSome ↔ (builderGenerateGen env b.cfg).1 ≠ 0) ∧
    ((builderGenerateGen env b.cfg).2.2 = true ↔ ∀ e, (generateCore env b.cfg).1 ≠ .direct e) := by
  simp only [generate, generateCore, builderGenerateGen]
  have hcb : b.cfg.cb = none → (genAfterCb b.cfg env.now).1 = 0 := by intro h; simp [genAfterCb, h]
  by_cases h0 : (genAfterCb b.cfg env.now).1 = 0
  · simp only [h0, ne_eq, not_true_eq_false, if_false, decide_false]
    cases hs : setkeyCheck .builder (usedAlg (genAfterCb b.cfg env.now).2.2.2) (genAfterCb b.cfg env.now).2.2.2.key with
    | some e =>
      cases b.cfg.mask.iat <;> cases b.cfg.mask.nbf <;> cases b.cfg.mask.exp <;> simp [Pipeline.builderGenerate]
    | none =>
      cases hh : headSetup (genAfterCb b.cfg env.now).2.1 (usedAlg (genAfterCb b.cfg env.now).2.2.2) with
      | error e =>
        cases b.cfg.mask.iat <;> cases b.cfg.mask.nbf <;> cases b.cfg.mask.exp <;> simp [Pipeline.builderGenerate]
      | ok headers =>
        simp only
        cases he : encodeToken env headers (genAfterCb b.cfg env.now).2.2.1 (usedAlg (genAfterCb b.cfg env.now).2.2.2) (genAfterCb b.cfg env.now).2.2.2.key with
        | mk r tr =>
          cases r <;> cases b.cfg.mask.iat <;> cases b.cfg.mask.nbf <;> cases b.cfg.mask.exp <;> simp [Pipeline.builderGenerate]
  · have hne : (genAfterCb b.cfg env.now).1 ≠ 0 := h0
    have hsome : b.cfg.cb.isNone = false := by
      cases hc : b.cfg.cb with
      | none => exact absurd (hcb hc) h0
      | some _ => rfl
    simp only [hne, ne_eq, not_false_eq_true, if_true, decide_true, hsome]
    cases b.cfg.mask.iat <;> cases b.cfg.mask.nbf <;> cases b.cfg.mask.exp <;> simp [Pipeline.builderGenerate]

/-- in the generated code a callback that is installed and returns non-zero ends the call with NULL and a message on
the builder before the key is looked at; a refused key/algorithm pair ends it before anything is signed -/
theorem builderGenerate_cb_and_key (i n e a b : Bool) (k : Nat) :
    Pipeline.builderGenerate false false false false i true n true e true false true a b k = (0, true, false) ∧
    (∀ cbNull cbNz, ((cbNull = false ∧ cbNz = true) → False) →
      Pipeline.builderGenerate false false false false i true n true e true cbNull cbNz true b k = (0, true, false)) := by
  constructor
  · cases i <;> cases n <;> cases e <;> simp [Pipeline.builderGenerate]
  · intro cbNull cbNz h
    cases i <;> cases n <;> cases e <;> cases cbNull <;> cases cbNz <;> simp_all [Pipeline.builderGenerate]

end Jwt
