import Jwt.EcFrame
import Jwt.Props.C20
/-! Functional characterisation of the `r‖s` framing code, for all inputs. -/
namespace Jwt.EcFrame
open Jwt.Cli Jwt.Generated Jwt.Props.C20

/-- the last `w` octets of `d`, left-padded with zeros to `w` -/
def fit (w : Nat) (d : Octets) : Octets := List.replicate (w - d.length) 0 ++ d.drop (d.length - w)

theorem fit_length (w : Nat) (d : Octets) : (fit w d).length = w := by
  simp only [fit, List.length_append, List.length_replicate, List.length_drop]; omega

theorem memcpyAt_zeros (n off : Nat) (src : Octets) (h : off + src.length ≤ n) :
    memcpyAt (List.replicate n 0) off src =
      some (List.replicate off 0 ++ src ++ List.replicate (n - (off + src.length)) 0) := by
  unfold memcpyAt
  simp only [List.length_replicate, h, if_true, List.take_replicate, List.drop_replicate]
  rw [Nat.min_eq_left (by omega)]

theorem memcpyAt_tail (X : Octets) (k off : Nat) (src : Octets) (h : off + src.length ≤ k) :
    memcpyAt (X ++ List.replicate k 0) (X.length + off) src =
      some (X ++ List.replicate off 0 ++ src ++ List.replicate (k - (off + src.length)) 0) := by
  unfold memcpyAt
  have h1 : X.length + off + src.length ≤ (X ++ List.replicate k 0).length := by
    simp only [List.length_append, List.length_replicate]; omega
  simp only [h1, if_true]
  congr 1
  have t : List.take (X.length + off) (X ++ List.replicate k 0) = X ++ List.replicate off 0 := by
    rw [List.take_append]
    simp only [List.take_replicate, Nat.add_sub_cancel_left]
    rw [List.take_of_length_le (by omega)]
    congr 2; omega
  have d : List.drop (X.length + off + src.length) (X ++ List.replicate k 0) =
      List.replicate (k - (off + src.length)) 0 := by
    rw [List.drop_append]
    simp only [List.drop_replicate]
    rw [List.drop_of_length_le (by omega)]
    simp only [List.nil_append]
    congr 1; omega
  rw [t, d]

/-- **GnuTLS sign framing, every input.** Whatever two datums `gnutls_decode_rs_value` delivers, the
copy stays inside the `2·adj` buffer and the result is each datum's last `adj` octets, left-padded. -/
theorem gnutlsFrame_eq (adj : Nat) (rd sd : Octets) :
    gnutlsFrame adj rd sd = some (fit adj rd ++ fit adj sd) := by
  unfold gnutlsFrame
  have hrp : (if rd.length > adj then rd.length - adj else 0) = rd.length - adj := by split <;> omega
  have hro : (if rd.length > adj then 0 else if rd.length < adj then adj - rd.length else 0) = adj - rd.length := by
    split
    · omega
    · split <;> omega
  have hsp : (if sd.length > adj then sd.length - adj else 0) = sd.length - adj := by split <;> omega
  have hso : (if sd.length > adj then 0 else if sd.length < adj then adj - sd.length else 0) = adj - sd.length := by
    split
    · omega
    · split <;> omega
  simp only [hrp, hro, hsp, hso]
  have hA : (adj - rd.length) + (rd.drop (rd.length - adj)).length = adj := by
    simp only [List.length_drop]; omega
  have hB : (adj - sd.length) + (sd.drop (sd.length - adj)).length = adj := by
    simp only [List.length_drop]; omega
  rw [memcpyAt_zeros _ _ _ (by omega)]
  simp only [Option.bind_some]
  have hk : adj * 2 - ((adj - rd.length) + (rd.drop (rd.length - adj)).length) = adj := by omega
  rw [hk]
  have hX : (List.replicate (adj - rd.length) 0 ++ rd.drop (rd.length - adj)).length = adj := by
    simp only [List.length_append, List.length_replicate]; exact hA
  have hoff : rd.length - (rd.length - adj) + (adj - rd.length) + (adj - sd.length) =
      (List.replicate (adj - rd.length) 0 ++ rd.drop (rd.length - adj)).length + (adj - sd.length) := by
    rw [hX]; omega
  rw [hoff, memcpyAt_tail _ _ _ _ (by omega)]
  simp only [Option.map_some, Option.some.injEq]
  have hz : adj - ((adj - sd.length) + (sd.drop (sd.length - adj)).length) = 0 := by omega
  rw [hz]
  simp only [List.replicate_zero, List.append_nil]
  rw [List.take_of_length_le]
  · simp only [fit, List.append_assoc]
  · simp only [List.length_append, List.length_replicate, List.length_drop]; omega

theorem exportPad_eq_fit (w n : Nat) (h : (toBytesMin n).length ≤ w) : exportPad w n = fit w (toBytesMin n) := by
  simp only [exportPad, fit]
  have : (toBytesMin n).length - w = 0 := by omega
  rw [this, List.drop_zero]

/-- the DER content octets of an integer below `256^w`, fitted to `w`, are its fixed-width form -/
theorem fit_derInt (w n : Nat) (h : n < 256 ^ w) : fit w (derInt n) = exportPad w n := by
  have hl := toBytesMin_length n w h
  unfold derInt
  cases hm : toBytesMin n with
  | nil =>
    simp only [exportPad, hm, List.length_nil, Nat.sub_zero, List.append_nil, fit, List.length_singleton]
    cases w with
    | zero => simp
    | succ w =>
      simp only [Nat.add_sub_cancel, Nat.sub_eq_zero_of_le (Nat.succ_le_succ (Nat.zero_le w)), List.drop_zero]
      rw [List.replicate_succ']
  | cons b bs =>
    rw [hm] at hl
    simp only [List.length_cons] at hl
    by_cases hb : b ≥ 128
    · simp only [hb, if_true, exportPad, hm, fit, List.length_cons]
      by_cases he : bs.length + 1 = w
      · have h1 : w - (bs.length + 1 + 1) = 0 := by omega
        have h2 : bs.length + 1 + 1 - w = 1 := by omega
        have h3 : w - (bs.length + 1) = 0 := by omega
        rw [h1, h2, h3]; simp
      · have h2 : bs.length + 1 + 1 - w = 0 := by omega
        have h3 : w - (bs.length + 1) = (w - (bs.length + 1 + 1)) + 1 := by omega
        rw [h2, h3, List.drop_zero, List.replicate_succ']
        simp
    · simp only [hb, if_false, exportPad, hm, fit, List.length_cons]
      have h2 : bs.length + 1 - w = 0 := by omega
      rw [h2, List.drop_zero]

theorem osslBufMul_eq : osslBufMul = 2 := rfl
theorem osslVerifyMul_eq : osslVerifyMul = 2 := rfl

/-- **OpenSSL sign framing, every input.** -/
theorem osslFrame_eq (bits r s : Nat) :
    osslFrame bits r s =
      if (toBytesMin r).length ≤ osslBnLenSign bits ∧ (toBytesMin s).length ≤ osslBnLenSign bits
      then some (exportPad (osslBnLenSign bits) r ++ exportPad (osslBnLenSign bits) s) else none := by
  unfold osslFrame
  generalize osslBnLenSign bits = bn
  by_cases hfit : (toBytesMin r).length ≤ bn ∧ (toBytesMin s).length ≤ bn
  · have hn : ¬ ((toBytesMin r).length > bn ∨ (toBytesMin s).length > bn) := by omega
    simp only [hn, if_false, hfit, and_self, if_true, osslBufMul_eq]
    rw [memcpyAt_zeros _ _ _ (by omega)]
    simp only [Option.bind_some]
    have hk : 2 * bn - (bn - (toBytesMin r).length + (toBytesMin r).length) = bn := by omega
    rw [hk]
    have hX : (List.replicate (bn - (toBytesMin r).length) 0 ++ toBytesMin r).length = bn := by
      simp only [List.length_append, List.length_replicate]; omega
    have hoff : 2 * bn - (toBytesMin s).length =
        (List.replicate (bn - (toBytesMin r).length) 0 ++ toBytesMin r).length + (bn - (toBytesMin s).length) := by
      rw [hX]; omega
    rw [hoff, memcpyAt_tail _ _ _ _ (by omega)]
    have hz : bn - (bn - (toBytesMin s).length + (toBytesMin s).length) = 0 := by omega
    rw [hz]
    simp only [List.replicate_zero, List.append_nil, exportPad, List.append_assoc]
  · have hn : (toBytesMin r).length > bn ∨ (toBytesMin s).length > bn := by omega
    simp only [hn, if_true, hfit, if_false]

theorem exportPad_length (w n : Nat) (h : (toBytesMin n).length ≤ w) : (exportPad w n).length = w := by
  simp only [exportPad, List.length_append, List.length_replicate]; omega

theorem fromBytes_exportPad (w n : Nat) : fromBytes (exportPad w n) = n := by
  simp only [exportPad]; rw [fromBytes_zeros, fromBytes_toBytesMin]

/-- reading back two fixed-width halves -/
theorem halves (w : Nat) (a b : Octets) (ha : a.length = w) (hb : b.length = w) :
    (a ++ b).take w = a ∧ ((a ++ b).drop w).take w = b := by
  constructor
  · rw [List.take_append, ha]; simp [List.take_of_length_le (Nat.le_of_eq ha)]
  · rw [List.drop_append, ha]
    simp [List.drop_of_length_le (Nat.le_of_eq ha), List.take_of_length_le (Nat.le_of_eq hb)]

end Jwt.EcFrame
