import Jwt.Generated.Pipeline
/-!
# Closed forms of the generated decision skeletons

What the code *generated from the source* computes, stated as one Boolean formula per function and checked by the
kernel over every combination of the skeleton's tests (`decide +kernel`; the numeric parameters -- a callee's return
value -- are fixed to the two cases that matter). These say, about the code that is there now, "success only if every
step succeeded" and "a failure is never silent".
-/
namespace Jwt.Generated.Pipeline

/-- `jwt_builder_generate` returns what `jwt_encode_str` returned exactly when nothing before it failed: both copies were
made, every enabled time claim was stored, an installed callback returned 0, the key/algorithm pair was admitted and the
header could be set up -- otherwise it returns NULL; and on every NULL exit except the two first (NULL builder, no memory
for the token object) either a message was written to the builder or the token object's error state was copied to it. -/
theorem builderGenerate_closed : ∀ a b c d iat is_ nbf ns exp es cbn cbr sk hs : Bool,
    let ok := !a && !b && !c && !d && (!iat || is_) && (!nbf || ns) && (!exp || es) && !(!cbn && cbr) && !sk && !hs
    (builderGenerate a b c d iat is_ nbf ns exp es cbn cbr sk hs 1).1 = (if ok then 1 else 0) ∧
    (builderGenerate a b c d iat is_ nbf ns exp es cbn cbr sk hs 0).1 = 0 ∧
    ((!a && !b && !ok) = true →
      (builderGenerate a b c d iat is_ nbf ns exp es cbn cbr sk hs 1).2.1 = true ∨ (builderGenerate a b c d iat is_ nbf ns exp es cbn cbr sk hs 1).2.2 = true) := by
  decide +kernel

/-- `jwt_checker_verify` returns 0 only on its last exit and only when the checker's flag is 0 there: token given,
parsed, an installed callback returned 0, the pair it left was admitted; every other exit returns 1, and every one of those
(but the NULL checker) has written a message to the checker, copied the token object's error state, or left the message to
`__setkey_check`. -/
theorem checkerVerify_closed : ∀ a b c d e f g h i : Bool,
    let reach := !a && !b && !c && !d && !e && (f || (!g && h)) && !i
    (checkerVerify a b c d e f g h i 0).1 = (if reach then 0 else 1) ∧
    (checkerVerify a b c d e f g h i 1).1 = 1 ∧
    ((!a && !reach) = true →
      (checkerVerify a b c d e f g h i 0).2.1 = true ∨ (checkerVerify a b c d e f g h i 0).2.2 = true ∨ (i = true)) := by
  decide +kernel

/-- `jwt_parse` returns 0 exactly when the copy was made, both dots were found and both parts parsed; a failure it detects
itself writes a message, a failure of a callee leaves the message to the callee -/
theorem parse_closed : ∀ a b c d e : Bool,
    (parse a b c d e).1 = (if !a && !b && !c && !d && !e then 0 else 1) ∧
    ((parse a b c d e).2 = (a || b || c)) := by
  decide +kernel

/-- `jwt_encode`: 0 exactly when every step succeeded (an unsigned token needs no signature); every failure writes a message -/
theorem encode_closed : ∀ a b c d e f g h i j : Bool,
    let ok := !a && !b && !c && !d && !e && !f && (g || (!h && !i && !j))
    (encode a b c d e f g h 1 i j).1 = (if ok then 0 else 1) ∧
    ((encode a b c d e f g h 1 i j).2 = true ↔ (encode a b c d e f g h 1 i j).1 = 1 ∧ !(!a && b)) := by
  decide +kernel

end Jwt.Generated.Pipeline
