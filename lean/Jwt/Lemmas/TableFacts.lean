import Jwt.Base64
import Jwt.Base64Spec
/-!
# Facts about the *generated* tables and constants (`Jwt/Generated/Base64Tables.lean`)

Every statement here is decided by kernel evaluation over the complete (finite) table; each is a
proof obligation that breaks at `lake build` when a table entry, the pad, the range bounds or a
size macro in `/repo/libjwt/base64.[ch]` changes in a way that matters.
-/
namespace Jwt.Base64
open Jwt Jwt.Generated

theorem forall_u8 {P : UInt8 → Prop} (h : ∀ n, n < 256 → P (UInt8.ofNat n)) : ∀ c, P c := by
  intro c
  have := h c.toNat (UInt8.toNat_lt c)
  simpa using this

theorem base64en_length : base64en.length = 64 := by decide +kernel
theorem base64de_length : base64de.length = 128 := by decide +kernel
theorem pad_eq : pad = 61 := by decide
theorem deFirst_eq : deFirst = 43 := by decide
theorem deLast_eq : deLast = 122 := by decide

/-- `BASE64DE_LAST` indexes inside the decode table: `base64de[(unsigned char)in[i]]` is in bounds -/
theorem deLast_lt_table : deLast.toNat < base64de.length := by decide +kernel
/-- the signed-`char` comparison and the unsigned one reject the same bytes -/
theorem deLast_lt_128 : deLast.toNat < 128 := by decide

/-- the encode table is the RFC 4648 standard alphabet, in order -/
theorem enAt_alphaStd : ∀ n, n < 64 → enAt (UInt8.ofNat n) = alphaStd n := by decide +kernel

/-- after the URL swap it is the RFC 4648 §5 alphabet, and never NUL -/
theorem swapEnc_enAt : ∀ n, n < 64 → swapEnc (enAt (UInt8.ofNat n)) = alphaUrl n ∧ alphaUrl n ≠ 0 := by
  decide +kernel

theorem swapEnc_pad : swapEnc pad = 0 := by decide

/-- decode table ∘ encode table = id -/
theorem deAt_enAt : ∀ n, n < 64 → deAt (enAt (UInt8.ofNat n)) = UInt8.ofNat n := by decide +kernel

/-! The decoder's tests (`range`, `table ≠ 255`) accept, after the `-_` → `+/` swap, exactly the
characters of the two alphabets, with the right values; `=` is the only byte mapped to the pad. -/

theorem swapDec_pad_iff : ∀ n, n < 256 → (swapDec (UInt8.ofNat n) = pad ↔ UInt8.ofNat n = 61) := by
  decide +kernel

theorem urlVal_lt_64 : ∀ n, n < 256 → (urlVal (UInt8.ofNat n)).getD 0 < 64 := by decide +kernel

theorem sext_reject : ∀ n, n < 256 → UInt8.ofNat n ≠ 61 → urlVal (UInt8.ofNat n) = none →
    (swapDec (UInt8.ofNat n) < deFirst || swapDec (UInt8.ofNat n) > deLast) = true ∨
      deAt (swapDec (UInt8.ofNat n)) = 255 := by
  decide +kernel

theorem sext_accept : ∀ n, n < 256 → ∀ v, v < 64 → urlVal (UInt8.ofNat n) = some v →
    (swapDec (UInt8.ofNat n) < deFirst || swapDec (UInt8.ofNat n) > deLast) = false ∧
      deAt (swapDec (UInt8.ofNat n)) ≠ 255 ∧ deAt (swapDec (UInt8.ofNat n)) = UInt8.ofNat v := by
  decide +kernel

/-- `urlVal` inverts the URL alphabet -/
theorem urlVal_alphaUrl : ∀ n, n < 64 → urlVal (alphaUrl n) = some n ∧ alphaUrl n ≠ 61 := by decide +kernel

end Jwt.Base64
