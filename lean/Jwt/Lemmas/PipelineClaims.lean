import Jwt.Verify
import Jwt.Generated.Pipeline
/-!
# `__verify_claims` / `__check_str_claim` as modelled = as written
-/
namespace Jwt
open Jwt.Generated

/-- the generated `__verify_claims`, over every combination of its tests (kernel evaluation): each bit of the returned
mask depends on its own check only -- `exp` fails when it is checked and either read back as an integer in the past or could
not be read for another reason than being absent; `nbf` likewise; the three string claims as `__check_str_claim` says. -/
theorem verifyClaims_closed : ∀ eo ek ex ep no nk nx nf i s a : Bool,
    let r := Pipeline.verifyClaims eo ek ex ep no nk nx nf i s a
    r.2.2.1 = (eo && ((ek && ep) || (!ek && ex))) ∧ r.2.2.2.1 = (no && ((nk && nf) || (!nk && nx))) ∧
    r.2.2.2.2.1 = i ∧ r.2.2.2.2.2.1 = s ∧ r.2.2.2.2.2.2 = a ∧ r.2.1 = false := by
  decide +kernel

/-- the generated `__check_str_claim`: fails exactly when the claim is checked and (no expected value, or the token's
claim is not a string equal to it) -/
theorem checkStrClaim_closed : ∀ b e g q : Bool,
    (Pipeline.checkStrClaim b e g q).1 = (if b && (e || g || !q) then 1 else 0) := by
  decide +kernel

/-- the tests of `__check_str_claim`, as the model sees them -/
def strClaimGen (on : Bool) (expected claims : Json) (name : Bytes) : Nat × Bool :=
  Pipeline.checkStrClaim on ((expected.objGet name).bind Json.strVal).isNone
    (match claims.objGet name with | some (.str _) => false | _ => true)
    (match (expected.objGet name).bind Json.strVal, claims.objGet name with | some w, some (.str g) => g = w | _, _ => false)

theorem strClaim_generated (on : Bool) (expected claims : Json) (name : Bytes) :
    strClaimFails on expected claims name = decide ((strClaimGen on expected claims name).1 = 1) := by
  simp only [strClaimGen, checkStrClaim_closed, strClaimFails]
  cases on with
  | false => simp
  | true =>
    cases he : (expected.objGet name).bind Json.strVal with
    | none => simp
    | some w =>
      cases hc : claims.objGet name with
      | none => simp
      | some v => cases v <;> simp

/-- the tests of `__verify_claims`, as the model sees them -/
def verifyClaimsGen (c : ClaimCfg) (claims : Json) (now : Int) : Nat × Bool × Bool × Bool × Bool × Bool × Bool :=
  Pipeline.verifyClaims c.mask.exp
    (match getInt claims N.exp with | .ok _ => true | _ => false) (match getInt claims N.exp with | .noexist => false | _ => true)
    (match getInt claims N.exp with | .ok e => e ≤ now - c.expLeeway | _ => false)
    c.mask.nbf
    (match getInt claims N.nbf with | .ok _ => true | _ => false) (match getInt claims N.nbf with | .noexist => false | _ => true)
    (match getInt claims N.nbf with | .ok n => n > now + c.nbfLeeway | _ => false)
    ((strClaimGen c.mask.iss c.expected claims N.iss).1 = 1) ((strClaimGen c.mask.sub c.expected claims N.sub).1 = 1)
    ((strClaimGen c.mask.aud c.expected claims N.aud).1 = 1)

/-- **`__verify_claims` as modelled = as written**: the model's claims check fails exactly when the generated code sets at
least one bit of its mask, and each of the model's five checks is the corresponding bit. -/
theorem verifyClaims_generated (c : ClaimCfg) (claims : Json) (now : Int) :
    let r := verifyClaimsGen c claims now
    expFails c claims now = r.2.2.1 ∧ nbfFails c claims now = r.2.2.2.1 ∧
    strClaimFails c.mask.iss c.expected claims N.iss = r.2.2.2.2.1 ∧ strClaimFails c.mask.sub c.expected claims N.sub = r.2.2.2.2.2.1 ∧
    strClaimFails c.mask.aud c.expected claims N.aud = r.2.2.2.2.2.2 ∧
    (claimsFail c claims now = (r.2.2.1 || r.2.2.2.1 || r.2.2.2.2.1 || r.2.2.2.2.2.1 || r.2.2.2.2.2.2)) := by
  have hc := fun eo ek ex ep no nk nx nf i s a => verifyClaims_closed eo ek ex ep no nk nx nf i s a
  simp only [verifyClaimsGen]
  obtain ⟨h1, h2, h3, h4, h5, _⟩ := hc c.mask.exp
    (match getInt claims N.exp with | .ok _ => true | _ => false) (match getInt claims N.exp with | .noexist => false | _ => true)
    (match getInt claims N.exp with | .ok e => e ≤ now - c.expLeeway | _ => false) c.mask.nbf
    (match getInt claims N.nbf with | .ok _ => true | _ => false) (match getInt claims N.nbf with | .noexist => false | _ => true)
    (match getInt claims N.nbf with | .ok n => n > now + c.nbfLeeway | _ => false)
    ((strClaimGen c.mask.iss c.expected claims N.iss).1 = 1) ((strClaimGen c.mask.sub c.expected claims N.sub).1 = 1)
    ((strClaimGen c.mask.aud c.expected claims N.aud).1 = 1)
  have e1 : expFails c claims now = (c.mask.exp && (((match getInt claims N.exp with | .ok _ => true | _ => false) &&
      (match getInt claims N.exp with | .ok e => decide (e ≤ now - c.expLeeway) | _ => false)) ||
      (!(match getInt claims N.exp with | .ok _ => true | _ => false) && (match getInt claims N.exp with | .noexist => false | _ => true)))) := by
    simp only [expFails]; cases getInt claims N.exp <;> simp
  have e2 : nbfFails c claims now = (c.mask.nbf && (((match getInt claims N.nbf with | .ok _ => true | _ => false) &&
      (match getInt claims N.nbf with | .ok n => decide (n > now + c.nbfLeeway) | _ => false)) ||
      (!(match getInt claims N.nbf with | .ok _ => true | _ => false) && (match getInt claims N.nbf with | .noexist => false | _ => true)))) := by
    simp only [nbfFails]; cases getInt claims N.nbf <;> simp
  have s1 := strClaim_generated c.mask.iss c.expected claims N.iss
  have s2 := strClaim_generated c.mask.sub c.expected claims N.sub
  have s3 := strClaim_generated c.mask.aud c.expected claims N.aud
  refine ⟨by rw [h1, e1], by rw [h2, e2], by rw [h3, s1], by rw [h4, s2], by rw [h5, s3], ?_⟩
  simp only [claimsFail]
  rw [h1, h2, h3, h4, h5, ← e1, ← e2, ← s1, ← s2, ← s3]

end Jwt
