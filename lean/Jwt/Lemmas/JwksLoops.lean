import Jwt.Generated.JwksLoops
import Jwt.Lemmas.Ll
/-!
# The translated keyring functions of `jwks.c` are the loops the keyring theorems are about

`Jwt/Generated/JwksLoops.lean` is produced from the C text on every run; `Jwt/Ll.lean` is what
`Jwt/Lemmas/Ll.lean` and `Jwt/Props/C16Heap.lean` reason about. Each lemma here says the two are the same
function (for `jwks_item_count` and `jwks_error_any`, which the model expresses through the walk, what they
return on a well-formed list). When `jwks.c` changes shape the generated file changes and these proofs are
re-checked against it.
-/
namespace Jwt.Ll

theorem src_item_free (h : Heap) (a : Addr) : Src.item_free h a = itemRelease h a := by
  unfold Src.item_free itemRelease
  cases list_del h a <;> simp

theorem src_get_loop (h : Heap) (head : Addr) (index : Nat) :
    ∀ (fuel : Nat) (pos : Addr) (i : Nat), i ≤ index →
      Src.jwks_item_get_loop h head index fuel pos i = getFrom h head fuel pos (index - i) := by
  intro fuel
  induction fuel with
  | zero => intro pos i _; rfl
  | succ f ih =>
    intro pos i hi
    unfold Src.jwks_item_get_loop getFrom
    by_cases hp : pos = head
    · simp [hp]
    · simp only [hp, if_false]
      by_cases he : i = index
      · subst he; simp
      · have hlt : i < index := Nat.lt_of_le_of_ne hi he
        have h0 : ¬ (index - i = 0) := by omega
        simp only [he, h0, if_false]
        cases hn : h.getNext pos with
        | none => simp
        | some nx =>
          simp only [Option.bind_some, bind]
          rw [ih nx (i + 1) (by omega)]
          have : index - (i + 1) = index - i - 1 := by omega
          rw [this]

theorem src_get (h : Heap) (head : Addr) (index fuel : Nat) :
    Src.jwks_item_get h head index fuel = itemGet h head fuel index := by
  unfold Src.jwks_item_get itemGet
  cases h.getNext head with
  | none => rfl
  | some p => simp only [Option.bind_some, bind]; rw [src_get_loop h head index fuel p 0 (Nat.zero_le _)]; rfl

theorem src_find_loop (h : Heap) (view : Addr → ItemView) (head : Addr) (kid : List UInt8) :
    ∀ (fuel : Nat) (pos : Addr), Src.jwks_find_bykid_loop h view head kid fuel pos = findFrom h view head kid fuel pos := by
  intro fuel
  induction fuel with
  | zero => intro pos; rfl
  | succ f ih =>
    intro pos
    unfold Src.jwks_find_bykid_loop findFrom
    by_cases hp : pos = head
    · simp [hp]
    · simp only [hp, if_false]
      cases hn : h.getNext pos with
      | none => simp
      | some nx =>
        simp only [Option.bind_some, bind]
        by_cases hk : (view pos).kid = some kid
        · simp [hk]
        · have : (view pos).kid = none ∨ (view pos).kid ≠ some kid := Or.inr hk
          simp [hk, ih nx]

theorem src_find (h : Heap) (view : Addr → ItemView) (head : Addr) (kid : List UInt8) (fuel : Nat) :
    Src.jwks_find_bykid h view head kid fuel = itemFind h view head fuel kid := by
  unfold Src.jwks_find_bykid itemFind
  cases h.getNext head with
  | none => rfl
  | some p => simp only [Option.bind_some, bind]; rw [src_find_loop]

/-- what `jwks_item_free` does once the walk has answered -/
def freeAfter (h : Heap) : Option Addr → Option (Heap × Nat)
  | none => some (h, 0)
  | some a => (itemRelease h a).map fun h' => (h', 1)

theorem src_free_loop (head : Addr) (index : Nat) (h : Heap) :
    ∀ (fuel : Nat) (pos : Addr) (i : Nat), i ≤ index →
      Src.jwks_item_free_loop head index fuel h pos none i = (getFrom h head fuel pos (index - i)).bind (freeAfter h) := by
  intro fuel
  induction fuel with
  | zero => intro pos i _; rfl
  | succ f ih =>
    intro pos i hi
    unfold Src.jwks_item_free_loop getFrom
    by_cases hp : pos = head
    · simp [hp, freeAfter]
    · simp only [hp, if_false]
      by_cases he : i = index
      · subst he
        simp only [Nat.sub_self, if_true, src_item_free]
        cases hr : itemRelease h pos <;> simp [freeAfter, hr]
      · have hlt : i < index := Nat.lt_of_le_of_ne hi he
        have h0 : ¬ (index - i = 0) := by omega
        simp only [he, h0, if_false]
        cases hn : h.getNext pos with
        | none => simp
        | some nx =>
          simp only [Option.bind_some, bind]
          rw [ih nx (i + 1) (by omega)]
          have : index - (i + 1) = index - i - 1 := by omega
          rw [this]

theorem src_free (h : Heap) (head : Addr) (index fuel : Nat) :
    Src.jwks_item_free h head false index fuel = itemFree h head fuel index := by
  unfold Src.jwks_item_free itemFree itemGet
  simp only [Bool.false_eq_true, if_false]
  cases h.getNext head with
  | none => rfl
  | some p =>
    simp only [Option.bind_some, bind]
    rw [src_free_loop head index h fuel p 0 (Nat.zero_le _)]
    simp only [Nat.sub_zero]
    cases getFrom h head fuel p index with
    | none => rfl
    | some r =>
      cases r with
      | none => rfl
      | some a => simp only [Option.bind_some, freeAfter]; cases itemRelease h a <;> rfl

theorem src_free_bad_loop (view : Addr → ItemView) (head : Addr) :
    ∀ (fuel : Nat) (h : Heap) (pos n : Addr) (count : Nat),
      Src.jwks_item_free_bad_loop view head fuel h pos n count = freeBadFrom view head fuel h pos n count := by
  intro fuel
  induction fuel with
  | zero => intro h pos n count; rfl
  | succ f ih =>
    intro h pos n count
    unfold Src.jwks_item_free_bad_loop freeBadFrom
    by_cases hp : pos = head
    · simp [hp]
    · simp only [hp, if_false]
      cases hn : h.getNext pos with
      | none => simp
      | some nx =>
        simp only [Option.bind_some, bind]
        cases hb : (view pos).error with
        | false =>
          simp only [if_true, Bool.false_eq_true, if_false]
          cases h.getNext n with
          | none => rfl
          | some n' => simp only [Option.bind_some]; exact ih h n n' count
        | true =>
          simp only [Bool.true_eq_false, if_false, if_true, src_item_free]
          cases itemRelease h pos with
          | none => rfl
          | some h' =>
            simp only [Option.bind_some]
            cases h'.getNext n with
            | none => rfl
            | some n' => simp only [Option.bind_some]; exact ih h' n n' (count + 1)

theorem src_free_bad (h : Heap) (view : Addr → ItemView) (head : Addr) (fuel : Nat) :
    Src.jwks_item_free_bad h view head fuel = freeBad h view head fuel := by
  unfold Src.jwks_item_free_bad freeBad
  cases h.getNext head with
  | none => rfl
  | some p =>
    simp only [Option.bind_some, bind]
    cases h.getNext p with
    | none => rfl
    | some n => simp only [Option.bind_some]; exact src_free_bad_loop view head fuel h p n 0

theorem src_free_all_loop (head : Addr) (fuel : Nat) :
    ∀ (k : Nat) (h : Heap) (i : Nat), Src.jwks_item_free_all_loop head fuel k h i = freeAllLoop head fuel k h i := by
  intro k
  induction k with
  | zero => intro h i; rfl
  | succ k ih =>
    intro h i
    unfold Src.jwks_item_free_all_loop freeAllLoop
    rw [src_free]
    cases itemFree h head fuel 0 with
    | none => rfl
    | some r =>
      obtain ⟨h', r⟩ := r
      simp only [Option.bind_some, bind]
      by_cases hr : r = 0
      · simp [hr]
      · simp [hr, ih]

theorem src_free_all (h : Heap) (head : Addr) (fuel : Nat) :
    Src.jwks_item_free_all h head false fuel = freeAllLoop head fuel fuel h 0 := by
  unfold Src.jwks_item_free_all
  simp [src_free_all_loop]

/-- `jwks_item_count`: the number of nodes the walk visits -/
theorem src_count_loop (h : Heap) (head : Addr) :
    ∀ (fuel : Nat) (pos : Addr) (c : Nat),
      Src.jwks_item_count_loop h head fuel pos c = (walkFrom h head fuel pos).map fun l => c + l.length := by
  intro fuel
  induction fuel with
  | zero => intro pos c; rfl
  | succ f ih =>
    intro pos c
    unfold Src.jwks_item_count_loop walkFrom
    by_cases hp : pos = head
    · simp [hp]
    · simp only [hp, if_false]
      cases h.getNext pos with
      | none => rfl
      | some nx =>
        simp only [Option.bind_some, bind, ih nx (c + 1)]
        cases walkFrom h head f nx with
        | none => rfl
        | some l => simp; omega

theorem src_count (h : Heap) (head : Addr) (fuel : Nat) :
    Src.jwks_item_count h head fuel = (walk h head fuel).map List.length := by
  unfold Src.jwks_item_count walk
  cases h.getNext head with
  | none => rfl
  | some p => simp only [Option.bind_some, bind, src_count_loop]; cases walkFrom h head fuel p <;> simp

/-- `jwks_error_any`: the set's own flag plus the number of visited items whose error flag is set -/
theorem src_error_any_loop (h : Heap) (view : Addr → ItemView) (head : Addr) (se : Nat) :
    ∀ (fuel : Nat) (pos : Addr) (c : Nat),
      Src.jwks_error_any_loop h view head se fuel pos c =
        (walkFrom h head fuel pos).map fun l => c + (l.filter fun a => (view a).error).length := by
  intro fuel
  induction fuel with
  | zero => intro pos c; rfl
  | succ f ih =>
    intro pos c
    unfold Src.jwks_error_any_loop walkFrom
    by_cases hp : pos = head
    · simp [hp]
    · simp only [hp, if_false]
      cases h.getNext pos with
      | none => rfl
      | some nx =>
        simp only [Option.bind_some, bind]
        cases hb : (view pos).error with
        | false =>
          simp only [Bool.false_eq_true, if_false, ih nx c]
          cases walkFrom h head f nx with
          | none => rfl
          | some l => simp [List.filter_cons, hb]
        | true =>
          simp only [if_true, ih nx (c + 1)]
          cases walkFrom h head f nx with
          | none => rfl
          | some l => simp [List.filter_cons, hb]; omega

theorem src_error_any (h : Heap) (view : Addr → ItemView) (head : Addr) (se fuel : Nat) :
    Src.jwks_error_any h view head se fuel =
      (walk h head fuel).map fun l => se + (l.filter fun a => (view a).error).length := by
  unfold Src.jwks_error_any walk
  cases h.getNext head with
  | none => rfl
  | some p => simp only [Option.bind_some, bind, src_error_any_loop]

/-- `jwks_item_add` is `list_add_tail` of the new item's node -/
theorem src_add (h : Heap) (head a : Addr) :
    (h.alloc a).bind (fun h => Src.jwks_item_add h head a) = (itemAdd h head a).map fun h' => (h', 0) := by
  unfold Src.jwks_item_add itemAdd
  cases h.alloc a with
  | none => rfl
  | some h1 => simp only [Option.bind_some, bind]; cases list_add_tail h1 a head <;> rfl

end Jwt.Ll
