import Jwt.Builder
import Jwt.Generated.Pipeline
/-!
# `jwt_sign`, `_verify_sha_hmac`, `jwt_verify_sig` as modelled = as written (`jwt.c`)
-/
namespace Jwt
open Jwt.Generated Jwt.Base64

def algIsHmac (a : Alg) : Bool := match a with | .hs256 | .hs384 | .hs512 => true | _ => false
def algIsPk (a : Alg) : Bool :=
  match a with
  | .rs256 | .rs384 | .rs512 | .ps256 | .ps384 | .ps512 | .es256 | .es256k | .es384 | .es512 | .eddsa => true
  | _ => false

/-- the generated dispatch over every combination of its tests: in both arms the size-and-type gate is asked first and a
refusal ends the call before the primitive is touched; an algorithm of neither arm is an error -/
theorem sign_closed : ∀ h p g f : Bool,
    (Pipeline.sign h p g f).1 = (if (h || p) && !g && !f then 0 else 1) ∧
    ((h || p) = true → g = true → Pipeline.sign h p g f = (1, false)) := by
  decide +kernel

theorem verifySig_closed : ∀ h p o m g d f : Bool,
    (Pipeline.verifySig h p o m g d f).2 = (if h then (o || m) else if p then (!g && (d || f)) else true) := by
  decide +kernel

theorem imp_or (n : Nat) (p : Prop) (h : 0 < n → ¬p) : n = 0 ∨ ¬p := by
  by_cases h0 : n = 0
  · exact Or.inl h0
  · exact Or.inr (h (Nat.pos_of_ne_zero h0))

/-- the tests of `jwt_verify_sig`, as the model sees them -/
def verifySigGen (env : Env) (k : KeyItem) (alg : Alg) (msg sigB64 : Bytes) : Nat × Bool :=
  Pipeline.verifySig (algIsHmac alg) (algIsPk alg) (k.kty ≠ .oct)
    ((checkHmac alg k).isSome || !(uriEncodeRet (env.cr.hmac alg k.oct msg) > 0 ∧ jwtStrcmp (uriEncode (env.cr.hmac alg k.oct msg)) sigB64 = 0))
    (checkKeyBits alg k).isSome (uriDecode sigB64).isNone
    (match uriDecode sigB64 with | some sig => !env.prov.supports alg || !env.cr.pkVerify env.prov k alg msg sig | none => true)

/-- **`jwt_verify_sig` as modelled = as written**: the model reports a failure exactly when the generated code writes its
message or -- on the public-key arm -- the gate refused the key (and wrote its own). -/
theorem verifySig_generated (env : Env) (k : KeyItem) (alg : Alg) (msg sigB64 : Bytes) :
    (verifySig env k alg msg sigB64).1.isSome =
      ((verifySigGen env k alg msg sigB64).2 || (algIsPk alg && (checkKeyBits alg k).isSome)) := by
  simp only [verifySigGen, verifySig_closed]
  cases alg <;> simp only [verifySig, algIsHmac, algIsPk] <;>
    first
    | (by_cases hk : k.kty = .oct <;> simp [hk] <;> (cases hc : checkHmac _ k <;> simp) <;>
        (split <;> simp_all <;> (try exact imp_or _ _ ‹_›)))
    | (cases hb : checkKeyBits _ k <;> simp <;> cases hd : uriDecode sigB64 <;> simp <;> cases hs : env.prov.supports _ <;> simp <;> (split <;> simp_all))
    | simp

/-- the tests of `jwt_sign`, as the model sees them -/
def signGen (env : Env) (k : KeyItem) (alg : Alg) (msg : Bytes) : Nat × Bool :=
  Pipeline.sign (algIsHmac alg) (algIsPk alg)
    (if algIsHmac alg then (checkHmac alg k).isSome else (checkKeyBits alg k).isSome)
    (if algIsHmac alg then false else (!env.prov.supports alg || (env.cr.pkSign env.prov k alg msg).isNone))

/-- **`jwt_sign` as modelled = as written**: a signature comes out exactly when the generated code returns 0 -/
theorem sign_generated (env : Env) (k : KeyItem) (alg : Alg) (msg : Bytes) :
    (∃ s, (sign env k alg msg).1 = .ok s) ↔ (signGen env k alg msg).1 = 0 := by
  simp only [signGen, (sign_closed _ _ _ _).1]
  cases alg <;> simp only [sign, algIsHmac, algIsPk] <;>
    first
    | (simp; done)
    | (cases hc : checkHmac _ k <;> simp <;> done)
    | (cases hb : checkKeyBits _ k <;> simp <;> cases hs : env.prov.supports _ <;> simp <;> cases hp : env.cr.pkSign env.prov k _ msg <;> simp <;> done)

end Jwt
