import Jwt.Json
/-! `json_object_get` after `set`/`del` on an object: the map laws. -/
namespace Jwt.Json

theorem find_filter_ne (l : List (Bytes × Json)) (k k' : Bytes) :
    (l.filter (·.1 ≠ k)).find? (·.1 = k') = if k' = k then none else l.find? (·.1 = k') := by
  induction l with
  | nil => simp
  | cons e rest ih =>
    by_cases h1 : e.1 = k
    · have hf : (e :: rest).filter (·.1 ≠ k) = rest.filter (·.1 ≠ k) := by simp [List.filter_cons, h1]
      rw [hf, ih]
      by_cases h2 : k' = k
      · simp [h2]
      · have : ¬ e.1 = k' := fun h => h2 (h ▸ h1)
        simp [h2, List.find?_cons, this]
    · have hf : (e :: rest).filter (·.1 ≠ k) = e :: rest.filter (·.1 ≠ k) := by simp [List.filter_cons, h1]
      rw [hf]
      by_cases h2 : e.1 = k'
      · have : ¬ k' = k := fun h => h1 (h2 ▸ h)
        simp [List.find?_cons, h2, this]
      · simp only [List.find?_cons, h2, decide_false]
        exact ih

theorem objGet_objDel (kvs : List (Bytes × Json)) (k k' : Bytes) :
    ((Json.obj kvs).objDel k).objGet k' = if k' = k then none else (Json.obj kvs).objGet k' := by
  simp only [objDel, objGet, find_filter_ne]
  split <;> simp

theorem objGet_objSet (kvs : List (Bytes × Json)) (k k' : Bytes) (v : Json) :
    ((Json.obj kvs).objSet k v).objGet k' = if k' = k then some v else (Json.obj kvs).objGet k' := by
  simp only [objSet, objGet, List.find?_append, find_filter_ne]
  by_cases h : k' = k
  · have : k = k' := h.symm
    simp [h]
  · have : ¬ k = k' := fun e => h e.symm
    simp [h, this]

theorem objGet_setAfterDel (kvs : List (Bytes × Json)) (k k' : Bytes) (v : Json) :
    (((Json.obj kvs).objDel k).objSet k v).objGet k' = if k' = k then some v else (Json.obj kvs).objGet k' := by
  show ((Json.obj (kvs.filter (·.1 ≠ k))).objSet k v).objGet k' = _
  rw [objGet_objSet]
  by_cases h : k' = k
  · simp [h]
  · simp only [h, if_false]
    have := objGet_objDel kvs k k'
    simp only [h, if_false] at this
    exact this

end Jwt.Json
