import Jwt.StrCmp
/-! `jwt_strcmp(a, b) == 0 ↔ a = b`, for all strings. -/
namespace Jwt

theorem nat_xor_eq_zero {a b : Nat} : a ^^^ b = 0 ↔ a = b := by
  constructor
  · intro h
    apply Nat.eq_of_testBit_eq
    intro i
    have : (a ^^^ b).testBit i = (0 : Nat).testBit i := by rw [h]
    rw [Nat.testBit_xor] at this
    simp at this
    exact this
  · intro h; subst h; exact Nat.xor_self a

theorem nat_or_eq_zero {a b : Nat} : a ||| b = 0 ↔ a = 0 ∧ b = 0 := by
  constructor
  · intro h
    constructor
    · apply Nat.eq_of_testBit_eq
      intro i
      have : (a ||| b).testBit i = (0 : Nat).testBit i := by rw [h]
      rw [Nat.testBit_or] at this
      simp at this
      simp [this.1]
    · apply Nat.eq_of_testBit_eq
      intro i
      have : (a ||| b).testBit i = (0 : Nat).testBit i := by rw [h]
      rw [Nat.testBit_or] at this
      simp at this
      simp [this.2]
  · rintro ⟨rfl, rfl⟩; rfl

theorem u8_xor_eq_zero {a b : UInt8} : a.toNat ^^^ b.toNat = 0 ↔ a = b := by
  rw [nat_xor_eq_zero]
  exact ⟨UInt8.toNat_inj.1, fun h => by rw [h]⟩

/-- on strings of equal length the loop result is zero iff the accumulator was and the strings agree -/
theorem strcmpLoop_eq_zero (a : Bytes) : ∀ (b : Bytes) (acc : Nat), a.length = b.length →
    (strcmpLoop a b acc = 0 ↔ acc = 0 ∧ a = b) := by
  induction a with
  | nil =>
    intro b acc h
    cases b with
    | nil => simp [strcmpLoop]
    | cons y ys => simp at h
  | cons x xs ih =>
    intro b acc h
    cases b with
    | nil => simp at h
    | cons y ys =>
      simp only [List.length_cons, Nat.add_right_cancel_iff] at h
      simp only [strcmpLoop, ih ys _ h, nat_or_eq_zero, u8_xor_eq_zero, List.cons.injEq]
      constructor
      · rintro ⟨⟨h1, h2⟩, h3⟩; exact ⟨h1, h2, h3⟩
      · rintro ⟨h1, h2, h3⟩; exact ⟨⟨h1, h2⟩, h3⟩

/-- **`jwt_strcmp` decides equality**: it returns 0 exactly on equal strings -/
theorem jwtStrcmp_eq_zero_iff (a b : Bytes) : jwtStrcmp a b = 0 ↔ a = b := by
  unfold jwtStrcmp
  rw [nat_or_eq_zero, nat_xor_eq_zero]
  constructor
  · rintro ⟨h1, h2⟩
    exact ((strcmpLoop_eq_zero a b 0 h2).1 h1).2
  · intro h
    subst h
    exact ⟨(strcmpLoop_eq_zero a a 0 rfl).2 ⟨rfl, rfl⟩, rfl⟩

end Jwt
