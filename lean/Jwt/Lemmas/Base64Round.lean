import Jwt.Lemmas.Base64Enc
import Jwt.Lemmas.Base64Dec
/-! Round trip and rejection, at the level of the arithmetic specification. -/
namespace Jwt.Base64
open Jwt Jwt.Generated

theorem unsextets_sextets (ns : List Nat) (h : ∀ n ∈ ns, n < 256) : unsextets (sextets ns) = ns := by
  fun_induction sextets ns
  · rename_i a b c rest ih
    have ha := h a (by simp); have hb := h b (by simp); have hc := h c (by simp)
    simp only [unsextets, ih (fun n hn => h n (by simp [hn]))]
    congr 1; omega
    congr 1; omega
    congr 1; omega
  · rename_i a b
    have ha := h a (by simp); have hb := h b (by simp)
    simp only [unsextets]
    congr 1; omega
    congr 1; omega
  · rename_i a
    have ha := h a (by simp)
    simp only [unsextets]
    congr 1; omega
  · rfl

theorem sextets_lt (ns : List Nat) (h : ∀ n ∈ ns, n < 256) : ∀ v ∈ sextets ns, v < 64 := by
  fun_induction sextets ns
  all_goals
    intro v hv
    simp only [List.mem_cons, List.not_mem_nil, or_false] at hv
  · rename_i a b c rest ih
    have ha := h a (by simp); have hb := h b (by simp); have hc := h c (by simp)
    rcases hv with h' | h' | h' | h' | h'
    · omega
    · omega
    · omega
    · omega
    · exact ih (fun n hn => h n (by simp [hn])) v h'
  · rename_i a b
    have ha := h a (by simp); have hb := h b (by simp)
    rcases hv with h' | h' | h' <;> omega
  · rename_i a
    have ha := h a (by simp)
    rcases hv with h' | h' <;> omega

theorem sextets_length (ns : List Nat) : (sextets ns).length = (ns.length * 4 + 2) / 3 := by
  fun_induction sextets ns <;> simp only [List.length_cons, List.length_nil] <;> omega

theorem mapM_urlVal_alphaUrl (s : List Nat) (h : ∀ v ∈ s, v < 64) : (s.map alphaUrl).mapM urlVal = some s := by
  induction s with
  | nil => simp
  | cons v s ih =>
    have hv := (urlVal_alphaUrl v (h v (by simp))).1
    simp [List.mapM_cons, hv, ih (fun w hw => h w (by simp [hw]))]

theorem takeWhile_alphaUrl (s : List Nat) (h : ∀ v ∈ s, v < 64) :
    (s.map alphaUrl).takeWhile (· ≠ 61) = s.map alphaUrl := by
  induction s with
  | nil => simp
  | cons v s ih =>
    have hv := (urlVal_alphaUrl v (h v (by simp))).2
    have ih' := ih (fun w hw => h w (by simp [hw]))
    simp only [List.map_cons, List.takeWhile_cons, ne_eq, hv, not_false_eq_true, decide_true, if_true]
    rw [show (fun x : UInt8 => decide (¬x = 61)) = (fun x => decide (x ≠ 61)) from rfl, ih']

theorem map_ofNat_toNat (bs : Bytes) : (bs.map (·.toNat)).map UInt8.ofNat = bs := by
  induction bs with
  | nil => rfl
  | cons b bs ih => simp [ih]

theorem decodeSpec_rfc (bs : Bytes) (hne : bs ≠ []) : decodeSpec (rfc4648url bs) = some bs := by
  have hlt : ∀ n ∈ bs.map (·.toNat), n < 256 := by
    intro n hn
    simp only [List.mem_map] at hn
    obtain ⟨b, _, rfl⟩ := hn
    exact UInt8.toNat_lt b
  have hs := sextets_lt _ hlt
  unfold decodeSpec rfc4648url
  have hlen : ((sextets (bs.map (·.toNat))).map alphaUrl).length % 4 ≠ 1 := by
    rw [List.length_map, sextets_length, List.length_map]; omega
  simp only [hlen, if_false, takeWhile_alphaUrl _ hs, mapM_urlVal_alphaUrl _ hs, unsextets_sextets _ hlt,
    map_ofNat_toNat]
  simp [hne]

theorem uriDecode_eq_spec (src : Bytes) : uriDecode src = decodeSpec src := by
  unfold uriDecode
  cases hz : padCount src.length with
  | none =>
    have := (padCount_none_iff _).1 hz
    simp [decodeSpec, this]
  | some z =>
    have := (uriDecodeBuf_spec src (List.replicate (decodeAlloc src.length z) 0) z hz (by simp)).2.1
    simp only
    rw [← this]
    cases uriDecodeBuf src (List.replicate (decodeAlloc src.length z) 0) with
    | none => rfl
    | some r => rfl

/-- a successful decode is never empty (`ret_len <= 0` returns NULL) -/
theorem uriDecode_ne_nil (src bin : Bytes) (h : uriDecode src = some bin) : bin ≠ [] := by
  rw [uriDecode_eq_spec] at h
  unfold decodeSpec at h
  split at h
  · cases h
  · split at h
    · cases h
    · simp only at h
      split at h
      · cases h
      · rename_i hne
        cases h
        exact hne

end Jwt.Base64
