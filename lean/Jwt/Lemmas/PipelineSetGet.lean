import Jwt.SetGet
import Jwt.Generated.Pipeline
/-!
# The typed getters and setters as modelled = their decision skeletons as written (`jwt-setget.c`)
-/
namespace Jwt
open Jwt.Generated

def nameNull (n : Option Bytes) : Bool := n.isNone
def nameEmpty (n : Option Bytes) : Bool := n = some []

theorem nameOk_none_iff (n : Option Bytes) : nameOk n = none ↔ (nameNull n = true ∨ nameEmpty n = true) := by
  cases n with
  | none => simp [nameOk, nameNull, nameEmpty]
  | some l => cases l <;> simp [nameOk, nameNull, nameEmpty]

/-- is the stored value of the JSON type a typed get asks for? -/
def isOfType (t : VType) (v : Json) : Bool :=
  match t, v with
  | .int, .int _ => true
  | .str, .str _ => true
  | .bool, .bool _ => true
  | _, _ => false

/-- **`jwt_get_int` / `jwt_get_str` / `jwt_get_bool` as modelled = as written**: the code of a typed get (INVALID for a
missing or empty name, NOEXIST, TYPE, else what `value->error` held on entry -- NONE after `__getter`'s reset). -/
theorem getter_code_generated (which : Json) (name : Option Bytes) :
    ((getter which .int name).1.code =
      (Pipeline.getInt (nameNull name) (nameEmpty name) ((name.bind which.objGet).isNone) (((name.bind which.objGet).map (isOfType .int)).getD false) 0).1) ∧
    ((getter which .str name).1.code =
      (Pipeline.getStr (nameNull name) (nameEmpty name) ((name.bind which.objGet).isNone) (((name.bind which.objGet).map (isOfType .str)).getD false) false 0).1) ∧
    ((getter which .bool name).1.code =
      (Pipeline.getBool (nameNull name) (nameEmpty name) ((name.bind which.objGet).isNone) (((name.bind which.objGet).map (isOfType .bool)).getD false) 0).1) := by
  cases name with
  | none => simp [getter, nameOk, nameNull, nameEmpty, Pipeline.getInt, Pipeline.getStr, Pipeline.getBool, VErr.code]
  | some l =>
    cases l with
    | nil => simp [getter, nameOk, nameNull, nameEmpty, Pipeline.getInt, Pipeline.getStr, Pipeline.getBool, VErr.code]
    | cons c cs =>
      simp only [getter, nameOk, nameNull, nameEmpty, Option.bind_some, Option.isNone_some]
      cases h : which.objGet (c :: cs) with
      | none => simp [Pipeline.getInt, Pipeline.getStr, Pipeline.getBool, VErr.code]
      | some v => cases v <;> simp [Pipeline.getInt, Pipeline.getStr, Pipeline.getBool, VErr.code, isOfType]

/-- **`jwt_obj_check` + `json_object_set_new` as modelled (`checkedSet`) = as written**: the code, and whether an existing
member was deleted first. -/
theorem checkedSet_generated (which : Json) (name : Bytes) (v : Option Json) (replace : Bool) :
    let absent := (which.objGet name).isNone
    let oc := Pipeline.objCheck absent (!replace)
    let storeFails : Bool := match v with | none => true | some _ => !(which.isObject && validUtf8 name)
    (checkedSet which name v replace).2.code =
      (Pipeline.setInt false false (oc.1 = 0) storeFails (if oc.1 = 0 then 0 else oc.1)).1 := by
  simp only [checkedSet, Pipeline.objCheck, Pipeline.setInt]
  cases hg : which.objGet name <;> cases replace <;> cases v <;> simp [VErr.code] <;>
    (first | done | (cases hio : which.isObject <;> cases hu : validUtf8 name <;> simp_all [VErr.code]))

end Jwt
