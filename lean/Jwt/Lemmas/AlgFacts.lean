import Jwt.Alg
import Jwt.Lemmas.StrCmp
/-! Facts about the *generated* algorithm tables (`Jwt/Generated/AlgTables.lean`): header `alg`
parsing is exact (case-sensitive, no prefix matching) and inverse to printing. -/
namespace Jwt
open Jwt.Generated

/-- the chain returns the entry of the first table string equal to the input -/
theorem strAlgChain_eq (tbl : List (Alg × Bytes)) (x : Bytes) :
    strAlgChain tbl x = ((tbl.find? (·.2 = x)).map (·.1)).getD .inval := by
  induction tbl with
  | nil => rfl
  | cons e rest ih =>
    obtain ⟨a, s⟩ := e
    simp only [strAlgChain, List.find?_cons, jwtStrcmp_eq_zero_iff]
    by_cases h : x = s
    · subst h; simp
    · have : ¬ s = x := fun h' => h h'.symm
      simp [h, this, ih]

/-- the parse table and the print table are the same table -/
theorem strAlgTable_eq_algStrTable : strAlgTable = algStrTable := by decide +kernel

/-- names are pairwise distinct, no name belongs to two algorithms, `inval` has no name -/
theorem algStrTable_names_nodup : (algStrTable.map (·.2)).Nodup := by decide +kernel
theorem algStrTable_algs_nodup : (algStrTable.map (·.1)).Nodup := by decide +kernel
theorem algStrTable_no_inval : ∀ e ∈ algStrTable, e.1 ≠ .inval := by decide +kernel

theorem find_of_mem_nodup (tbl : List (Alg × Bytes)) (hn : (tbl.map (·.2)).Nodup) (a : Alg) (s : Bytes)
    (h : (a, s) ∈ tbl) : tbl.find? (·.2 = s) = some (a, s) := by
  induction tbl with
  | nil => simp at h
  | cons e rest ih =>
    simp only [List.map_cons, List.nodup_cons] at hn
    simp only [List.mem_cons] at h
    rcases h with rfl | h
    · simp
    · have hne : e.2 ≠ s := by
        intro heq
        apply hn.1
        rw [heq]
        exact List.mem_map.2 ⟨(a, s), h, rfl⟩
      simp [hne, ih hn.2 h]

/-- **Exactness.** A text parses to a real algorithm `a` only if it is byte-for-byte `a`'s name. -/
theorem strAlg_exact (x : Bytes) (a : Alg) (ha : a ≠ .inval) :
    strAlg (some x) = a ↔ algStr a = some x := by
  show strAlgChain strAlgTable x = a ↔ (algStrTable.find? (·.1 = a)).map (·.2) = some x
  rw [strAlgChain_eq, strAlgTable_eq_algStrTable]
  constructor
  · intro h
    cases hf : algStrTable.find? (·.2 = x) with
    | none => simp [hf] at h; exact absurd h.symm ha
    | some e =>
      simp only [hf, Option.map_some, Option.getD_some] at h
      have hmem := List.mem_of_find?_eq_some hf
      have hx : e.2 = x := by simpa using List.find?_some hf
      -- the entry for `a` in a table whose algs are distinct is found by `find? (·.1 = a)`
      obtain ⟨e1, e2⟩ := e
      simp only at h hx
      subst h hx
      have : algStrTable.find? (·.1 = e1) = some (e1, e2) := by
        clear hf
        have hn := algStrTable_algs_nodup
        revert hmem hn
        generalize algStrTable = tbl
        intro hmem hn
        induction tbl with
        | nil => simp at hmem
        | cons e rest ih =>
          simp only [List.map_cons, List.nodup_cons] at hn
          simp only [List.mem_cons] at hmem
          rcases hmem with rfl | hmem
          · simp
          · have hne : e.1 ≠ e1 := by
              intro heq
              apply hn.1
              rw [heq]
              exact List.mem_map.2 ⟨(e1, e2), hmem, rfl⟩
            simp [List.find?_cons, hne, ih hmem hn.2]
      simp [this]
  · intro h
    cases hf : algStrTable.find? (·.1 = a) with
    | none => simp [hf] at h
    | some e =>
      simp only [hf, Option.map_some, Option.some.injEq] at h
      have hmem := List.mem_of_find?_eq_some hf
      have ha' : e.1 = a := by simpa using List.find?_some hf
      obtain ⟨e1, e2⟩ := e
      simp only at h ha'
      subst h ha'
      rw [find_of_mem_nodup _ algStrTable_names_nodup _ _ hmem]
      rfl

/-- `strAlg s = none` exactly for the four bytes `none` -/
theorem strAlg_none_iff (x : Bytes) : strAlg (some x) = .none ↔ x = N.none := by
  rw [strAlg_exact x .none (by decide)]
  have : algStr .none = some N.none := by decide +kernel
  rw [this]
  constructor
  · intro h; exact (Option.some.inj h).symm
  · intro h; rw [h]

/-- every algorithm but `inval` has a name … -/
theorem algStr_isSome : ∀ a ∈ Alg.all, a ≠ .inval → (algStr a).isSome = true := by decide +kernel

theorem Alg.mem_all (a : Alg) : a ∈ Alg.all := by cases a <;> decide

/-- … and parsing that name gives the algorithm back -/
theorem strAlg_algStr (a : Alg) (ha : a ≠ .inval) : ∃ s, algStr a = some s ∧ strAlg (some s) = a := by
  have h := algStr_isSome a (Alg.mem_all a) ha
  cases hs : algStr a with
  | none => simp [hs] at h
  | some s => exact ⟨s, rfl, (strAlg_exact s a ha).2 hs⟩

end Jwt
