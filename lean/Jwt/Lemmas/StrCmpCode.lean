import Jwt.Generated.StrCmpCode
import Jwt.Lemmas.StrCmp
/-! `jwt_strcmp` as translated from jwt-memory.c decides equality of C strings (octets 1..255), for strings of every length.
The model's hand-written `Jwt.jwtStrcmp` and its "names are compared as a whole" (algorithm names, provider names, JWK member values, the HS* signature text)
rests on this. -/
namespace StrCmpCode
open Jwt.Generated.StrCmpCode

theorem xor_eq_zero_iff {a b : Nat} : a ^^^ b = 0 ↔ a = b := by
  constructor
  · intro h
    apply Nat.eq_of_testBit_eq
    intro i
    have h2 : (a ^^^ b).testBit i = false := by rw [h]; exact Nat.zero_testBit i
    rw [Nat.testBit_xor] at h2
    cases ha : a.testBit i <;> cases hb : b.testBit i <;> simp_all
  · intro h; subst h; exact Nat.xor_self a

theorem foldl_or_eq_zero (f : Nat → Nat) (l : List Nat) (r : Nat) :
    l.foldl (fun r i => r ||| f i) r = 0 ↔ r = 0 ∧ ∀ i ∈ l, f i = 0 := by
  induction l generalizing r with
  | nil => simp
  | cons x xs ih =>
    simp only [List.foldl_cons, ih, Nat.or_eq_zero_iff, List.mem_cons]
    constructor
    · rintro ⟨⟨h1, h2⟩, h3⟩
      exact ⟨h1, fun i hi => hi.elim (fun e => e ▸ h2) (h3 i)⟩
    · rintro ⟨h1, h2⟩
      exact ⟨⟨h1, h2 x (Or.inl rfl)⟩, fun i hi => h2 i (Or.inr hi)⟩

/-- the octets of a C string as numbers -/
def IsOctets (a : List Nat) : Prop := ∀ x ∈ a, x < 256

theorem round_eq (a b : List Nat) (p : Pre) (i ret : Nat) :
    round a b p i ret = ret ||| (((if i < p.len1 then a.getD i 0 else 0) % 256) ^^^ ((if i < p.len2 then b.getD i 0 else 0) % 256)) := rfl

theorem jwtStrcmp_eq (a b : List Nat) :
    jwtStrcmp a b =
      ((List.range (if a.length ≥ b.length then a.length else b.length)).foldl
        (fun r i => r ||| (((if i < a.length then a.getD i 0 else 0) % 256) ^^^ ((if i < b.length then b.getD i 0 else 0) % 256))) 0)
      ||| (a.length ^^^ b.length) := rfl

/-- **the translated `jwt_strcmp` returns 0 exactly for equal strings**, whatever their lengths -/
theorem jwtStrcmp_zero_iff (a b : List Nat) (ha : IsOctets a) (hb : IsOctets b) : jwtStrcmp a b = 0 ↔ a = b := by
  rw [jwtStrcmp_eq, Nat.or_eq_zero_iff, xor_eq_zero_iff, foldl_or_eq_zero]
  constructor
  · rintro ⟨⟨_, h⟩, hl⟩
    apply List.ext_getElem hl
    intro i h1 h2
    have := h i (by simp only [List.mem_range]; split <;> omega)
    rw [xor_eq_zero_iff] at this
    simp only [h1, h2, if_true, List.getD_eq_getElem?_getD, List.getElem?_eq_getElem, Option.getD_some] at this
    rwa [Nat.mod_eq_of_lt (ha _ (List.getElem_mem h1)), Nat.mod_eq_of_lt (hb _ (List.getElem_mem h2))] at this
  · intro h; subst h
    exact ⟨⟨rfl, fun i _ => by rw [xor_eq_zero_iff]⟩, rfl⟩

theorem isOctets_bytes (a : Jwt.Bytes) : IsOctets (a.map UInt8.toNat) := by
  intro x hx
  rcases List.mem_map.1 hx with ⟨y, _, rfl⟩
  exact UInt8.toNat_lt y

theorem map_toNat_inj {a b : Jwt.Bytes} : a.map UInt8.toNat = b.map UInt8.toNat ↔ a = b := by
  constructor
  · intro h
    induction a generalizing b with
    | nil => cases b with
      | nil => rfl
      | cons y ys => simp at h
    | cons x xs ih => cases b with
      | nil => simp at h
      | cons y ys =>
        simp only [List.map_cons, List.cons.injEq] at h
        rw [UInt8.toNat_inj.1 h.1, ih h.2]
  · intro h; rw [h]

/-- the hand-written model of `jwt_strcmp` (used by the algorithm and provider name tables and by the HS* check of the
model) and the translated source agree on what callers test: zero or not -/
theorem translated_agrees_with_model (a b : Jwt.Bytes) :
    jwtStrcmp (a.map UInt8.toNat) (b.map UInt8.toNat) = 0 ↔ Jwt.jwtStrcmp a b = 0 := by
  rw [jwtStrcmp_zero_iff _ _ (isOctets_bytes a) (isOctets_bytes b), map_toNat_inj, Jwt.jwtStrcmp_eq_zero_iff]

end StrCmpCode
