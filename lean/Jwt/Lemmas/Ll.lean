import Jwt.Ll
/-! The list invariant of `ll.h` over the generated operations, and what the `jwks.c` loops compute. -/
namespace Jwt.Ll

/-- `p → l₀ → l₁ → … → e` through `next`, and back through `prev` -/
def Linked (h : Heap) : Addr → List Addr → Addr → Prop
  | p, [], e => h.next p = e ∧ h.prev e = p
  | p, x :: xs, e => h.next p = x ∧ h.prev x = p ∧ Linked h x xs e

/-- a well-formed circular list with head node `head` and member nodes `l` (in order) -/
structure IsList (h : Heap) (head : Addr) (l : List Addr) : Prop where
  nodup : (head :: l).Nodup
  valid : ∀ a ∈ head :: l, h.valid a = true
  null : h.valid 0 = false
  linked : Linked h head l head

theorem Linked.frame {h h' : Heap} {p : Addr} {l : List Addr} {e : Addr}
    (hn : ∀ a ∈ p :: l, h'.next a = h.next a) (hp : ∀ a ∈ l ++ [e], h'.prev a = h.prev a)
    (hl : Linked h p l e) : Linked h' p l e := by
  induction l generalizing p with
  | nil =>
    obtain ⟨h1, h2⟩ := hl
    exact ⟨by rw [hn p (by simp)]; exact h1, by rw [hp e (by simp)]; exact h2⟩
  | cons x xs ih =>
    obtain ⟨h1, h2, h3⟩ := hl
    refine ⟨by rw [hn p (by simp)]; exact h1, by rw [hp x (by simp)]; exact h2, ?_⟩
    exact ih (fun a ha => hn a (by simp at ha ⊢; exact Or.inr ha)) (fun a ha => hp a (by simp at ha ⊢; exact Or.inr ha)) h3

theorem Linked.prev_end {h : Heap} {p : Addr} {l : List Addr} {e : Addr} (hl : Linked h p l e) :
    h.prev e = l.getLastD p := by
  induction l generalizing p with
  | nil => exact hl.2
  | cons x xs ih => simpa [List.getLastD_cons] using ih hl.2.2

theorem Linked.next_last {h : Heap} {p : Addr} {l : List Addr} {e : Addr} (hl : Linked h p l e) :
    h.next (l.getLastD p) = e := by
  induction l generalizing p with
  | nil => exact hl.1
  | cons x xs ih => simpa [List.getLastD_cons] using ih hl.2.2

theorem Linked.next_first {h : Heap} {p : Addr} {l : List Addr} {e : Addr} (hl : Linked h p l e) :
    h.next p = l.headD e := by
  cases l with
  | nil => exact hl.1
  | cons x xs => exact hl.1

theorem getLastD_mem (l : List Addr) (p : Addr) : l.getLastD p ∈ p :: l := by
  induction l generalizing p with
  | nil => simp
  | cons x xs ih =>
    rw [List.getLastD_cons]
    have := ih x
    simp at this ⊢
    rcases this with h | h
    · exact Or.inr (Or.inl h)
    · exact Or.inr (Or.inr h)

/-- appending a node at the end of a segment -/
theorem Linked.snoc {h h' : Heap} {p : Addr} {l : List Addr} {e n : Addr}
    (hl : Linked h p l e) (nd : (p :: l).Nodup) (hnl : n ∉ p :: l) (hne : n ≠ e) (hel : e ∉ l)
    (hN : ∀ a, h'.next a = if a = l.getLastD p then n else if a = n then e else h.next a)
    (hP : ∀ a, h'.prev a = if a = e then n else if a = n then l.getLastD p else h.prev a) :
    Linked h' p (l ++ [n]) e := by
  induction l generalizing p with
  | nil =>
    obtain ⟨h1, h2⟩ := hl
    have hnp : n ≠ p := by intro e'; exact hnl (by simp [e'])
    simp only [List.getLastD_nil] at hN hP
    refine ⟨by rw [hN]; simp, by rw [hP]; simp [hne], by rw [hN]; simp [hnp], by rw [hP]; simp⟩
  | cons x xs ih =>
    obtain ⟨h1, h2, h3⟩ := hl
    simp only [List.getLastD_cons] at hN hP
    have hlast := getLastD_mem xs x
    have hpx : p ∉ x :: xs := (List.nodup_cons.1 nd).1
    have hnp : n ≠ p := by intro e'; exact hnl (by simp [e'])
    have hnx : n ∉ x :: xs := fun hm => hnl (List.mem_cons_of_mem _ hm)
    refine ⟨?_, ?_, ?_⟩
    · rw [hN]
      have : p ≠ xs.getLastD x := fun e' => hpx (e' ▸ hlast)
      simp [this, hnp.symm, h1]
    · rw [hP]
      have hxe : x ≠ e := fun e' => hel (by simp [e'])
      have hxn : x ≠ n := fun e' => hnx (by simp [e'])
      simp [hxe, hxn, h2]
    · exact ih h3 (List.nodup_cons.1 nd).2 hnx (fun hm => hel (List.mem_cons_of_mem _ hm)) hN hP

/-- re-attaching the tail of a segment after its first node `x` was unlinked -/
theorem Linked.skip {h h' : Heap} {p x : Addr} {l2 : List Addr} {e : Addr}
    (hl : Linked h x l2 e) (nd : (p :: x :: l2).Nodup) (hel : e ∉ x :: l2)
    (hN : ∀ a, h'.next a = if a = x then 0 else if a = p then l2.headD e else h.next a)
    (hP : ∀ a, h'.prev a = if a = x then 0 else if a = l2.headD e then p else h.prev a) :
    Linked h' p l2 e := by
  have hpx : p ≠ x := by intro e'; simp [e'] at nd
  have hex : e ≠ x := fun e' => hel (by simp [e'])
  cases l2 with
  | nil =>
    simp only [List.headD_nil] at hN hP
    exact ⟨by rw [hN]; simp [hpx], by rw [hP]; simp [hex]⟩
  | cons y ys =>
    obtain ⟨h1, h2, h3⟩ := hl
    simp only [List.headD_cons] at hN hP
    have nd' := nd
    simp only [List.nodup_cons, List.mem_cons, not_or] at nd'
    obtain ⟨⟨_, hpy, hpys⟩, ⟨hxy, hxys⟩, hyys, ndys⟩ := nd'
    refine ⟨by rw [hN]; simp [hpx], by rw [hP]; simp [Ne.symm hxy], ?_⟩
    apply Linked.frame _ _ h3
    · intro a ha
      rw [hN]
      have hax : a ≠ x := by
        intro e'; subst e'
        simp only [List.mem_cons] at ha
        rcases ha with ha | ha
        · exact hxy ha
        · exact hxys ha
      have hap : a ≠ p := by
        intro e'; subst e'
        simp only [List.mem_cons] at ha
        rcases ha with ha | ha
        · exact hpy ha
        · exact hpys ha
      simp [hax, hap]
    · intro a ha
      rw [hP]
      have hax : a ≠ x := by
        intro e'; subst e'
        simp only [List.mem_append, List.mem_singleton] at ha
        rcases ha with ha | ha
        · exact hxys ha
        · exact hex ha.symm
      have hay : a ≠ y := by
        intro e'; subst e'
        simp only [List.mem_append, List.mem_singleton] at ha
        rcases ha with ha | ha
        · exact hyys ha
        · exact hel (by simp [ha])
      simp [hax, hay]

/-- unlinking the node `x` in the middle of a segment -/
theorem Linked.del {h h' : Heap} {p : Addr} {l1 : List Addr} {x : Addr} {l2 : List Addr} {e : Addr}
    (hl : Linked h p (l1 ++ x :: l2) e) (nd : (p :: (l1 ++ x :: l2)).Nodup) (hel : e ∉ l1 ++ x :: l2)
    (hN : ∀ a, h'.next a = if a = x then 0 else if a = l1.getLastD p then l2.headD e else h.next a)
    (hP : ∀ a, h'.prev a = if a = x then 0 else if a = l2.headD e then l1.getLastD p else h.prev a) :
    Linked h' p (l1 ++ l2) e := by
  induction l1 generalizing p with
  | nil =>
    simp only [List.nil_append, List.getLastD_nil] at hl nd hel hN hP ⊢
    obtain ⟨_, _, h3⟩ := hl
    exact Linked.skip h3 nd hel hN hP
  | cons z zs ih =>
    simp only [List.cons_append, List.getLastD_cons] at hl nd hel hN hP ⊢
    obtain ⟨h1, h2, h3⟩ := hl
    have nd' := List.nodup_cons.1 nd
    have hpl : p ∉ z :: (zs ++ x :: l2) := nd'.1
    have hlast : zs.getLastD z ∈ z :: zs := getLastD_mem zs z
    have hhead : l2.headD e = e ∨ l2.headD e ∈ l2 := by
      cases l2 with
      | nil => exact Or.inl rfl
      | cons y ys => exact Or.inr (by simp)
    refine ⟨?_, ?_, ih h3 nd'.2 (fun hm => hel (List.mem_cons_of_mem _ hm)) hN hP⟩
    · rw [hN]
      have hpx : p ≠ x := fun e' => hpl (by simp [e'])
      have hpl' : p ≠ zs.getLastD z := by
        intro e'
        apply hpl
        rw [e']
        simp only [List.mem_cons, List.mem_append] at hlast ⊢
        rcases hlast with hh | hh
        · exact Or.inl hh
        · exact Or.inr (Or.inl hh)
      simp [hpx, hpl', h1]
    · rw [hP]
      have nd2 := nd'.2
      simp only [List.nodup_cons, List.mem_append, List.mem_cons, not_or] at nd2
      have hzx : z ≠ x := nd2.1.2.1
      have hzh : z ≠ l2.headD e := by
        intro e'
        rcases hhead with hh | hh
        · exact hel (by rw [← hh, ← e']; simp)
        · exact nd2.1.2.2 (e' ▸ hh)
      simp [hzx, hzh, h2]

/-! ## the generated operations on well-formed lists -/

theorem init_ok (h : Heap) (head : Addr) (hv : h.valid head = true) (h0 : h.valid 0 = false) :
    ∃ h', INIT_LIST_HEAD h head = some h' ∧ IsList h' head [] ∧ h'.valid = h.valid := by
  refine ⟨_, by simp [INIT_LIST_HEAD, Heap.setNext, Heap.setPrev, hv, bind, Option.bind], ?_, rfl⟩
  exact ⟨by simp, by simp [hv], h0, by simp [Linked]⟩

/-- **`list_add_tail` appends.** On a well-formed list, with a live node `n` that is not in it, every
store hits a live node and the result is the well-formed list `l ++ [n]`. -/
theorem add_tail_ok (h : Heap) (head : Addr) (l : List Addr) (n : Addr) (hl : IsList h head l)
    (hv : h.valid n = true) (hn : n ∉ head :: l) :
    ∃ h', list_add_tail h n head = some h' ∧ IsList h' head (l ++ [n]) ∧ h'.valid = h.valid := by
  have hvh : h.valid head = true := hl.valid head (by simp)
  have hlast_mem := getLastD_mem l head
  have hvl : h.valid (l.getLastD head) = true := hl.valid _ hlast_mem
  have hpe := hl.linked.prev_end
  refine ⟨_, by simp [list_add_tail, list_insert, Heap.getPrev, Heap.setNext, Heap.setPrev, hvh, hv, hpe, hvl, bind, Option.bind], ?_, rfl⟩
  have hnh : n ≠ head := fun e => hn (by simp [e])
  refine ⟨?_, ?_, hl.null, ?_⟩
  · have := hl.nodup
    simp only [List.nodup_cons, List.mem_cons, not_or, List.nodup_append, List.mem_append, List.mem_singleton] at this hn ⊢
    refine ⟨⟨this.1, Ne.symm hn.1⟩, this.2, by simp, ?_⟩
    intro a ha b hb
    subst hb
    intro e; subst e; exact hn.2 ha
  · intro a ha
    simp only [List.mem_cons, List.mem_append, List.mem_singleton] at ha
    rcases ha with rfl | ha | rfl
    · exact hvh
    · exact hl.valid a (List.mem_cons_of_mem _ ha)
    · exact hv
  · apply Linked.snoc hl.linked hl.nodup hn hnh (List.nodup_cons.1 hl.nodup).1
    · intro a; simp only; split <;> rfl
    · intro a
      simp only
      by_cases h1 : a = n
      · subst h1; simp [hnh]
      · by_cases h2 : a = head
        · subst h2; simp [h1]
        · simp [h1, h2]

/-- **`list_del` unlinks exactly the entry.** -/
theorem del_ok (h : Heap) (head : Addr) (l1 : List Addr) (x : Addr) (l2 : List Addr)
    (hl : IsList h head (l1 ++ x :: l2)) :
    ∃ h', list_del h x = some h' ∧ IsList h' head (l1 ++ l2) ∧ h'.valid = h.valid ∧ h'.next x = 0 ∧ h'.prev x = 0 := by
  have hvx : h.valid x = true := hl.valid x (by simp)
  have nd := hl.nodup
  have hel : head ∉ l1 ++ x :: l2 := (List.nodup_cons.1 nd).1
  -- the neighbours
  have hprev : h.prev x = l1.getLastD head := by
    have : ∀ (p : Addr) (l1 : List Addr), Linked h p (l1 ++ x :: l2) head → h.prev x = l1.getLastD p := by
      intro p l1
      induction l1 generalizing p with
      | nil => intro hh; exact hh.2.1
      | cons z zs ih => intro hh; simpa [List.getLastD_cons] using ih z hh.2.2
    exact this head l1 hl.linked
  have hnext : h.next x = l2.headD head := by
    have : ∀ (p : Addr) (l1 : List Addr), Linked h p (l1 ++ x :: l2) head → h.next x = l2.headD head := by
      intro p l1
      induction l1 generalizing p with
      | nil => intro hh; exact hh.2.2.next_first
      | cons z zs ih => intro hh; exact ih z hh.2.2
    exact this head l1 hl.linked
  have hvp : h.valid (l1.getLastD head) = true := by
    apply hl.valid
    have := getLastD_mem l1 head
    simp only [List.mem_cons, List.mem_append] at this ⊢
    rcases this with hh | hh
    · exact Or.inl hh
    · exact Or.inr (Or.inl hh)
  have hvn : h.valid (l2.headD head) = true := by
    apply hl.valid
    cases l2 with
    | nil => simp
    | cons y ys => simp
  refine ⟨_, by simp [list_del, list_join_nodes, Heap.getPrev, Heap.getNext, Heap.setNext, Heap.setPrev, hvx, hprev, hnext, hvp, hvn, bind, Option.bind],
    ?_, rfl, by simp, by simp⟩
  refine ⟨?_, ?_, hl.null, ?_⟩
  · simp only [List.nodup_cons, List.mem_append, List.mem_cons, not_or, List.nodup_append] at nd ⊢
    refine ⟨⟨nd.1.1, nd.1.2.2⟩, nd.2.1, nd.2.2.1.2, ?_⟩
    intro a ha b hb
    exact nd.2.2.2 a ha b (Or.inr hb)
  · intro a ha
    apply hl.valid
    simp only [List.mem_cons, List.mem_append] at ha ⊢
    rcases ha with hh | hh | hh
    · exact Or.inl hh
    · exact Or.inr (Or.inl hh)
    · exact Or.inr (Or.inr (Or.inr hh))
  · apply Linked.del hl.linked nd hel
    · intro a; simp only; split <;> rfl
    · intro a; simp only; split <;> rfl

/-- **A second `list_del` of the same entry dereferences NULL** (the entry's pointers were cleared):
the model refuses it, `jwks.c` never does it because it deletes only nodes it found in the list. -/
theorem del_twice_fails (h : Heap) (x : Addr) (hv : h.valid x = true) (h0 : h.valid 0 = false)
    (hn : h.next x = 0) (hp : h.prev x = 0) : list_del h x = none := by
  simp [list_del, list_join_nodes, Heap.getPrev, Heap.getNext, Heap.setPrev, hv, hn, hp, h0, bind, Option.bind]

/-! ## the loops -/

theorem walkFrom_ok (h : Heap) (head : Addr) (p : Addr) (l : List Addr) (fuel : Nat)
    (hl : Linked h p l head) (hv : ∀ a ∈ l, h.valid a = true) (hh : head ∉ l) (hf : l.length < fuel) :
    walkFrom h head fuel (h.next p) = some l := by
  induction l generalizing p fuel with
  | nil =>
    cases fuel with
    | zero => simp at hf
    | succ f => simp [walkFrom, hl.1]
  | cons x xs ih =>
    cases fuel with
    | zero => simp at hf
    | succ f =>
      obtain ⟨h1, _, h3⟩ := hl
      have hxh : x ≠ head := fun e => hh (by simp [e])
      have hvx := hv x (by simp)
      rw [h1]
      simp only [walkFrom, hxh, if_false, Heap.getNext, hvx, if_true]
      have := ih x f h3 (fun a ha => hv a (List.mem_cons_of_mem _ ha)) (fun hm => hh (List.mem_cons_of_mem _ hm))
        (by simp at hf; omega)
      simp [bind, Option.bind, this]

/-- **`list_for_each_entry` visits exactly the members, in order, and terminates.** -/
theorem walk_ok (h : Heap) (head : Addr) (l : List Addr) (fuel : Nat) (hl : IsList h head l) (hf : l.length < fuel) :
    walk h head fuel = some l := by
  have hvh := hl.valid head (by simp)
  simp only [walk, Heap.getNext, hvh, if_true, bind, Option.bind]
  exact walkFrom_ok h head head l fuel hl.linked (fun a ha => hl.valid a (List.mem_cons_of_mem _ ha))
    (List.nodup_cons.1 hl.nodup).1 hf

theorem getFrom_ok (h : Heap) (head : Addr) (p : Addr) (l : List Addr) (fuel idx : Nat)
    (hl : Linked h p l head) (hv : ∀ a ∈ l, h.valid a = true) (hh : head ∉ l) (hf : l.length < fuel) :
    getFrom h head fuel (h.next p) idx = some l[idx]? := by
  induction l generalizing p fuel idx with
  | nil =>
    cases fuel with
    | zero => simp at hf
    | succ f => simp [getFrom, hl.1]
  | cons x xs ih =>
    cases fuel with
    | zero => simp at hf
    | succ f =>
      obtain ⟨h1, _, h3⟩ := hl
      have hxh : x ≠ head := fun e => hh (by simp [e])
      have hvx := hv x (by simp)
      rw [h1]
      cases idx with
      | zero => simp [getFrom, hxh]
      | succ i =>
        simp only [getFrom, hxh, if_false, Nat.succ_ne_zero, Heap.getNext, hvx, if_true, Nat.add_sub_cancel,
          List.getElem?_cons_succ, bind, Option.bind]
        exact ih x f i h3 (fun a ha => hv a (List.mem_cons_of_mem _ ha)) (fun hm => hh (List.mem_cons_of_mem _ hm))
          (by simp at hf; omega)

/-- **`jwks_item_get(set, idx)` is `l[idx]?`.** -/
theorem itemGet_ok (h : Heap) (head : Addr) (l : List Addr) (fuel idx : Nat) (hl : IsList h head l)
    (hf : l.length < fuel) : itemGet h head fuel idx = some l[idx]? := by
  have hvh := hl.valid head (by simp)
  simp only [itemGet, Heap.getNext, hvh, if_true, bind, Option.bind]
  exact getFrom_ok h head head l fuel idx hl.linked (fun a ha => hl.valid a (List.mem_cons_of_mem _ ha))
    (List.nodup_cons.1 hl.nodup).1 hf

theorem findFrom_ok (h : Heap) (view : Addr → ItemView) (head : Addr) (kid : List UInt8) (p : Addr) (l : List Addr)
    (fuel : Nat) (hl : Linked h p l head) (hv : ∀ a ∈ l, h.valid a = true) (hh : head ∉ l) (hf : l.length < fuel) :
    findFrom h view head kid fuel (h.next p) = some (l.find? (fun a => (view a).kid = some kid)) := by
  induction l generalizing p fuel with
  | nil =>
    cases fuel with
    | zero => simp at hf
    | succ f => simp [findFrom, hl.1]
  | cons x xs ih =>
    cases fuel with
    | zero => simp at hf
    | succ f =>
      obtain ⟨h1, _, h3⟩ := hl
      have hxh : x ≠ head := fun e => hh (by simp [e])
      have hvx := hv x (by simp)
      rw [h1]
      simp only [findFrom, hxh, if_false, Heap.getNext, hvx, if_true, bind, Option.bind, List.find?_cons]
      by_cases hk : (view x).kid = some kid
      · simp [hk]
      · simp only [hk, if_false, decide_false]
        exact ih x f h3 (fun a ha => hv a (List.mem_cons_of_mem _ ha)) (fun hm => hh (List.mem_cons_of_mem _ hm))
          (by simp at hf; omega)

theorem itemFind_ok (h : Heap) (view : Addr → ItemView) (head : Addr) (l : List Addr) (fuel : Nat) (kid : List UInt8)
    (hl : IsList h head l) (hf : l.length < fuel) :
    itemFind h view head fuel kid = some (l.find? (fun a => (view a).kid = some kid)) := by
  have hvh := hl.valid head (by simp)
  simp only [itemFind, Heap.getNext, hvh, if_true, bind, Option.bind]
  exact findFrom_ok h view head kid head l fuel hl.linked (fun a ha => hl.valid a (List.mem_cons_of_mem _ ha))
    (List.nodup_cons.1 hl.nodup).1 hf

end Jwt.Ll
