import Jwt.Ll
/-! The list invariant of `ll.h` over the generated operations, and what the `jwks.c` loops compute. -/
namespace Jwt.Ll

/-- the last element of `p :: l` -/
def lastD : List Addr → Addr → Addr
  | [], p => p
  | x :: xs, _ => lastD xs x

/-- the first element of `l ++ [e]` -/
def firstD : List Addr → Addr → Addr
  | [], e => e
  | x :: _, _ => x

@[simp] theorem lastD_nil (p : Addr) : lastD [] p = p := rfl
@[simp] theorem lastD_cons (x : Addr) (xs : List Addr) (p : Addr) : lastD (x :: xs) p = lastD xs x := rfl
@[simp] theorem firstD_nil (e : Addr) : firstD [] e = e := rfl
@[simp] theorem firstD_cons (x : Addr) (xs : List Addr) (e : Addr) : firstD (x :: xs) e = x := rfl

/-- `p → l₀ → l₁ → … → e` through `next`, and back through `prev` -/
def Linked (h : Heap) : Addr → List Addr → Addr → Prop
  | p, [], e => h.next p = e ∧ h.prev e = p
  | p, x :: xs, e => h.next p = x ∧ h.prev x = p ∧ Linked h x xs e

/-- a well-formed circular list with head node `head` and member nodes `l` (in order) -/
structure IsList (h : Heap) (head : Addr) (l : List Addr) : Prop where
  nodup : (head :: l).Nodup
  valid : ∀ a ∈ head :: l, h.valid a = true
  null : h.valid 0 = false
  linked : Linked h head l head

theorem Linked.frame {h h' : Heap} {p : Addr} {l : List Addr} {e : Addr}
    (hn : ∀ a ∈ p :: l, h'.next a = h.next a) (hp : ∀ a ∈ l ++ [e], h'.prev a = h.prev a)
    (hl : Linked h p l e) : Linked h' p l e := by
  induction l generalizing p with
  | nil =>
    obtain ⟨h1, h2⟩ := hl
    exact ⟨by rw [hn p (by simp)]; exact h1, by rw [hp e (by simp)]; exact h2⟩
  | cons x xs ih =>
    obtain ⟨h1, h2, h3⟩ := hl
    refine ⟨by rw [hn p (by simp)]; exact h1, by rw [hp x (by simp)]; exact h2, ?_⟩
    exact ih (fun a ha => hn a (by simp at ha ⊢; exact Or.inr ha)) (fun a ha => hp a (by simp at ha ⊢; exact Or.inr ha)) h3

theorem Linked.prev_end {h : Heap} {p : Addr} {l : List Addr} {e : Addr} (hl : Linked h p l e) :
    h.prev e = lastD l p := by
  induction l generalizing p with
  | nil => exact hl.2
  | cons x xs ih => simpa [lastD_cons] using ih hl.2.2

theorem Linked.next_last {h : Heap} {p : Addr} {l : List Addr} {e : Addr} (hl : Linked h p l e) :
    h.next (lastD l p) = e := by
  induction l generalizing p with
  | nil => exact hl.1
  | cons x xs ih => simpa [lastD_cons] using ih hl.2.2

theorem Linked.next_first {h : Heap} {p : Addr} {l : List Addr} {e : Addr} (hl : Linked h p l e) :
    h.next p = firstD l e := by
  cases l with
  | nil => exact hl.1
  | cons x xs => exact hl.1

theorem getLastD_mem (l : List Addr) (p : Addr) : lastD l p ∈ p :: l := by
  induction l generalizing p with
  | nil => simp
  | cons x xs ih =>
    rw [lastD_cons]
    have := ih x
    simp at this ⊢
    rcases this with h | h
    · exact Or.inr (Or.inl h)
    · exact Or.inr (Or.inr h)

/-- appending a node at the end of a segment -/
theorem Linked.snoc {h h' : Heap} {p : Addr} {l : List Addr} {e n : Addr}
    (hl : Linked h p l e) (nd : (p :: l).Nodup) (hnl : n ∉ p :: l) (hne : n ≠ e) (hel : e ∉ l)
    (hN : ∀ a, h'.next a = if a = lastD l p then n else if a = n then e else h.next a)
    (hP : ∀ a, h'.prev a = if a = e then n else if a = n then lastD l p else h.prev a) :
    Linked h' p (l ++ [n]) e := by
  induction l generalizing p with
  | nil =>
    obtain ⟨h1, h2⟩ := hl
    have hnp : n ≠ p := by intro e'; exact hnl (by simp [e'])
    simp only [lastD_nil] at hN hP
    refine ⟨by rw [hN]; simp, by rw [hP]; simp [hne], by rw [hN]; simp [hnp], by rw [hP]; simp⟩
  | cons x xs ih =>
    obtain ⟨h1, h2, h3⟩ := hl
    simp only [lastD_cons] at hN hP
    have hlast := getLastD_mem xs x
    have hpx : p ∉ x :: xs := (List.nodup_cons.1 nd).1
    have hnp : n ≠ p := by intro e'; exact hnl (by simp [e'])
    have hnx : n ∉ x :: xs := fun hm => hnl (List.mem_cons_of_mem _ hm)
    refine ⟨?_, ?_, ?_⟩
    · rw [hN]
      have : p ≠ lastD xs x := fun e' => hpx (e' ▸ hlast)
      simp [this, hnp.symm, h1]
    · rw [hP]
      have hxe : x ≠ e := fun e' => hel (by simp [e'])
      have hxn : x ≠ n := fun e' => hnx (by simp [e'])
      simp [hxe, hxn, h2]
    · exact ih h3 (List.nodup_cons.1 nd).2 hnx (fun hm => hel (List.mem_cons_of_mem _ hm)) hN hP

/-- re-attaching the tail of a segment after its first node `x` was unlinked -/
theorem Linked.skip {h h' : Heap} {p x : Addr} {l2 : List Addr} {e : Addr}
    (hl : Linked h x l2 e) (nd : (p :: x :: l2).Nodup) (hel : e ∉ x :: l2)
    (hN : ∀ a, h'.next a = if a = x then 0 else if a = p then firstD l2 e else h.next a)
    (hP : ∀ a, h'.prev a = if a = x then 0 else if a = firstD l2 e then p else h.prev a) :
    Linked h' p l2 e := by
  have hpx : p ≠ x := by intro e'; simp [e'] at nd
  have hex : e ≠ x := fun e' => hel (by simp [e'])
  cases l2 with
  | nil =>
    simp only [firstD_nil] at hN hP
    exact ⟨by rw [hN]; simp [hpx], by rw [hP]; simp [hex]⟩
  | cons y ys =>
    obtain ⟨h1, h2, h3⟩ := hl
    simp only [firstD_cons] at hN hP
    have nd' := nd
    simp only [List.nodup_cons, List.mem_cons, not_or] at nd'
    obtain ⟨⟨_, hpy, hpys⟩, ⟨hxy, hxys⟩, hyys, ndys⟩ := nd'
    refine ⟨by rw [hN]; simp [hpx], by rw [hP]; simp [Ne.symm hxy], ?_⟩
    apply Linked.frame _ _ h3
    · intro a ha
      rw [hN]
      have hax : a ≠ x := by
        intro e'; subst e'
        simp only [List.mem_cons] at ha
        rcases ha with ha | ha
        · exact hxy ha
        · exact hxys ha
      have hap : a ≠ p := by
        intro e'; subst e'
        simp only [List.mem_cons] at ha
        rcases ha with ha | ha
        · exact hpy ha
        · exact hpys ha
      simp [hax, hap]
    · intro a ha
      rw [hP]
      have hax : a ≠ x := by
        intro e'; subst e'
        simp only [List.mem_append, List.mem_singleton] at ha
        rcases ha with ha | ha
        · exact hxys ha
        · exact hex ha.symm
      have hay : a ≠ y := by
        intro e'; subst e'
        simp only [List.mem_append, List.mem_singleton] at ha
        rcases ha with ha | ha
        · exact hyys ha
        · exact hel (by simp [ha])
      simp [hax, hay]

/-- unlinking the node `x` in the middle of a segment -/
theorem Linked.del {h h' : Heap} {p : Addr} {l1 : List Addr} {x : Addr} {l2 : List Addr} {e : Addr}
    (hl : Linked h p (l1 ++ x :: l2) e) (nd : (p :: (l1 ++ x :: l2)).Nodup) (hel : e ∉ l1 ++ x :: l2)
    (hN : ∀ a, h'.next a = if a = x then 0 else if a = lastD l1 p then firstD l2 e else h.next a)
    (hP : ∀ a, h'.prev a = if a = x then 0 else if a = firstD l2 e then lastD l1 p else h.prev a) :
    Linked h' p (l1 ++ l2) e := by
  induction l1 generalizing p with
  | nil =>
    simp only [List.nil_append, lastD_nil] at hl nd hel hN hP ⊢
    obtain ⟨_, _, h3⟩ := hl
    exact Linked.skip h3 nd hel hN hP
  | cons z zs ih =>
    simp only [List.cons_append, lastD_cons] at hl nd hel hN hP ⊢
    obtain ⟨h1, h2, h3⟩ := hl
    have nd' := List.nodup_cons.1 nd
    have hpl : p ∉ z :: (zs ++ x :: l2) := nd'.1
    have hlast : lastD zs z ∈ z :: zs := getLastD_mem zs z
    have hhead : firstD l2 e = e ∨ firstD l2 e ∈ l2 := by
      cases l2 with
      | nil => exact Or.inl rfl
      | cons y ys => exact Or.inr (by simp)
    refine ⟨?_, ?_, ih h3 nd'.2 (fun hm => hel (List.mem_cons_of_mem _ hm)) hN hP⟩
    · rw [hN]
      have hpx : p ≠ x := fun e' => hpl (by simp [e'])
      have hpl' : p ≠ lastD zs z := by
        intro e'
        apply hpl
        rw [e']
        simp only [List.mem_cons, List.mem_append] at hlast ⊢
        rcases hlast with hh | hh
        · exact Or.inl hh
        · exact Or.inr (Or.inl hh)
      simp [hpx, hpl', h1]
    · rw [hP]
      have nd2 := nd'.2
      simp only [List.nodup_cons, List.mem_append, List.mem_cons, not_or] at nd2
      have hzx : z ≠ x := nd2.1.2.1
      have hzh : z ≠ firstD l2 e := by
        intro e'
        rcases hhead with hh | hh
        · exact hel (by rw [← hh, ← e']; simp)
        · exact nd2.1.2.2 (e' ▸ hh)
      simp [hzx, hzh, h2]

/-! ## the generated operations on well-formed lists -/

theorem init_eval (h : Heap) (head : Addr) (hv : h.valid head = true) :
    INIT_LIST_HEAD h head = some { valid := h.valid, next := fun x => if x = head then head else h.next x,
                                   prev := fun x => if x = head then head else h.prev x } := by
  simp [INIT_LIST_HEAD, Heap.setNext, Heap.setPrev, hv, bind, Option.bind]

theorem init_ok (h : Heap) (head : Addr) (hv : h.valid head = true) (h0 : h.valid 0 = false) :
    ∃ h', INIT_LIST_HEAD h head = some h' ∧ IsList h' head [] ∧ h'.valid = h.valid := by
  refine ⟨_, init_eval h head hv, ?_, rfl⟩
  exact ⟨by simp, by simp [hv], h0, by simp [Linked]⟩

theorem add_tail_eval (h : Heap) (head n last : Addr) (hvh : h.valid head = true) (hv : h.valid n = true)
    (hpe : h.prev head = last) (hvl : h.valid last = true) :
    list_add_tail h n head = some (Heap.mk h.valid
      (fun x => if x = last then n else if x = n then head else h.next x)
      (fun x => if x = n then last else if x = head then n else h.prev x)) := by
  simp [list_add_tail, list_insert, Heap.getPrev, Heap.setNext, Heap.setPrev, hvh, hv, hpe, hvl, bind, Option.bind]

/-- **`list_add_tail` appends.** On a well-formed list, with a live node `n` that is not in it, every
store hits a live node and the result is the well-formed list `l ++ [n]`. -/
theorem add_tail_ok (h : Heap) (head : Addr) (l : List Addr) (n : Addr) (hl : IsList h head l)
    (hv : h.valid n = true) (hn : n ∉ head :: l) :
    ∃ h', list_add_tail h n head = some h' ∧ IsList h' head (l ++ [n]) ∧ h'.valid = h.valid := by
  have hvh : h.valid head = true := hl.valid head (by simp)
  have hlast_mem := getLastD_mem l head
  have hvl : h.valid (lastD l head) = true := hl.valid _ hlast_mem
  have hpe := hl.linked.prev_end
  refine ⟨_, add_tail_eval h head n _ hvh hv hpe hvl, ?_, rfl⟩
  have hnh : n ≠ head := fun e => hn (by simp [e])
  have hnl : n ∉ l := fun hm => hn (List.mem_cons_of_mem _ hm)
  have ndl := List.nodup_cons.1 hl.nodup
  refine ⟨?_, ?_, hl.null, ?_⟩
  · rw [List.nodup_cons]
    refine ⟨?_, ?_⟩
    · intro hm
      rcases List.mem_append.1 hm with hm | hm
      · exact ndl.1 hm
      · exact hnh (List.mem_singleton.1 hm).symm
    · rw [List.nodup_append]
      refine ⟨ndl.2, by simp, ?_⟩
      intro a ha b hb
      rw [List.mem_singleton.1 hb]
      intro e; exact hnl (e ▸ ha)
  · intro a ha
    rcases List.mem_cons.1 ha with rfl | ha
    · exact hvh
    · rcases List.mem_append.1 ha with ha | ha
      · exact hl.valid a (List.mem_cons_of_mem _ ha)
      · rw [List.mem_singleton.1 ha]; exact hv
  · apply Linked.snoc hl.linked hl.nodup hn hnh ndl.1
    · intro a; rfl
    · intro a
      show (if a = n then lastD l head else if a = head then n else h.prev a) =
        (if a = head then n else if a = n then lastD l head else h.prev a)
      by_cases h1 : a = n
      · rw [h1]; simp [hnh]
      · by_cases h2 : a = head
        · rw [h2]; simp [Ne.symm hnh]
        · simp [h1, h2]

theorem del_eval (h : Heap) (x pv nx : Addr) (hvx : h.valid x = true) (hprev : h.prev x = pv) (hnext : h.next x = nx)
    (hvp : h.valid pv = true) (hvn : h.valid nx = true) :
    list_del h x = some (Heap.mk h.valid
      (fun a => if a = x then 0 else if a = pv then nx else h.next a)
      (fun a => if a = x then 0 else if a = nx then pv else h.prev a)) := by
  simp [list_del, list_join_nodes, Heap.getPrev, Heap.getNext, Heap.setNext, Heap.setPrev, hvx, hprev, hnext, hvp, hvn, bind, Option.bind]

/-- **`list_del` unlinks exactly the entry.** -/
theorem del_ok (h : Heap) (head : Addr) (l1 : List Addr) (x : Addr) (l2 : List Addr)
    (hl : IsList h head (l1 ++ x :: l2)) :
    ∃ h', list_del h x = some h' ∧ IsList h' head (l1 ++ l2) ∧ h'.valid = h.valid ∧ h'.next x = 0 ∧ h'.prev x = 0 := by
  have hvx : h.valid x = true := hl.valid x (by simp)
  have nd := hl.nodup
  have hel : head ∉ l1 ++ x :: l2 := (List.nodup_cons.1 nd).1
  -- the neighbours
  have hprev : h.prev x = lastD l1 head := by
    have : ∀ (p : Addr) (l1 : List Addr), Linked h p (l1 ++ x :: l2) head → h.prev x = lastD l1 p := by
      intro p l1
      induction l1 generalizing p with
      | nil => intro hh; exact hh.2.1
      | cons z zs ih => intro hh; simpa using ih z hh.2.2
    exact this head l1 hl.linked
  have hnext : h.next x = firstD l2 head := by
    have : ∀ (p : Addr) (l1 : List Addr), Linked h p (l1 ++ x :: l2) head → h.next x = firstD l2 head := by
      intro p l1
      induction l1 generalizing p with
      | nil => intro hh; exact hh.2.2.next_first
      | cons z zs ih => intro hh; exact ih z hh.2.2
    exact this head l1 hl.linked
  have hvp : h.valid (lastD l1 head) = true := by
    apply hl.valid
    have := getLastD_mem l1 head
    rcases List.mem_cons.1 this with hh | hh
    · rw [hh]; simp
    · exact List.mem_cons_of_mem _ (List.mem_append_left _ hh)
  have hvn : h.valid (firstD l2 head) = true := by
    apply hl.valid
    cases l2 with
    | nil => simp
    | cons y ys => simp
  refine ⟨_, del_eval h x _ _ hvx hprev hnext hvp hvn, ?_, rfl, by simp, by simp⟩
  have ndl := List.nodup_cons.1 nd
  have nda := List.nodup_append.1 ndl.2
  refine ⟨?_, ?_, hl.null, ?_⟩
  · rw [List.nodup_cons]
    refine ⟨?_, ?_⟩
    · intro hm
      apply hel
      rcases List.mem_append.1 hm with hm | hm
      · exact List.mem_append_left _ hm
      · exact List.mem_append_right _ (List.mem_cons_of_mem _ hm)
    · rw [List.nodup_append]
      refine ⟨nda.1, (List.nodup_cons.1 nda.2.1).2, ?_⟩
      intro a ha b hb
      exact nda.2.2 a ha b (List.mem_cons_of_mem _ hb)
  · intro a ha
    apply hl.valid
    rcases List.mem_cons.1 ha with hh | hh
    · rw [hh]; simp
    · rcases List.mem_append.1 hh with hh | hh
      · exact List.mem_cons_of_mem _ (List.mem_append_left _ hh)
      · exact List.mem_cons_of_mem _ (List.mem_append_right _ (List.mem_cons_of_mem _ hh))
  · apply Linked.del hl.linked nd hel
    · intro a; rfl
    · intro a; rfl

/-- **A second `list_del` of the same entry dereferences NULL** (the entry's pointers were cleared):
the model refuses it, `jwks.c` never does it because it deletes only nodes it found in the list. -/
theorem del_twice_fails (h : Heap) (x : Addr) (hv : h.valid x = true) (h0 : h.valid 0 = false)
    (hn : h.next x = 0) (hp : h.prev x = 0) : list_del h x = none := by
  simp [list_del, list_join_nodes, Heap.getPrev, Heap.getNext, Heap.setPrev, hv, hn, hp, h0, bind, Option.bind]

/-! ## the loops -/

theorem walkFrom_ok (h : Heap) (head : Addr) (p : Addr) (l : List Addr) (fuel : Nat)
    (hl : Linked h p l head) (hv : ∀ a ∈ l, h.valid a = true) (hh : head ∉ l) (hf : l.length < fuel) :
    walkFrom h head fuel (h.next p) = some l := by
  induction l generalizing p fuel with
  | nil =>
    cases fuel with
    | zero => simp at hf
    | succ f => simp [walkFrom, hl.1]
  | cons x xs ih =>
    cases fuel with
    | zero => simp at hf
    | succ f =>
      obtain ⟨h1, _, h3⟩ := hl
      have hxh : x ≠ head := fun e => hh (by simp [e])
      have hvx := hv x (by simp)
      rw [h1]
      simp only [walkFrom, hxh, if_false, Heap.getNext, hvx, if_true]
      have := ih x f h3 (fun a ha => hv a (List.mem_cons_of_mem _ ha)) (fun hm => hh (List.mem_cons_of_mem _ hm))
        (by simp at hf; omega)
      simp [bind, Option.bind, this]

/-- **`list_for_each_entry` visits exactly the members, in order, and terminates.** -/
theorem walk_ok (h : Heap) (head : Addr) (l : List Addr) (fuel : Nat) (hl : IsList h head l) (hf : l.length < fuel) :
    walk h head fuel = some l := by
  have hvh := hl.valid head (by simp)
  simp only [walk, Heap.getNext, hvh, if_true, bind, Option.bind]
  exact walkFrom_ok h head head l fuel hl.linked (fun a ha => hl.valid a (List.mem_cons_of_mem _ ha))
    (List.nodup_cons.1 hl.nodup).1 hf

theorem getFrom_ok (h : Heap) (head : Addr) (p : Addr) (l : List Addr) (fuel idx : Nat)
    (hl : Linked h p l head) (hv : ∀ a ∈ l, h.valid a = true) (hh : head ∉ l) (hf : l.length < fuel) :
    getFrom h head fuel (h.next p) idx = some l[idx]? := by
  induction l generalizing p fuel idx with
  | nil =>
    cases fuel with
    | zero => simp at hf
    | succ f => simp [getFrom, hl.1]
  | cons x xs ih =>
    cases fuel with
    | zero => simp at hf
    | succ f =>
      obtain ⟨h1, _, h3⟩ := hl
      have hxh : x ≠ head := fun e => hh (by simp [e])
      have hvx := hv x (by simp)
      rw [h1]
      cases idx with
      | zero => simp [getFrom, hxh]
      | succ i =>
        simp only [getFrom, hxh, if_false, Nat.succ_ne_zero, Heap.getNext, hvx, if_true, Nat.add_sub_cancel,
          List.getElem?_cons_succ, bind, Option.bind]
        exact ih x f i h3 (fun a ha => hv a (List.mem_cons_of_mem _ ha)) (fun hm => hh (List.mem_cons_of_mem _ hm))
          (by simp at hf; omega)

/-- **`jwks_item_get(set, idx)` is `l[idx]?`.** -/
theorem itemGet_ok (h : Heap) (head : Addr) (l : List Addr) (fuel idx : Nat) (hl : IsList h head l)
    (hf : l.length < fuel) : itemGet h head fuel idx = some l[idx]? := by
  have hvh := hl.valid head (by simp)
  simp only [itemGet, Heap.getNext, hvh, if_true, bind, Option.bind]
  exact getFrom_ok h head head l fuel idx hl.linked (fun a ha => hl.valid a (List.mem_cons_of_mem _ ha))
    (List.nodup_cons.1 hl.nodup).1 hf

theorem findFrom_ok (h : Heap) (view : Addr → ItemView) (head : Addr) (kid : List UInt8) (p : Addr) (l : List Addr)
    (fuel : Nat) (hl : Linked h p l head) (hv : ∀ a ∈ l, h.valid a = true) (hh : head ∉ l) (hf : l.length < fuel) :
    findFrom h view head kid fuel (h.next p) = some (l.find? (fun a => (view a).kid = some kid)) := by
  induction l generalizing p fuel with
  | nil =>
    cases fuel with
    | zero => simp at hf
    | succ f => simp [findFrom, hl.1]
  | cons x xs ih =>
    cases fuel with
    | zero => simp at hf
    | succ f =>
      obtain ⟨h1, _, h3⟩ := hl
      have hxh : x ≠ head := fun e => hh (by simp [e])
      have hvx := hv x (by simp)
      rw [h1]
      simp only [findFrom, hxh, if_false, Heap.getNext, hvx, if_true, bind, Option.bind, List.find?_cons]
      by_cases hk : (view x).kid = some kid
      · simp [hk]
      · simp only [hk, if_false, decide_false]
        exact ih x f h3 (fun a ha => hv a (List.mem_cons_of_mem _ ha)) (fun hm => hh (List.mem_cons_of_mem _ hm))
          (by simp at hf; omega)

theorem itemFind_ok (h : Heap) (view : Addr → ItemView) (head : Addr) (l : List Addr) (fuel : Nat) (kid : List UInt8)
    (hl : IsList h head l) (hf : l.length < fuel) :
    itemFind h view head fuel kid = some (l.find? (fun a => (view a).kid = some kid)) := by
  have hvh := hl.valid head (by simp)
  simp only [itemFind, Heap.getNext, hvh, if_true, bind, Option.bind]
  exact findFrom_ok h view head kid head l fuel hl.linked (fun a ha => hl.valid a (List.mem_cons_of_mem _ ha))
    (List.nodup_cons.1 hl.nodup).1 hf

end Jwt.Ll

namespace Jwt.Ll

/-! ## neighbours, frames for `free` and `alloc` -/

theorem Linked.next_mid {h : Heap} {p : Addr} {l1 : List Addr} {x : Addr} {l2 : List Addr} {e : Addr}
    (hl : Linked h p (l1 ++ x :: l2) e) : h.next x = firstD l2 e := by
  induction l1 generalizing p with
  | nil => exact hl.2.2.next_first
  | cons z zs ih => exact ih hl.2.2

theorem free_eval (h : Heap) (x : Addr) (hv : h.valid x = true) :
    h.free x = some (Heap.mk (fun a => if a = x then false else h.valid a) h.next h.prev) := by
  simp [Heap.free, hv]

theorem alloc_eval (h : Heap) (a : Addr) (ha0 : a ≠ 0) (hv : h.valid a = false) :
    h.alloc a = some (Heap.mk (fun x => if x = a then true else h.valid x) (fun x => if x = a then 0 else h.next x)
      (fun x => if x = a then 0 else h.prev x)) := by
  simp [Heap.alloc, ha0, hv]

theorem IsList.free_other {h : Heap} {head : Addr} {l : List Addr} (hl : IsList h head l) (x : Addr)
    (hx : x ∉ head :: l) (hv : h.valid x = true) :
    ∃ h', h.free x = some h' ∧ IsList h' head l ∧ h'.valid x = false ∧ (∀ a, a ≠ x → h'.valid a = h.valid a) ∧
      h'.next = h.next ∧ h'.prev = h.prev := by
  refine ⟨_, free_eval h x hv, ?_, by simp, fun a ha => by simp [ha], rfl, rfl⟩
  refine ⟨hl.nodup, ?_, ?_, Linked.frame (h := h) (fun _ _ => rfl) (fun _ _ => rfl) hl.linked⟩
  · intro a ha
    have : a ≠ x := fun e => hx (e ▸ ha)
    simp [this, hl.valid a ha]
  · show (if (0 : Addr) = x then false else h.valid 0) = false
    split
    · rfl
    · exact hl.null

theorem IsList.alloc_other {h : Heap} {head : Addr} {l : List Addr} (hl : IsList h head l) (a : Addr)
    (ha0 : a ≠ 0) (hv : h.valid a = false) :
    ∃ h', h.alloc a = some h' ∧ IsList h' head l ∧ h'.valid a = true ∧ (∀ b, b ≠ a → h'.valid b = h.valid b) := by
  have hnot : a ∉ head :: l := fun hm => by have := hl.valid a hm; rw [hv] at this; cases this
  refine ⟨_, alloc_eval h a ha0 hv, ?_, by simp, fun b hb => by simp [hb]⟩
  refine ⟨hl.nodup, ?_, ?_, ?_⟩
  · intro b hb
    have : b ≠ a := fun e => hnot (e ▸ hb)
    simp [this, hl.valid b hb]
  · show (if (0 : Addr) = a then true else h.valid 0) = false
    rw [if_neg (Ne.symm ha0)]; exact hl.null
  · apply Linked.frame _ _ hl.linked
    · intro b hb
      have : b ≠ a := fun e => hnot (e ▸ hb)
      simp [this]
    · intro b hb
      have : b ≠ a := by
        intro e; apply hnot; rw [← e]
        rcases List.mem_append.1 hb with hb | hb
        · exact List.mem_cons_of_mem _ hb
        · rw [List.mem_singleton.1 hb]; simp
      simp [this]

/-- **`jwks_item_add`.** A freshly allocated item is appended at the end. -/
theorem itemAdd_ok (h : Heap) (head : Addr) (l : List Addr) (a : Addr) (hl : IsList h head l) (ha0 : a ≠ 0)
    (hv : h.valid a = false) :
    ∃ h', itemAdd h head a = some h' ∧ IsList h' head (l ++ [a]) ∧ (∀ b, b ≠ a → h'.valid b = h.valid b) := by
  obtain ⟨h1, e1, l1, v1, o1⟩ := hl.alloc_other a ha0 hv
  have hnot : a ∉ head :: l := fun hm => by have := hl.valid a hm; rw [hv] at this; cases this
  obtain ⟨h2, e2, l2, v2⟩ := add_tail_ok h1 head l a l1 v1 hnot
  refine ⟨h2, by simp [itemAdd, e1, e2, bind, Option.bind], l2, fun b hb => by rw [v2]; exact o1 b hb⟩

/-- `__item_free` of a member: unlinked, then its memory released -/
theorem itemRelease_ok (h : Heap) (head : Addr) (l1 : List Addr) (x : Addr) (l2 : List Addr)
    (hl : IsList h head (l1 ++ x :: l2)) :
    ∃ h', itemRelease h x = some h' ∧ IsList h' head (l1 ++ l2) ∧ h'.valid x = false ∧
      (∀ a, a ≠ x → h'.valid a = h.valid a) ∧ (∀ a, a ≠ x → a ∈ head :: (l1 ++ l2) → h'.next a = (if a = lastD l1 head then firstD l2 head else h.next a)) := by
  obtain ⟨h1, e1, il1, v1, _, _⟩ := del_ok h head l1 x l2 hl
  have hx : x ∉ head :: (l1 ++ l2) := by
    have nd := hl.nodup
    have ndl := List.nodup_cons.1 nd
    have nda := List.nodup_append.1 ndl.2
    intro hm
    rcases List.mem_cons.1 hm with hm | hm
    · exact ndl.1 (by rw [← hm]; simp)
    · rcases List.mem_append.1 hm with hm | hm
      · exact nda.2.2 x hm x (by simp) rfl
      · exact (List.nodup_cons.1 nda.2.1).1 hm
  have hvx : h1.valid x = true := by rw [v1]; exact hl.valid x (by simp)
  obtain ⟨h2, e2, il2, vx, vo, n2, _⟩ := il1.free_other x hx hvx
  refine ⟨h2, by simp [itemRelease, e1, e2, bind, Option.bind], il2, vx, fun a ha => by rw [vo a ha, v1], ?_⟩
  intro a ha _
  rw [n2]
  -- h1 is the explicit heap of del_eval
  have hvx' : h.valid x = true := hl.valid x (by simp)
  have hprev : h.prev x = lastD l1 head := by
    have : ∀ (p : Addr) (l1 : List Addr), Linked h p (l1 ++ x :: l2) head → h.prev x = lastD l1 p := by
      intro p l1
      induction l1 generalizing p with
      | nil => intro hh; exact hh.2.1
      | cons z zs ih => intro hh; simpa using ih z hh.2.2
    exact this head l1 hl.linked
  have hnext := hl.linked.next_mid
  have hvp : h.valid (lastD l1 head) = true := by
    apply hl.valid
    rcases List.mem_cons.1 (getLastD_mem l1 head) with hh | hh
    · rw [hh]; simp
    · exact List.mem_cons_of_mem _ (List.mem_append_left _ hh)
  have hvn : h.valid (firstD l2 head) = true := by
    apply hl.valid
    cases l2 with
    | nil => simp
    | cons y ys => simp
  have := del_eval h x _ _ hvx' hprev hnext hvp hvn
  rw [this] at e1
  cases e1
  simp [ha]

/-- **`jwks_item_free(set, idx)`** removes exactly the `idx`-th member (and reports 1), or nothing (0). -/
theorem itemFree_ok (h : Heap) (head : Addr) (l : List Addr) (fuel idx : Nat) (hl : IsList h head l)
    (hf : l.length < fuel) :
    ∃ h', itemFree h head fuel idx = some (h', if idx < l.length then 1 else 0) ∧ IsList h' head (l.eraseIdx idx) ∧
      (∀ a, a ∈ l[idx]? → h'.valid a = false) ∧ (∀ a, a ∉ l[idx]? → h'.valid a = h.valid a) := by
  have hg := itemGet_ok h head l fuel idx hl hf
  by_cases hi : idx < l.length
  · have hsplit : l = l.take idx ++ l[idx] :: l.drop (idx + 1) := by
      rw [List.getElem_cons_drop hi, List.take_append_drop]
    have hl' : IsList h head (l.take idx ++ l[idx] :: l.drop (idx + 1)) := hsplit ▸ hl
    obtain ⟨h', e, il, vx, vo, _⟩ := itemRelease_ok h head _ _ _ hl'
    refine ⟨h', ?_, ?_, ?_, ?_⟩
    · simp [itemFree, hg, List.getElem?_eq_getElem hi, e, hi, bind, Option.bind]
    · rw [List.eraseIdx_eq_take_drop_succ]; exact il
    · intro a ha
      rw [List.getElem?_eq_getElem hi] at ha
      cases ha; exact vx
    · intro a ha
      rw [List.getElem?_eq_getElem hi] at ha
      exact vo a (fun e => ha (by rw [e]; rfl))
  · have hnone : l[idx]? = none := List.getElem?_eq_none (by omega)
    refine ⟨h, by simp [itemFree, hg, hnone, hi, bind, Option.bind], ?_, by simp [hnone], by simp⟩
    rw [List.eraseIdx_of_length_le (by omega)]
    exact hl

end Jwt.Ll

namespace Jwt.Ll

theorem firstD_mem (l : List Addr) (e : Addr) : firstD l e ∈ e :: l := by
  cases l with
  | nil => simp
  | cons x xs => simp

theorem freeBadFrom_ok (view : Addr → ItemView) (head : Addr) (rest : List Addr) :
    ∀ (done : List Addr) (h : Heap) (n : Addr) (c fuel : Nat),
      IsList h head (done ++ rest) → (∀ x xs, rest = x :: xs → n = firstD xs head) → rest.length < fuel →
      ∃ h', freeBadFrom view head fuel h (firstD rest head) n c =
          some (h', c + (rest.filter (fun a => (view a).error)).length) ∧
        IsList h' head (done ++ rest.filter (fun a => !(view a).error)) ∧
        (∀ a, a ∈ rest → (view a).error = true → h'.valid a = false) ∧
        (∀ a, ¬(a ∈ rest ∧ (view a).error = true) → h'.valid a = h.valid a) := by
  induction rest with
  | nil =>
    intro done h n c fuel hl _ hf
    cases fuel with
    | zero => simp at hf
    | succ f =>
      refine ⟨h, by simp [freeBadFrom], by simpa using hl, by simp, by simp⟩
  | cons x xs ih =>
    intro done h n c fuel hl hn hf
    cases fuel with
    | zero => simp at hf
    | succ f =>
      have hn' : n = firstD xs head := hn x xs rfl
      have hxh : x ≠ head := by
        intro e
        have := (List.nodup_cons.1 hl.nodup).1
        apply this; rw [← e]; simp
      have hvx : h.valid x = true := hl.valid x (by simp)
      have hnmem : n ∈ head :: (done ++ x :: xs) := by
        rw [hn']
        rcases List.mem_cons.1 (firstD_mem xs head) with hh | hh
        · rw [hh]; simp
        · exact List.mem_cons_of_mem _ (List.mem_append_right _ (List.mem_cons_of_mem _ hh))
      by_cases hex : (view x).error = true
      · obtain ⟨h2, e2, il2, vx, vo, _⟩ := itemRelease_ok h head done x xs hl
        have hnx : n ≠ x := by
          intro e
          have nd := hl.nodup
          have ndl := List.nodup_cons.1 nd
          have nda := List.nodup_append.1 ndl.2
          have hx' := List.nodup_cons.1 nda.2.1
          rw [hn'] at e
          rcases List.mem_cons.1 (firstD_mem xs head) with hh | hh
          · apply ndl.1; rw [← hh, e]; simp
          · exact hx'.1 (e ▸ hh)
        have hvn : h2.valid n = true := by rw [vo n hnx]; exact hl.valid n hnmem
        have hcond : ∀ y ys, xs = y :: ys → h2.next n = firstD ys head := by
          intro y ys hxs
          subst hxs
          simp only [firstD_cons] at hn'
          subst hn'
          exact il2.linked.next_mid
        obtain ⟨h3, e3, il3, v3a, v3b⟩ := ih done h2 (h2.next n) (c + 1) f il2 hcond (by simp at hf; omega)
        refine ⟨h3, ?_, ?_, ?_, ?_⟩
        · simp only [firstD_cons, freeBadFrom, hxh, if_false, Heap.getNext, hvx, if_true, hex, e2, hvn, bind, Option.bind]
          rw [← hn'] at e3
          rw [e3]
          simp [List.filter_cons, hex]; omega
        · simpa [List.filter_cons, hex] using il3
        · intro a ha hae
          rcases List.mem_cons.1 ha with rfl | ha
          · by_cases hax : a ∈ xs ∧ (view a).error = true
            · exact v3a a hax.1 hax.2
            · rw [v3b a hax]; exact vx
          · exact v3a a ha hae
        · intro a ha
          have h1 : ¬(a ∈ xs ∧ (view a).error = true) := fun hh => ha ⟨List.mem_cons_of_mem _ hh.1, hh.2⟩
          have h2' : a ≠ x := fun e => ha ⟨by rw [e]; simp, e ▸ hex⟩
          rw [v3b a h1, vo a h2']
      · have hvn : h.valid n = true := hl.valid n hnmem
        have hl' : IsList h head ((done ++ [x]) ++ xs) := by simpa [List.append_assoc] using hl
        have hcond : ∀ y ys, xs = y :: ys → h.next n = firstD ys head := by
          intro y ys hxs
          subst hxs
          simp only [firstD_cons] at hn'
          subst hn'
          exact hl'.linked.next_mid
        obtain ⟨h3, e3, il3, v3a, v3b⟩ := ih (done ++ [x]) h (h.next n) c f hl' hcond (by simp at hf; omega)
        refine ⟨h3, ?_, ?_, ?_, ?_⟩
        · have hex' : (view x).error = false := by simpa using hex
          simp only [firstD_cons, freeBadFrom, hxh, if_false, Heap.getNext, hvx, if_true, hex', hvn, bind, Option.bind,
            Bool.false_eq_true]
          rw [← hn'] at e3
          rw [e3]
          simp [List.filter_cons, hex']
        · simpa [List.filter_cons, hex, List.append_assoc] using il3
        · intro a ha hae
          rcases List.mem_cons.1 ha with rfl | ha
          · exact absurd hae hex
          · exact v3a a ha hae
        · intro a ha
          exact v3b a (fun hh => ha ⟨List.mem_cons_of_mem _ hh.1, hh.2⟩)

/-- **`jwks_item_free_bad`** removes exactly the items that carry an error, keeps the others in order,
reports how many it removed, and never touches freed memory (the `_safe` iteration reads the next
pointer before the current item is released). -/
theorem freeBad_ok (h : Heap) (view : Addr → ItemView) (head : Addr) (l : List Addr) (fuel : Nat)
    (hl : IsList h head l) (hf : l.length < fuel) :
    ∃ h', freeBad h view head fuel = some (h', (l.filter (fun a => (view a).error)).length) ∧
      IsList h' head (l.filter (fun a => !(view a).error)) ∧
      (∀ a, a ∈ l → (view a).error = true → h'.valid a = false) ∧
      (∀ a, ¬(a ∈ l ∧ (view a).error = true) → h'.valid a = h.valid a) := by
  have hvh := hl.valid head (by simp)
  have hpos := hl.linked.next_first
  have hvp : h.valid (firstD l head) = true := hl.valid _ (firstD_mem l head)
  have hcond : ∀ x xs, l = x :: xs → h.next (firstD l head) = firstD xs head := by
    intro x xs hx
    subst hx
    have : IsList h head ([] ++ x :: xs) := by simpa using hl
    simpa using this.linked.next_mid
  obtain ⟨h', e, il, va, vb⟩ := freeBadFrom_ok view head l [] h (h.next (firstD l head)) 0 fuel (by simpa using hl) hcond hf
  refine ⟨h', ?_, by simpa using il, va, vb⟩
  simp only [freeBad, Heap.getNext, hvh, if_true, hpos, hvp, bind, Option.bind]
  simpa using e

theorem freeAllLoop_ok (head : Addr) (fuel : Nat) (l : List Addr) :
    ∀ (h : Heap) (k i : Nat), IsList h head l → l.length < fuel → l.length < k →
      ∃ h', freeAllLoop head fuel k h i = some (h', i + l.length) ∧ IsList h' head [] ∧
        (∀ a ∈ l, h'.valid a = false) ∧ (∀ a, a ∉ l → h'.valid a = h.valid a) := by
  induction l with
  | nil =>
    intro h k i hl hf hk
    cases k with
    | zero => simp at hk
    | succ k =>
      obtain ⟨h', e, il, _, vo⟩ := itemFree_ok h head [] fuel 0 hl hf
      simp only [List.length_nil, Nat.lt_irrefl, if_false] at e
      refine ⟨h', by simp [freeAllLoop, e, bind, Option.bind], by simpa using il, by simp, fun a _ => vo a (by simp)⟩
  | cons x xs ih =>
    intro h k i hl hf hk
    cases k with
    | zero => simp at hk
    | succ k =>
      obtain ⟨h1, e1, il1, vx, vo⟩ := itemFree_ok h head (x :: xs) fuel 0 hl hf
      simp only [List.length_cons, Nat.zero_lt_succ, if_true, List.eraseIdx_cons_zero] at e1 il1
      obtain ⟨h2, e2, il2, va, vb⟩ := ih h1 k (i + 1) il1 (by simp at hf; omega) (by simp at hk; omega)
      refine ⟨h2, ?_, il2, ?_, ?_⟩
      · simp only [freeAllLoop, e1, bind, Option.bind]
        simp only [Nat.succ_ne_zero, if_false, e2, List.length_cons]
        congr 2; omega
      · intro a ha
        rcases List.mem_cons.1 ha with rfl | ha
        · by_cases hax : a ∈ xs
          · exact va a hax
          · rw [vb a hax]; exact vx a (by simp)
        · exact va a ha
      · intro a ha
        have h1' : a ∉ xs := fun hh => ha (List.mem_cons_of_mem _ hh)
        have h2' : a ≠ x := fun e => ha (by rw [e]; simp)
        rw [vb a h1']
        exact vo a (by simp; exact fun e => h2' e.symm)

end Jwt.Ll
