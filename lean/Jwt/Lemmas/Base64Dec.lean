import Jwt.Lemmas.TableFacts
/-! Decoder: the literal index loop over a bounds-checked buffer never leaves the buffer and
computes `decodeSpec`. -/
namespace Jwt.Base64
open Jwt Jwt.Generated

/-- buffer-free rendering of the decode loop: phase `p = i % 4`, `cur` = the partial byte `out[j]` -/
def decPure : Bytes → Nat → UInt8 → Option Bytes
  | [], _, _ => some []
  | c :: cs, p, cur =>
    if c = pad then some []
    else if c < deFirst || c > deLast then none
    else if deAt c = 255 then none
    else match p with
      | 0 => decPure cs 1 ((deAt c <<< 2) &&& 0xFF)
      | 1 => (decPure cs 2 ((deAt c &&& 0xF) <<< 4)).map ((cur ||| ((deAt c >>> 4) &&& 0x3)) :: ·)
      | 2 => (decPure cs 3 ((deAt c &&& 0x3) <<< 6)).map ((cur ||| ((deAt c >>> 2) &&& 0xF)) :: ·)
      | _ => (decPure cs 0 0).map ((cur ||| deAt c) :: ·)

theorem and3_eq_mod (i : Nat) : i &&& 0x3 = i % 4 := Nat.and_two_pow_sub_one_eq_mod i 2

theorem set_append_len (pre : Bytes) (y v : UInt8) (g : Bytes) :
    (pre ++ y :: g).set pre.length v = pre ++ v :: g := by
  induction pre with
  | nil => rfl
  | cons x xs ih => simp [ih]

theorem bufSet_append_len (pre : Bytes) (y v : UInt8) (g : Bytes) :
    bufSet (pre ++ y :: g) pre.length v = some (pre ++ v :: g) := by
  simp [bufSet]

theorem get_append_len (pre : Bytes) (y : UInt8) (g : Bytes) : (pre ++ y :: g)[pre.length]? = some y := by
  simp

theorem decStep0 (i : Nat) (h : i % 4 = 0) (pre : Bytes) (y : UInt8) (g : Bytes) (v : UInt8) :
    decStep i pre.length (pre ++ y :: g) v = some (pre.length, pre ++ ((v <<< 2) &&& 0xFF) :: g) := by
  simp [decStep, and3_eq_mod, h, bufSet_append_len]

theorem decStep1 (i : Nat) (h : i % 4 = 1) (pre : Bytes) (cur y : UInt8) (g : Bytes) (v : UInt8) :
    decStep i pre.length (pre ++ cur :: y :: g) v =
      some (pre.length + 1, (pre ++ [cur ||| ((v >>> 4) &&& 0x3)]) ++ ((v &&& 0xF) <<< 4) :: g) := by
  have h2 : bufSet (pre ++ (cur ||| ((v >>> 4) &&& 0x3)) :: y :: g) (pre.length + 1) ((v &&& 0xF) <<< 4)
      = some ((pre ++ [cur ||| ((v >>> 4) &&& 0x3)]) ++ ((v &&& 0xF) <<< 4) :: g) := by
    have := bufSet_append_len (pre ++ [cur ||| ((v >>> 4) &&& 0x3)]) y ((v &&& 0xF) <<< 4) g
    simpa using this
  simp [decStep, and3_eq_mod, h, bufSet_append_len, h2]

theorem decStep2 (i : Nat) (h : i % 4 = 2) (pre : Bytes) (cur y : UInt8) (g : Bytes) (v : UInt8) :
    decStep i pre.length (pre ++ cur :: y :: g) v =
      some (pre.length + 1, (pre ++ [cur ||| ((v >>> 2) &&& 0xF)]) ++ ((v &&& 0x3) <<< 6) :: g) := by
  have h2 : bufSet (pre ++ (cur ||| ((v >>> 2) &&& 0xF)) :: y :: g) (pre.length + 1) ((v &&& 0x3) <<< 6)
      = some ((pre ++ [cur ||| ((v >>> 2) &&& 0xF)]) ++ ((v &&& 0x3) <<< 6) :: g) := by
    have := bufSet_append_len (pre ++ [cur ||| ((v >>> 2) &&& 0xF)]) y ((v &&& 0x3) <<< 6) g
    simpa using this
  simp [decStep, and3_eq_mod, h, bufSet_append_len, h2]

theorem decStep3 (i : Nat) (h : i % 4 = 3) (pre : Bytes) (cur : UInt8) (g : Bytes) (v : UInt8) :
    decStep i pre.length (pre ++ cur :: g) v = some (pre.length + 1, (pre ++ [cur ||| v]) ++ g) := by
  simp [decStep, and3_eq_mod, h, bufSet_append_len]

/-- **Refinement with bounds.** Started in phase `p = i % 4` with `j = |pre|` bytes done, the
partial byte (if any) at the head of the remaining buffer `g`, the input a multiple of 4 long in
total, and `g` at least as long as the size macro promises, the literal loop never goes out of
bounds, rejects exactly when `decPure` does, and otherwise appends exactly `decPure`'s bytes after
`pre`, whatever garbage the buffer held. -/
theorem decLoop_refines (cs : Bytes) : ∀ (i p j : Nat) (pre g : Bytes) (cur : UInt8),
    i % 4 = p → pre.length = j → (p ≠ 0 → ∃ g', g = cur :: g') →
    (cs.length + p) % 4 = 0 → 3 * ((cs.length + p) / 4) ≤ g.length + (p - 1) →
    match decPure cs p cur with
    | none => decLoop cs i j (pre ++ g) = .reject
    | some bs => ∃ g2, decLoop cs i j (pre ++ g) = .ok (j + bs.length) (pre ++ bs ++ g2)
        ∧ bs.length + g2.length = g.length := by
  induction cs with
  | nil =>
    intro i p j pre g cur _ hj _ _ _
    simp [decPure, decLoop]
  | cons c cs ih =>
    intro i p j pre g cur hp hj hcur hlen hg
    subst hj
    simp only [List.length_cons] at hlen hg
    unfold decPure decLoop
    by_cases h1 : c = pad
    · simp [h1]
    simp only [h1, if_false]
    by_cases h2 : (c < deFirst || c > deLast) = true
    · simp [h2]
    simp only [h2]
    by_cases h3 : deAt c = 255
    · simp [h3]
    simp only [h3, if_false]
    have hp4 : p < 4 := by omega
    match p, hp4 with
    | 0, _ =>
      have hgl : 3 ≤ g.length := by omega
      obtain ⟨y, g', rfl⟩ : ∃ y g', g = y :: g' := by
        cases g with
        | nil => simp at hgl
        | cons y g' => exact ⟨y, g', rfl⟩
      rw [decStep0 i hp]
      have := ih (i + 1) 1 pre.length pre (((deAt c <<< 2) &&& 0xFF) :: g') ((deAt c <<< 2) &&& 0xFF)
        (by omega) rfl (fun _ => ⟨g', rfl⟩) (by omega) (by simp only [List.length_cons] at hg ⊢; omega)
      simpa using this
    | 1, _ =>
      obtain ⟨g', rfl⟩ := hcur (by decide)
      have hgl : 2 ≤ g'.length := by simp only [List.length_cons] at hg; omega
      obtain ⟨y, g'', rfl⟩ : ∃ y g'', g' = y :: g'' := by
        cases g' with
        | nil => simp at hgl
        | cons y g'' => exact ⟨y, g'', rfl⟩
      rw [decStep1 i hp]
      have := ih (i + 1) 2 (pre.length + 1) (pre ++ [cur ||| ((deAt c >>> 4) &&& 0x3)])
        (((deAt c &&& 0xF) <<< 4) :: g'') ((deAt c &&& 0xF) <<< 4)
        (by omega) (by simp) (fun _ => ⟨g'', rfl⟩) (by omega) (by simp only [List.length_cons] at hg ⊢; omega)
      revert this
      cases decPure cs 2 ((deAt c &&& 0xF) <<< 4) with
      | none => simp
      | some bs =>
        simp only [Option.map_some]
        rintro ⟨g2, h1, h2⟩
        refine ⟨g2, ?_, ?_⟩
        · rw [h1]; simp [Nat.add_assoc, Nat.add_comm 1]
        · simp only [List.length_cons] at h2 ⊢; omega
    | 2, _ =>
      obtain ⟨g', rfl⟩ := hcur (by decide)
      have hgl : 1 ≤ g'.length := by simp only [List.length_cons] at hg; omega
      obtain ⟨y, g'', rfl⟩ : ∃ y g'', g' = y :: g'' := by
        cases g' with
        | nil => simp at hgl
        | cons y g'' => exact ⟨y, g'', rfl⟩
      rw [decStep2 i hp]
      have := ih (i + 1) 3 (pre.length + 1) (pre ++ [cur ||| ((deAt c >>> 2) &&& 0xF)])
        (((deAt c &&& 0x3) <<< 6) :: g'') ((deAt c &&& 0x3) <<< 6)
        (by omega) (by simp) (fun _ => ⟨g'', rfl⟩) (by omega) (by simp only [List.length_cons] at hg ⊢; omega)
      revert this
      cases decPure cs 3 ((deAt c &&& 0x3) <<< 6) with
      | none => simp
      | some bs =>
        simp only [Option.map_some]
        rintro ⟨g2, h1, h2⟩
        refine ⟨g2, ?_, ?_⟩
        · rw [h1]; simp [Nat.add_assoc, Nat.add_comm 1]
        · simp only [List.length_cons] at h2 ⊢; omega
    | 3, _ =>
      obtain ⟨g', rfl⟩ := hcur (by decide)
      rw [decStep3 i hp]
      have := ih (i + 1) 0 (pre.length + 1) (pre ++ [cur ||| deAt c]) g' 0
        (by omega) (by simp) (fun h => absurd rfl h) (by omega) (by simp only [List.length_cons] at hg ⊢; omega)
      revert this
      cases decPure cs 0 0 with
      | none => simp
      | some bs =>
        simp only [Option.map_some]
        rintro ⟨g2, h1, h2⟩
        refine ⟨g2, ?_, ?_⟩
        · rw [h1]; simp [Nat.add_assoc, Nat.add_comm 1]
        · simp only [List.length_cons] at h2 ⊢; omega

end Jwt.Base64

namespace Jwt.Base64
open Jwt Jwt.Generated

/-! ### from characters to values -/

/-- `decPure` on table values instead of characters (no rejection left) -/
def decVals : List Nat → Nat → UInt8 → Bytes
  | [], _, _ => []
  | v :: vs, p, cur =>
    match p with
    | 0 => decVals vs 1 ((UInt8.ofNat v <<< 2) &&& 0xFF)
    | 1 => (cur ||| ((UInt8.ofNat v >>> 4) &&& 0x3)) :: decVals vs 2 ((UInt8.ofNat v &&& 0xF) <<< 4)
    | 2 => (cur ||| ((UInt8.ofNat v >>> 2) &&& 0xF)) :: decVals vs 3 ((UInt8.ofNat v &&& 0x3) <<< 6)
    | _ => (cur ||| UInt8.ofNat v) :: decVals vs 0 0

theorem swapDec_pad_iff' (c : UInt8) : swapDec c = pad ↔ c = 61 :=
  forall_u8 (P := fun c => swapDec c = pad ↔ c = 61) swapDec_pad_iff c
theorem urlVal_lt_64' (c : UInt8) (v : Nat) (h : urlVal c = some v) : v < 64 := by
  have := forall_u8 (P := fun c => (urlVal c).getD 0 < 64) urlVal_lt_64 c
  simpa [h] using this
theorem sext_reject' (c : UInt8) (h : c ≠ 61) (hv : urlVal c = none) :
    (swapDec c < deFirst || swapDec c > deLast) = true ∨ deAt (swapDec c) = 255 :=
  forall_u8 (P := fun c => c ≠ 61 → urlVal c = none →
    (swapDec c < deFirst || swapDec c > deLast) = true ∨ deAt (swapDec c) = 255) sext_reject c h hv
theorem sext_accept' (c : UInt8) (v : Nat) (hv : urlVal c = some v) :
    (swapDec c < deFirst || swapDec c > deLast) = false ∧ deAt (swapDec c) ≠ 255 ∧
      deAt (swapDec c) = UInt8.ofNat v :=
  forall_u8 (P := fun c => ∀ v, v < 64 → urlVal c = some v →
    (swapDec c < deFirst || swapDec c > deLast) = false ∧ deAt (swapDec c) ≠ 255 ∧
      deAt (swapDec c) = UInt8.ofNat v) sext_accept c v (urlVal_lt_64' c v hv) hv

/-- on swapped text without `=`, followed by nothing or by a pad, `decPure` is `mapM urlVal` then `decVals` -/
theorem decPure_body (t : Bytes) (rest : Bytes) (hrest : rest = [] ∨ ∃ r, rest = pad :: r)
    (ht : ∀ c ∈ t, c ≠ 61) : ∀ p cur, p < 4 →
    decPure (t.map swapDec ++ rest) p cur = (t.mapM urlVal).map (fun vs => decVals vs p cur) := by
  induction t with
  | nil =>
    intro p cur _
    rcases hrest with rfl | ⟨r, rfl⟩ <;> simp [decPure, decVals]
  | cons c t ih =>
    intro p cur hp
    have hc : c ≠ 61 := ht c (by simp)
    have ih' := ih (fun c hc => ht c (by simp [hc]))
    have hpad : swapDec c ≠ pad := fun h => hc ((swapDec_pad_iff' c).1 h)
    simp only [List.map_cons, List.cons_append, List.mapM_cons]
    unfold decPure
    simp only [hpad, if_false]
    cases hv : urlVal c with
    | none =>
      rcases sext_reject' c hc hv with h | h
      · simp [h]
      · by_cases h2 : (swapDec c < deFirst || swapDec c > deLast) = true
        · simp [h2]
        · simp [h2, h]
    | some v =>
      obtain ⟨h1, h2, h3⟩ := sext_accept' c v hv
      rw [h3] at h2
      simp only [h1, h3, h2, if_false, Bool.false_eq_true]
      match p, hp with
      | 0, _ => simp only [ih' 1 _ (by decide)]; cases t.mapM urlVal <;> simp [decVals]
      | 1, _ => simp only [ih' 2 _ (by decide)]; cases t.mapM urlVal <;> simp [decVals]
      | 2, _ => simp only [ih' 3 _ (by decide)]; cases t.mapM urlVal <;> simp [decVals]
      | 3, _ => simp only [ih' 0 _ (by decide)]; cases t.mapM urlVal <;> simp [decVals]

/-! ### from values to bytes: bit operations = arithmetic (64 × 64 cases each, kernel-evaluated) -/

def f1 (a b : UInt8) : UInt8 := (((a <<< 2 : UInt8) &&& 0xFF : UInt8) ||| ((b >>> 4 : UInt8) &&& 0x3 : UInt8) : UInt8)
def f2 (b c : UInt8) : UInt8 := (((b &&& 0xF : UInt8) <<< 4 : UInt8) ||| ((c >>> 2 : UInt8) &&& 0xF : UInt8) : UInt8)
def f3 (c d : UInt8) : UInt8 := (((c &&& 0x3 : UInt8) <<< 6 : UInt8) ||| d : UInt8)

theorem f1_eq : ∀ a, a < 64 → ∀ b, b < 64 → f1 (UInt8.ofNat a) (UInt8.ofNat b) = UInt8.ofNat (a * 4 + b / 16) := by
  decide +kernel
theorem f2_eq : ∀ b, b < 64 → ∀ c, c < 64 → f2 (UInt8.ofNat b) (UInt8.ofNat c) = UInt8.ofNat (b % 16 * 16 + c / 4) := by
  decide +kernel
theorem f3_eq : ∀ c, c < 64 → ∀ d, d < 64 → f3 (UInt8.ofNat c) (UInt8.ofNat d) = UInt8.ofNat (c % 4 * 64 + d) := by
  decide +kernel

theorem decVals_eq (vs : List Nat) (h : ∀ v ∈ vs, v < 64) (cur : UInt8) :
    decVals vs 0 cur = (unsextets vs).map UInt8.ofNat := by
  fun_induction unsextets vs generalizing cur
  · rename_i a b c d rest ih
    have ha := h a (by simp); have hb := h b (by simp); have hc := h c (by simp); have hd := h d (by simp)
    have := ih (fun v hv => h v (by simp [hv])) 0
    simp only [decVals, List.map_cons, this]
    have e1 := f1_eq a ha b hb; have e2 := f2_eq b hb c hc; have e3 := f3_eq c hc d hd
    simp only [f1, f2, f3] at e1 e2 e3
    rw [e1, e2, e3]
  · rename_i a b c
    have ha := h a (by simp); have hb := h b (by simp); have hc := h c (by simp)
    have e1 := f1_eq a ha b hb; have e2 := f2_eq b hb c hc
    simp only [f1, f2] at e1 e2
    simp only [decVals, List.map_cons, List.map_nil, e1, e2]
  · rename_i a b
    have ha := h a (by simp); have hb := h b (by simp)
    have e1 := f1_eq a ha b hb
    simp only [f1] at e1
    simp only [decVals, List.map_cons, List.map_nil, e1]
  · simp [decVals]
  · simp [decVals]

theorem mapM_urlVal_lt (t : Bytes) (vs : List Nat) (h : t.mapM urlVal = some vs) : ∀ v ∈ vs, v < 64 := by
  induction t generalizing vs with
  | nil => simp at h; subst h; simp
  | cons c t ih =>
    simp only [List.mapM_cons] at h
    cases hv : urlVal c with
    | none => simp [hv] at h
    | some v =>
      cases ht : t.mapM urlVal with
      | none => simp [hv, ht] at h
      | some vs' =>
        simp [hv, ht] at h
        subst h
        intro w hw
        simp only [List.mem_cons] at hw
        rcases hw with rfl | hw
        · exact urlVal_lt_64' c w hv
        · exact ih vs' ht w hw

theorem unsextets_length (vs : List Nat) : (unsextets vs).length * 4 ≤ 3 * vs.length := by
  fun_induction unsextets vs <;> simp only [List.length_cons, List.length_nil] <;> omega

theorem mapM_length {α β} (f : α → Option β) (t : List α) (vs : List β) (h : t.mapM f = some vs) :
    vs.length = t.length := by
  induction t generalizing vs with
  | nil => simp at h; subst h; rfl
  | cons c t ih =>
    simp only [List.mapM_cons] at h
    cases hv : f c with
    | none => simp [hv] at h
    | some v =>
      cases ht : t.mapM f with
      | none => simp [hv, ht] at h
      | some vs' =>
        simp [hv, ht] at h
        subst h
        simp [ih vs' ht]

theorem takeWhile_length_le {α} (p : α → Bool) (l : List α) : (l.takeWhile p).length ≤ l.length := by
  induction l with
  | nil => simp
  | cons x l ih => simp only [List.takeWhile_cons]; split <;> simp <;> omega

/-! ### the `jwt_base64uri_decode` wrapper -/

theorem padCount_none_iff (n : Nat) : padCount n = none ↔ n % 4 = 1 := by
  unfold padCount
  have : n % 4 < 4 := Nat.mod_lt _ (by decide)
  split <;> simp_all <;> omega

theorem padCount_some (n z : Nat) (h : padCount n = some z) : (n + z) % 4 = 0 ∧ n % 4 ≠ 1 := by
  unfold padCount at h
  split at h <;> simp_all <;> omega

theorem takeWhile_ne (t : Bytes) : ∀ c ∈ t.takeWhile (· ≠ 61), c ≠ 61 := by
  induction t with
  | nil => simp
  | cons x t ih =>
    intro c hc
    by_cases h : x = 61
    · simp [List.takeWhile_cons, h] at hc
    · simp only [List.takeWhile_cons, ne_eq, h, not_false_eq_true, decide_true, if_true, List.mem_cons] at hc
      rcases hc with rfl | hc
      · exact h
      · exact ih c hc

theorem dropWhile_head (t : Bytes) :
    t.dropWhile (· ≠ 61) = [] ∨ ∃ r, t.dropWhile (· ≠ 61) = 61 :: r := by
  induction t with
  | nil => simp
  | cons c t ih =>
    by_cases h : c = 61
    · right; exact ⟨t, by simp [List.dropWhile_cons, h]⟩
    · simpa [List.dropWhile_cons, h] using ih

theorem prepare_split (src : Bytes) (z : Nat) (hz : src.dropWhile (· ≠ 61) = [] → (src.length + z) % 4 = 0 → z = 0 ∨ 0 < z) :
    ∃ rest, prepare src z = (src.takeWhile (· ≠ 61)).map swapDec ++ rest ∧ (rest = [] ∨ ∃ r, rest = pad :: r) := by
  refine ⟨(src.dropWhile (· ≠ 61)).map swapDec ++ List.replicate z pad, ?_, ?_⟩
  · unfold prepare
    rw [← List.append_assoc, ← List.map_append, List.takeWhile_append_dropWhile]
  · rcases dropWhile_head src with h | ⟨r, h⟩
    · rw [h]
      cases z with
      | zero => left; simp
      | succ n => right; exact ⟨List.replicate n pad, by simp [List.replicate_succ]⟩
    · right
      rw [h]
      refine ⟨r.map swapDec ++ List.replicate z pad, ?_⟩
      have : swapDec 61 = pad := by decide
      simp [this]

/-- **`jwt_base64uri_decode` on any allocation of the size the code uses**: never out of bounds,
result independent of the buffer's initial contents, equal to `decodeSpec`; and the index `ret_len`
at which `jwt_base64uri_decode_to_json` then writes its NUL is inside the buffer. -/
theorem uriDecodeBuf_spec (src buf : Bytes) (z : Nat) (hz : padCount src.length = some z)
    (hbuf : buf.length = decodeAlloc src.length z) :
    base64Decode (prepare src z) buf ≠ .oob ∧
    (uriDecodeBuf src buf).map (fun r => r.1.take r.2) = decodeSpec src ∧
    ∀ out j, uriDecodeBuf src buf = some (out, j) → j < out.length ∧ out.length = buf.length := by
  obtain ⟨hlen, hne1⟩ := padCount_some _ _ hz
  obtain ⟨rest, hprep, hrest⟩ := prepare_split src z (fun _ _ => by omega)
  have hpl : (prepare src z).length = src.length + z := by simp [prepare]
  have hbase : base64Decode (prepare src z) buf = decLoop (prepare src z) 0 0 buf := by
    unfold base64Decode
    rw [and3_eq_mod, hpl, hlen]; simp
  have href := decLoop_refines (prepare src z) 0 0 0 [] buf 0 rfl rfl (fun h => absurd rfl h)
    (by rw [hpl]; simpa using hlen)
    (by rw [hpl, hbuf]; unfold decodeAlloc decodeOutSize; omega)
  have hpure : decPure (prepare src z) 0 0 =
      ((src.takeWhile (· ≠ 61)).mapM urlVal).map (fun vs => decVals vs 0 0) := by
    rw [hprep]
    exact decPure_body _ rest hrest (takeWhile_ne src) 0 0 (by decide)
  simp only [List.nil_append] at href
  unfold uriDecodeBuf decodeSpec
  simp only [hz, hne1, if_false]
  rw [hbase]
  rw [hpure] at href
  cases hm : (src.takeWhile (· ≠ 61)).mapM urlVal with
  | none =>
    simp only [hm, Option.map_none] at href
    simp [href]
  | some vs =>
    simp only [hm, Option.map_some] at href
    obtain ⟨g2, h1, h2⟩ := href
    have hv := decVals_eq vs (mapM_urlVal_lt _ vs hm) 0
    simp only [Nat.zero_add] at h1
    rw [h1]
    simp only [← hv]
    refine ⟨by simp, ?_, ?_⟩
    · by_cases he : decVals vs 0 0 = []
      · simp [he]
      · have : (decVals vs 0 0).length ≠ 0 := by simpa using he
        simp [this, he]
    · intro out j hout
      by_cases he : (decVals vs 0 0).length = 0
      · simp [he] at hout
      · simp only [he, if_false, Option.some.injEq, Prod.mk.injEq] at hout
        obtain ⟨rfl, rfl⟩ := hout
        simp only [List.length_append]
        have hl1 := unsextets_length vs
        have hl2 := mapM_length _ _ vs hm
        have hl3 := takeWhile_length_le (· ≠ 61) src
        have hl4 : (decVals vs 0 0).length = (unsextets vs).length := by rw [hv]; simp
        constructor
        · rw [hbuf] at h2; unfold decodeAlloc decodeOutSize at h2; omega
        · omega

end Jwt.Base64
