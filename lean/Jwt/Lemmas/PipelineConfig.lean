import Jwt.Checker
import Jwt.Builder
import Jwt.Generated.Pipeline
/-!
# `setkey` and `setcb` as modelled = their decision skeletons as written

`FUNC(setkey)` and `FUNC(setcb)` of `jwt-common.c` (the template behind `jwt_checker_*` and `jwt_builder_*`),
generated into `Jwt/Generated/Pipeline.lean` with a flag that says whether the arguments were stored in the object.
-/
namespace Jwt
open Jwt.Generated

/-- **`jwt_checker_setkey` as modelled = as written**: same return value; algorithm and key are stored exactly when the
generated code stores them -- a refused call leaves the configuration as it was. -/
theorem checker_setkey_generated (ck : Checker) (alg : Alg) (key : Option KeyItem) :
    let r := Pipeline.setkey (setkeyCheck .checker alg key).isSome
    (ck.setkey alg key).2 = r.1 ∧
    (r.2.2 = true → (ck.setkey alg key).1.cfg.alg = alg ∧ (ck.setkey alg key).1.cfg.key = key) ∧
    (r.2.2 = false → (ck.setkey alg key).1.cfg.alg = ck.cfg.alg ∧ (ck.setkey alg key).1.cfg.key = ck.cfg.key) := by
  simp only [Checker.setkey, Pipeline.setkey]
  cases setkeyCheck .checker alg key <;> simp [Checker.writeError]

theorem builder_setkey_generated (b : Builder) (alg : Alg) (key : Option KeyItem) :
    let r := Pipeline.setkey (setkeyCheck .builder alg key).isSome
    (b.setkey alg key).2 = r.1 ∧
    (r.2.2 = true → (b.setkey alg key).1.cfg.alg = alg ∧ (b.setkey alg key).1.cfg.key = key) ∧
    (r.2.2 = false → (b.setkey alg key).1.cfg.alg = b.cfg.alg ∧ (b.setkey alg key).1.cfg.key = b.cfg.key) := by
  simp only [Builder.setkey, Pipeline.setkey]
  cases setkeyCheck .builder alg key <;> simp [Builder.writeError]

/-- **`jwt_checker_setcb` as modelled = as written.** A callback given with its context, or both NULL: stored, returns 0.
A NULL callback with a context: with a callback installed nothing but the context changes (the callback is NOT stored
over), returns 0; without one the call is refused with a message. -/
theorem checker_setcb_generated (ck : Checker) (cb : Option CheckerCb) :
    (Pipeline.setcb false cb.isNone ck.cfg.cb.isNone cb.isNone = (0, false, true) ∧ (ck.setcb cb).2 = 0 ∧ (ck.setcb cb).1.cfg.cb = cb) ∧
    (let r := Pipeline.setcb false true ck.cfg.cb.isNone false
     ck.setcbCtx.2 = r.1 ∧ r.2.2 = false ∧ ck.setcbCtx.1.cfg.cb = ck.cfg.cb ∧ (r.2.1 = true ↔ r.1 = 1) ∧ (ck.setcbCtx.1.error = true ↔ (ck.error = true ∨ r.1 = 1))) := by
  refine ⟨⟨?_, rfl, rfl⟩, ?_⟩
  · cases cb <;> cases ck.cfg.cb <;> simp [Pipeline.setcb]
  · simp only [Checker.setcbCtx, Pipeline.setcb]
    cases h : ck.cfg.cb <;> simp [Checker.writeError, h]

theorem builder_setcb_generated (b : Builder) (cb : Option BuilderCb) :
    (Pipeline.setcb false cb.isNone b.cfg.cb.isNone cb.isNone = (0, false, true) ∧ (b.setcb cb).2 = 0 ∧ (b.setcb cb).1.cfg.cb = cb) ∧
    (let r := Pipeline.setcb false true b.cfg.cb.isNone false
     b.setcbCtx.2 = r.1 ∧ r.2.2 = false ∧ b.setcbCtx.1.cfg.cb = b.cfg.cb ∧ (r.2.1 = true ↔ r.1 = 1)) := by
  refine ⟨⟨?_, rfl, rfl⟩, ?_⟩
  · cases cb <;> cases b.cfg.cb <;> simp [Pipeline.setcb]
  · simp only [Builder.setcbCtx, Pipeline.setcb]
    cases h : b.cfg.cb <;> simp [Builder.writeError, h]

end Jwt

namespace Jwt
open Jwt.Generated

/-- **`jwt_checker_claim_set` as modelled = as written**: same return value; the claim's bit is set in the mask exactly
when the generated code sets it -- as soon as the claim is one of iss/sub/aud and a value was given, *whether or not
storing the value then succeeds* (a failed store leaves the claim checked against nothing: fail closed). -/
theorem checker_claimSet_generated (ck : Checker) (c : ClaimId) (v : Option Bytes) :
    let sf : Nat := match v with | some x => if validUtf8 x then 0 else 1 | none => 0
    let r := Pipeline.checkerClaimSet false v.isNone (checkerClaimName c).isNone sf
    (ck.claimSet c v).2 = r.1 ∧
    (r.2.2 = true → (ck.claimSet c v).1.cfg.claims.mask = ck.cfg.claims.mask.set c true) ∧
    (r.2.2 = false → (ck.claimSet c v).1.cfg.claims.mask = ck.cfg.claims.mask ∧ (ck.claimSet c v).1.cfg.claims.expected = ck.cfg.claims.expected) := by
  simp only [Checker.claimSet, Pipeline.checkerClaimSet]
  cases v with
  | none => simp
  | some x =>
    cases hn : checkerClaimName c with
    | none => simp
    | some name => by_cases hu : validUtf8 x = true <;> simp [hu]

/-- **`jwt_checker_claim_del` as modelled = as written** -/
theorem checker_claimDel_generated (ck : Checker) (c : ClaimId) :
    let r := Pipeline.checkerClaimDel false (checkerClaimName c).isNone 0
    (ck.claimDel c).2 = r.1 ∧
    (r.2.2 = true → (ck.claimDel c).1.cfg.claims.mask = ck.cfg.claims.mask.set c false) ∧
    (r.2.2 = false → (ck.claimDel c).1.cfg.claims.mask = ck.cfg.claims.mask) := by
  simp only [Checker.claimDel, Pipeline.checkerClaimDel]
  cases hn : checkerClaimName c <;> simp

/-- **`jwt_checker_time_leeway` as modelled = as written**: `secs` is stored as passed (no clamping, no conversion) in the
field of the claim named, and the claim's bit follows `secs <= __DISABLE`; any other claim is refused. -/
theorem checker_timeLeeway_generated (ck : Checker) (c : ClaimId) (secs : Int) :
    let r := Pipeline.timeSpan false (c = .exp) (c = .nbf) (secs ≤ checkerDisable)
    (ck.timeLeeway c secs).2 = r.1 ∧
    (r.2.2.1 = true → (ck.timeLeeway c secs).1.cfg.claims.expLeeway = secs) ∧
    (r.2.2.2.1 = true → (ck.timeLeeway c secs).1.cfg.claims.nbfLeeway = secs) ∧
    (r.2.2.2.2.1 = true → (ck.timeLeeway c secs).1.cfg.claims.mask = ck.cfg.claims.mask.set c false) ∧
    (r.2.2.2.2.2 = true → (ck.timeLeeway c secs).1.cfg.claims.mask = ck.cfg.claims.mask.set c true) := by
  simp only [Checker.timeLeeway, Pipeline.timeSpan]
  cases c <;> by_cases hd : secs ≤ checkerDisable <;> simp [hd]

/-- **`jwt_builder_time_offset` as modelled = as written** (the same body, compiled for the builder): the offset is stored as
passed -- a span of any size a `time_t` holds -- and the claim is switched on exactly when it is positive. -/
theorem builder_timeOffset_generated (b : Builder) (c : ClaimId) (secs : Int) :
    let r := Pipeline.timeSpan false (c = .exp) (c = .nbf) (secs ≤ builderDisable)
    (b.timeOffset c secs).2 = r.1 ∧
    (r.2.2.1 = true → (b.timeOffset c secs).1.cfg.expOff = secs ∧ (b.timeOffset c secs).1.cfg.mask.exp = !(secs ≤ builderDisable)) ∧
    (r.2.2.2.1 = true → (b.timeOffset c secs).1.cfg.nbfOff = secs ∧ (b.timeOffset c secs).1.cfg.mask.nbf = !(secs ≤ builderDisable)) := by
  simp only [Builder.timeOffset, Pipeline.timeSpan]
  cases c <;> by_cases hd : secs ≤ builderDisable <;> simp [hd]

end Jwt
