import Jwt.Jwk
import Jwt.Generated.Pipeline
/-!
# JWK import as modelled = its decision skeleton as written

`process_octet` and the dispatch of `jwk_process_one` (`jwks.c`), generated into `Jwt/Generated/Pipeline.lean`.
-/
namespace Jwt
open Jwt.Generated Jwt.Base64

def kIsStr (j : Option Json) : Bool := match j with | some (.str _) => true | _ => false

/-- the translated `process_octet`, fed with what the model makes of the JWK's `k` member -/
def processOctetGen (jwk : Json) (x1 x2 : Bool) : Nat × Bool :=
  match jwk.objGet [107] with
  | none => Pipeline.processOctet true x1 false x1 x2
  | some (.str s) => Pipeline.processOctet false true false (s = []) (uriDecode s).isNone
  | some _ => Pipeline.processOctet false false false x1 x2

/-- **`process_octet` as modelled = as written**: the item is flagged exactly when the source returns -1 (then with a
message); it returns 0 exactly when `k` is a non-empty string the decoder accepts. -/
theorem processOctet_generated (jwk : Json) (it : Item) (hit : it.error = false) (x1 x2 : Bool) :
    ((processOctet jwk it).error = true ↔ (processOctetGen jwk x1 x2).1 = 1) ∧
    ((processOctetGen jwk x1 x2).1 = 0 ∨ (processOctetGen jwk x1 x2).1 = 1) ∧
    ((processOctetGen jwk x1 x2).2 = true ↔ (processOctetGen jwk x1 x2).1 = 1) := by
  simp only [processOctet, processOctetGen]
  cases hk : jwk.objGet [107] with
  | none => simp [Pipeline.processOctet, Item.fail]
  | some v =>
    cases v with
    | str s =>
      simp only [Option.bind_some, Json.strVal]
      by_cases hs : s = []
      · simp [Pipeline.processOctet, Item.fail, hs]
      · cases hd : uriDecode s <;> simp [Pipeline.processOctet, Item.fail, hs, hit]
    | _ => simp [Pipeline.processOctet, Item.fail, Json.strVal]

/-- what `jwt_strcmp(kty, name) == 0` means on NUL-free strings of the table -/
def ktyIs (kty name : Bytes) : Bool := jwtStrcmp kty name = 0

/-- **The dispatch of `jwk_process_one` is the source's**: with the four comparisons of the generated code fed by
`jwt_strcmp` on the generated kty table's names, the importer the item goes through is the one the model's table lookup
selects (0 = none: unknown kty, the item is flagged with a message). -/
theorem processOne_dispatch (kty : Bytes) :
    (Pipeline.processOne false false false true (ktyIs kty [69, 67]) (ktyIs kty [82, 83, 65]) (ktyIs kty [79, 75, 80]) (ktyIs kty [111, 99, 116])).1
      = (lookup ktyTable kty).getD 0 := by
  simp only [Pipeline.processOne, lookup, ktyTable, ktyIs, List.find?]
  by_cases h1 : jwtStrcmp kty [69, 67] = 0
  · simp [h1]
  · by_cases h2 : jwtStrcmp kty [82, 83, 65] = 0
    · simp [h1, h2]
    · by_cases h3 : jwtStrcmp kty [79, 75, 80] = 0
      · simp [h1, h2, h3]
      · by_cases h4 : jwtStrcmp kty [111, 99, 116] = 0 <;> simp [h1, h2, h3, h4]

/-- a missing or non-string `kty` returns the item flagged with a message before any importer runs; an unknown one too -/
theorem processOne_refusals (a b c d s : Bool) :
    Pipeline.processOne false false true s a b c d = (0, true) ∧ Pipeline.processOne false false false false a b c d = (0, true) ∧
    Pipeline.processOne false false false true false false false false = (0, true) := by
  cases s <;> simp [Pipeline.processOne]

end Jwt
