import Jwt.Jwk
import Jwt.Generated.Pipeline
/-!
# JWK import as modelled = its decision skeleton as written

`process_octet` and the dispatch of `jwk_process_one` (`jwks.c`), generated into `Jwt/Generated/Pipeline.lean`.
-/
namespace Jwt
open Jwt.Generated Jwt.Base64

def kIsStr (j : Option Json) : Bool := match j with | some (.str _) => true | _ => false

/-- the translated `process_octet`, fed with what the model makes of the JWK's `k` member -/
def processOctetGen (jwk : Json) (x1 x2 : Bool) : Nat × Bool :=
  match jwk.objGet [107] with
  | none => Pipeline.processOctet true x1 false x1 x2
  | some (.str s) => Pipeline.processOctet false true false (s = []) (uriDecode s).isNone
  | some _ => Pipeline.processOctet false false false x1 x2

/-- **`process_octet` as modelled = as written**: the item is flagged exactly when the source returns -1 (then with a
message); it returns 0 exactly when `k` is a non-empty string the decoder accepts. -/
theorem processOctet_generated (jwk : Json) (it : Item) (hit : it.error = false) (x1 x2 : Bool) :
    ((processOctet jwk it).error = true ↔ (processOctetGen jwk x1 x2).1 = 1) ∧
    ((processOctetGen jwk x1 x2).1 = 0 ∨ (processOctetGen jwk x1 x2).1 = 1) ∧
    ((processOctetGen jwk x1 x2).2 = true ↔ (processOctetGen jwk x1 x2).1 = 1) := by
  simp only [processOctet, processOctetGen]
  cases hk : jwk.objGet [107] with
  | none => simp [Pipeline.processOctet, Item.fail]
  | some v =>
    cases v with
    | str s =>
      simp only [Option.bind_some, Json.strVal]
      by_cases hs : s = []
      · simp [Pipeline.processOctet, Item.fail, hs]
      · cases hd : uriDecode s <;> simp [Pipeline.processOctet, Item.fail, hs, hit]
    | _ => simp [Pipeline.processOctet, Item.fail, Json.strVal]

/-- what `jwt_strcmp(kty, name) == 0` means on NUL-free strings of the table -/
def ktyIs (kty name : Bytes) : Bool := jwtStrcmp kty name = 0

/-- **The dispatch of `jwk_process_one` is the source's**: with the four comparisons of the generated code fed by
`jwt_strcmp` on the generated kty table's names, the importer the item goes through is the one the model's table lookup
selects (0 = none: unknown kty, the item is flagged with a message). -/
theorem processOne_dispatch (kty : Bytes) :
    (Pipeline.processOne false false false true (ktyIs kty [69, 67]) (ktyIs kty [82, 83, 65]) (ktyIs kty [79, 75, 80]) (ktyIs kty [111, 99, 116])).1
      = (lookup ktyTable kty).getD 0 := by
  simp only [Pipeline.processOne, lookup, ktyTable, ktyIs, List.find?]
  by_cases h1 : jwtStrcmp kty [69, 67] = 0
  · simp [h1]
  · by_cases h2 : jwtStrcmp kty [82, 83, 65] = 0
    · simp [h1, h2]
    · by_cases h3 : jwtStrcmp kty [79, 75, 80] = 0
      · simp [h1, h2, h3]
      · by_cases h4 : jwtStrcmp kty [111, 99, 116] = 0 <;> simp [h1, h2, h3, h4]

/-- a missing or non-string `kty` returns the item flagged with a message before any importer runs; an unknown one too -/
theorem processOne_refusals (a b c d s : Bool) :
    Pipeline.processOne false false true s a b c d = (0, true) ∧ Pipeline.processOne false false false false a b c d = (0, true) ∧
    Pipeline.processOne false false false true false false false false = (0, true) := by
  cases s <;> simp [Pipeline.processOne]

end Jwt

namespace Jwt
open Jwt.Generated

/-- the translated `jwk_process_values`, fed with what the model makes of the JWK's alg / use / key_ops / kid members
(the kid copy is allocated: `kidAllocNull = false`) -/
def processValuesGen (jwk : Json) : Nat × Bool × Bool × Bool × Bool × Bool × Bool :=
  let a := jwk.objGet N.alg
  let u := jwk.objGet [117, 115, 101]
  let o := jwk.objGet [107, 101, 121, 95, 111, 112, 115]
  let k := jwk.objGet [107, 105, 100]
  Pipeline.processValues a.isNone (kIsStr a) u.isNone (kIsStr u)
    (match u.bind Json.strVal with | some s => jwtStrcmp s [115, 105, 103] = 0 | none => false)
    (match u.bind Json.strVal with | some s => jwtStrcmp s [101, 110, 99] = 0 | none => false)
    o.isNone (match o with | some (.arr _) => true | _ => false) k.isNone (kIsStr k)
    (match k.bind Json.strVal with | some s => s = [] | none => true) false

/-- what the generated `jwk_process_values` does, as a function of its tests alone (all 4096 combinations, by evaluation):
a message is written exactly for an `alg` that is there and is not a string -- and then nothing else is looked at; otherwise
alg / use / key_ops / kid are stored exactly under their own conditions, independently of each other (the copy of the
key id is allocated: the last parameter is `false`; C17 treats the other case). -/
theorem processValues_flags : ∀ a b c d e f g h i j k : Bool,
    let r := Pipeline.processValues a b c d e f g h i j k false
    r.1 = 0 ∧ r.2.1 = (!a && !b) ∧ r.2.2.1 = (!a && b) ∧
    (r.2.1 = true → r.2.2.2.1 = false ∧ r.2.2.2.2.1 = false ∧ r.2.2.2.2.2.1 = false ∧ r.2.2.2.2.2.2 = false) ∧
    (r.2.1 = false → r.2.2.2.1 = (!c && d && e) ∧ r.2.2.2.2.1 = (!c && d && !e && f) ∧ r.2.2.2.2.2.1 = (!g && h) ∧
      r.2.2.2.2.2.2 = (!i && j && !k)) := by
  decide +kernel

/-- the model's `jwk_process_values`: flagged exactly for an `alg` that is there and is not a string (or when it was
flagged before); otherwise the key id is the non-empty string `kid`, if there is one -/
theorem processValues_model (jwk : Json) (it : Item) :
    (processValues jwk it).error = (it.error || ((jwk.objGet N.alg).isSome && !(kIsStr (jwk.objGet N.alg)))) ∧
    (((jwk.objGet N.alg).isSome && !(kIsStr (jwk.objGet N.alg))) = false →
      (processValues jwk it).kid = (match (jwk.objGet [107, 105, 100]).bind Json.strVal with | some s => if s = [] then it.kid else some s | none => it.kid)) := by
  have hrest : ∀ it' : Item, (processValues.rest jwk it').error = it'.error ∧
      (processValues.rest jwk it').kid = (match (jwk.objGet [107, 105, 100]).bind Json.strVal with | some s => if s = [] then it'.kid else some s | none => it'.kid) := by
    intro it'
    simp only [processValues.rest]
    constructor
    · (repeat' split) <;> simp_all
    · (repeat' split) <;> simp_all
  simp only [processValues, kIsStr]
  cases ha : jwk.objGet N.alg with
  | none => simp [(hrest it).1, (hrest it).2]
  | some av =>
    cases av <;> simp [Json.strVal, Item.fail, (hrest _).1, (hrest _).2]

/-- **`jwk_process_values` as modelled = as written**: the item is flagged exactly when the generated code writes a
message, and -- when it does not -- a key id is stored exactly when the generated code stores one (the `kid` member is a
non-empty string), and it is that string. -/
theorem processValues_generated (jwk : Json) (it : Item) (hit : it.error = false) :
    ((processValues jwk it).error = (processValuesGen jwk).2.1) ∧
    ((processValuesGen jwk).2.1 = false →
      ((processValuesGen jwk).2.2.2.2.2.2 = true ↔ ∃ s, (jwk.objGet [107, 105, 100]).bind Json.strVal = some s ∧ s ≠ [] ∧ (processValues jwk it).kid = some s)) := by
  obtain ⟨m1, m2⟩ := processValues_model jwk it
  have pf := processValues_flags (jwk.objGet N.alg).isNone (kIsStr (jwk.objGet N.alg)) (jwk.objGet [117, 115, 101]).isNone (kIsStr (jwk.objGet [117, 115, 101]))
    (match (jwk.objGet [117, 115, 101]).bind Json.strVal with | some s => jwtStrcmp s [115, 105, 103] = 0 | none => false)
    (match (jwk.objGet [117, 115, 101]).bind Json.strVal with | some s => jwtStrcmp s [101, 110, 99] = 0 | none => false)
    (jwk.objGet [107, 101, 121, 95, 111, 112, 115]).isNone (match jwk.objGet [107, 101, 121, 95, 111, 112, 115] with | some (.arr _) => true | _ => false)
    (jwk.objGet [107, 105, 100]).isNone (kIsStr (jwk.objGet [107, 105, 100]))
    (match (jwk.objGet [107, 105, 100]).bind Json.strVal with | some s => s = [] | none => true)
  simp only at pf
  obtain ⟨_, pw, _, _, pn⟩ := pf
  have hw : (processValuesGen jwk).2.1 = ((jwk.objGet N.alg).isSome && !(kIsStr (jwk.objGet N.alg))) := by
    simp only [processValuesGen]; rw [pw]; cases jwk.objGet N.alg <;> simp
  refine ⟨by rw [m1, hit, hw]; simp, ?_⟩
  intro hnw
  have hk := (pn (by simpa [processValuesGen] using hnw)).2.2.2
  have hm := m2 (by rw [← hw]; exact hnw)
  simp only [processValuesGen]
  rw [hk, hm]
  cases hkid : jwk.objGet [107, 105, 100] with
  | none => simp [kIsStr]
  | some kv =>
    cases kv <;> simp [kIsStr, Json.strVal]
    rename_i s
    by_cases hs : s = [] <;> simp [hs]

end Jwt
