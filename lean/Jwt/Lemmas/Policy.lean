import Jwt.Lemmas.Verify
import Jwt.Generated.GateTables
/-! The strength/family gates, as an explicit rule, and what the crypto trace can contain. -/
namespace Jwt

/-- the documented rule: which key an algorithm may be evaluated with -/
def strengthOk (a : Alg) (k : KeyItem) : Prop :=
  match a with
  | .hs256 => k.kty = .oct ∧ k.bits ≥ 256
  | .hs384 => k.kty = .oct ∧ k.bits ≥ 384
  | .hs512 => k.kty = .oct ∧ k.bits ≥ 512
  | .rs256 | .rs384 | .rs512 | .ps256 | .ps384 | .ps512 => k.kty = .rsa ∧ k.bits ≥ 2048
  | .es256 | .es256k => k.kty = .ec ∧ k.bits = 256
  | .es384 => k.kty = .ec ∧ k.bits = 384
  | .es512 => k.kty = .ec ∧ k.bits = 521
  | .eddsa => k.kty = .okp ∧ (k.bits = 256 ∨ k.bits = 456)
  | .none | .inval => False

/-- **The documented rule is what `jwt.c` tests** (generated from `__check_hmac` / `__check_key_bits`): for
every algorithm and key, `strengthOk` holds exactly when the size test of the algorithm's case lets
`key->bits` through and the key has the type that case hands to `__check_key_type`. A changed floor, a
`>=` turned `>`, a case moved to another type fails here at build time. -/
theorem strengthOk_iff_generated (a : Alg) (k : KeyItem) :
    strengthOk a k ↔ (Generated.gateSize a k.bits ∧ Generated.gateType a = some k.kty) := by
  cases a <;> simp only [strengthOk, Generated.gateSize, Generated.gateType, Option.some.injEq] <;>
    first
      | exact ⟨fun ⟨h1, h2⟩ => ⟨h2, h1.symm⟩, fun ⟨h1, h2⟩ => ⟨h2.symm, h1⟩⟩
      | exact ⟨fun h => h.elim, fun h => h.1⟩

def Alg.isHmac : Alg → Bool | .hs256 | .hs384 | .hs512 => true | _ => false
def Alg.isPk : Alg → Bool
  | .rs256 | .rs384 | .rs512 | .ps256 | .ps384 | .ps512 | .es256 | .es256k | .es384 | .es512 | .eddsa => true
  | _ => false

theorem checkHmac_none_iff (a : Alg) (k : KeyItem) : checkHmac a k = none ↔ a.isHmac = true ∧ strengthOk a k := by
  cases a <;> simp only [checkHmac, checkKeyType, strengthOk, Alg.isHmac] <;> (repeat' split) <;> simp_all

theorem checkKeyBits_none_iff (a : Alg) (k : KeyItem) : checkKeyBits a k = none ↔ a.isPk = true ∧ strengthOk a k := by
  cases a <;> simp only [checkKeyBits, checkKeyType, strengthOk, Alg.isPk] <;> (repeat' split) <;> simp_all

theorem strengthOk_family (a : Alg) (k : KeyItem) (h : strengthOk a k) : k.kty = a.family ∧ a.family ≠ .none := by
  cases a <;> simp [strengthOk, Alg.family] at h ⊢ <;> exact h.1

/-- every primitive call `verifySig` makes is for the key and algorithm it was given, after the gate -/
theorem verifySig_trace (env : Env) (k : KeyItem) (a : Alg) (msg s : Bytes) :
    ∀ c ∈ (verifySig env k a msg s).2,
      (c = .hmac a k ∨ c = .pkVerify a k) ∧ strengthOk a k := by
  intro c hc
  unfold verifySig at hc
  cases a <;> simp only at hc
  all_goals first
    | (simp at hc; done)
    | (split at hc
       · simp at hc
       · split at hc
         · simp at hc
         · rename_i hg
           simp only [List.mem_singleton] at hc
           exact ⟨Or.inl hc, ((checkHmac_none_iff _ k).1 hg).2⟩)
    | (split at hc
       · simp at hc
       · rename_i hg
         split at hc
         · simp at hc
         · split at hc
           · simp at hc
           · simp only [List.mem_singleton] at hc
             exact ⟨Or.inr hc, ((checkKeyBits_none_iff _ k).1 hg).2⟩)

theorem judge_trace (env : Env) (cl : ClaimCfg) (p : Parsed) (cfg : Config) :
    ∀ c ∈ (judge env cl p cfg).2, ∃ k, cfg.key = some k ∧
      (c = .hmac p.alg k ∨ c = .pkVerify p.alg k) ∧ strengthOk p.alg k := by
  intro c hc
  unfold judge at hc
  split at hc
  · simp at hc
  · split at hc
    · simp at hc
    · split at hc
      · simp at hc
      · split at hc
        · simp at hc
        · split at hc
          · simp at hc
          · rename_i k hk
            have := verifySig_trace env k p.alg (signingInput p.head p.payload) p.sig c
            split at hc <;> rename_i hv <;> simp only [hv] at this <;> exact ⟨k, hk, this hc⟩

theorem verifyCore_trace (env : Env) (c : CheckerCfg) (tok : Bytes) :
    ∀ call ∈ (verifyCore env c tok).2, ∃ p k, parse env.jc tok = .ok p ∧ (afterCb c p).2.key = some k ∧
      (call = .hmac p.alg k ∨ call = .pkVerify p.alg k) ∧ strengthOk p.alg k := by
  intro call hc
  unfold verifyCore at hc
  split at hc
  · simp at hc
  · rename_i p hp
    split at hc
    · simp at hc
    · obtain ⟨k, hk, h⟩ := judge_trace env c.claims p (afterCb c p).2 call hc
      exact ⟨p, k, hp, hk, h⟩

end Jwt
