import Jwt.Builder
/-! Concurrency model (C18): threads that each own their builder/checker objects and only *read*
what they share (key items, the selected provider, the allocator hooks).

An operation is a function of the shared read-only state and the thread's own object; that is what
`Jwt.verify` and `Jwt.generate` are in the model, and what the generated footprint facts
(`Jwt/Generated/ConcFacts.lean`) say about the code: no writable static object is written outside
`jwt_set_crypto_ops(_t)`, `jwt_init` and `jwt_set_alloc`. -/
namespace Jwt.Conc

/-- a system whose operations touch only the caller's own object -/
structure Sys (Obj Op Res Shared : Type) where
  step : Shared → Obj → Op → Obj × Res

variable {Obj Op Res Shared : Type}

/-- one thread running its operations one after another -/
def runThread (sys : Sys Obj Op Res Shared) (sh : Shared) : Obj → List Op → Obj × List Res
  | o, [] => (o, [])
  | o, op :: ops =>
    let r := sys.step sh o op
    let rest := runThread sys sh r.1 ops
    (rest.1, r.2 :: rest.2)

/-- an interleaving: a schedule of (thread, operation) pairs executed in that global order -/
def runSched (sys : Sys Obj Op Res Shared) (sh : Shared) : (Nat → Obj) → List (Nat × Op) → (Nat → Obj) × List (Nat × Res)
  | objs, [] => (objs, [])
  | objs, (t, op) :: rest =>
    let r := sys.step sh (objs t) op
    let objs' := fun u => if u = t then r.1 else objs u
    let out := runSched sys sh objs' rest
    (out.1, (t, r.2) :: out.2)

/-- the operations / results of one thread within a schedule, in order -/
def proj {α : Type} (t : Nat) (l : List (Nat × α)) : List α := (l.filter (·.1 = t)).map (·.2)

/-- the concrete system: a thread's object is its builder and its checker; an operation is a
generate or a verify under some clock/oracles -/
inductive JOp where
  | generate (env : Env)
  | verify (env : Env) (tok : Option Bytes)

inductive JRes where
  | token (t : Option Bytes)
  | verdict (rc : Nat)

def jwtSys : Sys (Builder × Checker) JOp JRes Unit :=
  { step := fun _ o op =>
      match op with
      | .generate env => let r := generate env o.1; ((r.1, o.2), .token r.2)
      | .verify env tok => let r := verify env o.2 tok; ((o.1, r.1), .verdict r.2) }

end Jwt.Conc
