/-!
# A heap of `ll_t` nodes (`libjwt/ll.h`)

Addresses are numbers, `0` is `NULL`. A heap says which addresses hold a live `ll_t` and what its two
pointer fields contain. Every load and store is checked: going through a pointer that does not hold a
live node (NULL, freed, never allocated) yields `none` — the model's stand-in for undefined
behaviour. The list functions themselves are *generated* from `ll.h` (`Jwt/Generated/LlOps.lean`).
-/
namespace Jwt.Ll

abbrev Addr := Nat

structure Heap where
  valid : Addr → Bool
  next : Addr → Addr
  prev : Addr → Addr

def Heap.getNext (h : Heap) (a : Addr) : Option Addr := if h.valid a then some (h.next a) else none
def Heap.getPrev (h : Heap) (a : Addr) : Option Addr := if h.valid a then some (h.prev a) else none
def Heap.setNext (h : Heap) (a v : Addr) : Option Heap :=
  if h.valid a then some { h with next := fun x => if x = a then v else h.next x } else none
def Heap.setPrev (h : Heap) (a v : Addr) : Option Heap :=
  if h.valid a then some { h with prev := fun x => if x = a then v else h.prev x } else none

/-- `jwt_freemem` of the object that embeds the node -/
def Heap.free (h : Heap) (a : Addr) : Option Heap :=
  if h.valid a then some { h with valid := fun x => if x = a then false else h.valid x } else none

/-- `jwt_malloc` + `memset 0` of an object that embeds a node at `a` (which must be fresh and not NULL) -/
def Heap.alloc (h : Heap) (a : Addr) : Option Heap :=
  if a ≠ 0 ∧ h.valid a = false then
    some { valid := fun x => if x = a then true else h.valid x,
           next := fun x => if x = a then 0 else h.next x,
           prev := fun x => if x = a then 0 else h.prev x }
  else none

/-- what the loops of `jwks.c` read of an item (`item->error`, `item->kid`) -/
structure ItemView where
  error : Bool
  kid : Option (List UInt8)
  deriving Repr, Inhabited, DecidableEq

end Jwt.Ll
