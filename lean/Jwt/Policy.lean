import Jwt.Keys
/-! Admission and strength gates: `__setkey_check` (jwt-common.c), `__check_hmac`,
`__check_key_bits`, `__check_key_type` (jwt.c), the signature part of `__verify_config_post`
(jwt-verify.c). -/
namespace Jwt

/-- why a call failed; only "some error, with a message" is observable, the constructor is for
diagnostics and for stating which layer rejected -/
inductive Err where
  | mustPassToken | noDot1 | noDot2 | hdrParse | hdrAlgInvalid | hdrAlgMissing | payParse
  | cbError | cbCtxNoCb | setkeyNeedsPrivate | setkeyAlgNoKey | setkeyNoAlg | setkeyMismatch | cbKeyInvalid
  | claims | expectedSig | sigButAlgNone | sigButNoKey | keyAlgMismatch | cfgAlgMismatch | cfgKeyMismatch
  | keyTooShort | keyType | sigDecode | sigFailed | signFailed | unknownAlg | encode
  deriving DecidableEq, Repr, Inhabited

inductive Side where | builder | checker
  deriving DecidableEq, Repr

/-- `__setkey_check(cmd, alg, key)`: `none` = returns 0 -/
def setkeyCheck (side : Side) (alg : Alg) (key : Option KeyItem) : Option Err :=
  match side, key with
  | .builder, some k => if !k.isPrivate then some .setkeyNeedsPrivate else setkeyTable alg (some k)
  | _, k => setkeyTable alg k
where
  setkeyTable (alg : Alg) (key : Option KeyItem) : Option Err :=
    match key with
    | none => if alg = .none then none else some .setkeyAlgNoKey
    | some k =>
      if k.alg = .none then (if alg ≠ .none then none else some .setkeyNoAlg)
      else if alg = .none then none
      else if alg = k.alg then none
      else some .setkeyMismatch

/-- `__check_key_type` -/
def checkKeyType (k : KeyItem) (kty : Kty) : Option Err :=
  if k.kty = kty then none else some .keyType

/-- `__check_hmac`: `none` = returns 0 -/
def checkHmac (alg : Alg) (k : KeyItem) : Option Err :=
  match alg with
  | .hs256 => if k.bits ≥ 256 then checkKeyType k .oct else some .keyTooShort
  | .hs384 => if k.bits ≥ 384 then checkKeyType k .oct else some .keyTooShort
  | .hs512 => if k.bits ≥ 512 then checkKeyType k .oct else some .keyTooShort
  | _ => some .unknownAlg

/-- `__check_key_bits` -/
def checkKeyBits (alg : Alg) (k : KeyItem) : Option Err :=
  match alg with
  | .rs256 | .rs384 | .rs512 | .ps256 | .ps384 | .ps512 =>
    if k.bits ≥ 2048 then checkKeyType k .rsa else some .keyTooShort
  | .eddsa => if k.bits = 256 ∨ k.bits = 456 then checkKeyType k .okp else some .keyTooShort
  | .es256k | .es256 => if k.bits = 256 then checkKeyType k .ec else some .keyTooShort
  | .es384 => if k.bits = 384 then checkKeyType k .ec else some .keyTooShort
  | .es512 => if k.bits = 521 then checkKeyType k .ec else some .keyTooShort
  | _ => some .unknownAlg

/-- the per-call `jwt_config_t` -/
structure Config where
  key : Option KeyItem
  alg : Alg
  deriving Repr, Inhabited

/-- `__verify_config_post` after the claims: signature presence and algorithm pinning;
`jalg` is the algorithm latched from the token header -/
def configPost (cfg : Config) (jalg : Alg) (sigLen : Nat) : Option Err :=
  if sigLen = 0 then
    if cfg.key.isSome ∨ cfg.alg ≠ .none ∨ jalg ≠ .none then some .expectedSig else none
  else if jalg = .none then some .sigButAlgNone
  else match cfg.key with
    | none => some .sigButNoKey
    | some k =>
      if cfg.alg = .none then (if k.alg ≠ jalg then some .keyAlgMismatch else none)
      else if k.alg = .none then (if cfg.alg ≠ jalg then some .cfgAlgMismatch else none)
      else if cfg.alg ≠ k.alg then some .cfgKeyMismatch
      else if cfg.alg ≠ jalg then some .cfgAlgMismatch
      else none

/-- the algorithm the application pinned: the explicit one, otherwise the key's own -/
def pinned (cfg : Config) : Alg :=
  if cfg.alg ≠ .none then cfg.alg else match cfg.key with | some k => k.alg | none => .none

end Jwt
