import Jwt.Lemmas.Base64Round
/-!
The literal decoder works on a `List` buffer (`List.set` is linear, so the loop is quadratic).
For *compiled* code only (the line-protocol driver), replace it by the arithmetic specification:
`uriDecode_eq_spec` is a kernel-checked proof that the two are the same function, and `@[csimp]`
accepts nothing less. Kernel reduction (`decide`, theorems) still sees the literal definition.
The driver's `uridec` operation bypasses this and evaluates `uriDecodeBuf` directly, so the literal
loop is what the C11 correspondence suite runs.
-/
namespace Jwt.Base64

@[csimp] theorem uriDecode_eq_decodeSpec : @uriDecode = @decodeSpec := by
  funext src
  exact uriDecode_eq_spec src

end Jwt.Base64
