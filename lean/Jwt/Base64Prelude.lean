import Jwt.Bytes
import Jwt.Generated.Base64Tables
/-! Table reads of `base64.c`, shared by the generated arms (`Jwt/Generated/Base64Code.lean`) and the hand-written loops. -/
namespace Jwt.Base64
open Jwt Jwt.Generated

/-- `base64en[i]` (an out-of-range index cannot happen: see `TableFacts.enIdx_lt`) -/
def enAt (i : UInt8) : UInt8 := base64en.getD i.toNat 0
/-- `base64de[i]` -/
def deAt (i : UInt8) : UInt8 := base64de.getD i.toNat 255

end Jwt.Base64
