import Jwt.Json
/-! `__setter`, `__getter`, `__deleter` and the typed accessors (jwt-setget.c). -/
namespace Jwt

inductive VType where | int | str | bool | json
  deriving DecidableEq, Repr, Inhabited

/-- `jwt_value_error_t` -/
inductive VErr where | none | exist | noexist | type | invalid | nomem
  deriving DecidableEq, Repr, Inhabited

def VErr.code : VErr → Nat
  | .none => 0 | .exist => 1 | .noexist => 2 | .type => 3 | .invalid => 4 | .nomem => 5

/-- a `jwt_value_t` prepared for a set -/
structure SetReq where
  type : VType
  name : Option Bytes          -- NULL or a C string
  intVal : Int := 0
  strVal : Option Bytes := none
  boolVal : Int := 0
  jsonVal : Option Bytes := none
  replace : Bool := false
  deriving Repr, Inhabited

def nameOk (n : Option Bytes) : Option Bytes :=
  match n with
  | some (c :: cs) => some (c :: cs)
  | _ => none

/-- `jwt_obj_check` followed by `json_object_set_new(which, name, v)`; `v = none` models a value
constructor that returned NULL (`json_string` on invalid UTF-8). A key that is not valid UTF-8, or
a `which` that is not an object, makes `json_object_set_new` fail. -/
def checkedSet (which : Json) (name : Bytes) (v : Option Json) (replace : Bool) : Json × VErr :=
  let exists_ := (which.objGet name).isSome
  if exists_ && !replace then (which, .exist)
  else
    let w := if exists_ then which.objDel name else which
    match v with
    | none => (w, .invalid)
    | some val =>
      if which.isObject && validUtf8 name then (w.objSet name val, .none) else (w, .invalid)

/-- `__setter(which, value)`; the returned code is also what is stored in `value->error` -/
def setter (loadStrict : Bytes → Option Json) (which : Json) (r : SetReq) : Json × VErr :=
  match r.type with
  | .int =>
    match nameOk r.name with
    | none => (which, .invalid)
    | some n => checkedSet which n (some (.int r.intVal)) r.replace
  | .bool =>
    match nameOk r.name with
    | none => (which, .invalid)
    | some n => checkedSet which n (some (.bool (r.boolVal ≠ 0))) r.replace
  | .str =>
    match nameOk r.name, r.strVal with
    | some n, some s => checkedSet which n (if validUtf8 s then some (.str s) else none) r.replace
    | _, _ => (which, .invalid)
  | .json =>
    match r.jsonVal.bind loadStrict with
    | none => (which, .invalid)
    | some doc =>
      match nameOk r.name with
      | none =>
        -- update the whole thing; `json_object_update*` need two objects
        if which.isObject && doc.isObject then
          (if r.replace then which.objUpdate doc else which.objUpdateMissing doc, .none)
        else (which, .invalid)
      | some n => checkedSet which n (some doc) r.replace

/-- result of a get: the code and, on success, the value (for JSON the tree; its text is `dump`) -/
def getter (which : Json) (type : VType) (name : Option Bytes) : VErr × Option Json :=
  match type with
  | .json =>
    match nameOk name with
    | none => (.none, some which)
    | some n => match which.objGet n with
      | none => (.noexist, none)
      | some v => if v.isContainer then (.none, some v) else (.type, none)
  | t =>
    match nameOk name with
    | none => (.invalid, none)
    | some n =>
      match which.objGet n with
      | none => (.noexist, none)
      | some v =>
        match t, v with
        | .int, .int i => (.none, some (.int i))
        | .str, .str s => (.none, some (.str s))
        | .bool, .bool b => (.none, some (.bool b))
        | _, _ => (.type, none)

/-- `__deleter(which, field)` -/
def deleter (which : Json) (name : Option Bytes) : Json × VErr :=
  match nameOk name with
  | none => (which.objClear, .none)
  | some n => (which.objDel n, .none)

end Jwt
