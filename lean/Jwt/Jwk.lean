import Jwt.Base64
import Jwt.Base64Fast
import Jwt.Json
import Jwt.Alg
import Jwt.Generated.JwkTables
/-! `jwks_process`, `jwk_process_one`, `process_octet`, `jwk_process_values` (jwks.c) and the member
handling of `openssl_process_{rsa,ec,eddsa}` (openssl/jwk-parse.c), after the "fix:" commits.

`json_string_value` returns NULL on a non-string: everywhere below it is `Json.strVal : Option`, and
every use first checks — exactly where the C code now does. What OpenSSL makes of well-typed key
material (`EVP_PKEY_fromdata`, curve lookup, point validation) is a parameter (`KeyOracle`). -/
namespace Jwt
open Jwt.Base64 Jwt.Generated

/-- provider acceptance of well-typed key material: `some (bits, pem)` = `EVP_PKEY_fromdata` produced
a key object of that size, and `pem` tells whether OpenSSL could also serialise it -/
structure KeyOracle where
  rsa : (pss : Bool) → (n e : Bytes) → Option (List Bytes) → Option (Nat × Bool)
  ec : (crv : Bytes) → (x y : Bytes) → Option Bytes → Option (Nat × Bool)
  okp : (crv : Bytes) → (priv : Bool) → Bytes → Option (Nat × Bool)

/-- the observable part of a `jwk_item_t` -/
structure Item where
  kty : Nat := 0                 -- `jwk_key_type_t` ordinal
  alg : Alg := .none
  use : Nat := 0
  keyOps : Nat := 0
  kid : Option Bytes := none
  isPrivate : Bool := false
  curve : Option Bytes := none   -- `jwks_item_curve`: NULL when empty
  bits : Nat := 0
  error : Bool := false
  msg : Bool := false            -- `error_msg` non-empty
  oct : Bytes := []              -- `oct.key[0..oct.len)` for oct keys
  hasPem : Bool := false
  deriving Repr, Inhabited, DecidableEq

def Item.fail (it : Item) : Item := { it with error := true, msg := true }

/-- `pctx_to_pem`: the size is recorded as soon as the key object exists; a key that cannot be
written as PEM is an error -/
def Item.keyed (it : Item) (r : Option (Nat × Bool)) : Item :=
  match r with
  | none => { it with error := true, msg := true }
  | some (bits, true) => { it with bits := bits, hasPem := true }
  | some (bits, false) => { it with bits := bits, error := true, msg := true }


def lookup (tbl : List (Bytes × Nat)) (s : Bytes) : Option Nat :=
  (tbl.find? (fun e => jwtStrcmp s e.1 = 0)).map (·.2)

/-- `jwk_key_op_j` -/
def keyOpOf (j : Json) : Nat :=
  match j.strVal with
  | none => 0
  | some s => (lookup keyOpTable s).getD 0

/-- `jwk_process_values`: alg, use, key_ops, kid -/
def processValues (jwk : Json) (it : Item) : Item :=
  match jwk.objGet N.alg with
  | some a =>
    match a.strVal with
    | none => it.fail                       -- "Invalid alg type": returns before use/key_ops/kid
    | some s => rest { it with alg := strAlg (some s) }
  | none => rest it
where
  rest (it : Item) : Item :=
    let it := match (jwk.objGet [117, 115, 101]).bind Json.strVal with   -- "use"
      | some u => (match lookup useTable u with | some v => { it with use := v } | none => it)
      | none => it
    let it := match jwk.objGet [107, 101, 121, 95, 111, 112, 115] with        -- "key_ops"
      | some (.arr ops) => { it with keyOps := ops.foldl (fun acc o => acc ||| keyOpOf o) it.keyOps }
      | _ => it
    match (jwk.objGet [107, 105, 100]).bind Json.strVal with                  -- "kid"
    | some k => if k = [] then it else { it with kid := some k }
    | none => it

/-- `process_octet` -/
def processOctet (jwk : Json) (it : Item) : Item :=
  match (jwk.objGet [107]).bind Json.strVal with                              -- "k"
  | none => it.fail
  | some s =>
    if s = [] then it.fail
    else match uriDecode s with
      | none => it.fail
      | some bin => { it with isPrivate := true, oct := bin, bits := bin.length * 8 }

/-- `set_one_bn`: string, base64url, non-empty -/
def bnOf (j : Option Json) : Option Bytes := (j.bind Json.strVal).bind uriDecode

def curveCopy (s : Bytes) : Option Bytes := if s = [] then none else some (s.take 255)

/-- `openssl_process_ec` -/
def processEc (o : KeyOracle) (jwk : Json) (it : Item) : Item :=
  let crv := (jwk.objGet [99, 114, 118]).bind Json.strVal
  let x := (jwk.objGet [120]).bind Json.strVal
  let y := (jwk.objGet [121]).bind Json.strVal
  let d := jwk.objGet [100]
  match crv, x, y with
  | some c, some xs, some ys =>
    let it := { it with curve := curveCopy c, isPrivate := d.isSome }
    match uriDecode xs, uriDecode ys with
    | some bx, some by_ =>
      -- `d`, when present, must be a non-empty base64url string (`set_one_bn`)
      if d.isSome && (bnOf d).isNone then it.fail
      else it.keyed (o.ec c bx by_ (bnOf d))
    | _, _ => it.fail
  | _, _, _ => it.fail

/-- `openssl_process_eddsa` -/
def processOkp (o : KeyOracle) (jwk : Json) (it : Item) : Item :=
  let x := jwk.objGet [120]
  let d := jwk.objGet [100]
  let crv := (jwk.objGet [99, 114, 118]).bind Json.strVal
  if x.isNone && d.isNone then it.fail
  else match crv with
    | none => it.fail
    | some c =>
      let it := { it with isPrivate := d.isSome }
      if c ≠ [69, 100, 50, 53, 53, 49, 57] ∧ c ≠ [69, 100, 52, 52, 56] then it.fail      -- "Ed25519" / "Ed448"
      else
        let it := { it with curve := curveCopy c }
        match bnOf (if d.isSome then d else x) with
        | none => it.fail
        | some bin => it.keyed (o.okp c d.isSome bin)

/-- `openssl_process_rsa` -/
def processRsa (o : KeyOracle) (jwk : Json) (it : Item) : Item :=
  let g (n : Bytes) := jwk.objGet n
  let n := g [110]; let e := g [101]
  let priv := [g [100], g [112], g [113], g [100, 112], g [100, 113], g [113, 105]]   -- d p q dp dq qi
  if n.isNone || e.isNone then it.fail
  else
    let pss := match (jwk.objGet N.alg).bind Json.strVal with
      | some (c :: _) => c = 80                -- 'P'
      | _ => false
    if priv.all Option.isSome then
      let it := { it with isPrivate := true }
      match bnOf n, bnOf e with
      | some bn, some be =>
        let comps := priv.map bnOf
        if comps.all Option.isSome then
          it.keyed (o.rsa pss bn be (some (comps.filterMap id)))
        else it.fail
      | _, _ => it.fail
    else if priv.all Option.isNone then
      match bnOf n, bnOf e with
      | some bn, some be => it.keyed (o.rsa pss bn be none)
      | _, _ => it.fail
    else it.fail

/-- `jwk_process_one` -/
def processOne (o : KeyOracle) (jwk : Json) : Item :=
  match (jwk.objGet [107, 116, 121]).bind Json.strVal with                    -- "kty"
  | none => ({} : Item).fail
  | some kty =>
    match lookup ktyTable kty with
    | some 1 => processValues jwk (processEc o jwk { kty := 1 })
    | some 2 => processValues jwk (processRsa o jwk { kty := 2 })
    | some 3 => processValues jwk (processOkp o jwk { kty := 3 })
    | some 4 => processValues jwk (processOctet jwk { kty := 4 })
    | _ => ({} : Item).fail

/-- a `jwk_set_t`: its items in list order and its own error state -/
structure KeySet where
  items : List Item := []
  error : Bool := false
  msg : Bool := false
  deriving Repr, Inhabited

/-- `jwks_process(set, j_all)`; `none` = the text did not parse -/
def jwksProcess (o : KeyOracle) (s : KeySet) (doc : Option Json) : KeySet :=
  match doc with
  | none => { s with error := true, msg := true }
  | some j =>
    match j.objGet [107, 101, 121, 115] with                                   -- "keys"
    | none => { s with items := s.items ++ [processOne o j] }
    | some (.arr elems) => { s with items := s.items ++ elems.map (processOne o) }
    | some _ => s

/-! the list operations of jwks.c on the abstract list -/
def KeySet.get (s : KeySet) (i : Nat) : Option Item := s.items[i]?
def KeySet.count (s : KeySet) : Nat := s.items.length
def KeySet.findByKid (s : KeySet) (kid : Bytes) : Option Nat := s.items.findIdx? (fun it => it.kid = some kid)
def KeySet.free (s : KeySet) (i : Nat) : KeySet × Nat :=
  if i < s.items.length then ({ s with items := s.items.eraseIdx i }, 1) else (s, 0)
def KeySet.freeBad (s : KeySet) : KeySet × Nat :=
  ({ s with items := s.items.filter (!·.error) }, (s.items.filter (·.error)).length)
def KeySet.freeAll (s : KeySet) : KeySet × Nat := ({ s with items := [] }, s.items.length)
def KeySet.errorAny (s : KeySet) : Nat := (if s.error then 1 else 0) + (s.items.filter (·.error)).length
def KeySet.errorClear (s : KeySet) : KeySet := { s with error := false, msg := false }

end Jwt
