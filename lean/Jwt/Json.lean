import Jwt.Bytes
/-! JSON trees as jansson holds them, and the few `json_*` accessors libjwt uses.
Objects are association lists with distinct keys (insertion order; every observable goes through a
sorted dump, so order never matters). Reals carry only their printed form. -/
namespace Jwt

inductive Json where
  | null
  | bool (b : Bool)
  | int (i : Int)
  | real (repr : String)
  | str (s : Bytes)
  | arr (xs : List Json)
  | obj (kvs : List (Bytes × Json))
  deriving Inhabited

namespace Json

/-- `json_object_get(j, key)`: NULL unless `j` is an object that has the key -/
def objGet (j : Json) (k : Bytes) : Option Json :=
  match j with
  | .obj kvs => (kvs.find? (·.1 = k)).map (·.2)
  | _ => none

def isObject : Json → Bool | .obj _ => true | _ => false
def isContainer : Json → Bool | .obj _ => true | .arr _ => true | _ => false

/-- `json_is_string(v) ? json_string_value(v) : NULL` -/
def strVal : Json → Option Bytes | .str s => some s | _ => none
def intVal : Json → Option Int | .int i => some i | _ => none
def boolVal : Json → Option Bool | .bool b => some b | _ => none

/-- `json_object_del` (no effect on a non-object or a missing key) -/
def objDel (j : Json) (k : Bytes) : Json :=
  match j with
  | .obj kvs => .obj (kvs.filter (·.1 ≠ k))
  | j => j

/-- `json_object_set_new(j, key, v)` on an object. jansson replaces in place or appends; since no
observable depends on member order (dumps are sorted), the model drops the old member and appends. -/
def objSet (j : Json) (k : Bytes) (v : Json) : Json :=
  match j with
  | .obj kvs => .obj (kvs.filter (·.1 ≠ k) ++ [(k, v)])
  | j => j

/-- `json_object_clear` -/
def objClear : Json → Json
  | .obj _ => .obj []
  | j => j

/-- `json_object_update(j, other)`: every member of `other` set into `j` -/
def objUpdate (j other : Json) : Json :=
  match other with
  | .obj kvs => kvs.foldl (fun acc p => acc.objSet p.1 p.2) j
  | _ => j

/-- `json_object_update_missing(j, other)`: only members `j` does not have yet -/
def objUpdateMissing (j other : Json) : Json :=
  match other with
  | .obj kvs => kvs.foldl (fun acc p => if (acc.objGet p.1).isSome then acc else acc.objSet p.1 p.2) j
  | _ => j

end Json

/-- The two jansson text functions libjwt relies on, as parameters (never axioms).
`load` = `json_loads(text, 0 | JSON_REJECT_DUPLICATES, NULL)` on a C string (object or array only),
`dump` = `json_dumps(j, JSON_SORT_KEYS | JSON_COMPACT)`. -/
structure JsonCodec where
  load : Bytes → Option Json
  dump : Json → Bytes

/-- `utf8_check_string` as jansson's `json_string` applies it: shortest-form UTF-8, no surrogates,
nothing above U+10FFFF -/
def validUtf8 : Bytes → Bool
  | [] => true
  | b :: rest =>
    if b < 0x80 then validUtf8 rest
    else if b < 0xC2 then false
    else if b < 0xE0 then
      match rest with
      | c :: r => (0x80 ≤ c && c ≤ 0xBF) && validUtf8 r
      | _ => false
    else if b < 0xF0 then
      match rest with
      | c :: d :: r =>
        let lo : UInt8 := if b = 0xE0 then 0xA0 else 0x80
        let hi : UInt8 := if b = 0xED then 0x9F else 0xBF
        (lo ≤ c && c ≤ hi) && (0x80 ≤ d && d ≤ 0xBF) && validUtf8 r
      | _ => false
    else if b < 0xF5 then
      match rest with
      | c :: d :: e :: r =>
        let lo : UInt8 := if b = 0xF0 then 0x90 else 0x80
        let hi : UInt8 := if b = 0xF4 then 0x8F else 0xBF
        (lo ≤ c && c ≤ hi) && (0x80 ≤ d && d ≤ 0xBF) && (0x80 ≤ e && e ≤ 0xBF) && validUtf8 r
      | _ => false
    else false

end Jwt
