import Jwt.Base64
import Jwt.Base64Fast
import Jwt.Json
import Jwt.Policy
/-! `jwt_parse`, `jwt_parse_head`, `jwt_parse_payload`, `jwt_base64uri_decode_to_json` (jwt-verify.c). -/
namespace Jwt
open Jwt.Base64

/-- split a C string at its first `.`: `none` when the scan reaches the NUL first -/
def splitDot : Bytes → Option (Bytes × Bytes)
  | [] => none
  | c :: cs => if c = 46 then some ([], cs) else (splitDot cs).map fun (a, b) => (c :: a, b)

/-- `jwt_base64uri_decode_to_json(src)`: decode, `buf[len] = 0`, `json_loads` of the C string -/
def decodeToJson (jc : JsonCodec) (src : Bytes) : Option Json :=
  match uriDecode src with
  | none => none
  | some buf => jc.load (cstr buf)

/-- what `jwt_parse` leaves behind on success -/
structure Parsed where
  head : Bytes
  payload : Bytes
  sig : Bytes            -- everything after the second dot (may contain further dots)
  headers : Json
  claims : Json
  alg : Alg              -- latched from the header
  deriving Inhabited

/-- `jwt_parse_head`: the `alg` latch -/
def parseHeadAlg (headers : Json) : Except Err Alg :=
  match headers.objGet N.alg with
  | some (.str a) =>
    let alg := strAlg (some a)
    if alg = .inval then .error .hdrAlgInvalid else .ok alg
  | _ => .error .hdrAlgMissing

/-- `jwt_parse(jwt, token, &len)` -/
def parse (jc : JsonCodec) (tok : Bytes) : Except Err Parsed :=
  match splitDot tok with
  | none => .error .noDot1
  | some (head, rest) =>
    match splitDot rest with
    | none => .error .noDot2
    | some (payload, sig) =>
      match decodeToJson jc head with
      | none => .error .hdrParse
      | some headers =>
        match parseHeadAlg headers with
        | .error e => .error e
        | .ok alg =>
          match decodeToJson jc payload with
          | none => .error .payParse
          | some claims => .ok { head, payload, sig, headers, claims, alg }

end Jwt
