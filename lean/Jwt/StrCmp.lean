import Jwt.Bytes
/-! `jwt_strcmp` (libjwt/jwt-memory.c): constant-time comparison of two C strings.

`ret |= c1 ^ c2` is done on `char`s promoted to `int`; the sign extension changes the value of a
non-zero term but not whether it is zero, and only zero / non-zero is ever used by callers, so
the model accumulates the xor of the unsigned byte values. -/
namespace Jwt

/-- the loop `for (i = 0; i < len_max; i++)` with `c = (i < len) ? str[i] : 0` -/
def strcmpLoop : Bytes → Bytes → Nat → Nat
  | [], bs, acc => bs.foldl (fun acc b => acc ||| (0 ^^^ b.toNat)) acc
  | a :: as, [], acc => strcmpLoop as [] (acc ||| (a.toNat ^^^ 0))
  | a :: as, b :: bs, acc => strcmpLoop as bs (acc ||| (a.toNat ^^^ b.toNat))

/-- `jwt_strcmp(str1, str2)`; callers test the result against zero only -/
def jwtStrcmp (s1 s2 : Bytes) : Nat := strcmpLoop s1 s2 0 ||| (s1.length ^^^ s2.length)

end Jwt
