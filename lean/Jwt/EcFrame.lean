import Jwt.Cli
import Jwt.Keys
import Jwt.Generated.EcTables
/-!
# ECDSA `r‖s` framing in the provider glue (`openssl/sign-verify.c`, `gnutls/sign-verify.c`)

JWS (RFC 7518 §3.4) carries an ECDSA signature as two fixed-width big-endian integers; both
libraries produce and consume DER `SEQUENCE { INTEGER r, INTEGER s }`. The conversion between the two
is code libjwt owns: buffer arithmetic over lengths the library reports. It is modelled literally,
over bounds-checked buffers, with the library calls as the mathematical functions they are
documented to be:

* `BN_num_bytes`/`BN_bn2bin` — minimal big-endian octets (`Cli.toBytesMin`), `BN_bin2bn` — the number
  an octet string denotes (`Cli.fromBytes`);
* `gnutls_decode_rs_value` — the *content octets* of the two DER INTEGERs (`derInt`: minimal, with a
  leading `00` when the top bit is set, `00` for zero); `gnutls_encode_rs_value` — takes unsigned
  big-endian octet strings.

Octets are `Nat`s below 256, as in `Jwt.Cli`. The harness `harness/ecframe.c` interposes the two
libraries' sign/verify primitives and runs the real glue on chosen `(r, s)`; see DESIGN §8 C05.
-/
namespace Jwt.EcFrame
open Jwt.Cli Jwt.Generated

abbrev Octets := List Nat

/-- `memcpy(dst + off, src, |src|)` into a buffer of known size; `none` = out of bounds -/
def memcpyAt (dst : Octets) (off : Nat) (src : Octets) : Option Octets :=
  if off + src.length ≤ dst.length then some (dst.take off ++ src ++ dst.drop (off + src.length)) else none

/-! ## OpenSSL -/

/-- `jwt_ec_d2i` after `d2i_ECDSA_SIG` delivered the integers `r`, `s` -/
def osslFrame (bits r s : Nat) : Option Octets :=
  let rb := toBytesMin r
  let sb := toBytesMin s
  let bnLen := osslBnLenSign bits
  if rb.length > bnLen ∨ sb.length > bnLen then none
  else
    let bufLen := osslBufMul * bnLen
    let buf := List.replicate bufLen 0                          -- memset(buf, 0, buf_len)
    (memcpyAt buf (bnLen - rb.length) rb).bind fun b =>         -- BN_bn2bin(r, buf + (bn_len - r_len))
      memcpyAt b (bufLen - sb.length) sb                        -- BN_bn2bin(s, buf + (buf_len - s_len))

/-- `openssl_verify_sha_pem`, EC branch: the two integers handed to `ECDSA_SIG_set0`;
`none` = "ECDSA micmatch with sig len" -/
def osslUnframe (bits : Nat) (sig : Octets) : Option (Nat × Nat) :=
  let bnLen := osslBnLenVerify bits
  if bnLen * osslVerifyMul ≠ sig.length then none
  else some (fromBytes (sig.take bnLen), fromBytes ((sig.drop bnLen).take bnLen))

/-! ## GnuTLS -/

/-- content octets of a DER INTEGER holding `n ≥ 0` -/
def derInt (n : Nat) : Octets :=
  match toBytesMin n with
  | [] => [0]
  | b :: bs => if b ≥ 128 then 0 :: b :: bs else b :: bs

/-- `gnutls_sign_sha_pem`, EC branch, after `gnutls_decode_rs_value` delivered the datums `rd`, `sd`;
`adj` is the coordinate width chosen from the algorithm. The result is the first `*len` octets of `*out`. -/
def gnutlsFrame (adj : Nat) (rd sd : Octets) : Option Octets :=
  let rPadding := if rd.length > adj then rd.length - adj else 0
  let rOutPadding := if rd.length > adj then 0 else if rd.length < adj then adj - rd.length else 0
  let sPadding := if sd.length > adj then sd.length - adj else 0
  let sOutPadding := if sd.length > adj then 0 else if sd.length < adj then adj - sd.length else 0
  let out := List.replicate (adj * 2) 0                         -- out_size = adj << 1; memset
  (memcpyAt out rOutPadding (rd.drop rPadding)).bind fun o =>
  (memcpyAt o ((rd.length - rPadding + rOutPadding) + sOutPadding) (sd.drop sPadding)).map fun o' =>
    o'.take ((rd.length - rPadding + rOutPadding) + (sd.length - sPadding + sOutPadding))

def gnutlsAdjOf (a : Alg) : Option Nat := (gnutlsAdj.find? (·.1 = a)).map (·.2)

/-- `gnutls_verify_sha_pem`, EC branch: the two datums' values handed to `gnutls_encode_rs_value`;
`none` = "Irregular sig_len". The width comes from the algorithm and the length must match it exactly. -/
def gnutlsUnframe (a : Alg) (sig : Octets) : Option (Nat × Nat) :=
  let w := gnutlsVerifyWidth a
  if sig.length ≠ gnutlsVerifyMul * w then none
  else some (fromBytes (sig.take w), fromBytes ((sig.drop w).take w))

/-! ## both, as the provider's sign/verify seen from `jwt_sign`/`jwt_verify_sig` -/

def frame (p : Provider) (a : Alg) (bits r s : Nat) : Option Octets :=
  match p with
  | .openssl => osslFrame bits r s
  | .gnutls => (gnutlsAdjOf a).bind fun adj => gnutlsFrame adj (derInt r) (derInt s)

def unframe (p : Provider) (a : Alg) (bits : Nat) (sig : Octets) : Option (Nat × Nat) :=
  match p with
  | .openssl => osslUnframe bits sig
  | .gnutls => gnutlsUnframe a sig

end Jwt.EcFrame
