import Jwt.Alg
/-! `jwk_item_t` as far as signing and verification look at it, providers, and the crypto oracles. -/
namespace Jwt

inductive Kty where | none | ec | rsa | okp | oct
  deriving DecidableEq, Repr, Inhabited

inductive Provider where | openssl | gnutls
  deriving DecidableEq, Repr, Inhabited

/-- the fields of `struct jwk_item` that `jwt_sign` / `jwt_verify_sig` and the admission checks read -/
structure KeyItem where
  id : Nat                 -- identity (address) of the item
  kty : Kty
  alg : Alg                -- the JWK `alg` attribute (`none` when absent)
  bits : Nat
  isPrivate : Bool
  oct : Bytes              -- `oct.key[0..oct.len)`; meaningful for `kty = oct`
  deriving Repr, Inhabited

/-- what the provider glue itself refuses before touching the library: the GnuTLS backend has no
secp256k1 (`if (jwt->alg == JWT_ALG_ES256K) …ERROR("ES256K not supported")`, gnutls/sign-verify.c) -/
def Provider.supports : Provider → Alg → Bool
  | .gnutls, .es256k => false
  | _, _ => true

/-- the family an algorithm's key must belong to -/
def Alg.family : Alg → Kty
  | .hs256 | .hs384 | .hs512 => .oct
  | .rs256 | .rs384 | .rs512 | .ps256 | .ps384 | .ps512 => .rsa
  | .es256 | .es384 | .es512 | .es256k => .ec
  | .eddsa => .okp
  | .none | .inval => .none

/-- Cryptographic primitives, as parameters. Nothing is assumed about them in the soundness
theorems; `pkSign` additionally takes the provider's randomness. -/
structure Crypto where
  hmac : Alg → Bytes → Bytes → Bytes                          -- key, message ↦ MAC
  pkVerify : Provider → KeyItem → Alg → Bytes → Bytes → Bool   -- message, raw signature
  pkSign : Provider → KeyItem → Alg → Bytes → Option Bytes     -- message ↦ raw signature (none = provider failed)

/-- a call the model makes into a primitive (recorded so that "which key met which algorithm" is a
statement about the execution, not only about its result) -/
inductive CryptoCall where
  | hmac (alg : Alg) (key : KeyItem)
  | pkVerify (alg : Alg) (key : KeyItem)
  | pkSign (alg : Alg) (key : KeyItem)
  deriving Repr

end Jwt
