/-! Byte strings. A C string is a `Bytes` without its terminating NUL. -/
namespace Jwt

abbrev Bytes := List UInt8

/-- the C-string view of a buffer: everything before the first NUL -/
def cstr (b : Bytes) : Bytes := b.takeWhile (· ≠ 0)

def strBytes (s : String) : Bytes := s.toUTF8.toList

/-- bounds-checked buffer write (`none` = out of bounds) -/
def bufSet (b : Bytes) (i : Nat) (v : UInt8) : Option Bytes :=
  if i < b.length then some (b.set i v) else none

end Jwt
