/-! Byte strings. A C string is a `Bytes` without its terminating NUL. -/
namespace Jwt

abbrev Bytes := List UInt8

/-- the C-string view of a buffer: everything before the first NUL -/
def cstr (b : Bytes) : Bytes := b.takeWhile (· ≠ 0)

/-- only for the driver and for readable comments: not kernel-reducible, never used in the model -/
def strBytes (s : String) : Bytes := s.toUTF8.toList

/-! member names and literals the library uses, as explicit bytes (kernel-reducible) -/
namespace N
def alg : Bytes := [97, 108, 103]
def typ : Bytes := [116, 121, 112]
def JWT : Bytes := [74, 87, 84]
def exp : Bytes := [101, 120, 112]
def nbf : Bytes := [110, 98, 102]
def iat : Bytes := [105, 97, 116]
def iss : Bytes := [105, 115, 115]
def sub : Bytes := [115, 117, 98]
def aud : Bytes := [97, 117, 100]
def none : Bytes := [110, 111, 110, 101]
end N

/-- bounds-checked buffer write (`none` = out of bounds) -/
def bufSet (b : Bytes) (i : Nat) (v : UInt8) : Option Bytes :=
  if i < b.length then some (b.set i v) else none

end Jwt
