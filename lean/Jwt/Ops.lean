import Jwt.StrCmp
import Jwt.Keys
import Jwt.Generated.OpsTables
/-! Provider selection: `jwt_set_crypto_ops`, `jwt_set_crypto_ops_t`, `jwt_init` (jwt-crypto-ops.c)
over the generated `jwt_ops_available[]`. The current provider is an index into that table. -/
namespace Jwt
open Jwt.Generated

/-- the `for (i = 0; jwt_ops_available[i] != NULL; i++)` scan for the first entry satisfying `p` -/
def scanOps (p : Bytes × Nat → Bool) : Option Nat := providers.findIdx? p

/-- `jwt_set_crypto_ops(opname)`: new current index and return value -/
def setOpsByName (cur : Nat) (name : Bytes) : Nat × Nat :=
  match scanOps (fun e => jwtStrcmp e.1 name = 0) with
  | some i => (i, 0)
  | none => (cur, 1)

/-- `jwt_set_crypto_ops_t(id)` -/
def setOpsById (cur : Nat) (id : Nat) : Nat × Nat :=
  match scanOps (fun e => e.2 = id) with
  | some i => (i, 0)
  | none => (cur, 1)

/-- `jwt_init()` reading `JWT_CRYPTO` (`none` = unset) -/
def initOps (envVar : Option Bytes) : Nat :=
  match envVar with
  | none => 0
  | some [] => 0
  | some n => match setOpsByName 0 n with
    | (i, 0) => i
    | _ => 0

def opsName (i : Nat) : Bytes := (providers[i]?.map (·.1)).getD []
def opsId (i : Nat) : Nat := (providers[i]?.map (·.2)).getD 0

/-- the model's `Provider` for a table index (the two providers compiled into this build) -/
def providerOf (i : Nat) : Provider := if opsId i = 2 then .gnutls else .openssl

end Jwt
