/-! The `jwt_alg_t` enumeration (include/jwt.h). Constructor ↔ enumerator mapping is `ALG_LEAN`
in tie/extract.py; ordinals, names and the parse chain are generated into `Jwt/Generated/AlgTables.lean`. -/
namespace Jwt

inductive Alg where
  | none | hs256 | hs384 | hs512 | rs256 | rs384 | rs512 | es256 | es384 | es512
  | ps256 | ps384 | ps512 | es256k | eddsa | inval
  deriving DecidableEq, Repr, Inhabited

def Alg.all : List Alg :=
  [.none, .hs256, .hs384, .hs512, .rs256, .rs384, .rs512, .es256, .es384, .es512,
   .ps256, .ps384, .ps512, .es256k, .eddsa, .inval]

end Jwt
