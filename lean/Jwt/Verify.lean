import Jwt.Parse
/-! `__verify_claims`, `__check_str_claim`, `jwt_verify_complete`, `jwt_verify_sig`,
`_verify_sha_hmac` (jwt-verify.c, jwt.c) and `jwt_checker_verify` (jwt-common.c), after the
"fix:" commits listed in /verif/known-findings.txt. -/
namespace Jwt
open Jwt.Base64

/-- oracles and ambient state of one call -/
structure Env where
  jc : JsonCodec
  cr : Crypto
  prov : Provider     -- `jwt_ops` at the time of the call
  now : Int           -- `time(NULL)`

/-- `jwt_claims_t` bits of a checker/builder -/
structure ClaimMask where
  iss : Bool := false
  sub : Bool := false
  aud : Bool := false
  exp : Bool := false
  nbf : Bool := false
  iat : Bool := false
  deriving DecidableEq, Repr, Inhabited

/-- the claim-checking part of a checker's configuration -/
structure ClaimCfg where
  mask : ClaimMask
  expLeeway : Int
  nbfLeeway : Int
  expected : Json          -- the checker's `payload` object holding expected iss/sub/aud strings
  deriving Inhabited

/-- `jwt_claim_get` of an INT: the four outcomes -/
inductive GetInt where | ok (i : Int) | noexist | type
def getInt (claims : Json) (name : Bytes) : GetInt :=
  match claims.objGet name with
  | none => .noexist
  | some (.int i) => .ok i
  | some _ => .type

/-- `__check_str_claim`: `true` = the claim fails -/
def strClaimFails (on : Bool) (expected claims : Json) (name : Bytes) : Bool :=
  if !on then false
  else match (expected.objGet name).bind Json.strVal with
    | none => true                                   -- `str == NULL`
    | some want =>
      match claims.objGet name with
      | some (.str got) => got ≠ want                -- `strcmp` on NUL-free strings
      | _ => true                                    -- NOEXIST or TYPE

def expFails (c : ClaimCfg) (claims : Json) (now : Int) : Bool :=
  c.mask.exp && match getInt claims N.exp with
    | .ok e => e ≤ now - c.expLeeway
    | .noexist => false
    | .type => true

def nbfFails (c : ClaimCfg) (claims : Json) (now : Int) : Bool :=
  c.mask.nbf && match getInt claims N.nbf with
    | .ok n => n > now + c.nbfLeeway
    | .noexist => false
    | .type => true

/-- `__verify_claims(jwt) != 0` -/
def claimsFail (c : ClaimCfg) (claims : Json) (now : Int) : Bool :=
  expFails c claims now || nbfFails c claims now ||
  strClaimFails c.mask.iss c.expected claims N.iss ||
  strClaimFails c.mask.sub c.expected claims N.sub ||
  strClaimFails c.mask.aud c.expected claims N.aud

/-- the bytes that are signed: the raw token text up to (not including) the second dot -/
def signingInput (head payload : Bytes) : Bytes := head ++ [46] ++ payload

/-- `jwt_verify_sig(jwt, head, head_len, sig_b64)`: `none` = no error written. Also returns the
calls made into the primitives. `msg` is the raw token text up to the second dot. -/
def verifySig (env : Env) (k : KeyItem) (alg : Alg) (msg sigB64 : Bytes) : Option Err × List CryptoCall :=
  match alg with
  | .hs256 | .hs384 | .hs512 =>
    if k.kty ≠ .oct then (some .sigFailed, [])
    else match checkHmac alg k with
      | some _ => (some .sigFailed, [])          -- message is the gate's; same flag
      | none =>
        let mac := env.cr.hmac alg k.oct msg
        let ok := uriEncodeRet mac > 0 ∧ jwtStrcmp (uriEncode mac) sigB64 = 0
        (if ok then none else some .sigFailed, [.hmac alg k])
  | .rs256 | .rs384 | .rs512 | .ps256 | .ps384 | .ps512 | .es256 | .es256k | .es384 | .es512 | .eddsa =>
    match checkKeyBits alg k with
    | some e => (some e, [])
    | none =>
      match uriDecode sigB64 with
      | none => (some .sigDecode, [])
      | some sig =>
        if !env.prov.supports alg then (some .sigFailed, [])
        else (if env.cr.pkVerify env.prov k alg msg sig then none else some .sigFailed, [.pkVerify alg k])
  | _ => (some .unknownAlg, [])

/-- the user callback: sees the parsed headers/claims/alg and the config, returns a code, whatever
it did to the token object, and the config it leaves -/
abbrev CheckerCb := (headers claims : Json) → Alg → Config → Int × Json × Json × Config

/-- how a call ended -/
inductive Exit where
  | direct (e : Err)      -- `jwt_write_error(__cmd, …); return 1`
  | viaJwt (e : Err)      -- error on the per-call jwt_t, then `jwt_copy_error(__cmd, jwt)`
  | ok
  deriving Repr

/-- configuration of a checker (everything but its error state) -/
structure CheckerCfg where
  key : Option KeyItem := none
  alg : Alg := .none
  claims : ClaimCfg
  cb : Option CheckerCb := none

/-- the config in force after the callback (`(0, checker's own)` without one) and its return code.
Whatever the callback did to the token object is dropped: the parsed claims are put back. -/
def afterCb (c : CheckerCfg) (p : Parsed) : Int × Config :=
  match c.cb with
  | none => (0, { key := c.key, alg := c.alg })
  | some cb => let r := cb p.headers p.claims p.alg { key := c.key, alg := c.alg }; (r.1, r.2.2.2)

/-- everything after a callback that returned 0: admission, claims, pinning, signature -/
def judge (env : Env) (cl : ClaimCfg) (p : Parsed) (cfg : Config) : Exit × List CryptoCall :=
  match setkeyCheck .checker cfg.alg cfg.key with
  | some e => (.direct e, [])
  | none =>
    if claimsFail cl p.claims env.now then (.viaJwt .claims, [])
    else match configPost cfg p.alg p.sig.length with
      | some e => (.viaJwt e, [])
      | none =>
        if p.sig.length = 0 then (.ok, [])
        else match cfg.key with
          | none => (.viaJwt .sigButNoKey, [])     -- unreachable: `configPost` refused
          | some k =>
            match verifySig env k p.alg (signingInput p.head p.payload) p.sig with
            | (some e, tr) => (.viaJwt e, tr)
            | (none, tr) => (.ok, tr)

/-- `jwt_checker_verify` for a non-empty token, up to the error plumbing -/
def verifyCore (env : Env) (c : CheckerCfg) (tok : Bytes) : Exit × List CryptoCall :=
  match parse env.jc tok with
  | .error e => (.viaJwt e, [])
  | .ok p =>
    if (afterCb c p).1 ≠ 0 then (.direct .cbError, [])
    else judge env c.claims p (afterCb c p).2

/-- a checker object: configuration + `error` + whether `error_msg` is non-empty (with its cause) -/
structure Checker where
  cfg : CheckerCfg
  error : Bool := false
  msg : Option Err := none

/-- `jwt_write_error(obj, …)`: first writer wins on the message, flag always set -/
def Checker.writeError (ck : Checker) (e : Err) : Checker :=
  { ck with error := true, msg := if ck.msg.isSome then ck.msg else some e }

/-- `jwt_checker_verify(checker, token)` for a non-NULL checker: new state and return value -/
def verify (env : Env) (ck : Checker) (tok : Option Bytes) : Checker × Nat :=
  match tok with
  | none => (ck.writeError .mustPassToken, 1)
  | some [] => (ck.writeError .mustPassToken, 1)
  | some t =>
    match (verifyCore env ck.cfg t).1 with
    | .direct e => (ck.writeError e, 1)
    | .viaJwt e => ({ ck with error := true, msg := some e }, 1)
    | .ok => ({ ck with error := false, msg := none }, 0)

end Jwt
