import Jwt.Bytes
/-!
# RFC 4648 §5 (base64url) stated arithmetically, independent of the implementation's tables

Nothing here mentions `Jwt.Generated` or bit operations: the alphabet is given by its ASCII
arithmetic and the 24-bit regrouping by `/` and `%` on byte values.
-/
namespace Jwt.Base64

/-- RFC 4648 Table 1 ("The Base 64 Alphabet"), index ↦ ASCII code -/
def alphaStd (i : Nat) : UInt8 :=
  if i < 26 then UInt8.ofNat (65 + i)            -- 'A'..'Z'
  else if i < 52 then UInt8.ofNat (97 + (i - 26)) -- 'a'..'z'
  else if i < 62 then UInt8.ofNat (48 + (i - 52)) -- '0'..'9'
  else if i = 62 then 43 else 47                  -- '+' '/'

/-- RFC 4648 Table 2 ("The URL and Filename safe Base 64 Alphabet") -/
def alphaUrl (i : Nat) : UInt8 :=
  if i < 26 then UInt8.ofNat (65 + i)
  else if i < 52 then UInt8.ofNat (97 + (i - 26))
  else if i < 62 then UInt8.ofNat (48 + (i - 52))
  else if i = 62 then 45 else 95                  -- '-' '_'

/-- byte values ↦ 6-bit groups, most significant first; a tail of 1 or 2 bytes yields 2 or 3
groups with the unused low bits zero (RFC 4648 §4) -/
def sextets : List Nat → List Nat
  | a :: b :: c :: rest => a / 4 :: (a % 4 * 16 + b / 16) :: (b % 16 * 4 + c / 64) :: c % 64 :: sextets rest
  | [a, b] => [a / 4, a % 4 * 16 + b / 16, b % 16 * 4]
  | [a] => [a / 4, a % 4 * 16]
  | [] => []

/-- 6-bit groups ↦ byte values; 2 or 3 trailing groups yield 1 or 2 bytes (their unused low bits
are ignored), a single trailing group yields nothing -/
def unsextets : List Nat → List Nat
  | a :: b :: c :: d :: rest => (a * 4 + b / 16) :: (b % 16 * 16 + c / 4) :: (c % 4 * 64 + d) :: unsextets rest
  | [a, b, c] => [a * 4 + b / 16, b % 16 * 16 + c / 4]
  | [a, b] => [a * 4 + b / 16]
  | [_] => []
  | [] => []

/-- unpadded base64url of a byte string -/
def rfc4648url (bs : Bytes) : Bytes := (sextets (bs.map (·.toNat))).map alphaUrl

/-- value of a character of either alphabet (`+ /` as well as `- _`), `none` for a foreign byte -/
def urlVal (c : UInt8) : Option Nat :=
  if 65 ≤ c ∧ c ≤ 90 then some (c.toNat - 65)
  else if 97 ≤ c ∧ c ≤ 122 then some (c.toNat - 71)
  else if 48 ≤ c ∧ c ≤ 57 then some (c.toNat + 4)
  else if c = 45 ∨ c = 43 then some 62
  else if c = 95 ∨ c = 47 then some 63
  else none

/-- What `jwt_base64uri_decode` computes, as a specification: only the text ahead of the first
`=` counts; a length of 1 mod 4, or a foreign byte in that part, rejects; so does an empty result. -/
def decodeSpec (text : Bytes) : Option Bytes :=
  if text.length % 4 = 1 then none
  else match (text.takeWhile (· ≠ 61)).mapM urlVal with
    | none => none
    | some vs =>
      let out := (unsextets vs).map UInt8.ofNat
      if out = [] then none else some out

end Jwt.Base64
