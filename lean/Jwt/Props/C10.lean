import Jwt.Lemmas.Builder
import Jwt.Generated.JsonCalls
import Jwt.Props.C11
import Jwt.Props.C15
import Jwt.Lemmas.PipelineBuilder
import Jwt.Lemmas.PipelineConfig
import Jwt.Lemmas.PipelineClosed
/-!
# C10 — generated tokens are well-formed and say exactly what the builder was told
-/
namespace Jwt.Props.C10
open Jwt Jwt.Base64 Jwt.Generated Jwt.Props.C15

/-- **Shape.** Every string returned by `jwt_builder_generate` is
`b64url(dump H) . b64url(dump P) . S` where `H`, `P` are the per-token header and claims objects,
the first two parts are non-empty and over the URL alphabet without padding (so they contain no
dot and the token splits back uniquely), and `S` is empty for `none`, else the unpadded base64url
of the raw signature the primitive returned. -/
theorem C10_shape (env : Env) (b : Builder) (t : Bytes) (h : (generate env b).2 = some t) :
    ∃ H P, let r := genAfterCb b.cfg env.now
      headSetup r.2.1 (usedAlg r.2.2.2) = .ok H ∧ P = r.2.2.1 ∧
      env.jc.dump H ≠ [] ∧ env.jc.dump P ≠ [] ∧
      (∀ c ∈ uriEncode (env.jc.dump H), Props.C11.isUrlChar c) ∧ (∀ c ∈ uriEncode (env.jc.dump P), Props.C11.isUrlChar c) ∧
      ((usedAlg r.2.2.2 = .none ∧ t = signingInput (uriEncode (env.jc.dump H)) (uriEncode (env.jc.dump P)) ++ [46]) ∨
       (usedAlg r.2.2.2 ≠ .none ∧ ∃ k sig tr, r.2.2.2.key = some k ∧
          sign env k (usedAlg r.2.2.2) (signingInput (uriEncode (env.jc.dump H)) (uriEncode (env.jc.dump P))) = (.ok sig, tr) ∧
          t = signingInput (uriEncode (env.jc.dump H)) (uriEncode (env.jc.dump P)) ++ [46] ++ uriEncode sig)) := by
  obtain ⟨tr, hg⟩ := generate_some env b t h
  obtain ⟨H, tok, _, _, hh, he, ht⟩ := generateCore_ok env b.cfg (some t) tr hg
  cases ht
  obtain ⟨h1, h2, hcase⟩ := encodeToken_ok env H _ _ _ t tr he
  have ne1 : env.jc.dump H ≠ [] := by
    intro e; apply h1; simp [uriEncodeRet, base64Encode, e, encLoop, encTail]
  have ne2 : env.jc.dump (genAfterCb b.cfg env.now).2.2.1 ≠ [] := by
    intro e; apply h2; simp [uriEncodeRet, base64Encode, e, encLoop, encTail]
  refine ⟨H, _, hh, rfl, ne1, ne2, Props.C11.C11_alphabet _, Props.C11.C11_alphabet _, ?_⟩
  rcases hcase with ⟨ha, _, htok⟩ | ⟨ha, k, sig, hk, hs, htok⟩
  · exact Or.inl ⟨ha, htok⟩
  · exact Or.inr ⟨ha, k, sig, tr, hk, hs, htok⟩

theorem n_alg_ne_typ : N.alg ≠ N.typ := by decide

/-- a string set of a well-formed name/value on an object, in the two forms `jwt_head_setup` uses -/
theorem strSet_spec (w : Json) (hw : IsObj w) (n s : Bytes) (hn : n ≠ []) (hun : validUtf8 n = true)
    (hus : validUtf8 s = true) (rp : Bool) :
    let r := setter (fun _ => none) w { type := .str, name := some n, strVal := some s, replace := rp }
    IsObj r.1 ∧
    (((abs w n).isSome = true ∧ rp = false ∧ r = (w, .exist)) ∨
     (((abs w n).isSome = false ∨ rp = true) ∧ r.2 = .none ∧ abs r.1 n = some (.str s) ∧ ∀ k, k ≠ n → abs r.1 k = abs w k)) := by
  have hno : nameOk (some n) = some n := by cases n with | nil => exact absurd rfl hn | cons _ _ => rfl
  refine ⟨setter_isObj _ w hw _, ?_⟩
  by_cases hcase : (abs w n).isSome = true ∧ rp = false
  · left
    refine ⟨hcase.1, hcase.2, ?_⟩
    exact C15_set_exist _ w _ n hno hcase.1 hcase.2 (Or.inl (by simp [reqValue, hus]))
  · right
    have hok : (abs w n).isSome = false ∨ rp = true := by
      cases h1 : (abs w n).isSome <;> cases rp <;> simp_all
    have := C15_set_ok (fun _ => none) w hw { type := .str, name := some n, strVal := some s, replace := rp } n (.str s) hno hun
      (by simp [reqValue, hus]) hok
    exact ⟨hok, this⟩

/-- **Header.** `jwt_head_setup` on the per-token headers `h` (an object): `alg` is forced to the
name of the algorithm actually used — over whatever the application or the callback put there —,
`typ` becomes `"JWT"` on signed tokens unless `h` already has one (of any type), every other member
is untouched. It fails for an algorithm that has no name. -/
theorem C10_header (h : Json) (hobj : IsObj h) (alg : Alg) (H : Json) (hs : headSetup h alg = .ok H) :
    (∃ name, algStr alg = some name ∧ abs H N.alg = some (.str name)) ∧
    (abs H N.typ = if alg ≠ .none ∧ (abs h N.typ).isSome = false then some (.str N.JWT) else abs h N.typ) ∧
    (∀ k, k ≠ N.alg → k ≠ N.typ → abs H k = abs h k) := by
  have hne := n_alg_ne_typ
  have u1 : validUtf8 N.alg = true := by decide
  have u2 : validUtf8 N.typ = true := by decide
  have u3 : validUtf8 N.JWT = true := by decide
  -- step 1: the default `typ`
  obtain ⟨h1, hobj1, htyp1, hoth1, heq⟩ : ∃ h1, IsObj h1 ∧
      (abs h1 N.typ = if alg ≠ .none ∧ (abs h N.typ).isSome = false then some (.str N.JWT) else abs h N.typ) ∧
      (∀ k, k ≠ N.typ → abs h1 k = abs h k) ∧
      headSetup h alg = (let h2 := setter (fun _ => none) h1 { type := .str, name := some N.alg, strVal := algStr alg, replace := true }
        if h2.2 ≠ .none then .error .encode else .ok h2.1) := by
    unfold headSetup
    by_cases ha : alg = .none
    · exact ⟨h, hobj, by simp [ha], fun _ _ => rfl, by simp [ha]⟩
    · obtain ⟨ho, hc⟩ := strSet_spec h hobj N.typ N.JWT (by decide) u2 u3 false
      rcases hc with ⟨hex, _, heq⟩ | ⟨hnew, hcode, hget, hoth⟩
      · refine ⟨h, hobj, ?_, fun _ _ => rfl, ?_⟩
        · simp [hex]
        · simp only [ha, ne_eq, not_false_eq_true, if_true, heq]
          simp
      · have hnew' : (abs h N.typ).isSome = false := by rcases hnew with h' | h' <;> simp_all
        refine ⟨_, ho, ?_, hoth, ?_⟩
        · simp [ha, hnew', hget]
        · simp only [ha, ne_eq, not_false_eq_true, if_true, hcode]
          simp
  rw [heq] at hs
  -- step 2: `alg` forced
  cases hname : algStr alg with
  | none =>
    exfalso
    simp only [hname] at hs
    have : (setter (fun _ => none) h1 { type := .str, name := some N.alg, strVal := none, replace := true }).2 = .invalid := by
      simp [setter, nameOk, N.alg]
    simp [this] at hs
  | some name =>
    have hvn : validUtf8 name = true := by
      have : ∀ a ∈ Alg.all, ∀ s, algStr a = some s → validUtf8 s = true := by decide +kernel
      exact this alg (Alg.mem_all alg) name hname
    obtain ⟨ho2, hc2⟩ := strSet_spec h1 hobj1 N.alg name (by decide) u1 hvn true
    rcases hc2 with ⟨_, hfalse, _⟩ | ⟨_, hcode, hget, hoth⟩
    · simp at hfalse
    · simp only [hname, hcode, ne_eq, not_true_eq_false, if_false, Except.ok.injEq] at hs
      subst hs
      refine ⟨⟨name, rfl, hget⟩, ?_, ?_⟩
      · rw [hoth N.typ (fun e => hne e.symm), htyp1]
      · intro k hk1 hk2
        rw [hoth k hk1, hoth1 k hk2]

/-- **Claims before the callback**: the builder's claims, with `iat = now` unless disabled,
`nbf = now + offset` and `exp = now + offset` when enabled — these overriding same-named builder
claims — and nothing else changed. -/
theorem C10_claims (b : BuilderCfg) (hobj : IsObj b.payload) (now : Int) :
    (abs (baseClaims b now) N.iat = if b.mask.iat then some (.int now) else abs b.payload N.iat) ∧
    (abs (baseClaims b now) N.nbf = if b.mask.nbf then some (.int (now + b.nbfOff)) else abs b.payload N.nbf) ∧
    (abs (baseClaims b now) N.exp = if b.mask.exp then some (.int (now + b.expOff)) else abs b.payload N.exp) ∧
    (∀ k, k ≠ N.iat → k ≠ N.nbf → k ≠ N.exp → abs (baseClaims b now) k = abs b.payload k) := by
  have step : ∀ (w : Json) (hw : IsObj w) (n : Bytes) (v : Int), n ≠ [] → validUtf8 n = true →
      IsObj (setIntClaim w n v) ∧ abs (setIntClaim w n v) n = some (.int v) ∧
      ∀ k, k ≠ n → abs (setIntClaim w n v) k = abs w k := by
    intro w hw n v hn hu
    have hno : nameOk (some n) = some n := by cases n with | nil => exact absurd rfl hn | cons _ _ => rfl
    have := C15_set_ok (fun _ => none) w hw { type := .int, name := some n, intVal := v, replace := true } n (.int v) hno hu
      (by simp [reqValue]) (Or.inr rfl)
    exact ⟨setter_isObj _ w hw _, this.2.1, this.2.2⟩
  have d1 : N.iat ≠ N.nbf := by decide
  have d2 : N.iat ≠ N.exp := by decide
  have d3 : N.nbf ≠ N.exp := by decide
  unfold baseClaims
  simp only
  -- three optional overwrites in sequence
  obtain ⟨c1, ho1, g1, o1⟩ : ∃ c1, IsObj c1 ∧ (abs c1 N.iat = if b.mask.iat then some (.int now) else abs b.payload N.iat) ∧
      (∀ k, k ≠ N.iat → abs c1 k = abs b.payload k) ∧ c1 = (if b.mask.iat then setIntClaim b.payload N.iat now else b.payload) := by
    cases b.mask.iat
    · exact ⟨_, hobj, by simp, fun _ _ => rfl, by simp⟩
    · obtain ⟨a, b', c⟩ := step b.payload hobj N.iat now (by decide) (by decide)
      exact ⟨_, a, by simp [b'], c, by simp⟩
  obtain ⟨o1, e1⟩ := o1
  obtain ⟨c2, ho2, g2, o2, e2⟩ : ∃ c2, IsObj c2 ∧ (abs c2 N.nbf = if b.mask.nbf then some (.int (now + b.nbfOff)) else abs c1 N.nbf) ∧
      (∀ k, k ≠ N.nbf → abs c2 k = abs c1 k) ∧ c2 = (if b.mask.nbf then setIntClaim c1 N.nbf (now + b.nbfOff) else c1) := by
    cases b.mask.nbf
    · exact ⟨_, ho1, by simp, fun _ _ => rfl, by simp⟩
    · obtain ⟨a, b', c⟩ := step c1 ho1 N.nbf (now + b.nbfOff) (by decide) (by decide)
      exact ⟨_, a, by simp [b'], c, by simp⟩
  obtain ⟨c3, ho3, g3, o3, e3⟩ : ∃ c3, IsObj c3 ∧ (abs c3 N.exp = if b.mask.exp then some (.int (now + b.expOff)) else abs c2 N.exp) ∧
      (∀ k, k ≠ N.exp → abs c3 k = abs c2 k) ∧ c3 = (if b.mask.exp then setIntClaim c2 N.exp (now + b.expOff) else c2) := by
    cases b.mask.exp
    · exact ⟨_, ho2, by simp, fun _ _ => rfl, by simp⟩
    · obtain ⟨a, b', c⟩ := step c2 ho2 N.exp (now + b.expOff) (by decide) (by decide)
      exact ⟨_, a, by simp [b'], c, by simp⟩
  rw [← e1, ← e2, ← e3]
  refine ⟨?_, ?_, ?_, ?_⟩
  · rw [o3 _ d2, o2 _ d1, g1]
  · rw [o3 _ d3, g2]
    split
    · rfl
    · exact o1 _ (fun e => d1 e.symm)
  · rw [g3]
    split
    · rfl
    · rw [o2 _ (fun e => d3 e.symm), o1 _ (fun e => d2 e.symm)]
  · intro k k1 k2 k3
    rw [o3 k k3, o2 k k2, o1 k k1]

/-- **Offsets**: `time_offset(claim, s)` switches the claim on iff `s > 0` (generated `__DISABLE = 0`);
`enable_iat` does what it says and returns the previous setting. -/
theorem C10_offsets (b : Builder) (s : Int) :
    ((b.timeOffset .exp s).1.cfg.mask.exp = true ↔ s > 0) ∧ (b.timeOffset .exp s).1.cfg.expOff = s ∧
    ((b.timeOffset .nbf s).1.cfg.mask.nbf = true ↔ s > 0) ∧ (b.timeOffset .nbf s).1.cfg.nbfOff = s := by
  have hd : builderDisable = 0 := by decide
  simp only [Builder.timeOffset, hd]
  refine ⟨?_, trivial, ?_, trivial⟩ <;> simp <;> omega

/-- **Isolation**: generating — succeeding or failing, with any callback — leaves the builder's
configuration (headers, claims, key, algorithm, switches, offsets, callback) exactly as it was. -/
theorem C10_isolated (env : Env) (b : Builder) : (generate env b).1.cfg = b.cfg := by
  unfold generate Builder.writeError
  cases hg : generateCore env b.cfg with
  | mk ex rest => cases ex <;> rfl

/-- **Signing with a public-only key is refused**, by `setkey` and when the callback selects it. -/
theorem C10_private (env : Env) (b : Builder) (alg : Alg) (k : KeyItem) (hk : k.isPrivate = false) :
    (b.setkey alg (some k)).2 = 1 ∧
    ((genAfterCb b.cfg env.now).2.2.2.key = some k → (generate env b).2 = none) := by
  constructor
  · simp [Builder.setkey, setkeyCheck, hk]
  · intro hsel
    cases hg : (generate env b).2 with
    | none => rfl
    | some t =>
      exfalso
      obtain ⟨tr, hc⟩ := generate_some env b t hg
      obtain ⟨_, _, _, hs, _⟩ := generateCore_ok env b.cfg (some t) tr hc
      rw [hsel] at hs
      simp [setkeyCheck, hk] at hs

/-! ### non-vacuity -/
example : IsObj Builder.new.cfg.payload ∧ IsObj Builder.new.cfg.headers := ⟨⟨_, rfl⟩, ⟨_, rfl⟩⟩
example : Builder.new.cfg.mask = { iat := true } := by decide
example : abs (baseClaims Builder.new.cfg 1234) N.iat = some (.int 1234) := by rfl
example : ∃ H, headSetup (.obj [(N.alg, .int 3)]) .hs256 = .ok H ∧ abs H N.alg = some (.str [72, 83, 50, 53, 54]) ∧
    abs H N.typ = some (.str N.JWT) := ⟨_, by rfl, by rfl, by rfl⟩

/-- **What the JSON oracle stands for** (generated from the library sources): the only places where libjwt turns
text into a JSON tree or back, with the flags it passes. Token header and payload are printed by `write_js` with
`JSON_SORT_KEYS | JSON_COMPACT` and nothing else (no precision, no ASCII escaping, no embedding), token segments
are parsed with flags `0` (objects only, duplicates allowed by jansson's default, no NUL escapes), JWKS text with
`JSON_DECODE_ANY`, JSON-typed sets with `JSON_REJECT_DUPLICATES`, JSON-typed gets with sorted keys and the
caller's choice of compact or 4-space indentation. The model's `JsonCodec` and the harness's `jsonlib.py` are
written for exactly this table; a flag added or dropped fails here at build time. -/
theorem C10_json_calls :
    Generated.jsonCalls = [("jwks.c", "__jwks_load_strn", "json_loadb", "JSON_DECODE_ANY"),
      ("jwks.c", "jwks_load_fromfile", "json_load_file", "JSON_DECODE_ANY"),
      ("jwks.c", "jwks_load_fromfp", "json_loadf", "JSON_DECODE_ANY"),
      ("jwt-encode.c", "write_js", "json_dumps", "JSON_SORT_KEYS|JSON_COMPACT"),
      ("jwt-setget.c", "jwt_get_json", "json_dumps", "var:JSON_COMPACT|JSON_INDENT(4)|JSON_SORT_KEYS"),
      ("jwt-setget.c", "jwt_set_json", "json_loads", "var:JSON_REJECT_DUPLICATES"),
      ("jwt-verify.c", "jwt_base64uri_decode_to_json", "json_loads", "0")] := by decide

/-- **`jwt_builder_generate` and `jwt_encode` are the source's.** The order of the tests of `jwt_builder_generate`,
`jwt_head_setup` and `jwt_encode` is *generated* from `jwt-common.c` / `jwt-encode.c`
(`Jwt/Generated/Pipeline.lean`). The model returns a token exactly when the generated `jwt_builder_generate`, fed with
the model's quantities, returns non-NULL; a token comes out of the model's `encodeToken` exactly when the generated
`jwt_encode` returns 0; `jwt_head_setup` yields headers exactly when the generated one returns 0. -/
theorem C10_generate_is_source (env : Env) (b : Builder) :
    ((generate env b).2.isSome ↔ (builderGenerateGen env b.cfg).1 ≠ 0) :=
  (builderGenerate_generated env b).1

theorem C10_encode_is_source (env : Env) (headers claims : Json) (alg : Alg) (key : Option KeyItem) (signRet : Nat) (hs : signRet ≠ 0) :
    (∃ t, (encodeToken env headers claims alg key).1 = .ok t) ↔ (encodeGen env headers claims alg key signRet).1 = 0 :=
  encode_generated env headers claims alg key signRet hs

theorem C10_head_setup_is_source (headers : Json) (alg : Alg) (x : Bool) :
    ((∃ h, headSetup headers alg = .ok h) ↔
      (Jwt.Generated.Pipeline.headSetup (alg ≠ .none) (if alg ≠ .none then (typSet headers alg).2 ≠ .none else x) ((typSet headers alg).2 ≠ .exist)
        ((algSet (typSet headers alg).1 alg).2 ≠ .none)).1 = 0) :=
  (headSetup_generated headers alg x).1

-- in the generated `jwt_encode`, an unsigned token never reaches `jwt_sign`; a signed one depends on its outcome
example : (Jwt.Generated.Pipeline.encode false false false false false false true true 7 false false).1 = 0 := by decide
example : (Jwt.Generated.Pipeline.encode false false false false false false false true 7 false false) = (7, true) := by decide

/-- `jwt_builder_time_offset` as generated from the source stores the offset as passed (any size) and switches the claim on
exactly when it is positive -/
theorem C10_offset_is_source (b : Builder) (c : ClaimId) (secs : Int) :
    let r := Jwt.Generated.Pipeline.timeSpan false (c = .exp) (c = .nbf) (secs ≤ Jwt.Generated.builderDisable)
    (b.timeOffset c secs).2 = r.1 ∧ (r.2.2.1 = true → (b.timeOffset c secs).1.cfg.expOff = secs) ∧ (r.2.2.2.1 = true → (b.timeOffset c secs).1.cfg.nbfOff = secs) :=
  ⟨(builder_timeOffset_generated b c secs).1, fun h => ((builder_timeOffset_generated b c secs).2.1 h).1, fun h => ((builder_timeOffset_generated b c secs).2.2 h).1⟩

/-- the generated `jwt_encode` returns 0 exactly when header and payload were serialised and encoded, the buffers
allocated and -- unless the algorithm is none, where nothing is signed -- `jwt_sign` and the encoding of its result
succeeded (all combinations, kernel evaluation) -/
theorem C10_encode_closed_is_source : ∀ a b c d e f g h i j : Bool,
    (Jwt.Generated.Pipeline.encode a b c d e f g h 1 i j).1 = (if !a && !b && !c && !d && !e && !f && (g || (!h && !i && !j)) then 0 else 1) :=
  fun a b c d e f g h i j => (Jwt.Generated.Pipeline.encode_closed a b c d e f g h i j).1

end Jwt.Props.C10
