import Jwt.Conc
import Jwt.Generated.ConcFacts
/-!
# C18 — separate builders/checkers sharing one keyring are safe to use concurrently

What a theorem can carry here: (1) in the model every operation is a function of read-only shared
state and the caller's own object, hence **every interleaving** of any number of threads gives
each thread exactly the results — tokens and verdicts — of running its calls one after another;
(2) over facts *generated from the freshly built library* (its symbol table and sources): the only
writable static objects are the provider pointer, the provider tables and the allocator hooks, and
nothing assigns them except the documented setters — so a function-local `static` buffer or a lazily
initialised global on the sign/verify path changes a generated definition and breaks a theorem at
build time. Data-race freedom of the compiled code and of OpenSSL/GnuTLS internals on shared keys
is a runtime property: it is witnessed by ThreadSanitizer stress runs (suite `threads`), PARTIAL.
-/
namespace Jwt.Props.C18
open Jwt Jwt.Conc Jwt.Generated

variable {Obj Op Res Shared : Type}

theorem proj_cons_eq {α : Type} (t : Nat) (a : α) (l : List (Nat × α)) : proj t ((t, a) :: l) = a :: proj t l := by
  simp [proj]

theorem proj_cons_ne {α : Type} (t u : Nat) (a : α) (l : List (Nat × α)) (h : u ≠ t) : proj t ((u, a) :: l) = proj t l := by
  simp [proj, h]

/-- **Every interleaving equals the sequential runs.** For every schedule and every thread `t`: the
results thread `t` observes, and the final state of its object, are those of running `t`'s own
operations alone, in order, from its initial object. -/
theorem C18_interleave (sys : Sys Obj Op Res Shared) (sh : Shared) (objs : Nat → Obj) (sched : List (Nat × Op)) (t : Nat) :
    proj t (runSched sys sh objs sched).2 = (runThread sys sh (objs t) (proj t sched)).2 ∧
    (runSched sys sh objs sched).1 t = (runThread sys sh (objs t) (proj t sched)).1 := by
  induction sched generalizing objs with
  | nil => exact ⟨rfl, rfl⟩
  | cons e rest ih =>
    obtain ⟨u, op⟩ := e
    simp only [runSched]
    by_cases h : u = t
    · subst h
      have := ih (fun v => if v = u then (sys.step sh (objs u) op).1 else objs v)
      simp only [if_true] at this
      rw [proj_cons_eq, proj_cons_eq]
      simp only [runThread]
      exact ⟨by rw [this.1], this.2⟩
    · have := ih (fun v => if v = u then (sys.step sh (objs u) op).1 else objs v)
      have hne : t ≠ u := fun e => h e.symm
      simp only [hne, if_false] at this
      rw [proj_cons_ne t u _ _ h, proj_cons_ne t u _ _ h]
      exact this

/-- instance for libjwt's model: whatever the interleaving of generate/verify calls of N threads on
their own builders/checkers (sharing keys, provider and oracles read-only), each thread gets the
tokens and verdicts of its sequential run — in particular identical tokens for the deterministic
algorithms, and two schedules of the same per-thread programs agree thread by thread. -/
theorem C18_libjwt (objs : Nat → Builder × Checker) (s1 s2 : List (Nat × JOp)) (t : Nat)
    (hsame : proj t s1 = proj t s2) :
    proj t (runSched jwtSys () objs s1).2 = proj t (runSched jwtSys () objs s2).2 := by
  rw [(C18_interleave jwtSys () objs s1 t).1, (C18_interleave jwtSys () objs s2 t).1, hsame]

/-- **Footprint (generated).** The writable static objects of the library are exactly the provider
pointer, the provider list, the two provider tables and the two allocator hooks — no function-local
static, no cache — … -/
theorem C18_statics : mutableStatics.map (·.2.1) = ["jwt_ops", "jwt_ops_available", "pfn_free", "pfn_malloc", "jwt_gnutls_ops", "jwt_openssl_ops"] := by
  decide

/-- … assigned only by the documented setters (which the property tells threads not to call
concurrently), never through a provider table, and no key item is cast to a writable pointer. -/
theorem C18_writers :
    staticWriters = [("jwt_ops", ["jwt_init", "jwt_set_crypto_ops", "jwt_set_crypto_ops_t"]), ("pfn_free", ["jwt_set_alloc"]),
                     ("pfn_malloc", ["jwt_set_alloc"])] ∧
    opsTableWrites = 0 ∧ keyConstCasts = 0 := by decide

/-! ### non-vacuity: a concrete interleaving of two threads -/
def toy : Sys Nat Nat Nat Unit := { step := fun _ o op => (o + op, o + op) }
/-- **Lookups and getters on a keyring do not write it** (generated from `jwks.c`): `jwks_find_bykid`,
`jwks_item_get`, the counters and every `jwks_item_*` getter contain no list mutation, no allocation or
free, no buffer write and no store through a pointer — so threads may share a keyring for lookups (the
usual callback pattern: pick the key by the token's `kid`). -/
theorem C18_queries_readonly : ∀ q ∈ keyringQueryWrites, q.2 = 0 := by decide

/-- **The library never reconfigures the process behind the application's back**: the only call to a
process-wide switch from inside library code is the one-time provider selection in the load-time
constructor `jwt_init`; no sign, verify, parse or keyring path calls `jwt_set_crypto_ops(_t)` or
`jwt_set_alloc`. -/
theorem C18_no_internal_reconfig : internalReconfigCalls = [("jwt_set_crypto_ops", "jwt_init")] := by decide

/-- **No call into a process-wide buffer**: the library sources call none of the C / OpenSSL functions that return or fill a
buffer shared by all threads (`strtok`, `localtime`, `strerror`, `rand`, `ERR_error_string(…, NULL)`, …) -- such a buffer
lives outside `libjwt.a`, so the symbol table (`C18_statics`) cannot see it and ThreadSanitizer does not see writes made inside
an uninstrumented library. -/
theorem C18_no_shared_buffer_calls : nonReentrantCalls = [] := by decide

example : (runSched toy () (fun _ => 0) [(0, 1), (1, 10), (0, 2), (1, 20)]).2 = [(0, 1), (1, 10), (0, 3), (1, 30)] := by decide
example : proj 1 (runSched toy () (fun _ => 0) [(0, 1), (1, 10), (0, 2), (1, 20)]).2 = (runThread toy () 0 [10, 20]).2 := by decide

end Jwt.Props.C18
