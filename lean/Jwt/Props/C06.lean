import Jwt.Lemmas.Verify
import Jwt.Props.C11
import Jwt.Lemmas.Pipeline
import Jwt.Lemmas.PipelineClosed
/-!
# C06 — arbitrary token bytes: terminating, in-bounds, rejected unless well-formed

* **Termination**: every function of the model (`splitDot`, `uriDecode`, `decLoop`, `parse`,
  `verify`) is defined by structural recursion — Lean accepted the definitions without `partial`,
  fuel or well-founded recursion, so each terminates on every input.
* **Index arithmetic**: the buffer accesses of the two decoders `jwt_parse` reaches are covered by
  `C11_bounds_decode` (re-exported below for the exact call made here).
* **Memory safety / UB / leaks of the compiled code** are runtime facts; they are witnessed by the
  ASan/UBSan/LSan correspondence runs (suite `token-bytes`), not by a theorem.
-/
namespace Jwt.Props.C06
open Jwt Jwt.Base64

/-- **Rejection.** `jwt_checker_verify` returns 0 only for a string with two dots, whose first
segment base64url-decodes to text (cut at its first NUL) that loads as a JSON value with a *string*
member `alg` naming a known algorithm, and whose second segment decodes to text that loads as JSON. -/
theorem C06_reject (env : Env) (ck : Checker) (tok : Option Bytes) (h : (verify env ck tok).2 = 0) :
    ∃ t hd pl sg hb pb hj pj a s, tok = some t ∧ t = hd ++ [46] ++ pl ++ [46] ++ sg ∧
      (46 : UInt8) ∉ hd ∧ (46 : UInt8) ∉ pl ∧
      uriDecode hd = some hb ∧ env.jc.load (cstr hb) = some hj ∧
      hj.objGet N.alg = some (.str s) ∧ algStr a = some s ∧ a ≠ .inval ∧
      uriDecode pl = some pb ∧ env.jc.load (cstr pb) = some pj := by
  obtain ⟨t, rfl, _, hok⟩ := (verify_rc_zero env ck tok).1 h
  obtain ⟨p, hp, _⟩ := verifyCore_ok env ck.cfg t hok
  obtain ⟨hsplit, hd1, hd2, hh, hc, ha⟩ := parse_ok env.jc t p hp
  obtain ⟨s, hs, hname, hinv⟩ := parseHeadAlg_ok _ _ ha
  unfold decodeToJson at hh hc
  cases hdh : uriDecode p.head with
  | none => simp [hdh] at hh
  | some hb =>
    cases hdp : uriDecode p.payload with
    | none => simp [hdp] at hc
    | some pb =>
      simp only [hdh] at hh
      simp only [hdp] at hc
      exact ⟨t, p.head, p.payload, p.sig, hb, pb, p.headers, p.claims, p.alg, s, rfl, hsplit, hd1, hd2,
        hdh, hh, hs, hname, hinv, hdp, hc⟩

/-- a string without two dots is rejected -/
theorem C06_no_dots (env : Env) (ck : Checker) (t : Bytes)
    (h : (46 : UInt8) ∉ t ∨ ∃ a b, t = a ++ [46] ++ b ∧ (46 : UInt8) ∉ a ∧ (46 : UInt8) ∉ b) :
    (verify env ck (some t)).2 ≠ 0 := by
  intro h0
  obtain ⟨t', hd, pl, sg, _, _, _, _, _, _, ht, hsplit, hd1, hd2, _⟩ := C06_reject env ck (some t) h0
  cases ht
  rcases h with h | ⟨a, b, hab, ha, hb⟩
  · apply h; rw [hsplit]; simp
  · -- the first dot of `t` splits it uniquely
    have e1 : splitDot t = some (a, b) := by
      rw [hab]
      have := splitDot_append a b ha
      simpa using this
    have e2 : splitDot t = some (hd, pl ++ [46] ++ sg) := by
      rw [hsplit]
      have := splitDot_append hd (pl ++ [46] ++ sg) hd1
      simpa using this
    rw [e1] at e2
    simp only [Option.some.injEq, Prod.mk.injEq] at e2
    apply hb
    rw [e2.2]; simp

/-- the decoder call `jwt_parse` makes stays inside its buffers (instance of `C11_bounds_decode`) -/
theorem C06_bounds (src buf : Bytes) (z : Nat) (hz : padCount src.length = some z)
    (hbuf : buf.length = decodeAlloc src.length z) :
    base64Decode (prepare src z) buf ≠ .oob ∧
    ∀ out j, uriDecodeBuf src buf = some (out, j) → j < out.length :=
  ⟨(Props.C11.C11_bounds_decode src buf z hz hbuf).1,
   fun out j h => ((Props.C11.C11_bounds_decode src buf z hz hbuf).2.2 out j h).1⟩

/-! ### non-vacuity -/
example : (46 : UInt8) ∉ ([101, 51, 48] : Bytes) := by decide
example : ∃ a b : Bytes, ([101, 46, 102] : Bytes) = a ++ [46] ++ b ∧ (46 : UInt8) ∉ a ∧ (46 : UInt8) ∉ b :=
  ⟨[101], [102], by decide⟩

/-- **The parse path is the source's.** The order of the tests of `jwt_parse`, `jwt_parse_head` and
`jwt_parse_payload` is *generated* from `jwt-verify.c` (`Jwt/Generated/Pipeline.lean`); the model parses a token
exactly when the generated `jwt_parse` returns 0, so everything proved about `parse` (C06_reject, C06_no_dots) is about
the order of tests that is in the code now. -/
theorem C06_parse_is_source (jc : JsonCodec) (tok : Bytes) (x1 x2 x3 x4 x5 x6 : Bool) :
    ((∃ p, parse jc tok = .ok p) ↔ (parseGen jc tok x1 x2 x3 x4 x5 x6).1 = 0) ∧
    ((parseGen jc tok x1 x2 x3 x4 x5 x6).1 = 0 ∨ (parseGen jc tok x1 x2 x3 x4 x5 x6).1 = 1) :=
  parse_generated jc tok x1 x2 x3 x4 x5 x6

/-- a header segment is taken exactly when the generated `jwt_parse_head` returns 0, and every refusal writes a message -/
theorem C06_head_is_source (jc : JsonCodec) (head : Bytes) (x1 x2 x3 : Bool) :
    ((∃ hs a, decodeToJson jc head = some hs ∧ parseHeadAlg hs = .ok a) ↔ (parseHeadGen jc head x1 x2 x3).1 = 0) ∧
    ((parseHeadGen jc head x1 x2 x3).2 = true ↔ (parseHeadGen jc head x1 x2 x3).1 = 1) :=
  ⟨(parseHead_generated jc head x1 x2 x3).1, (parseHead_generated jc head x1 x2 x3).2.2⟩

-- the premises are met: a token without dots, one with a single dot, one whose header is not base64
example : (Jwt.Generated.Pipeline.parse false true false false false).1 = 1 := by decide
example : (Jwt.Generated.Pipeline.parse false false false false false).1 = 0 := by decide

/-- the generated `jwt_parse` returns 0 exactly when both dots were found (and the copy made) and header and payload parsed -/
theorem C06_parse_closed_is_source : ∀ a b c d e : Bool,
    (Jwt.Generated.Pipeline.parse a b c d e).1 = (if !a && !b && !c && !d && !e then 0 else 1) :=
  fun a b c d e => (Jwt.Generated.Pipeline.parse_closed a b c d e).1

end Jwt.Props.C06
