import Jwt.Lemmas.Verify
import Jwt.Checker
import Jwt.Builder
import Jwt.Lemmas.PipelineConfig
/-!
# C13 — a verdict depends only on configuration, token and clock (checker side; builder in C13b)
-/
namespace Jwt.Props.C13
open Jwt

/-- a freshly created, identically configured checker -/
def fresh (ck : Checker) : Checker := { cfg := ck.cfg, error := false, msg := none }

/-- **One call.** The return value does not depend on the error state the checker was in, and the
call leaves the configuration untouched. -/
theorem C13_verify (env : Env) (ck : Checker) (tok : Option Bytes) :
    (verify env ck tok).2 = (verify env (fresh ck) tok).2 ∧ (verify env ck tok).1.cfg = ck.cfg := by
  unfold verify fresh Checker.writeError
  cases tok with
  | none => simp
  | some t =>
    cases t with
    | nil => simp
    | cons x xs => simp only; cases (verifyCore env ck.cfg (x :: xs)).1 <;> simp

/-- the calls that may be interleaved with verifications without touching the configuration -/
inductive Call where
  | verify (env : Env) (tok : Option Bytes)
  | errorClear

def run (ck : Checker) : Call → Checker × Option Nat
  | .verify env tok => let r := verify env ck tok; (r.1, some r.2)
  | .errorClear => (ck.errorClear, none)

/-- run a history, collecting the return values -/
def runAll : Checker → List Call → Checker × List (Option Nat)
  | ck, [] => (ck, [])
  | ck, c :: cs => let r := run ck c; let rest := runAll r.1 cs; (rest.1, r.2 :: rest.2)

/-- what fresh checkers would have answered, call by call -/
def freshAnswers (ck : Checker) : List Call → List (Option Nat)
  | [] => []
  | .verify env tok :: cs => some (verify env (fresh ck) tok).2 :: freshAnswers ck cs
  | .errorClear :: cs => none :: freshAnswers ck cs

theorem freshAnswers_cfg (a b : Checker) (h : a.cfg = b.cfg) (cs : List Call) :
    freshAnswers a cs = freshAnswers b cs := by
  induction cs with
  | nil => rfl
  | cons c cs ih => cases c <;> simp [freshAnswers, fresh, h, ih]

/-- **Histories.** Whatever tokens were verified before (valid, invalid at any layer, NULL, empty),
and whether or not errors were cleared in between, the i-th verdict on a reused checker equals the
verdict a fresh identically configured checker gives for that token at that time. -/
theorem C13_history (ck : Checker) (calls : List Call) :
    (runAll ck calls).2 = freshAnswers ck calls ∧ (runAll ck calls).1.cfg = ck.cfg := by
  induction calls generalizing ck with
  | nil => simp [runAll, freshAnswers]
  | cons c cs ih =>
    cases c with
    | verify env tok =>
      have h1 := C13_verify env ck tok
      have h2 := ih (verify env ck tok).1
      simp only [runAll, run, freshAnswers]
      refine ⟨?_, by rw [h2.2, h1.2]⟩
      rw [h2.1, h1.1, freshAnswers_cfg _ ck h1.2]
    | errorClear =>
      have h2 := ih ck.errorClear
      simp only [runAll, run, freshAnswers]
      refine ⟨?_, by rw [h2.2]; rfl⟩
      rw [h2.1, freshAnswers_cfg ck.errorClear ck rfl]

/-- **Builders.** What `generate` returns does not depend on the builder's error state (in
particular not on earlier failed generates — in the callback or on the key — or on error_clear), and
generating leaves the configuration unchanged; so a reused builder generates what a fresh
identically configured one would. -/
theorem C13_generate (env : Env) (b : Builder) :
    (generate env b).2 = (generate env { cfg := b.cfg, error := false, msg := none }).2 ∧
    (generate env b).1.cfg = b.cfg := by
  unfold generate Builder.writeError
  cases hg : generateCore env b.cfg with
  | mk ex rest => cases ex <;> exact ⟨rfl, rfl⟩

/-- run a list of generates (each under its own clock/provider/oracles), collecting the tokens -/
def genAll : Builder → List Env → Builder × List (Option Bytes)
  | b, [] => (b, [])
  | b, e :: es => let r := generate e b; let rest := genAll r.1 es; (rest.1, r.2 :: rest.2)

theorem C13_generate_history (b : Builder) (envs : List Env) :
    (genAll b envs).2 = envs.map (fun e => (generate e { cfg := b.cfg, error := false, msg := none }).2) ∧
    (genAll b envs).1.cfg = b.cfg := by
  induction envs generalizing b with
  | nil => exact ⟨rfl, rfl⟩
  | cons e es ih =>
    have h1 := C13_generate e b
    have h2 := ih (generate e b).1
    simp only [genAll, List.map_cons]
    refine ⟨?_, by rw [h2.2, h1.2]⟩
    rw [h2.1, h1.1, h1.2]

/-! ### non-vacuity: a state with the flag set and a stale message is a legitimate starting point -/
example : (fresh { cfg := Checker.new.cfg, error := true, msg := some .claims }).error = false := rfl

/-- **The configuration calls are the source's.** `FUNC(setkey)` and `FUNC(setcb)` are *generated* from `jwt-common.c`
with a flag that says whether the arguments were stored. A refused `setkey` returns 1 and leaves key and algorithm as
they were (the verdicts that follow depend on the configuration in force, which is the old one); an admitted one stores
both. -/
theorem C13_setkey_is_source (ck : Checker) (alg : Alg) (key : Option KeyItem) :
    (ck.setkey alg key).2 = (Jwt.Generated.Pipeline.setkey (setkeyCheck .checker alg key).isSome).1 ∧
    ((Jwt.Generated.Pipeline.setkey (setkeyCheck .checker alg key).isSome).2.2 = false →
      (ck.setkey alg key).1.cfg.alg = ck.cfg.alg ∧ (ck.setkey alg key).1.cfg.key = ck.cfg.key) :=
  ⟨(checker_setkey_generated ck alg key).1, (checker_setkey_generated ck alg key).2.2⟩

/-- a context-only `setcb` (NULL callback, non-NULL context) keeps the installed callback, in the model and in the
generated code (`stored` stays false); without an installed callback it is refused with a message -/
theorem C13_setcb_ctx_is_source (ck : Checker) :
    ck.setcbCtx.2 = (Jwt.Generated.Pipeline.setcb false true ck.cfg.cb.isNone false).1 ∧
    (Jwt.Generated.Pipeline.setcb false true ck.cfg.cb.isNone false).2.2 = false ∧ ck.setcbCtx.1.cfg.cb = ck.cfg.cb :=
  ⟨(checker_setcb_generated ck none).2.1, (checker_setcb_generated ck none).2.2.1, (checker_setcb_generated ck none).2.2.2.1⟩

theorem C13_builder_config_is_source (b : Builder) (alg : Alg) (key : Option KeyItem) :
    (b.setkey alg key).2 = (Jwt.Generated.Pipeline.setkey (setkeyCheck .builder alg key).isSome).1 ∧
    b.setcbCtx.1.cfg.cb = b.cfg.cb :=
  ⟨(builder_setkey_generated b alg key).1, (builder_setcb_generated b none).2.2.2.1⟩

end Jwt.Props.C13
