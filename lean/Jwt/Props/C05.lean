import Jwt.Props.C10
import Jwt.Lemmas.Verify
/-!
# C05 — every generated token verifies and delivers the same header and claims

The laws about the delegated parts are explicit hypotheses (never axioms): jansson's
`load (dump t) = t` for the two objects involved, a non-empty MAC / signature, and the primitive's
own "what `sign` produced, `verify` accepts" (possibly across providers). Everything libjwt owns —
encoding, dots, splitting, decoding, alg naming and parsing, pinning, gates, the textual HMAC
comparison — is proved. The ECDSA `r‖s` re-framing lives inside the providers' glue and is covered
by the correspondence suite (≥ 150 / 4096 signatures per curve), see DESIGN §8 C05.
-/
namespace Jwt.Props.C05
open Jwt Jwt.Base64 Jwt.Props.C15 Jwt.Props.C10

theorem urlChar_ne_dot (c : UInt8) (h : Props.C11.isUrlChar c) : c ≠ 46 := by
  intro e; subst e; revert h; unfold Props.C11.isUrlChar; decide

theorem strengthOk_transfer (a : Alg) (ks kc : KeyItem) (h : strengthOk a ks) (h1 : kc.kty = ks.kty)
    (h2 : kc.bits = ks.bits) : strengthOk a kc := by
  cases a <;> simp only [strengthOk] at h ⊢ <;> (try rw [h1, h2]) <;> exact h

theorem configPost_of_pinned (calg jalg : Alg) (kc : KeyItem) (n : Nat)
    (hadm : setkeyCheck .checker calg (some kc) = none) (hpin : pinned { key := some kc, alg := calg } = jalg)
    (hj : jalg ≠ .none) (hn : n ≠ 0) : configPost { key := some kc, alg := calg } jalg n = none := by
  unfold configPost
  unfold pinned at hpin
  simp only [hn, if_false, hj]
  by_cases ha : calg = .none
  · simp only [ha, ne_eq, not_true_eq_false, if_false] at hpin
    simp [ha, hpin]
  · simp only [ha, ne_eq, not_false_eq_true, if_true] at hpin
    simp only [ha, if_false]
    by_cases hk : kc.alg = .none
    · simp [hk, hpin]
    · simp only [hk, if_false]
      have hck : calg = kc.alg := by
        simp [setkeyCheck, setkeyCheck.setkeyTable, hk, ha] at hadm
        exact hadm
      subst hpin
      simp [← hck]

theorem uriEncode_ne_nil (x : Bytes) (h : x ≠ []) : uriEncode x ≠ [] := by
  intro e
  have := Props.C11.C11_length x
  rw [e] at this
  cases x with
  | nil => exact h rfl
  | cons a as => simp at this; omega

/-- **Round trip.** Let `generate` return `tok` for a configuration whose algorithm `a` is not `none`.
A checker without callback that holds the corresponding key (`kc`: same type, size and — for oct —
bytes), admitted with the same pinned algorithm, whose claim checks the emitted claims satisfy,
accepts `tok`; and the header and claims it parses (what its callback would be handed) are exactly
the per-token header `H` (builder headers ⊕ typ ⊕ alg, `C10_header`) and claims `P`
(builder claims ⊕ iat/nbf/exp ⊕ callback edits, `C10_claims`). -/
theorem C05_roundtrip (envB envC : Env) (b : Builder) (ck : Checker) (tok : Bytes)
    (hgen : (generate envB b).2 = some tok)
    (hjc : envC.jc = envB.jc) (hcr : envC.cr = envB.cr)
    (hobj : IsObj (genAfterCb b.cfg envB.now).2.1)
    (ks kc : KeyItem) (hks : (genAfterCb b.cfg envB.now).2.2.2.key = some ks)
    (hkty : kc.kty = ks.kty) (hbits : kc.bits = ks.bits) (hoct : kc.oct = ks.oct)
    (hnocb : ck.cfg.cb = none) (hckey : ck.cfg.key = some kc)
    (hadm : setkeyCheck .checker ck.cfg.alg (some kc) = none)
    (hpin : pinned { key := some kc, alg := ck.cfg.alg } = usedAlg (genAfterCb b.cfg envB.now).2.2.2)
    (halg : usedAlg (genAfterCb b.cfg envB.now).2.2.2 ≠ .none)
    (hclaims : claimsFail ck.cfg.claims (genAfterCb b.cfg envB.now).2.2.1 envC.now = false)
    -- laws of the delegated parts
    (hload : ∀ t, envB.jc.dump t ≠ [] → envB.jc.load (cstr (envB.jc.dump t)) = some t)
    (hmac_ne : ∀ a k m, envB.cr.hmac a k m ≠ [])
    (hsup : envC.prov.supports (usedAlg (genAfterCb b.cfg envB.now).2.2.2) = true)
    (hpk : ∀ m sig, envB.cr.pkSign envB.prov ks (usedAlg (genAfterCb b.cfg envB.now).2.2.2) m = some sig →
        sig ≠ [] ∧ envB.cr.pkVerify envC.prov kc (usedAlg (genAfterCb b.cfg envB.now).2.2.2) m sig = true) :
    (verify envC ck (some tok)).2 = 0 ∧
    ∃ H p, headSetup (genAfterCb b.cfg envB.now).2.1 (usedAlg (genAfterCb b.cfg envB.now).2.2.2) = .ok H ∧
      parse envC.jc tok = .ok p ∧ p.headers = H ∧ p.claims = (genAfterCb b.cfg envB.now).2.2.1 := by
  obtain ⟨H, P, hH, hP, ne1, ne2, al1, al2, hcase⟩ := C10_shape envB b tok hgen
  subst hP
  generalize hr : genAfterCb b.cfg envB.now = r at *
  generalize ha : usedAlg r.2.2.2 = a at *
  rcases hcase with ⟨hnone, _⟩ | ⟨_, k, sig, tr, hk, hsign, htok⟩
  · exact absurd hnone halg
  rw [hks] at hk; cases hk
  obtain ⟨hstr, hsig⟩ := sign_ok envB ks a _ sig tr hsign
  -- the signature segment is not empty
  have hsig_ne : sig ≠ [] := by
    rcases hsig with ⟨_, he, _⟩ | ⟨_, _, hp, _⟩
    · rw [he]; exact hmac_ne _ _ _
    · exact (hpk _ sig hp).1
  generalize heh : uriEncode (envB.jc.dump H) = eh at *
  generalize hep : uriEncode (envB.jc.dump r.2.2.1) = ep at *
  have nd1 : (46 : UInt8) ∉ eh := fun hm => urlChar_ne_dot _ (al1 _ hm) rfl
  have nd2 : (46 : UInt8) ∉ ep := fun hm => urlChar_ne_dot _ (al2 _ hm) rfl
  -- parsing recovers the three segments
  have hs1 : splitDot tok = some (eh, ep ++ 46 :: uriEncode sig) := by
    rw [htok]
    have := splitDot_append eh (ep ++ 46 :: uriEncode sig) nd1
    simpa [signingInput] using this
  have hs2 : splitDot (ep ++ 46 :: uriEncode sig) = some (ep, uriEncode sig) := splitDot_append ep _ nd2
  have hd1 : decodeToJson envC.jc eh = some H := by
    unfold decodeToJson
    rw [← heh, Props.C11.C11_roundtrip _ ne1, hjc]
    exact hload H ne1
  have hd2 : decodeToJson envC.jc ep = some r.2.2.1 := by
    unfold decodeToJson
    rw [← hep, Props.C11.C11_roundtrip _ ne2, hjc]
    exact hload _ ne2
  obtain ⟨⟨name, hname, hget⟩, _, _⟩ := C10_header r.2.1 hobj a H hH
  have hainv : a ≠ .inval := by
    intro e; rw [e] at hname
    have hn : algStr .inval = none := by decide +kernel
    rw [hn] at hname; cases hname
  have hpa : parseHeadAlg H = .ok a := by
    unfold parseHeadAlg
    unfold abs at hget
    rw [hget]
    have : strAlg (some name) = a := (strAlg_exact name a hainv).2 hname
    simp [this, hainv]
  have hparse : parse envC.jc tok = .ok { head := eh, payload := ep, sig := uriEncode sig, headers := H, claims := r.2.2.1, alg := a } := by
    unfold parse
    simp only [hs1, hs2, hd1, hpa, hd2]
  refine ⟨?_, H, _, hH, hparse, rfl, rfl⟩
  -- the verdict
  rw [verify_rc_zero]
  refine ⟨tok, rfl, ?_, ?_⟩
  · rw [htok]; simp [signingInput]
  unfold verifyCore
  simp only [hparse]
  have hacb : afterCb ck.cfg { head := eh, payload := ep, sig := uriEncode sig, headers := H, claims := r.2.2.1, alg := a } =
      (0, { key := some kc, alg := ck.cfg.alg }) := by simp [afterCb, hnocb, hckey]
  simp only [hacb, ne_eq, not_true_eq_false, if_false]
  unfold judge
  have hlen : (uriEncode sig).length ≠ 0 := by
    intro e; exact uriEncode_ne_nil sig hsig_ne (List.eq_nil_of_length_eq_zero e)
  simp only [hadm, hclaims, Bool.false_eq_true, if_false, configPost_of_pinned _ a kc _ hadm hpin halg hlen, hlen]
  have hstrc : strengthOk a kc := strengthOk_transfer a ks kc hstr hkty hbits
  -- the signature check
  have hv : (verifySig envC kc a (signingInput eh ep) (uriEncode sig)).1 = none := by
    rcases hsig with ⟨hh, he, _⟩ | ⟨hp, _, hps, _⟩
    · have hg : checkHmac a kc = none := (checkHmac_none_iff a kc).2 ⟨hh, hstrc⟩
      have hko : kc.kty = .oct := by
        have := (strengthOk_family a kc hstrc).1
        cases a <;> simp_all [Alg.isHmac, Alg.family]
      have hmaceq : envC.cr.hmac a kc.oct (signingInput eh ep) = sig := by rw [hcr, hoct, he]
      have hret : uriEncodeRet sig > 0 := by
        unfold uriEncodeRet
        rw [base64Encode_length]
        cases sig with
        | nil => exact absurd rfl hsig_ne
        | cons x xs => simp
      unfold verifySig
      cases a <;> simp [Alg.isHmac] at hh <;>
        simp [hko, hg, hmaceq, hret, (jwtStrcmp_eq_zero_iff _ _).2 rfl]
    · have hg : checkKeyBits a kc = none := (checkKeyBits_none_iff a kc).2 ⟨hp, hstrc⟩
      have hdec : uriDecode (uriEncode sig) = some sig := Props.C11.C11_roundtrip sig hsig_ne
      have hver : envC.cr.pkVerify envC.prov kc a (signingInput eh ep) sig = true := by
        rw [hcr]; exact (hpk _ sig hps).2
      unfold verifySig
      cases a <;> simp [Alg.isPk] at hp <;> simp [hg, hdec, hsup, hver]
  cases hvs : verifySig envC kc a (signingInput eh ep) (uriEncode sig) with
  | mk e tr' =>
    rw [hvs] at hv
    simp only at hv
    subst hv
    rfl

end Jwt.Props.C05
