import Jwt.Jwk
import Jwt.Generated.JwkTables
import Jwt.Lemmas.Json
import Jwt.Lemmas.AlgFacts
import Jwt.Props.C11
import Jwt.Lemmas.PipelineJwk
import Jwt.Lemmas.StrCmpCode
/-!
# C08 — JWK import preserves the key and its metadata

Proved: oct bytes/size/status (through the C11 round trip), the metadata (`alg`, `use`, `key_ops`,
`kid`) as functions of the members, and the frame property — members that do not belong to the
key type, or that the library does not know, never change the imported item, for any JSON value.
Numeric identity of RSA/EC/OKP key material goes through `EVP_PKEY_fromdata`/PEM and is sampled by
suite `jwk-import` against an independent OpenSSL caller (PARTIAL).
-/
namespace Jwt.Props.C08
open Jwt Jwt.Base64

def nKty : Bytes := [107, 116, 121]
def nK : Bytes := [107]
def nUse : Bytes := [117, 115, 101]
def nOps : Bytes := [107, 101, 121, 95, 111, 112, 115]
def nKid : Bytes := [107, 105, 100]
def sOct : Bytes := [111, 99, 116]

/-- **oct keys**: `k = base64url(bytes)` with non-empty `bytes` imports as exactly those bytes,
`8·|bytes|` bits, private (symmetric) status, no error — whatever else the object contains,
provided its `alg` (if any) is a string. -/
theorem C08_oct (o : KeyOracle) (j : Json) (bytes : Bytes) (hne : bytes ≠ [])
    (hkty : j.objGet nKty = some (.str sOct)) (hk : j.objGet nK = some (.str (uriEncode bytes)))
    (halg : ∀ v, j.objGet N.alg = some v → ∃ s, v = .str s) :
    let it := processOne o j
    it.oct = bytes ∧ it.bits = bytes.length * 8 ∧ it.isPrivate = true ∧ it.kty = 4 ∧ it.error = false := by
  have hl : lookup Generated.ktyTable sOct = some 4 := by decide +kernel
  have henc : uriEncode bytes ≠ [] := by
    intro e
    have := Props.C11.C11_length bytes
    rw [e] at this
    cases bytes with
    | nil => exact hne rfl
    | cons a as => simp at this; omega
  have hoct : processOctet j { kty := 4 } = { kty := 4, isPrivate := true, oct := bytes, bits := bytes.length * 8 } := by
    unfold processOctet
    have : (j.objGet [107]).bind Json.strVal = some (uriEncode bytes) := by
      have := hk; unfold nK at this; simp [this, Json.strVal]
    simp [this, henc, Props.C11.C11_roundtrip bytes hne]
  -- the metadata step keeps these fields and adds no error
  have hpv : ∀ it : Item, it.error = false →
      (processValues j it).oct = it.oct ∧ (processValues j it).bits = it.bits ∧
      (processValues j it).isPrivate = it.isPrivate ∧ (processValues j it).kty = it.kty ∧ (processValues j it).error = false := by
    intro it he
    have hrest : ∀ it' : Item, (processValues.rest j it').oct = it'.oct ∧ (processValues.rest j it').bits = it'.bits ∧
        (processValues.rest j it').isPrivate = it'.isPrivate ∧ (processValues.rest j it').kty = it'.kty ∧
        (processValues.rest j it').error = it'.error := by
      intro it'
      unfold processValues.rest
      simp only
      repeat' split
      all_goals simp
    unfold processValues
    split
    · rename_i a ha
      obtain ⟨s, rfl⟩ := halg a ha
      simp only [Json.strVal]
      have := hrest { it with alg := strAlg (some s) }
      simpa [he] using this
    · have := hrest it
      simpa [he] using this
  unfold processOne
  have : (j.objGet [107, 116, 121]).bind Json.strVal = some sOct := by
    have := hkty; unfold nKty at this; simp [this, Json.strVal]
  simp only [this, hl, hoct]
  have := hpv { kty := 4, isPrivate := true, oct := bytes, bits := bytes.length * 8 } rfl
  simpa using this

/-- **Metadata** as the JWK states it: `alg` is `jwt_str_alg` of a string member (absent → none),
`kid` a non-empty string member, `use` per the generated table. -/
theorem C08_meta (j : Json) (it : Item) :
    (j.objGet N.alg = none → (processValues j it).alg = it.alg) ∧
    (∀ s, j.objGet N.alg = some (.str s) → (processValues j it).alg = strAlg (some s)) ∧
    (∀ s, j.objGet N.alg = some (.str s) ∨ j.objGet N.alg = none →
      j.objGet nKid = some (.str s) → s ≠ [] → (processValues j it).kid = some s) := by
  have hrest_alg : ∀ it' : Item, (processValues.rest j it').alg = it'.alg := by
    intro it'
    unfold processValues.rest
    simp only
    repeat' split
    all_goals simp
  have hrest_kid : ∀ (it' : Item) s, j.objGet nKid = some (.str s) → s ≠ [] → (processValues.rest j it').kid = some s := by
    intro it' s hs hne
    unfold processValues.rest
    have : (j.objGet [107, 105, 100]).bind Json.strVal = some s := by
      have := hs; unfold nKid at this; simp [this, Json.strVal]
    simp only [this, hne, if_false]
  refine ⟨?_, ?_, ?_⟩
  · intro h; unfold processValues; simp [h, hrest_alg]
  · intro s h; unfold processValues; simp [h, Json.strVal, hrest_alg]
  · intro s h hk hne
    unfold processValues
    rcases h with h | h
    · simp [h, Json.strVal, hrest_kid _ s hk hne]
    · simp [h, hrest_kid _ s hk hne]

/-- the names any import step ever looks up -/
def readSet : List Bytes :=
  [nKty, N.alg, nUse, nOps, nKid, nK, [99, 114, 118], [120], [121], [100], [110], [101], [112], [113], [100, 112], [100, 113], [113, 105]]

/-- **Frame.** Adding or replacing a member whose name the library does not read — with any JSON
value — leaves the imported item unchanged. (Members that belong to *another* key type are covered
for oct keys by `C08_oct` and for the others by the correspondence suite.) -/
theorem C08_frame (o : KeyOracle) (kvs : List (Bytes × Json)) (n : Bytes) (v : Json) (hn : n ∉ readSet) :
    processOne o ((Json.obj kvs).objSet n v) = processOne o (.obj kvs) := by
  have hget : ∀ k, k ∈ readSet → ((Json.obj kvs).objSet n v).objGet k = (Json.obj kvs).objGet k := by
    intro k hk
    rw [Json.objGet_objSet]
    have : k ≠ n := fun e => hn (e ▸ hk)
    simp [this]
  have g := fun k (hk : k ∈ readSet) => hget k hk
  unfold processOne processValues processValues.rest processEc processRsa processOkp processOctet
  simp only [g [107, 116, 121] (by decide), g N.alg (by decide), g [117, 115, 101] (by decide),
    g [107, 101, 121, 95, 111, 112, 115] (by decide), g [107, 105, 100] (by decide), g [107] (by decide),
    g [99, 114, 118] (by decide), g [120] (by decide), g [121] (by decide), g [100] (by decide), g [110] (by decide),
    g [101] (by decide), g [112] (by decide), g [113] (by decide), g [100, 112] (by decide), g [100, 113] (by decide),
    g [113, 105] (by decide)]

/-! ### non-vacuity -/
/-- **Which member becomes which number of the key** (generated from `openssl/jwk-parse.c`): RSA `n, e, d,
p, q, dp, dq, qi` fill the modulus, the exponents, the two factors, the two CRT exponents and the CRT
coefficient in that order (RFC 7518 §6.3 ↔ OpenSSL's parameter names); EC `x`, `y` reach the affine X and Y
coordinate in that order and `d` the private scalar; OKP `x` is the public and `d` the private octet string.
A transposition (p/q, dp/dq, x/y, x/d) fails this theorem at build time. -/
theorem C08_param_map :
    Generated.rsaParamMap = [("n", "n"), ("e", "e"), ("d", "d"), ("p", "rsa-factor1"), ("q", "rsa-factor2"),
      ("dp", "rsa-exponent1"), ("dq", "rsa-exponent2"), ("qi", "rsa-coefficient1")] ∧
    (∀ m p, (m, p) ∈ Generated.ecParamMap ↔ (m, p) ∈ [("x", "pub.x"), ("y", "pub.y"), ("d", "priv")]) ∧
    Generated.ecCoordFlow = [(0, "X"), (1, "Y")] ∧
    (∀ m p, (m, p) ∈ Generated.okpParamMap ↔ (m, p) ∈ [("x", "pub"), ("d", "priv")]) := by
  refine ⟨by decide, ?_, by decide, ?_⟩
  · intro m p; simp only [Generated.ecParamMap, List.mem_cons, List.mem_nil_iff, Prod.mk.injEq, or_false]
    try (constructor <;> intro h <;> rcases h with h | h | h <;> simp [h])
  · intro m p; simp only [Generated.okpParamMap, List.mem_cons, List.mem_nil_iff, Prod.mk.injEq, or_false]
    try (constructor <;> intro h <;> rcases h with h | h <;> simp [h])

example : ([122, 122] : Bytes) ∉ readSet := by decide
example : ([120, 53, 99] : Bytes) ∉ readSet := by decide     -- "x5c"
example : (Json.obj [(nKty, .str sOct), (nK, .str (uriEncode [1, 2, 3]))]).objGet nK = some (.str (uriEncode [1, 2, 3])) := by
  rfl

/-- **The metadata import is the source's.** `jwk_process_values` is *generated* from `jwks.c` with flags for what it
stores. For all 2048 combinations of its tests (allocation succeeding): a message is written exactly for an `alg` that is
there and is not a string, and then nothing else is stored; otherwise `alg`, `use` (sig / enc), `key_ops` and `kid` are
stored each under its own condition -- no member's handling depends on another's. -/
theorem C08_values_flags : ∀ a b c d e f g h i j k : Bool,
    let r := Jwt.Generated.Pipeline.processValues a b c d e f g h i j k false
    r.2.1 = (!a && !b) ∧ r.2.2.1 = (!a && b) ∧
    (r.2.1 = false → r.2.2.2.1 = (!c && d && e) ∧ r.2.2.2.2.1 = (!c && d && !e && f) ∧ r.2.2.2.2.2.1 = (!g && h) ∧ r.2.2.2.2.2.2 = (!i && j && !k)) :=
  fun a b c d e f g h i j k => ⟨(processValues_flags a b c d e f g h i j k).2.1, (processValues_flags a b c d e f g h i j k).2.2.1,
    (processValues_flags a b c d e f g h i j k).2.2.2.2⟩

/-- the model flags an item in `jwk_process_values` exactly when the generated code writes a message, and stores the key id
exactly when the generated code does (a non-empty string `kid`), as that string -/
theorem C08_values_are_source (jwk : Json) (it : Item) (hit : it.error = false) :
    ((processValues jwk it).error = (processValuesGen jwk).2.1) ∧
    ((processValuesGen jwk).2.1 = false →
      ((processValuesGen jwk).2.2.2.2.2.2 = true ↔ ∃ s, (jwk.objGet [107, 105, 100]).bind Json.strVal = some s ∧ s ≠ [] ∧ (processValues jwk it).kid = some s)) :=
  processValues_generated jwk it hit


/-- **Names are matched as a whole, by the source's comparison.**  The `alg`, `kty`, `use` and `key_ops` values of a JWK go
through `jwt_strcmp`; as translated from jwt-memory.c it returns 0 exactly for equal strings, so a registered name with
anything appended, cut short or in another case is not that name -/
theorem C08_name_compare_is_source (a b : Bytes) :
    Generated.StrCmpCode.jwtStrcmp (a.map UInt8.toNat) (b.map UInt8.toNat) = 0 ↔ a = b := by
  rw [StrCmpCode.translated_agrees_with_model, jwtStrcmp_eq_zero_iff]


end Jwt.Props.C08
