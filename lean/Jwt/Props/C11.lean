import Jwt.Lemmas.Base64Round
/-!
# C11 — base64url encoding and decoding are exact inverses and reject foreign bytes

Property theorems only (helper lemmas live in `Jwt/Lemmas`). Everything is stated about the
literal model `Jwt.Base64` (`uriEncode`, `uriDecode`, `uriDecodeBuf`, `base64Encode`) whose tables
and size macros are *generated* from `/repo/libjwt/base64.[ch]` on every run, for byte strings of
every length.
-/
namespace Jwt.Props.C11
open Jwt Jwt.Base64 Jwt.Generated

/-- The character set of RFC 4648 §5. -/
def isUrlChar (c : UInt8) : Prop :=
  (65 ≤ c ∧ c ≤ 90) ∨ (97 ≤ c ∧ c ≤ 122) ∨ (48 ≤ c ∧ c ≤ 57) ∨ c = 45 ∨ c = 95

/-- **Form.** What the encoder leaves in `*_dst` is RFC 4648 §5 base64url without padding:
the sextets of the input, most significant first, through the URL alphabet. -/
theorem C11_form (bs : Bytes) : uriEncode bs = rfc4648url bs := uriEncode_eq_rfc bs

theorem alphaUrl_isUrlChar : ∀ n, n < 64 → isUrlChar (alphaUrl n) := by
  unfold isUrlChar; decide +kernel

/-- … over the URL alphabet only (in particular no `=`, `+`, `/`, `.` and no NUL), -/
theorem C11_alphabet (bs : Bytes) : ∀ c ∈ uriEncode bs, isUrlChar c := by
  rw [C11_form]
  intro c hc
  simp only [rfc4648url, List.mem_map] at hc
  obtain ⟨n, hn, rfl⟩ := hc
  refine alphaUrl_isUrlChar n (sextets_lt _ ?_ n hn)
  intro m hm
  simp only [List.mem_map] at hm
  obtain ⟨b, _, rfl⟩ := hm
  exact UInt8.toNat_lt b

/-- … of length `⌈4·|bs|/3⌉`. -/
theorem C11_length (bs : Bytes) : (uriEncode bs).length = (bs.length * 4 + 2) / 3 := by
  rw [C11_form]; simp [rfc4648url, sextets_length]

/-- **Round trip.** Decoding inverts encoding for every non-empty byte string. -/
theorem C11_roundtrip (bs : Bytes) (hne : bs ≠ []) : uriDecode (uriEncode bs) = some bs := by
  rw [uriDecode_eq_spec, C11_form, decodeSpec_rfc bs hne]

/-- The empty string encodes to the empty text, which the decoder refuses (`ret_len <= 0`). -/
theorem C11_empty : uriEncode [] = [] ∧ uriDecode [] = none := by decide

/-- **Full functional characterisation of the decoder**, for every text. -/
theorem C11_decode_spec (text : Bytes) : uriDecode text = decodeSpec text := uriDecode_eq_spec text

/-- **Rejection.** A byte outside both alphabets ahead of the first `=` — the text is rejected
rather than partially decoded. -/
theorem C11_reject_foreign (text : Bytes) (c : UInt8) (hc : c ∈ text.takeWhile (· ≠ 61))
    (hforeign : urlVal c = none) : uriDecode text = none := by
  rw [uriDecode_eq_spec]
  unfold decodeSpec
  split
  · rfl
  · have hm : (text.takeWhile (· ≠ 61)).mapM urlVal = none := by
      generalize text.takeWhile (· ≠ 61) = t at hc
      induction t with
      | nil => simp at hc
      | cons x t ih =>
        simp only [List.mem_cons] at hc
        rcases hc with rfl | hc
        · simp [List.mapM_cons, hforeign]
        · simp [List.mapM_cons, ih hc]
    rw [hm]

/-- `urlVal c = none` says exactly "outside the base64 and base64url alphabets". -/
theorem urlVal_none_iff : ∀ n, n < 256 →
    (urlVal (UInt8.ofNat n) = none ↔
      ¬ (isUrlChar (UInt8.ofNat n) ∨ UInt8.ofNat n = 43 ∨ UInt8.ofNat n = 47)) := by
  unfold isUrlChar; decide +kernel

/-- **Rejection.** A length of 1 modulo 4 is refused. -/
theorem C11_reject_len (text : Bytes) (h : text.length % 4 = 1) : uriDecode text = none := by
  rw [uriDecode_eq_spec]; simp [decodeSpec, h]

/-- **Bounds, encoder.** `base64_encode` writes `out[0..j]` sequentially (`j` characters and the
final NUL); `j + 1` equals the generated `BASE64_ENCODE_OUT_SIZE(len)`, and
`jwt_base64uri_encode` allocates one byte more than that. Table reads are in range
(`enIdx_lt`). -/
theorem C11_bounds_encode (bs : Bytes) :
    (base64Encode bs).length + 1 = encodeOutSize bs.length ∧
    (base64Encode bs).length + 1 < uriEncodeAlloc bs.length := by
  rw [base64Encode_length]
  unfold uriEncodeAlloc encodeOutSize
  omega

/-- **Bounds, decoder.** For every source text and *every* initial content of an output buffer of
the size the code allocates (`BASE64_DECODE_OUT_SIZE(len + z) + 1`, generated), the literal
bounds-checked loop never reads or writes outside it, its result does not depend on that content
and equals `decodeSpec`, and the index where `jwt_base64uri_decode_to_json` then stores its NUL is
inside the buffer. The decode-table read is in range by `deLast_lt_table`. -/
theorem C11_bounds_decode (src buf : Bytes) (z : Nat) (hz : padCount src.length = some z)
    (hbuf : buf.length = decodeAlloc src.length z) :
    base64Decode (prepare src z) buf ≠ .oob ∧
    (uriDecodeBuf src buf).map (fun r => r.1.take r.2) = decodeSpec src ∧
    ∀ out j, uriDecodeBuf src buf = some (out, j) → j < out.length ∧ out.length = buf.length :=
  uriDecodeBuf_spec src buf z hz hbuf

/-- the table reads of both directions stay inside the generated tables -/
theorem C11_table_reads (l c : UInt8) :
    ((c >>> 2) &&& 0x3F).toNat < base64en.length ∧
    (((l &&& 0x3) <<< 4) ||| ((c >>> 4) &&& 0xF)).toNat < base64en.length ∧
    (((l &&& 0xF) <<< 2) ||| ((c >>> 6) &&& 0x3)).toNat < base64en.length ∧
    (c &&& 0x3F).toNat < base64en.length ∧
    ((l &&& 0x3) <<< 4).toNat < base64en.length ∧ ((l &&& 0xF) <<< 2).toNat < base64en.length ∧
    deLast.toNat < base64de.length :=
  ⟨(enIdx_lt l c).1, (enIdx_lt l c).2.1, (enIdx_lt l c).2.2.1, (enIdx_lt l c).2.2.2.1,
   (enIdx_lt l c).2.2.2.2.1, (enIdx_lt l c).2.2.2.2.2, deLast_lt_table⟩

/-! ### non-vacuity: concrete instances of every hypothesis, and the model computing the RFC's own examples -/

-- RFC 4648 §10 test vectors (unpadded): "f" ↦ "Zg", "fo" ↦ "Zm8", "foobar" ↦ "Zm9vYmFy"
example : uriEncode [102] = [90, 103] := by decide +kernel
example : uriEncode [102, 111] = [90, 109, 56] := by decide +kernel
example : uriEncode [102, 111, 111, 98, 97, 114] = [90, 109, 57, 118, 89, 109, 70, 121] := by decide +kernel
-- 0xfb 0xff ↦ "-_8": the two URL-specific characters
example : uriEncode [0xfb, 0xff] = [45, 95, 56] := by decide +kernel
-- "Zm9vYmE" ↦ "fooba"
example : uriDecode [90, 109, 57, 118, 89, 109, 69] = some [102, 111, 111, 98, 97] := by decide +kernel
-- C11_roundtrip's hypothesis
example : ([102, 111, 111, 98, 97] : Bytes) ≠ [] := by decide
-- C11_reject_foreign's hypotheses: '.' (46) ahead of any padding in "Zm.v"
example : (46 : UInt8) ∈ ([90, 109, 46, 118] : Bytes).takeWhile (· ≠ 61) ∧ urlVal 46 = none := by decide +kernel
-- foreign bytes *after* a pad are outside the rejection clause (and are indeed ignored): "Zm8=.!." ↦ "fo"
example : uriDecode [90, 109, 56, 61, 46, 33, 46] = some [102, 111] := by decide +kernel
-- C11_reject_len: "Zm9vY"
example : ([90, 109, 57, 118, 89] : Bytes).length % 4 = 1 := by decide
-- C11_bounds_decode: hypotheses met by a garbage-filled buffer, source "Zm8"
example : padCount ([90, 109, 56] : Bytes).length = some 1 ∧
    ([0xAA, 0xBB, 0xCC, 0xDD] : Bytes).length = decodeAlloc ([90, 109, 56] : Bytes).length 1 := by decide +kernel
example : uriDecodeBuf [90, 109, 56] [0xAA, 0xBB, 0xCC, 0xDD] = some ([102, 111, 0, 0xDD], 2) := by decide +kernel

end Jwt.Props.C11
