import Jwt.Jwk
import Jwt.Props.C07
/-!
# C16 — a keyring is an ordered list of keys under every sequence of operations

Abstract level: every `jwks_*` call as an operation on `List Item` (this file). The pointer level
(`ll.h`: `list_add_tail`, `list_del`, `list_for_each_entry(_safe)`) is tied by the exhaustive
operation-sequence suite under ASan/LSan (use-after-free and leaks are what ASan/LSan report);
see DESIGN §8 C16 for the status of the heap-level refinement.
-/
namespace Jwt.Props.C16
open Jwt

/-- loads append, in document order -/
theorem C16_load (o : KeyOracle) (s : KeySet) (doc : Option Json) :
    ∃ new, (jwksProcess o s doc).items = s.items ++ new := by
  unfold jwksProcess
  cases doc with
  | none => exact ⟨[], by simp⟩
  | some j =>
    simp only
    split
    · exact ⟨_, rfl⟩
    · exact ⟨_, rfl⟩
    · exact ⟨[], by simp⟩

theorem C16_get_count (s : KeySet) (i : Nat) :
    s.get i = s.items[i]? ∧ s.count = s.items.length ∧ (s.get i = none ↔ s.count ≤ i) := by
  refine ⟨rfl, rfl, ?_⟩
  simp [KeySet.get, KeySet.count]

/-- `jwks_find_bykid` returns the first item whose kid equals the argument exactly -/
theorem C16_find (s : KeySet) (kid : Bytes) :
    (∀ i, s.findByKid kid = some i →
      (∃ it, s.items[i]? = some it ∧ it.kid = some kid) ∧ ∀ j, j < i → ∀ it, s.items[j]? = some it → it.kid ≠ some kid) ∧
    (s.findByKid kid = none → ∀ it ∈ s.items, it.kid ≠ some kid) := by
  unfold KeySet.findByKid
  constructor
  · intro i hi
    rw [List.findIdx?_eq_some_iff_getElem] at hi
    obtain ⟨hlt, hp, hbefore⟩ := hi
    refine ⟨⟨s.items[i], by simp [hlt], by simpa using hp⟩, ?_⟩
    intro j hj it hit
    have hjl : j < s.items.length := Nat.lt_trans hj hlt
    have := hbefore j hj
    rw [List.getElem?_eq_getElem hjl] at hit
    cases hit
    simpa using this
  · intro h it hit
    rw [List.findIdx?_eq_none_iff] at h
    simpa using h it hit

/-- `jwks_item_free(i)` removes exactly the indexed item and returns 1, or returns 0 and changes nothing -/
theorem C16_free (s : KeySet) (i : Nat) :
    (i < s.count → (s.free i).2 = 1 ∧ (s.free i).1.items = s.items.eraseIdx i ∧ (s.free i).1.count = s.count - 1) ∧
    (s.count ≤ i → s.free i = (s, 0)) := by
  unfold KeySet.free KeySet.count
  constructor
  · intro h; simp [h, List.length_eraseIdx]
  · intro h
    have : ¬ i < s.items.length := by omega
    simp [this]

/-- `jwks_item_free_bad` removes exactly the errored items, keeps the order of the rest, returns their number -/
theorem C16_free_bad (s : KeySet) :
    (s.freeBad).1.items = s.items.filter (!·.error) ∧ (s.freeBad).2 = (s.items.filter (·.error)).length ∧
    (s.freeBad).1.count + (s.freeBad).2 = s.count ∧ (∀ it ∈ (s.freeBad).1.items, it.error = false) := by
  unfold KeySet.freeBad KeySet.count
  refine ⟨rfl, rfl, ?_, ?_⟩
  · simp only
    induction s.items with
    | nil => rfl
    | cons a l ih => cases h : a.error <;> simp [List.filter_cons, h] <;> omega
  · intro it hit
    simp only [List.mem_filter] at hit
    simpa using hit.2

theorem C16_free_all (s : KeySet) : (s.freeAll).2 = s.count ∧ (s.freeAll).1.items = [] := ⟨rfl, rfl⟩

/-- `jwks_error_any` counts the set error plus the errored items -/
theorem C16_error_any (s : KeySet) :
    s.errorAny = (if s.error then 1 else 0) + (s.items.filter (·.error)).length := rfl

/-- the operations of the property -/
inductive Op where
  | load (o : KeyOracle) (doc : Option Json)
  | free (i : Nat)
  | freeBad
  | freeAll
  | errorClear

def apply (s : KeySet) : Op → KeySet
  | .load o doc => jwksProcess o s doc
  | .free i => (s.free i).1
  | .freeBad => s.freeBad.1
  | .freeAll => s.freeAll.1
  | .errorClear => s.errorClear

/-- **Histories**: across any sequence of operations every item of the keyring is good (C07) —
the list never holds anything but fully formed items — and removals only ever remove. -/
theorem C16_history (s : KeySet) (ops : List Op) (h : ∀ it ∈ s.items, Props.C07.Good it) :
    ∀ it ∈ (ops.foldl apply s).items, Props.C07.Good it := by
  induction ops generalizing s with
  | nil => exact h
  | cons op ops ih =>
    simp only [List.foldl_cons]
    apply ih
    cases op with
    | load o doc => exact Props.C07.C07_all_items o s doc h
    | free i =>
      intro it hit
      simp only [apply, KeySet.free] at hit
      by_cases hi : i < s.items.length
      · simp only [hi, if_true] at hit
        exact h it (List.mem_of_mem_eraseIdx hit)
      · simp only [hi, if_false] at hit
        exact h it hit
    | freeBad =>
      intro it hit
      simp only [apply, KeySet.freeBad, List.mem_filter] at hit
      exact h it hit.1
    | freeAll => intro it hit; simp [apply, KeySet.freeAll] at hit
    | errorClear => exact h

/-! ### non-vacuity -/
example : ({ items := [{ kty := 4, kid := some [97] }, { kty := 4, kid := some [98], error := true, msg := true }, { kty := 4, kid := some [97] }] } : KeySet).findByKid [97] = some 0 := by decide
example : (({ items := [{ kty := 4 }, { kty := 4, error := true, msg := true }] } : KeySet).freeBad).2 = 1 := by decide
example : (({ items := [{ kty := 4 }] } : KeySet).free 1).2 = 0 := by decide

end Jwt.Props.C16
