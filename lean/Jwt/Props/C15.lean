import Jwt.SetGet
import Jwt.Lemmas.Json
import Jwt.Lemmas.PipelineSetGet
/-!
# C15 — header and claim set/get/delete behave as a typed map

Refinement of `setter`/`getter`/`deleter` (the code behind `jwt_builder_{header,claim}_{set,get,del}`
and `jwt_{header,claim}_{set,get,del}`) to the abstract map `abs : Name → Option Json`.
Explicit precondition where the code needs it: names and string values are valid UTF-8 (what
`json_string`/`json_object_set_new` accept); the excluded point is exercised by the
correspondence suite and reported as an observation (DESIGN §9.8).
-/
namespace Jwt.Props.C15
open Jwt

/-- the abstract state: a map from names to JSON values -/
def abs (j : Json) : Bytes → Option Json := j.objGet

def IsObj (j : Json) : Prop := ∃ kvs, j = .obj kvs

theorem isObj_isObject {j : Json} (h : IsObj j) : j.isObject = true := by
  obtain ⟨kvs, rfl⟩ := h; rfl

/-- what a request stores: the typed value, when one can be built from it -/
def reqValue (ls : Bytes → Option Json) (r : SetReq) : Option Json :=
  match r.type with
  | .int => some (.int r.intVal)
  | .bool => some (.bool (r.boolVal ≠ 0))
  | .str => r.strVal.bind fun s => if validUtf8 s then some (.str s) else none
  | .json => r.jsonVal.bind ls

/-- **set, name present and not replacing**: EXIST, nothing changes (scalar and named JSON alike) -/
theorem C15_set_exist (ls : Bytes → Option Json) (w : Json) (r : SetReq) (n : Bytes) (hn : nameOk r.name = some n)
    (hex : (abs w n).isSome = true) (hr : r.replace = false) (hv : (reqValue ls r).isSome = true ∨ r.type ≠ .json ∧ r.type ≠ .str) :
    setter ls w r = (w, .exist) := by
  unfold setter
  unfold reqValue at hv
  unfold abs at hex
  cases ht : r.type with
  | int => simp [hn, checkedSet, hex, hr]
  | bool => simp [hn, checkedSet, hex, hr]
  | str =>
    simp only [ht] at hv
    cases hs : r.strVal with
    | none => simp [hs] at hv
    | some s => simp [hn, checkedSet, hex, hr]
  | json =>
    simp only [ht] at hv
    cases hj : r.jsonVal.bind ls with
    | none => simp [hj] at hv
    | some doc => simp [hn, checkedSet, hex, hr]

/-- **set that goes through** (new name, or replace): NONE, the name now maps to the value, every
other name is untouched -/
theorem C15_set_ok (ls : Bytes → Option Json) (w : Json) (hw : IsObj w) (r : SetReq) (n : Bytes) (v : Json)
    (hn : nameOk r.name = some n) (hu : validUtf8 n = true) (hv : reqValue ls r = some v)
    (hok : (abs w n).isSome = false ∨ r.replace = true) :
    (setter ls w r).2 = .none ∧ abs (setter ls w r).1 n = some v ∧
    ∀ k, k ≠ n → abs (setter ls w r).1 k = abs w k := by
  obtain ⟨kvs, rfl⟩ := hw
  have key : ∀ (val : Json), checkedSet (.obj kvs) n (some val) r.replace =
      (if ((Json.obj kvs).objGet n).isSome then ((Json.obj kvs).objDel n).objSet n val else (Json.obj kvs).objSet n val, .none) := by
    intro val
    unfold checkedSet
    rcases hok with h | h
    · unfold abs at h; simp [h, hu, Json.isObject]
    · cases hex : ((Json.obj kvs).objGet n).isSome <;> simp [hex, h, hu, Json.isObject]
  have fin : ∀ (val : Json), (checkedSet (.obj kvs) n (some val) r.replace).2 = .none ∧
      abs (checkedSet (.obj kvs) n (some val) r.replace).1 n = some val ∧
      ∀ k, k ≠ n → abs (checkedSet (.obj kvs) n (some val) r.replace).1 k = abs (.obj kvs) k := by
    intro val
    rw [key]
    refine ⟨rfl, ?_, ?_⟩
    · unfold abs; split
      · rw [Json.objGet_setAfterDel]; simp
      · rw [Json.objGet_objSet]; simp
    · intro k hk
      unfold abs; split
      · rw [Json.objGet_setAfterDel]; simp [hk]
      · rw [Json.objGet_objSet]; simp [hk]
  unfold setter
  unfold reqValue at hv
  cases ht : r.type with
  | int => simp only [ht] at hv; cases hv; simp only [hn]; exact fin _
  | bool => simp only [ht] at hv; cases hv; simp only [hn]; exact fin _
  | str =>
    simp only [ht] at hv
    cases hs : r.strVal with
    | none => simp [hs] at hv
    | some s =>
      by_cases hvu : validUtf8 s = true
      · simp only [hs, Option.bind_some, hvu, if_true, Option.some.injEq] at hv
        subst hv
        simp only [hn, hvu, if_true]
        exact fin _
      · simp [hs, hvu] at hv
  | json =>
    simp only [ht] at hv
    simp only [hv, hn]
    exact fin _

/-- **get**: the stored value when it has the requested type, NOEXIST when the name is absent, TYPE
otherwise (a JSON-typed get asks for an object or array) -/
theorem C15_get (w : Json) (t : VType) (n : Bytes) (hn : n ≠ []) :
    getter w t (some n) =
      match abs w n with
      | none => (.noexist, none)
      | some v =>
        match t, v with
        | .int, .int i => (.none, some (.int i))
        | .str, .str s => (.none, some (.str s))
        | .bool, .bool b => (.none, some (.bool b))
        | .json, v => if v.isContainer then (.none, some v) else (.type, none)
        | _, _ => (.type, none) := by
  have hno : nameOk (some n) = some n := by cases n with | nil => exact absurd rfl hn | cons _ _ => rfl
  unfold getter abs
  cases t <;> simp only [hno] <;> cases h : w.objGet n with
  | none => rfl
  | some v => cases v <;> simp

/-- a whole-object JSON get returns the whole map -/
theorem C15_get_all (w : Json) : getter w .json none = (.none, some w) ∧ getter w .json (some []) = (.none, some w) :=
  ⟨rfl, rfl⟩

/-- **delete** removes exactly the named member; with no (or an empty) name, everything -/
theorem C15_del (w : Json) (hw : IsObj w) (n : Bytes) (hn : n ≠ []) :
    (deleter w (some n)).2 = .none ∧ abs (deleter w (some n)).1 n = none ∧
    (∀ k, k ≠ n → abs (deleter w (some n)).1 k = abs w k) ∧
    (∀ k, abs (deleter w none).1 k = none) ∧ (∀ k, abs (deleter w (some [])).1 k = none) := by
  obtain ⟨kvs, rfl⟩ := hw
  have hno : nameOk (some n) = some n := by cases n with | nil => exact absurd rfl hn | cons _ _ => rfl
  unfold deleter abs
  simp only [hno]
  refine ⟨trivial, ?_, ?_, ?_, ?_⟩
  · rw [Json.objGet_objDel]; simp
  · intro k hk; rw [Json.objGet_objDel]; simp [hk]
  · intro k; simp [nameOk, Json.objClear, Json.objGet]
  · intro k; simp [nameOk, Json.objClear, Json.objGet]

/-- **refusals with no change**: scalar with an empty or absent name; JSON text that does not load
(malformed, a scalar, duplicate members); whole-object set of something that is not an object -/
theorem C15_invalid (ls : Bytes → Option Json) (w : Json) (r : SetReq) :
    (r.type ≠ .json → nameOk r.name = none → setter ls w r = (w, .invalid)) ∧
    (r.type = .json → r.jsonVal.bind ls = none → setter ls w r = (w, .invalid)) ∧
    (r.type = .json → nameOk r.name = none → ∀ doc, r.jsonVal.bind ls = some doc → doc.isObject = false →
      setter ls w r = (w, .invalid)) := by
  refine ⟨?_, ?_, ?_⟩
  · intro ht hn
    unfold setter
    cases h : r.type with
    | json => exact absurd h ht
    | int => simp [hn]
    | bool => simp [hn]
    | str => simp [hn]
  · intro ht hl
    unfold setter
    simp [ht, hl]
  · intro ht hn doc hd hobj
    unfold setter
    simp [ht, hd, hn, hobj]

/-! ### whole-object JSON set merges members -/

theorem foldl_set_obj (kvs : List (Bytes × Json)) (w : Json) (hw : IsObj w) :
    IsObj (kvs.foldl (fun acc p => acc.objSet p.1 p.2) w) := by
  induction kvs generalizing w with
  | nil => exact hw
  | cons e rest ih =>
    obtain ⟨k0, rfl⟩ := hw
    exact ih _ ⟨_, rfl⟩

theorem update_get (kvs : List (Bytes × Json)) (hnd : (kvs.map (·.1)).Nodup) (w : Json) (hw : IsObj w) (k : Bytes) :
    (kvs.foldl (fun acc p => acc.objSet p.1 p.2) w).objGet k =
      match kvs.find? (·.1 = k) with
      | some p => some p.2
      | none => w.objGet k := by
  induction kvs generalizing w with
  | nil => rfl
  | cons e rest ih =>
    simp only [List.map_cons, List.nodup_cons] at hnd
    obtain ⟨k0, rfl⟩ := hw
    simp only [List.foldl_cons]
    rw [ih hnd.2 ((Json.obj k0).objSet e.1 e.2) ⟨_, rfl⟩, Json.objGet_objSet]
    by_cases hk : e.1 = k
    · have : rest.find? (·.1 = k) = none := by
        simp only [List.find?_eq_none, decide_eq_true_eq]
        intro p hp hpk
        apply hnd.1
        rw [hk, ← hpk]
        exact List.mem_map.2 ⟨p, hp, rfl⟩
      simp [List.find?_cons, hk, this]
    · have hk' : ¬ k = e.1 := fun h => hk h.symm
      simp only [List.find?_cons, hk, decide_false, hk', if_false]

/-- **merge with replace**: every member of the document is set, the others stay -/
theorem C15_merge_replace (ls : Bytes → Option Json) (w : Json) (hw : IsObj w) (r : SetReq) (kvs : List (Bytes × Json))
    (ht : r.type = .json) (hn : nameOk r.name = none) (hd : r.jsonVal.bind ls = some (.obj kvs))
    (hnd : (kvs.map (·.1)).Nodup) (hr : r.replace = true) :
    (setter ls w r).2 = .none ∧
    ∀ k, abs (setter ls w r).1 k = match abs (.obj kvs) k with | some v => some v | none => abs w k := by
  obtain ⟨k0, rfl⟩ := hw
  unfold setter
  simp only [ht, hd, hn, Json.isObject, Bool.and_self, if_true, hr]
  refine ⟨trivial, ?_⟩
  intro k
  unfold abs Json.objUpdate
  rw [update_get kvs hnd (.obj k0) ⟨_, rfl⟩ k]
  simp only [Json.objGet]
  cases kvs.find? (·.1 = k) <;> rfl

theorem updateMissing_get (kvs : List (Bytes × Json)) (hnd : (kvs.map (·.1)).Nodup) (w : Json) (hw : IsObj w) (k : Bytes) :
    (kvs.foldl (fun acc p => if (acc.objGet p.1).isSome then acc else acc.objSet p.1 p.2) w).objGet k =
      match w.objGet k with
      | some v => some v
      | none => (kvs.find? (·.1 = k)).map (·.2) := by
  induction kvs generalizing w with
  | nil => simp; cases w.objGet k <;> rfl
  | cons e rest ih =>
    simp only [List.map_cons, List.nodup_cons] at hnd
    obtain ⟨k0, rfl⟩ := hw
    simp only [List.foldl_cons]
    have hrest : e.1 = k → rest.find? (·.1 = k) = none := by
      intro hk
      simp only [List.find?_eq_none, decide_eq_true_eq]
      intro p hp hpk
      apply hnd.1
      rw [hk, ← hpk]
      exact List.mem_map.2 ⟨p, hp, rfl⟩
    by_cases hex : ((Json.obj k0).objGet e.1).isSome = true
    · simp only [hex, if_true]
      rw [ih hnd.2 (.obj k0) ⟨_, rfl⟩]
      cases hw : (Json.obj k0).objGet k with
      | some v => rfl
      | none =>
        have hk : ¬ e.1 = k := by
          intro hk; rw [hk, hw] at hex; simp at hex
        simp [List.find?_cons, hk]
    · simp only [hex, Bool.false_eq_true, if_false]
      rw [ih hnd.2 ((Json.obj k0).objSet e.1 e.2) ⟨_, rfl⟩, Json.objGet_objSet]
      by_cases hk : e.1 = k
      · subst hk
        have hnone : (Json.obj k0).objGet e.1 = none := by
          cases h : (Json.obj k0).objGet e.1 with
          | none => rfl
          | some v => rw [h] at hex; simp at hex
        simp [hnone, List.find?_cons]
      · have hk' : ¬ k = e.1 := fun h => hk h.symm
        simp only [hk', if_false, List.find?_cons, hk, decide_false]

/-- **merge without replace**: only members the map does not have yet are added -/
theorem C15_merge_missing (ls : Bytes → Option Json) (w : Json) (hw : IsObj w) (r : SetReq) (kvs : List (Bytes × Json))
    (ht : r.type = .json) (hn : nameOk r.name = none) (hd : r.jsonVal.bind ls = some (.obj kvs))
    (hnd : (kvs.map (·.1)).Nodup) (hr : r.replace = false) :
    (setter ls w r).2 = .none ∧
    ∀ k, abs (setter ls w r).1 k = match abs w k with | some v => some v | none => abs (.obj kvs) k := by
  obtain ⟨k0, rfl⟩ := hw
  unfold setter
  simp only [ht, hd, hn, Json.isObject, Bool.and_self, if_true, hr, Bool.false_eq_true, if_false]
  refine ⟨trivial, ?_⟩
  intro k
  unfold abs Json.objUpdateMissing
  rw [updateMissing_get kvs hnd (.obj k0) ⟨_, rfl⟩ k]
  rfl

/-! ### headers and claims stay JSON objects -/

theorem checkedSet_isObj (w : Json) (hw : IsObj w) (n : Bytes) (v : Option Json) (rp : Bool) :
    IsObj (checkedSet w n v rp).1 := by
  obtain ⟨kvs, rfl⟩ := hw
  unfold checkedSet
  simp only
  split
  · exact ⟨_, rfl⟩
  · cases v with
    | none => simp only; split <;> exact ⟨_, rfl⟩
    | some val => simp only; split <;> split <;> exact ⟨_, rfl⟩

theorem foldl_missing_obj (kvs : List (Bytes × Json)) (w : Json) (hw : IsObj w) :
    IsObj (kvs.foldl (fun acc p => if (acc.objGet p.1).isSome then acc else acc.objSet p.1 p.2) w) := by
  induction kvs generalizing w with
  | nil => exact hw
  | cons e rest ih =>
    obtain ⟨k0, rfl⟩ := hw
    simp only [List.foldl_cons]
    split
    · exact ih _ ⟨_, rfl⟩
    · exact ih _ ⟨_, rfl⟩

/-- **Invariant**: whatever is set, the map stays a JSON object -/
theorem setter_isObj (ls : Bytes → Option Json) (w : Json) (hw : IsObj w) (r : SetReq) : IsObj (setter ls w r).1 := by
  unfold setter
  cases r.type <;> simp only
  · split
    · exact hw
    · exact checkedSet_isObj w hw _ _ _
  · split
    · exact checkedSet_isObj w hw _ _ _
    · exact hw
  · split
    · exact hw
    · exact checkedSet_isObj w hw _ _ _
  · split
    · exact hw
    · rename_i doc _
      split
      · split
        · split
          · cases doc with
            | obj kvs => exact foldl_set_obj kvs w hw
            | _ => exact hw
          · cases doc with
            | obj kvs => exact foldl_missing_obj kvs w hw
            | _ => exact hw
        · exact hw
      · exact checkedSet_isObj w hw _ _ _

theorem deleter_isObj (w : Json) (hw : IsObj w) (n : Option Bytes) : IsObj (deleter w n).1 := by
  obtain ⟨kvs, rfl⟩ := hw
  unfold deleter
  split <;> exact ⟨_, rfl⟩

/-! ### non-vacuity -/
def m1 : Json := .obj [([97], .int 1)]
example : IsObj m1 := ⟨_, rfl⟩
example : setter (fun _ => none) m1 { type := .int, name := some [97], intVal := 2 } = (m1, .exist) := by rfl
example : (setter (fun _ => none) m1 { type := .int, name := some [97], intVal := 2, replace := true }).1.objGet [97] = some (.int 2) := by rfl
example : (getter m1 .str (some [97])).1 = .type ∧ (getter m1 .int (some [98])).1 = .noexist := by decide
example : setter (fun _ => none) m1 { type := .bool, name := some [] } = (m1, .invalid) := by rfl

/-- **The typed getters are the source's.** `jwt_get_int`, `jwt_get_str`, `jwt_get_bool` are *generated* from
`jwt-setget.c`; fed with the model's quantities (is the name NULL / empty, is there such a member, has it the type asked
for) they return the code the model's `getter` returns. -/
theorem C15_getter_codes_are_source (which : Json) (name : Option Bytes) :
    ((getter which .int name).1.code =
      (Jwt.Generated.Pipeline.getInt (nameNull name) (nameEmpty name) ((name.bind which.objGet).isNone) (((name.bind which.objGet).map (isOfType .int)).getD false) 0).1) ∧
    ((getter which .str name).1.code =
      (Jwt.Generated.Pipeline.getStr (nameNull name) (nameEmpty name) ((name.bind which.objGet).isNone) (((name.bind which.objGet).map (isOfType .str)).getD false) false 0).1) ∧
    ((getter which .bool name).1.code =
      (Jwt.Generated.Pipeline.getBool (nameNull name) (nameEmpty name) ((name.bind which.objGet).isNone) (((name.bind which.objGet).map (isOfType .bool)).getD false) 0).1) :=
  getter_code_generated which name

/-- `jwt_obj_check` followed by the store, as generated: EXIST for a member that is there (whatever its value) when
`replace` is off, deletion first when it is on, INVALID when the value cannot be stored -- the code of the model's `checkedSet` -/
theorem C15_checked_set_is_source (which : Json) (name : Bytes) (v : Option Json) (replace : Bool) :
    (checkedSet which name v replace).2.code =
      (Jwt.Generated.Pipeline.setInt false false ((Jwt.Generated.Pipeline.objCheck (which.objGet name).isNone (!replace)).1 = 0)
        (match v with | none => true | some _ => !(which.isObject && validUtf8 name))
        (if (Jwt.Generated.Pipeline.objCheck (which.objGet name).isNone (!replace)).1 = 0 then 0 else (Jwt.Generated.Pipeline.objCheck (which.objGet name).isNone (!replace)).1)).1 :=
  checkedSet_generated which name v replace

end Jwt.Props.C15
