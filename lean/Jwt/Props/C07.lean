import Jwt.Jwk
import Jwt.Lemmas.Json
import Jwt.Lemmas.PipelineJwk
/-!
# C07 — arbitrary JWK/JWKS input: a well-formed keyring comes back

The model functions (`jwksProcess`, `processOne`, …) are total and structurally recursive, and every
`json_string_value` is an `Option` that is matched on before use — the NULL discipline of the fixed
C code. Memory safety / UB / leaks of the compiled code on these inputs are witnessed by the
ASan/UBSan/LSan runs of suite `jwk-shapes` (member × JSON type, mutated text, every entry point).
What OpenSSL makes of well-typed key material is the parameter `KeyOracle` (arbitrary in all
theorems).
-/
namespace Jwt.Props.C07
open Jwt

/-- **Shape.** Text that is not JSON: the set carries an error (with message) and gains no items.
Otherwise: no `keys` member — exactly one item; `keys` an array of `n` elements — exactly `n` items,
in document order, after the items already there; `keys` of any other type — none. -/
theorem C07_shape (o : KeyOracle) (s : KeySet) :
    ((jwksProcess o s none).items = s.items ∧ (jwksProcess o s none).error = true ∧ (jwksProcess o s none).msg = true) ∧
    (∀ j, j.objGet [107, 101, 121, 115] = none →
      (jwksProcess o s (some j)).items = s.items ++ [processOne o j] ∧ (jwksProcess o s (some j)).error = s.error) ∧
    (∀ j elems, j.objGet [107, 101, 121, 115] = some (.arr elems) →
      (jwksProcess o s (some j)).items = s.items ++ elems.map (processOne o) ∧
      (jwksProcess o s (some j)).items.length = s.items.length + elems.length ∧ (jwksProcess o s (some j)).error = s.error) ∧
    (∀ j v, j.objGet [107, 101, 121, 115] = some v → (∀ e, v ≠ .arr e) → jwksProcess o s (some j) = s) := by
  refine ⟨⟨rfl, rfl, rfl⟩, ?_, ?_, ?_⟩
  · intro j h; simp [jwksProcess, h]
  · intro j elems h; simp [jwksProcess, h]
  · intro j v h hv
    cases v <;> simp [jwksProcess, h] <;> exact absurd rfl (hv _)

/-- what every item must satisfy: flagged with a message, or a usable key (known kty, key material) -/
def Good (it : Item) : Prop :=
  (it.error = true → it.msg = true) ∧
  (it.error = false → it.kty ≠ 0 ∧ (it.hasPem = true ∨ it.oct ≠ []))

theorem fail_good (it : Item) : Good it.fail := by simp [Good, Item.fail]

theorem keyed_good (it : Item) (r : Option (Nat × Bool)) (hk : it.kty ≠ 0) (he : it.error = false) : Good (it.keyed r) := by
  unfold Item.keyed Good
  cases r with
  | none => simp
  | some p => obtain ⟨b, ok⟩ := p; cases ok <;> simp [hk, he]

/-- the metadata step never turns a good item into a bad one -/
theorem processValues_good (jwk : Json) (it : Item) (h : Good it) : Good (processValues jwk it) := by
  have hrest : ∀ it', Good it' → Good (processValues.rest jwk it') := by
    intro it' h'
    unfold processValues.rest Good at *
    simp only
    repeat' split
    all_goals simp_all
  unfold processValues
  split
  · split
    · exact fail_good it
    · exact hrest _ (by simpa [Good] using h)
  · exact hrest _ h

/-- **Items.** Every item `jwk_process_one` produces — for *every* JSON value, of any shape, in
every member position — either reports an error with a non-empty message or is a usable key object. -/
theorem C07_item (o : KeyOracle) (j : Json) : Good (processOne o j) := by
  unfold processOne
  split
  · exact fail_good _
  · split
    · apply processValues_good
      unfold processEc
      simp only
      repeat' split
      all_goals first | exact fail_good _ | exact keyed_good _ _ (by simp) (by simp)
    · apply processValues_good
      unfold processRsa
      simp only
      repeat' split
      all_goals first | exact fail_good _ | exact keyed_good _ _ (by simp) (by simp)
    · apply processValues_good
      unfold processOkp
      simp only
      repeat' split
      all_goals first | exact fail_good _ | exact keyed_good _ _ (by simp) (by simp)
    · apply processValues_good
      unfold processOctet
      repeat' split
      all_goals first
        | exact fail_good _
        | (rename_i bin hb
           exact ⟨by simp, fun _ => ⟨by simp, Or.inr (Base64.uriDecode_ne_nil _ _ hb)⟩⟩)
    · exact fail_good _

/-- every item of a keyring built by any sequence of loads is good -/
theorem C07_all_items (o : KeyOracle) (s : KeySet) (doc : Option Json) (h : ∀ it ∈ s.items, Good it) :
    ∀ it ∈ (jwksProcess o s doc).items, Good it := by
  unfold jwksProcess
  cases doc with
  | none => exact h
  | some j =>
    simp only
    split
    · intro it hit
      simp only [List.mem_append, List.mem_singleton] at hit
      rcases hit with hit | rfl
      · exact h it hit
      · exact C07_item o j
    · intro it hit
      simp only [List.mem_append, List.mem_map] at hit
      rcases hit with hit | ⟨e, _, rfl⟩
      · exact h it hit
      · exact C07_item o e
    · exact h

/-! ### non-vacuity: the shapes that used to crash are plain error items in the model -/
def noOracle : KeyOracle := { rsa := fun _ _ _ _ => none, ec := fun _ _ _ _ => none, okp := fun _ _ _ => none }
-- {"kty":"RSA","n":"AQAB","e":"AQAB","alg":null}
example : (processOne noOracle (.obj [([107, 116, 121], .str [82, 83, 65]), ([110], .str [65, 81, 65, 66]), ([101], .str [65, 81, 65, 66]),
    (N.alg, .null)])).error = true := by decide +kernel
-- {"kty":"OKP","crv":"Ed25519","x":5}
example : (processOne noOracle (.obj [([107, 116, 121], .str [79, 75, 80]), ([99, 114, 118], .str [69, 100, 50, 53, 53, 49, 57]),
    ([120], .int 5)])).error = true := by decide +kernel
-- {"kty":"oct","k":"AQID"}: a usable key
example : (processOne noOracle (.obj [([107, 116, 121], .str [111, 99, 116]), ([107], .str [65, 81, 73, 68])])) =
    { kty := 4, isPrivate := true, oct := [1, 2, 3], bits := 24 } := by decide +kernel

/-- **The import dispatch is the source's.** Which importer a JWK goes through is decided by the if-chain of
`jwk_process_one` as *generated* from `jwks.c`; fed with `jwt_strcmp` against the names of the generated kty table it
selects what the model's table lookup selects, and a missing, non-string or unknown `kty` gives a flagged item with a
message (never NULL, never an unflagged item without a key). -/
theorem C07_dispatch_is_source (kty : Bytes) :
    (Jwt.Generated.Pipeline.processOne false false false true (ktyIs kty [69, 67]) (ktyIs kty [82, 83, 65]) (ktyIs kty [79, 75, 80]) (ktyIs kty [111, 99, 116])).1
      = (lookup Jwt.Generated.ktyTable kty).getD 0 ∧
    (∀ a b c d s, Jwt.Generated.Pipeline.processOne false false true s a b c d = (0, true)) ∧
    (∀ a b c d, Jwt.Generated.Pipeline.processOne false false false false a b c d = (0, true)) :=
  ⟨processOne_dispatch kty, fun a b c d s => (processOne_refusals a b c d s).1, fun a b c d => (processOne_refusals a b c d false).2.1⟩

/-- `process_octet` as generated: an oct item is flagged (with a message) exactly when `k` is missing, not a string,
empty or refused by the decoder -/
theorem C07_oct_is_source (jwk : Json) (it : Item) (hit : it.error = false) (x1 x2 : Bool) :
    ((processOctet jwk it).error = true ↔ (processOctetGen jwk x1 x2).1 = 1) ∧
    ((processOctetGen jwk x1 x2).2 = true ↔ (processOctetGen jwk x1 x2).1 = 1) :=
  ⟨(processOctet_generated jwk it hit x1 x2).1, (processOctet_generated jwk it hit x1 x2).2.2⟩

end Jwt.Props.C07
