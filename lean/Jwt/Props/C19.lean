import Jwt.Lemmas.Policy
import Jwt.Props.C02
import Jwt.Lemmas.Pipeline
/-!
# C19 — a verification callback can observe the token but not bend the verdict

A callback is an arbitrary function `headers → claims → alg → config → (return code, headers', claims', config')`:
`headers'`/`claims'` stand for *whatever* it did to the token object it was handed.
-/
namespace Jwt.Props.C19
open Jwt

/-- **Inert callbacks.** A callback that returns 0 and leaves key and algorithm in its config
untouched does not change the outcome, whatever it does to the token object: the call behaves
exactly as without a callback (same return value, same error flag and message presence). -/
theorem C19_inert (env : Env) (ck : Checker) (cb : CheckerCb) (tok : Option Bytes)
    (hinert : ∀ h c a cfg, (cb h c a cfg).1 = 0 ∧ (cb h c a cfg).2.2.2 = cfg) :
    verify env { ck with cfg := { ck.cfg with cb := some cb } } tok =
      (let r := verify env { ck with cfg := { ck.cfg with cb := none } } tok
       ({ r.1 with cfg := { r.1.cfg with cb := some cb } }, r.2)) := by
  have hcore : ∀ t, verifyCore env { ck.cfg with cb := some cb } t = verifyCore env { ck.cfg with cb := none } t := by
    intro t
    unfold verifyCore
    cases parse env.jc t with
    | error e => rfl
    | ok p =>
      have : afterCb { ck.cfg with cb := some cb } p = afterCb { ck.cfg with cb := none } p := by
        simp only [afterCb]
        obtain ⟨h1, h2⟩ := hinert p.headers p.claims p.alg { key := ck.cfg.key, alg := ck.cfg.alg }
        exact Prod.ext h1 h2
      simp only [this]
  unfold verify Checker.writeError
  cases tok with
  | none => simp
  | some t =>
    cases t with
    | nil => simp
    | cons x xs =>
      simp only [hcore]
      cases (verifyCore env { ck.cfg with cb := none } (x :: xs)).1 <;> simp

/-- **A callback that returns non-zero always makes verification fail.** -/
theorem C19_fail (env : Env) (ck : Checker) (cb : CheckerCb) (t : Bytes) (hcb : ck.cfg.cb = some cb)
    (hret : ∀ h c a cfg, (cb h c a cfg).1 ≠ 0) : (verify env ck (some t)).2 ≠ 0 := by
  intro h0
  obtain ⟨t', ht, _, hok⟩ := (verify_rc_zero env ck (some t)).1 h0
  cases ht
  obtain ⟨p, _, hr, _⟩ := verifyCore_ok env ck.cfg t hok
  simp only [afterCb, hcb] at hr
  exact hret _ _ _ _ hr

/-- **Admission.** The (algorithm, key) a callback selects passes the same table as `setkey`, or
the call fails; and (C01–C03, C09, stated for the post-callback config) everything else holds for it. -/
theorem C19_admission (env : Env) (ck : Checker) (tok : Option Bytes) (h : (verify env ck tok).2 = 0) :
    ∃ t p, tok = some t ∧ parse env.jc t = .ok p ∧
      setkeyCheck .checker (afterCb ck.cfg p).2.alg (afterCb ck.cfg p).2.key = none := by
  obtain ⟨t, rfl, _, hok⟩ := (verify_rc_zero env ck tok).1 h
  obtain ⟨p, hp, _, hs, _⟩ := verifyCore_ok env ck.cfg t hok
  exact ⟨t, p, rfl, hp, hs⟩

/-! ### non-vacuity: a callback that wipes the token object and returns 0 is inert in the sense above -/
def wiper : CheckerCb := fun _ _ _ cfg => (0, .obj [], .obj [], cfg)
example : ∀ h c a cfg, (wiper h c a cfg).1 = 0 ∧ (wiper h c a cfg).2.2.2 = cfg := fun _ _ _ _ => ⟨rfl, rfl⟩
def refuser : CheckerCb := fun h c _ cfg => (1, h, c, cfg)
example : ∀ h c a cfg, (refuser h c a cfg).1 ≠ 0 := fun _ _ _ _ => by simp [refuser]

/-- **A non-zero callback result ends the call, in the code as written.** In the decision skeleton generated from
`jwt_checker_verify` a callback that is installed and returns non-zero leads to `return 1` with a message on the
checker, whatever `__setkey_check` or the rest would say; and the callback is only reached when parsing succeeded.
(`C14_verify_exits_are_source` ties the model's `verify` to this skeleton.) -/
theorem C19_cb_nonzero_is_source (a b c : Bool) (n : Nat) :
    Jwt.Generated.Pipeline.checkerVerify false false false false false false false false a n = (1, true, false) ∧
    (∀ cbNull, Jwt.Generated.Pipeline.checkerVerify false false false false true cbNull b c a n = (1, false, true)) :=
  checkerVerify_cb_nonzero a b c n

end Jwt.Props.C19
