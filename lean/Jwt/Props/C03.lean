import Jwt.Lemmas.Policy
import Jwt.Props.C02
/-!
# C03 — unsigned tokens pass only when neither key nor algorithm is configured (checker side)

The builder clauses (`C03_builder_*`) are in `Jwt/Props/C03b.lean`, over the builder model.
-/
namespace Jwt.Props.C03
open Jwt

/-- A checker that has a key — from setkey or chosen by its callback — never accepts a token whose
signature segment is empty or whose header alg is `none`. -/
theorem C03_checker_key (env : Env) (ck : Checker) (tok : Option Bytes) (h : (verify env ck tok).2 = 0) :
    ∃ t p, tok = some t ∧ parse env.jc t = .ok p ∧
      ((afterCb ck.cfg p).2.key.isSome → p.sig ≠ [] ∧ p.alg ≠ .none) := by
  obtain ⟨t, rfl, _, hok⟩ := (verify_rc_zero env ck tok).1 h
  obtain ⟨p, hp, _, _, _, hcp, _⟩ := verifyCore_ok env ck.cfg t hok
  refine ⟨t, p, rfl, hp, ?_⟩
  intro hk
  cases hkey : (afterCb ck.cfg p).2.key with
  | none => simp [hkey] at hk
  | some k =>
    obtain ⟨hn, hj, _⟩ := configPost_key _ _ _ k hkey hcp
    exact ⟨fun he => hn (by simp [he]), hj⟩

/-- A checker without a key accepts only tokens whose header `alg` is exactly the four bytes
`none`, whose third segment is empty, and only when no algorithm is configured either. -/
theorem C03_checker_nokey (env : Env) (ck : Checker) (tok : Option Bytes) (h : (verify env ck tok).2 = 0) :
    ∃ t p, tok = some t ∧ parse env.jc t = .ok p ∧
      ((afterCb ck.cfg p).2.key = none →
        p.sig = [] ∧ (afterCb ck.cfg p).2.alg = .none ∧ p.headers.objGet N.alg = some (.str N.none)) := by
  obtain ⟨t, rfl, _, hok⟩ := (verify_rc_zero env ck tok).1 h
  obtain ⟨p, hp, _, _, _, hcp, _⟩ := verifyCore_ok env ck.cfg t hok
  refine ⟨t, p, rfl, hp, ?_⟩
  intro hk
  obtain ⟨hn, hj, ha⟩ := configPost_nokey _ _ _ hk hcp
  obtain ⟨s, hs, hname, _⟩ := parseHeadAlg_ok _ _ (parse_ok env.jc t p hp).2.2.2.2.2
  refine ⟨List.eq_nil_of_length_eq_zero hn, ha, ?_⟩
  rw [hj] at hname
  have : algStr .none = some N.none := by decide +kernel
  rw [this] at hname
  cases hname
  exact hs

/-! ### non-vacuity -/
-- a keyless, alg-less configuration accepts an unsigned `none` token at the policy level …
example : configPost { key := none, alg := .none } .none 0 = none := by decide
-- … and nothing else
example : configPost { key := none, alg := .none } .hs256 0 = some .expectedSig := by decide
example : configPost { key := none, alg := .none } .none 4 = some .sigButAlgNone := by decide
example : configPost { key := some Props.C02.rsaPub, alg := .none } .none 0 = some .expectedSig := by decide

end Jwt.Props.C03
