import Jwt.Lemmas.Policy
import Jwt.Props.C02
import Jwt.Props.C10
/-!
# C03 — unsigned tokens pass only when neither key nor algorithm is configured (checker side)

The builder clauses (`C03_builder_*`) are below, over the builder model.
-/
namespace Jwt.Props.C03
open Jwt

/-- A checker that has a key — from setkey or chosen by its callback — never accepts a token whose
signature segment is empty or whose header alg is `none`. -/
theorem C03_checker_key (env : Env) (ck : Checker) (tok : Option Bytes) (h : (verify env ck tok).2 = 0) :
    ∃ t p, tok = some t ∧ parse env.jc t = .ok p ∧
      ((afterCb ck.cfg p).2.key.isSome → p.sig ≠ [] ∧ p.alg ≠ .none) := by
  obtain ⟨t, rfl, _, hok⟩ := (verify_rc_zero env ck tok).1 h
  obtain ⟨p, hp, _, _, _, hcp, _⟩ := verifyCore_ok env ck.cfg t hok
  refine ⟨t, p, rfl, hp, ?_⟩
  intro hk
  cases hkey : (afterCb ck.cfg p).2.key with
  | none => simp [hkey] at hk
  | some k =>
    obtain ⟨hn, hj, _⟩ := configPost_key _ _ _ k hkey hcp
    exact ⟨fun he => hn (by simp [he]), hj⟩

/-- A checker without a key accepts only tokens whose header `alg` is exactly the four bytes
`none`, whose third segment is empty, and only when no algorithm is configured either. -/
theorem C03_checker_nokey (env : Env) (ck : Checker) (tok : Option Bytes) (h : (verify env ck tok).2 = 0) :
    ∃ t p, tok = some t ∧ parse env.jc t = .ok p ∧
      ((afterCb ck.cfg p).2.key = none →
        p.sig = [] ∧ (afterCb ck.cfg p).2.alg = .none ∧ p.headers.objGet N.alg = some (.str N.none)) := by
  obtain ⟨t, rfl, _, hok⟩ := (verify_rc_zero env ck tok).1 h
  obtain ⟨p, hp, _, _, _, hcp, _⟩ := verifyCore_ok env ck.cfg t hok
  refine ⟨t, p, rfl, hp, ?_⟩
  intro hk
  obtain ⟨hn, hj, ha⟩ := configPost_nokey _ _ _ hk hcp
  obtain ⟨s, hs, hname, _⟩ := parseHeadAlg_ok _ _ (parse_ok env.jc t p hp).2.2.2.2.2
  refine ⟨List.eq_nil_of_length_eq_zero hn, ha, ?_⟩
  rw [hj] at hname
  have : algStr .none = some N.none := by decide +kernel
  rw [this] at hname
  cases hname
  exact hs

/-- **Builder with a key** — given by setkey or by its callback, with or without an explicit
algorithm: `generate` either fails or returns a token whose header `alg` names an algorithm other
than `none` (the pinned one) and whose third segment is the base64url of the signature the primitive
returned (non-empty whenever that signature is). It never falls back to an unsigned token. -/
theorem C03_builder_key (env : Env) (b : Builder) (t : Bytes) (k : KeyItem) (h : (generate env b).2 = some t)
    (hk : (genAfterCb b.cfg env.now).2.2.2.key = some k) :
    usedAlg (genAfterCb b.cfg env.now).2.2.2 ≠ .none ∧
    usedAlg (genAfterCb b.cfg env.now).2.2.2 = pinned (genAfterCb b.cfg env.now).2.2.2 ∧
    ∃ H sig tr, headSetup (genAfterCb b.cfg env.now).2.1 (usedAlg (genAfterCb b.cfg env.now).2.2.2) = .ok H ∧
      sign env k (usedAlg (genAfterCb b.cfg env.now).2.2.2)
        (signingInput (Base64.uriEncode (env.jc.dump H)) (Base64.uriEncode (env.jc.dump (genAfterCb b.cfg env.now).2.2.1))) = (.ok sig, tr) ∧
      t = signingInput (Base64.uriEncode (env.jc.dump H)) (Base64.uriEncode (env.jc.dump (genAfterCb b.cfg env.now).2.2.1)) ++ [46] ++ Base64.uriEncode sig := by
  obtain ⟨tr, hg⟩ := generate_some env b t h
  obtain ⟨_, _, _, hadm, _⟩ := generateCore_ok env b.cfg (some t) tr hg
  -- with a key admitted, the algorithm in use is the pinned one and not `none`
  have hne : usedAlg (genAfterCb b.cfg env.now).2.2.2 ≠ .none := by
    intro e
    rw [e, hk] at hadm
    unfold usedAlg at e
    rw [hk] at e
    by_cases ha : (genAfterCb b.cfg env.now).2.2.2.alg = .none
    · simp only [ha, if_true] at e
      by_cases hp : k.isPrivate = true <;> simp [setkeyCheck, setkeyCheck.setkeyTable, hp, e] at hadm
    · simp [ha] at e
  have hpin : usedAlg (genAfterCb b.cfg env.now).2.2.2 = pinned (genAfterCb b.cfg env.now).2.2.2 := by
    unfold usedAlg pinned
    by_cases ha : (genAfterCb b.cfg env.now).2.2.2.alg = .none <;> simp [ha] <;> rfl
  refine ⟨hne, hpin, ?_⟩
  obtain ⟨H, P, hH, hP, _, _, _, _, hcase⟩ := Props.C10.C10_shape env b t h
  subst hP
  rcases hcase with ⟨hn, _⟩ | ⟨_, k', sig, tr', hk', hs, ht⟩
  · exact absurd hn hne
  · rw [hk] at hk'; cases hk'
    exact ⟨H, sig, tr', hH, hs, ht⟩

/-- **Builder without a key**: the only tokens it emits are `alg: none` tokens ending in an empty
third segment. -/
theorem C03_builder_nokey (env : Env) (b : Builder) (t : Bytes) (h : (generate env b).2 = some t)
    (hk : (genAfterCb b.cfg env.now).2.2.2.key = none) :
    usedAlg (genAfterCb b.cfg env.now).2.2.2 = .none ∧
    ∃ H, headSetup (genAfterCb b.cfg env.now).2.1 .none = .ok H ∧
      t = signingInput (Base64.uriEncode (env.jc.dump H)) (Base64.uriEncode (env.jc.dump (genAfterCb b.cfg env.now).2.2.1)) ++ [46] := by
  obtain ⟨tr, hg⟩ := generate_some env b t h
  obtain ⟨_, _, _, hadm, _⟩ := generateCore_ok env b.cfg (some t) tr hg
  have hn : usedAlg (genAfterCb b.cfg env.now).2.2.2 = .none := by
    rw [hk] at hadm
    by_cases e : usedAlg (genAfterCb b.cfg env.now).2.2.2 = .none
    · exact e
    · simp [setkeyCheck, setkeyCheck.setkeyTable, e] at hadm
  refine ⟨hn, ?_⟩
  obtain ⟨H, P, hH, hP, _, _, _, _, hcase⟩ := Props.C10.C10_shape env b t h
  subst hP
  rcases hcase with ⟨_, ht⟩ | ⟨hne, _⟩
  · rw [hn] at hH; exact ⟨H, hH, ht⟩
  · exact absurd hn hne

/-! ### non-vacuity -/
-- a keyless, alg-less configuration accepts an unsigned `none` token at the policy level …
example : configPost { key := none, alg := .none } .none 0 = none := by decide
-- … and nothing else
example : configPost { key := none, alg := .none } .hs256 0 = some .expectedSig := by decide
example : configPost { key := none, alg := .none } .none 4 = some .sigButAlgNone := by decide
example : configPost { key := some Props.C02.rsaPub, alg := .none } .none 0 = some .expectedSig := by decide

end Jwt.Props.C03
