import Jwt.Lemmas.Verify
import Jwt.Lemmas.Json
import Jwt.Checker
import Jwt.Generated.ClaimRules
import Jwt.Lemmas.PipelineConfig
import Jwt.Lemmas.PipelineClaims
/-!
# C04 — claim checks (exp, nbf, iss, sub, aud) are enforced exactly as configured

Integers are unbounded in the model; the code computes `now ± leeway` in 64-bit `time_t`, which
coincides as long as `|now|, |leeway| < 2^62` (the property quantifies leeways in [0, 2^40]).
The defaults and the disable bound are *generated* from jwt-common.c (`CLAIMS_DEF`, `__DISABLE`).
-/
namespace Jwt.Props.C04
open Jwt Jwt.Generated

/-! ### the individual checks -/

/-- **The comparisons are the source's** (generated from `__verify_claims` of `jwt-verify.c`, which reads the
clock once): with the check on and an integer claim present, the model's `exp` check fails exactly when the
translated test `jval.int_val <= now - leeway` holds, and the `nbf` check exactly when `jval.int_val > now +
leeway` holds; the string claims checked are `iss`, `sub`, `aud`. A `<=` turned `<`, a sign of the leeway
flipped, a claim dropped from the list fails here at build time. -/
theorem C04_comparisons_are_source (c : ClaimCfg) (claims : Json) (now v : Int) :
    (c.mask.exp = true → claims.objGet N.exp = some (.int v) →
      (expFails c claims now = true ↔ Generated.srcExpFails v now c.expLeeway)) ∧
    (c.mask.nbf = true → claims.objGet N.nbf = some (.int v) →
      (nbfFails c claims now = true ↔ Generated.srcNbfFails v now c.nbfLeeway)) ∧
    Generated.srcStrClaims = [("ISS", "iss"), ("SUB", "sub"), ("AUD", "aud")] := by
  refine ⟨?_, ?_, by decide⟩
  · intro hon hg
    simp [expFails, getInt, hon, hg, Generated.srcExpFails]
  · intro hon hg
    simp [nbfFails, getInt, hon, hg, Generated.srcNbfFails]

/-- expiry on, `exp` an integer: passes exactly while `exp > now − leeway` -/
theorem C04_exp (c : ClaimCfg) (claims : Json) (now e : Int) (hon : c.mask.exp = true)
    (he : claims.objGet N.exp = some (.int e)) : expFails c claims now = false ↔ e > now - c.expLeeway := by
  simp [expFails, hon, getInt, he]

/-- not-before on, `nbf` an integer: passes exactly once `nbf ≤ now + leeway` -/
theorem C04_nbf (c : ClaimCfg) (claims : Json) (now n : Int) (hon : c.mask.nbf = true)
    (hn : claims.objGet N.nbf = some (.int n)) : nbfFails c claims now = false ↔ n ≤ now + c.nbfLeeway := by
  simp [nbfFails, hon, getInt, hn]

/-- an `exp`/`nbf` that is present but not a JSON integer (real, string, bool, null, array, object)
is rejected; an absent one passes; a switched-off check passes everything -/
theorem C04_type (c : ClaimCfg) (claims : Json) (now : Int) :
    (c.mask.exp = true → ∀ v, claims.objGet N.exp = some v → (∀ i, v ≠ .int i) → expFails c claims now = true) ∧
    (c.mask.nbf = true → ∀ v, claims.objGet N.nbf = some v → (∀ i, v ≠ .int i) → nbfFails c claims now = true) ∧
    (claims.objGet N.exp = none → expFails c claims now = false) ∧
    (claims.objGet N.nbf = none → nbfFails c claims now = false) ∧
    (c.mask.exp = false → expFails c claims now = false) ∧ (c.mask.nbf = false → nbfFails c claims now = false) := by
  refine ⟨?_, ?_, ?_, ?_, ?_, ?_⟩
  · intro hon v hv hni
    cases v <;> simp_all [expFails, getInt]
  · intro hon v hv hni
    cases v <;> simp_all [nbfFails, getInt]
  · intro h; simp [expFails, getInt, h]
  · intro h; simp [nbfFails, getInt, h]
  · intro h; simp [expFails, h]
  · intro h; simp [nbfFails, h]

/-- for a string claim the application set to `want`: accepted exactly when the token carries the
claim as a string byte-for-byte equal to `want` -/
theorem C04_str (expected claims : Json) (name want : Bytes)
    (hw : (expected.objGet name).bind Json.strVal = some want) :
    strClaimFails true expected claims name = false ↔ claims.objGet name = some (.str want) := by
  unfold strClaimFails
  simp only [Bool.not_true, Bool.false_eq_true, if_false, hw]
  cases h : claims.objGet name with
  | none => simp
  | some v => cases v <;> simp

/-- **Defaults**: a new checker has expiry and not-before checking on with zero leeway and no
issuer/subject/audience expectation (over the generated `CLAIMS_DEF`). -/
theorem C04_defaults :
    Checker.new.cfg.claims.mask = { exp := true, nbf := true } ∧
    Checker.new.cfg.claims.expLeeway = 0 ∧ Checker.new.cfg.claims.nbfLeeway = 0 := by decide

/-- **Disable rule**: after `time_leeway(claim, s)` the check is on iff `s ≥ 0`, i.e. switched off
only by a negative leeway (over the generated `__DISABLE = -1`), and the leeway is `s`. -/
theorem C04_disable (ck : Checker) (s : Int) :
    ((ck.timeLeeway .exp s).1.cfg.claims.mask.exp = true ↔ s ≥ 0) ∧ (ck.timeLeeway .exp s).1.cfg.claims.expLeeway = s ∧
    ((ck.timeLeeway .nbf s).1.cfg.claims.mask.nbf = true ↔ s ≥ 0) ∧ (ck.timeLeeway .nbf s).1.cfg.claims.nbfLeeway = s := by
  have hd : checkerDisable = -1 := by decide
  simp only [Checker.timeLeeway, ClaimMask.set, hd]
  refine ⟨?_, trivial, ?_, trivial⟩ <;> simp <;> omega

/-- **Enforced for every token**, signed or unsigned, whatever the key: acceptance implies that no
configured claim check failed on the claims *as parsed from the token*. -/
theorem C04_enforced (env : Env) (ck : Checker) (tok : Option Bytes) (h : (verify env ck tok).2 = 0) :
    ∃ t p, tok = some t ∧ parse env.jc t = .ok p ∧ claimsFail ck.cfg.claims p.claims env.now = false := by
  obtain ⟨t, rfl, _, hok⟩ := (verify_rc_zero env ck tok).1 h
  obtain ⟨p, hp, _, _, hc, _⟩ := verifyCore_ok env ck.cfg t hok
  exact ⟨t, p, rfl, hp, hc⟩

/-! ### the policy in force is that of the most recent configuration calls -/

inductive TimePol where | off | on (leeway : Int) deriving DecidableEq, Repr
inductive StrPol where | off | must (v : Bytes) | rejectAll deriving DecidableEq, Repr

/-- the abstract policy: what the application asked for, per claim -/
structure Policy where
  exp : TimePol
  nbf : TimePol
  iss : StrPol
  sub : StrPol
  aud : StrPol
  deriving DecidableEq, Repr

def strPol (on : Bool) (expected : Json) (name : Bytes) : StrPol :=
  if !on then .off else match (expected.objGet name).bind Json.strVal with
    | some v => .must v
    | none => .rejectAll

def abs (c : ClaimCfg) : Policy :=
  { exp := if c.mask.exp then .on c.expLeeway else .off,
    nbf := if c.mask.nbf then .on c.nbfLeeway else .off,
    iss := strPol c.mask.iss c.expected N.iss, sub := strPol c.mask.sub c.expected N.sub,
    aud := strPol c.mask.aud c.expected N.aud }

def strPolFails (p : StrPol) (claims : Json) (name : Bytes) : Bool :=
  match p with
  | .off => false
  | .rejectAll => true
  | .must v => match claims.objGet name with | some (.str g) => g ≠ v | _ => true

/-- the verdict of the claim checks under an abstract policy -/
def policyFails (p : Policy) (claims : Json) (now : Int) : Bool :=
  (match p.exp with | .off => false | .on l => match getInt claims N.exp with | .ok e => e ≤ now - l | .noexist => false | .type => true) ||
  (match p.nbf with | .off => false | .on l => match getInt claims N.nbf with | .ok n => n > now + l | .noexist => false | .type => true) ||
  strPolFails p.iss claims N.iss || strPolFails p.sub claims N.sub || strPolFails p.aud claims N.aud

theorem strClaimFails_eq (on : Bool) (expected claims : Json) (name : Bytes) :
    strClaimFails on expected claims name = strPolFails (strPol on expected name) claims name := by
  unfold strClaimFails strPol strPolFails
  cases on <;> simp
  cases (expected.objGet name).bind Json.strVal <;> simp <;> rfl

/-- the checker's verdict depends on its configuration only through the abstract policy -/
theorem claimsFail_eq_policy (c : ClaimCfg) (claims : Json) (now : Int) :
    claimsFail c claims now = policyFails (abs c) claims now := by
  unfold claimsFail policyFails abs expFails nbfFails
  simp only [strClaimFails_eq]
  cases c.mask.exp <;> cases c.mask.nbf <;> simp <;> rfl

/-- the configuration calls of the property -/
inductive CfgOp where
  | claimSet (c : ClaimId) (v : Option Bytes)
  | claimDel (c : ClaimId)
  | leeway (c : ClaimId) (s : Int)

def apply (ck : Checker) : CfgOp → Checker
  | .claimSet c v => (ck.claimSet c v).1
  | .claimDel c => (ck.claimDel c).1
  | .leeway c s => (ck.timeLeeway c s).1

def setStr (v : Bytes) : StrPol := if validUtf8 v then .must v else .rejectAll

/-- what each call means for the policy: it overwrites the entry of the claim it names, nothing else -/
def specStep (p : Policy) : CfgOp → Policy
  | .claimSet .iss (some v) => { p with iss := setStr v }
  | .claimSet .sub (some v) => { p with sub := setStr v }
  | .claimSet .aud (some v) => { p with aud := setStr v }
  | .claimSet _ _ => p
  | .claimDel .iss => { p with iss := .off }
  | .claimDel .sub => { p with sub := .off }
  | .claimDel .aud => { p with aud := .off }
  | .claimDel _ => p
  | .leeway .exp s => { p with exp := if s ≥ 0 then .on s else .off }
  | .leeway .nbf s => { p with nbf := if s ≥ 0 then .on s else .off }
  | .leeway _ _ => p

/-- the expected-values object stays an object -/
def WF (ck : Checker) : Prop := ∃ kvs, ck.cfg.claims.expected = .obj kvs

theorem names : checkerClaimName .iss = some N.iss ∧ checkerClaimName .sub = some N.sub ∧
    checkerClaimName .aud = some N.aud ∧ checkerClaimName .exp = none ∧ checkerClaimName .nbf = none ∧
    checkerClaimName .iat = none ∧ checkerClaimName .jti = none ∧ checkerClaimName .other = none := by decide

theorem apply_wf (ck : Checker) (op : CfgOp) (h : WF ck) : WF (apply ck op) := by
  obtain ⟨kvs, hk⟩ := h
  obtain ⟨n1, n2, n3, n4, n5, n6, n7, n8⟩ := names
  cases op with
  | claimSet c v =>
    cases v with
    | none => exact ⟨kvs, by simp [apply, Checker.claimSet, hk]⟩
    | some v =>
      cases c <;> simp only [apply, Checker.claimSet, n1, n2, n3, n4, n5, n6, n7, n8] <;>
        first
        | exact ⟨kvs, hk⟩
        | (split <;> simp only [WF, hk, Json.objDel, Json.objSet] <;> exact ⟨_, rfl⟩)
  | claimDel c =>
    cases c <;> simp only [apply, Checker.claimDel, n1, n2, n3, n4, n5, n6, n7, n8] <;>
      first
      | exact ⟨kvs, hk⟩
      | (simp only [WF, hk, Json.objDel]; exact ⟨_, rfl⟩)
  | leeway c s =>
    cases c <;> simp only [apply, Checker.timeLeeway] <;> exact ⟨kvs, hk⟩

theorem nameNe : N.iss ≠ N.sub ∧ N.iss ≠ N.aud ∧ N.sub ≠ N.aud := by decide

/-- **Refinement**: every configuration call acts on the abstract policy exactly as `specStep` says -/
theorem apply_abs (ck : Checker) (op : CfgOp) (h : WF ck) :
    abs (apply ck op).cfg.claims = specStep (abs ck.cfg.claims) op := by
  obtain ⟨kvs, hk⟩ := h
  obtain ⟨n1, n2, n3, n4, n5, n6, n7, n8⟩ := names
  obtain ⟨e1, e2, e3⟩ := nameNe
  have hd : checkerDisable = -1 := by decide
  cases op with
  | claimSet c v =>
    cases v with
    | none => cases c <;> simp [apply, Checker.claimSet, specStep]
    | some v =>
      cases c <;> simp only [apply, Checker.claimSet, specStep, n1, n2, n3, n4, n5, n6, n7, n8] <;>
        first
        | rfl
        | (by_cases hv : validUtf8 v = true <;>
            simp [hv, abs, strPol, setStr, ClaimMask.set, hk, Json.objGet_setAfterDel, Json.objGet_objDel,
              e1, e2, e3, e1.symm, e2.symm, e3.symm, Json.strVal] <;> (try exact ⟨rfl, rfl⟩))
  | claimDel c =>
    cases c <;> simp only [apply, Checker.claimDel, specStep, n1, n2, n3, n4, n5, n6, n7, n8] <;>
      first
      | rfl
      | (simp [abs, strPol, ClaimMask.set, hk, Json.objGet_objDel, e1, e2, e3, e1.symm, e2.symm, e3.symm] <;>
          (try exact ⟨rfl, rfl⟩))
  | leeway c s =>
    cases c <;> simp only [apply, Checker.timeLeeway, specStep] <;>
      first
      | rfl
      | (by_cases hs : s ≥ 0 <;> simp [abs, ClaimMask.set, hd, hs] <;> omega)

/-- **History**: after any sequence of configuration calls the policy in force is the fold of their
meanings — and each meaning overwrites exactly the entry of the claim it names, so the entry of
every claim is that of the most recent call naming it (`C04_last_exp` spells this out for `exp`). -/
theorem C04_history (ck : Checker) (ops : List CfgOp) (h : WF ck) :
    abs (ops.foldl apply ck).cfg.claims = ops.foldl specStep (abs ck.cfg.claims) ∧ WF (ops.foldl apply ck) := by
  induction ops generalizing ck with
  | nil => exact ⟨rfl, h⟩
  | cons op ops ih =>
    simp only [List.foldl_cons]
    have := ih (apply ck op) (apply_wf ck op h)
    rw [apply_abs ck op h] at this
    exact this

/-- the most recent `time_leeway(exp, ·)` in a history, if any -/
def lastExp : List CfgOp → Option Int
  | [] => none
  | op :: ops => match lastExp ops with
    | some s => some s
    | none => match op with | .leeway .exp s => some s | _ => none

theorem C04_last_exp (p : Policy) (ops : List CfgOp) :
    (ops.foldl specStep p).exp = match lastExp ops with
      | some s => if s ≥ 0 then .on s else .off
      | none => p.exp := by
  induction ops generalizing p with
  | nil => rfl
  | cons op ops ih =>
    simp only [List.foldl_cons, lastExp]
    rw [ih]
    cases hl : lastExp ops with
    | some s => rfl
    | none =>
      cases op with
      | claimSet c v => cases c <;> cases v <;> rfl
      | claimDel c => cases c <;> rfl
      | leeway c s => cases c <;> rfl

/-! ### non-vacuity -/
example : WF Checker.new := ⟨[], rfl⟩
-- boundary of C04_exp at leeway 0: exp = now is already expired, exp = now + 1 is not
example : expFails Checker.new.cfg.claims (.obj [(N.exp, .int 100)]) 100 = true ∧
    expFails Checker.new.cfg.claims (.obj [(N.exp, .int 101)]) 100 = false := by decide
example : nbfFails Checker.new.cfg.claims (.obj [(N.nbf, .int 100)]) 100 = false ∧
    nbfFails Checker.new.cfg.claims (.obj [(N.nbf, .int 101)]) 100 = true := by decide
example : (abs (apply (apply Checker.new (.claimSet .iss (some [97]))) (.leeway .exp (-1))).cfg.claims) =
    { exp := .off, nbf := .on 0, iss := .must [97], sub := .off, aud := .off } := by decide

/-- **The policy calls are the source's.** `jwt_checker_claim_set`, `jwt_checker_claim_del` and `jwt_checker_time_leeway`
are *generated* from `jwt-common.c` with flags for what they store. The claim's bit is set as soon as a value for
iss/sub/aud is given -- whether or not storing it then succeeds (a refused value leaves the claim checked against nothing:
fail closed); a leeway is stored as passed, of any size, and switches the check on unless it is `<= __DISABLE`. -/
theorem C04_claim_set_is_source (ck : Checker) (c : ClaimId) (v : Option Bytes) :
    let sf : Nat := match v with | some x => if validUtf8 x then 0 else 1 | none => 0
    let r := Jwt.Generated.Pipeline.checkerClaimSet false v.isNone (checkerClaimName c).isNone sf
    (ck.claimSet c v).2 = r.1 ∧ (r.2.2 = true → (ck.claimSet c v).1.cfg.claims.mask = ck.cfg.claims.mask.set c true) :=
  ⟨(checker_claimSet_generated ck c v).1, (checker_claimSet_generated ck c v).2.1⟩

theorem C04_leeway_is_source (ck : Checker) (c : ClaimId) (secs : Int) :
    let r := Jwt.Generated.Pipeline.timeSpan false (c = .exp) (c = .nbf) (secs ≤ Jwt.Generated.checkerDisable)
    (ck.timeLeeway c secs).2 = r.1 ∧ (r.2.2.1 = true → (ck.timeLeeway c secs).1.cfg.claims.expLeeway = secs) ∧
    (r.2.2.2.1 = true → (ck.timeLeeway c secs).1.cfg.claims.nbfLeeway = secs) :=
  ⟨(checker_timeLeeway_generated ck c secs).1, (checker_timeLeeway_generated ck c secs).2.1, (checker_timeLeeway_generated ck c secs).2.2.1⟩

/-- **The claims check is the source's.** `__verify_claims` and `__check_str_claim` are *generated* from `jwt-verify.c`;
the kernel evaluates the generated code over every combination of its tests: each bit of the returned mask depends on its
own check only, in the closed form `verifyClaims_closed`. With the tests fed by the model's quantities, each of the model's
five checks equals the corresponding bit, and the model's verdict is their disjunction. -/
theorem C04_verify_claims_is_source (c : ClaimCfg) (claims : Json) (now : Int) :
    let r := verifyClaimsGen c claims now
    expFails c claims now = r.2.2.1 ∧ nbfFails c claims now = r.2.2.2.1 ∧
    strClaimFails c.mask.iss c.expected claims N.iss = r.2.2.2.2.1 ∧ strClaimFails c.mask.sub c.expected claims N.sub = r.2.2.2.2.2.1 ∧
    strClaimFails c.mask.aud c.expected claims N.aud = r.2.2.2.2.2.2 ∧
    (claimsFail c claims now = (r.2.2.1 || r.2.2.2.1 || r.2.2.2.2.1 || r.2.2.2.2.2.1 || r.2.2.2.2.2.2)) :=
  verifyClaims_generated c claims now

end Jwt.Props.C04
