import Jwt.Ops
import Jwt.Generated.DigestTables
import Jwt.Lemmas.StrCmp
import Jwt.Verify
import Jwt.Builder
import Jwt.Lemmas.StrCmpCode
/-!
# C12 — crypto providers are interchangeable

Proved: the switch (exact name / id of a compiled-in provider, current one untouched otherwise,
`JWT_CRYPTO` handling) over the *generated* provider table; that verification and generation depend
on the provider only through the primitives' answers (so two providers whose primitives agree on
the inputs at hand give the same verdict / token — the policy cannot differ); and that both ops
tables parse JWKs with the same functions (generated fact), so keys loaded under one provider are
the same objects under the other. That OpenSSL and GnuTLS *compute the same functions* is sampled
(suites `providers`, `roundtrip`, `verify-sig-gnutls`), not proved (PARTIAL).
-/
namespace Jwt.Props.C12
open Jwt Jwt.Generated

/-- **Switch by name**: succeeds iff the name is byte-for-byte the name of a compiled-in provider,
and then selects the first such entry; otherwise returns 1 and leaves the current provider as it was. -/
theorem C12_switch_name (cur : Nat) (name : Bytes) :
    ((setOpsByName cur name).2 = 0 ↔ ∃ i, i < providers.length ∧ opsName i = name) ∧
    ((setOpsByName cur name).2 = 0 → opsName (setOpsByName cur name).1 = name) ∧
    ((setOpsByName cur name).2 ≠ 0 → (setOpsByName cur name).1 = cur) := by
  unfold setOpsByName scanOps
  cases h : providers.findIdx? (fun e => jwtStrcmp e.1 name = 0) with
  | none =>
    rw [List.findIdx?_eq_none_iff] at h
    refine ⟨⟨by simp, ?_⟩, by simp, by simp⟩
    rintro ⟨i, hi, hn⟩
    exfalso
    have := h providers[i] (List.getElem_mem hi)
    simp only [decide_eq_false_iff_not, jwtStrcmp_eq_zero_iff] at this
    apply this
    unfold opsName at hn
    simpa [List.getElem?_eq_getElem hi] using hn
  | some i =>
    rw [List.findIdx?_eq_some_iff_getElem] at h
    obtain ⟨hi, hp, _⟩ := h
    have hn : opsName i = name := by
      unfold opsName
      simp only [List.getElem?_eq_getElem hi, Option.map_some, Option.getD_some]
      simpa [jwtStrcmp_eq_zero_iff] using hp
    exact ⟨⟨fun _ => ⟨i, hi, hn⟩, fun _ => rfl⟩, fun _ => hn, by simp⟩

/-- **Switch by id** likewise. -/
theorem C12_switch_id (cur id : Nat) :
    ((setOpsById cur id).2 = 0 ↔ ∃ i, i < providers.length ∧ opsId i = id) ∧
    ((setOpsById cur id).2 = 0 → opsId (setOpsById cur id).1 = id) ∧
    ((setOpsById cur id).2 ≠ 0 → (setOpsById cur id).1 = cur) := by
  unfold setOpsById scanOps
  cases h : providers.findIdx? (fun e => e.2 = id) with
  | none =>
    rw [List.findIdx?_eq_none_iff] at h
    refine ⟨⟨by simp, ?_⟩, by simp, by simp⟩
    rintro ⟨i, hi, hn⟩
    exfalso
    have := h providers[i] (List.getElem_mem hi)
    simp only [decide_eq_false_iff_not] at this
    apply this
    unfold opsId at hn
    simpa [List.getElem?_eq_getElem hi] using hn
  | some i =>
    rw [List.findIdx?_eq_some_iff_getElem] at h
    obtain ⟨hi, hp, _⟩ := h
    have hn : opsId i = id := by
      unfold opsId
      simp only [List.getElem?_eq_getElem hi, Option.map_some, Option.getD_some]
      simpa using hp
    exact ⟨⟨fun _ => ⟨i, hi, hn⟩, fun _ => rfl⟩, fun _ => hn, by simp⟩

/-- the compiled-in providers of this build, their ids, distinct names, and the initial one -/
theorem C12_table : providers.map (·.2) = [1, 2] ∧ (providers.map (·.1)).Nodup ∧ providerInit = 0 ∧
    opsName 0 = [111, 112, 101, 110, 115, 115, 108] ∧ opsName 1 = [103, 110, 117, 116, 108, 115] := by decide +kernel

/-- **`JWT_CRYPTO`**: unset or empty → the first provider; a provider's exact name → that one;
anything else → the first provider. -/
theorem C12_init (v : Option Bytes) :
    (v = none ∨ v = some [] → initOps v = 0) ∧
    (∀ n, v = some n → n ≠ [] → (∃ i, i < providers.length ∧ opsName i = n) → opsName (initOps v) = n) ∧
    (∀ n, v = some n → (¬ ∃ i, i < providers.length ∧ opsName i = n) → initOps v = 0) := by
  refine ⟨?_, ?_, ?_⟩
  · rintro (rfl | rfl) <;> rfl
  · rintro n rfl hne hex
    cases n with
    | nil => exact absurd rfl hne
    | cons c cs =>
      obtain ⟨h1, h2, _⟩ := C12_switch_name 0 (c :: cs)
      have h0 := h1.2 hex
      unfold initOps
      simp only
      cases hs : setOpsByName 0 (c :: cs) with
      | mk i rc =>
        rw [hs] at h0 h2
        simp only at h0
        subst h0
        simpa using h2 rfl
  · rintro n rfl hnex
    cases n with
    | nil => rfl
    | cons c cs =>
      obtain ⟨h1, _, h3⟩ := C12_switch_name 0 (c :: cs)
      unfold initOps
      simp only
      cases hs : setOpsByName 0 (c :: cs) with
      | mk i rc =>
        rw [hs] at h1 h3
        cases rc with
        | zero => exact absurd (h1.1 rfl) hnex
        | succ k => simpa using h3 (by simp)

/-- **Keys are provider-independent at load time** (generated fact): every compiled-in ops table
parses RSA, EC and OKP JWKs — and frees items — with the same functions. -/
theorem C12_keys : ∀ p ∈ providerJwkParsers, p = providerJwkParsers.head! := by decide +kernel

/-- **The policy is provider-independent.** Two environments that differ only in the provider, whose
public-key verification answers agree on every query and which support the same algorithms, give
`jwt_checker_verify` the same result on every checker and token (return value and resulting state). -/
theorem C12_verify_parametric (e1 e2 : Env) (hjc : e1.jc = e2.jc) (hnow : e1.now = e2.now)
    (hh : e1.cr.hmac = e2.cr.hmac)
    (hv : ∀ k a m s, e1.cr.pkVerify e1.prov k a m s = e2.cr.pkVerify e2.prov k a m s)
    (hs : ∀ a, e1.prov.supports a = e2.prov.supports a) (ck : Checker) (tok : Option Bytes) :
    verify e1 ck tok = verify e2 ck tok := by
  have hsig : ∀ k a m s, verifySig e1 k a m s = verifySig e2 k a m s := by
    intro k a m s
    simp only [verifySig, hh, hv, hs]
  have hjudge : ∀ cl p cfg, judge e1 cl p cfg = judge e2 cl p cfg := by
    intro cl p cfg
    simp only [judge, hnow, hsig]
  have hcore : ∀ c t, verifyCore e1 c t = verifyCore e2 c t := by
    intro c t
    simp only [verifyCore, hjc, hjudge]
  simp only [verify, hcore]

/-- the same for signing: what `jwt_builder_generate` returns depends on the provider only through
the primitive's answers -/
theorem C12_generate_parametric (e1 e2 : Env) (hjc : e1.jc = e2.jc) (hnow : e1.now = e2.now)
    (hh : e1.cr.hmac = e2.cr.hmac)
    (hp : ∀ k a m, e1.cr.pkSign e1.prov k a m = e2.cr.pkSign e2.prov k a m)
    (hs : ∀ a, e1.prov.supports a = e2.prov.supports a) (b : Builder) :
    generate e1 b = generate e2 b := by
  have hsign : ∀ k a m, sign e1 k a m = sign e2 k a m := by
    intro k a m
    simp only [sign, hh, hp, hs]
  have henc : ∀ h c a k, encodeToken e1 h c a k = encodeToken e2 h c a k := by
    intro h c a k
    simp only [encodeToken, hjc, hsign]
  have hcore : ∀ c, generateCore e1 c = generateCore e2 c := by
    intro c
    simp only [generateCore, hnow, henc]
  simp only [generate, hcore]

/-! ### non-vacuity -/

/-- the digest and kind of key operation RFC 7518 §3.1 assigns to each algorithm (`by-key`: EdDSA's
digest is fixed by the curve of the key) -/
def rfcDigest : Alg → Option (String × String)
  | .hs256 => some ("sha256", "mac") | .hs384 => some ("sha384", "mac") | .hs512 => some ("sha512", "mac")
  | .rs256 => some ("sha256", "rsa") | .rs384 => some ("sha384", "rsa") | .rs512 => some ("sha512", "rsa")
  | .ps256 => some ("sha256", "pss") | .ps384 => some ("sha384", "pss") | .ps512 => some ("sha512", "pss")
  | .es256 => some ("sha256", "ec") | .es256k => some ("sha256", "ec") | .es384 => some ("sha384", "ec") | .es512 => some ("sha512", "ec")
  | .eddsa => some ("by-key", "eddsa")
  | .none | .inval => none

/-- **Both providers select the same primitive for every algorithm, on the signing and on the verifying
side** (generated from the two `sign-verify.c`): each of the six entry points' `switch (jwt->alg)` maps
every algorithm it handles to the digest and the kind of key operation RFC 7518 prescribes, the
public-key entry points handle exactly the eleven public-key algorithms and the MAC entry points exactly
HS256/384/512 (in whatever order the cases are written). A digest swapped in one provider, or on one side only, fails here at build time. -/
def allAlgs : List Alg := [.none, .hs256, .hs384, .hs512, .rs256, .rs384, .rs512, .es256, .es384, .es512, .ps256, .ps384, .ps512, .es256k, .eddsa, .inval]

theorem C12_digests :
    (∀ t ∈ [Generated.osslsignpemDigests, Generated.osslverifypemDigests, Generated.gtlssignpemDigests, Generated.gtlsverifypemDigests],
      (∀ r ∈ t, rfcDigest r.1 = some r.2) ∧
      ∀ a ∈ allAlgs, (a ∈ t.map (·.1)) = (a ∈ [Alg.rs256, .rs384, .rs512, .ps256, .ps384, .ps512, .es256, .es256k, .es384, .es512, .eddsa])) ∧
    (∀ t ∈ [Generated.osslsignhmacDigests, Generated.gtlssignhmacDigests],
      (∀ r ∈ t, rfcDigest r.1 = some r.2) ∧ ∀ a ∈ allAlgs, (a ∈ t.map (·.1)) = (a ∈ [Alg.hs256, .hs384, .hs512])) := by
  decide

example : setOpsByName 0 [103, 110, 117, 116, 108, 115] = (1, 0) := by decide +kernel            -- "gnutls"
example : setOpsByName 1 [103, 110, 117, 116, 108] = (1, 1) := by decide +kernel                 -- "gnutl": refused, stays
example : setOpsByName 1 [79, 112, 101, 110, 83, 83, 76] = (1, 1) := by decide +kernel           -- "OpenSSL": refused
example : setOpsById 0 2 = (1, 0) ∧ setOpsById 1 3 = (1, 1) ∧ setOpsById 1 0 = (1, 1) := by decide +kernel
example : initOps (some [103, 110, 117, 116, 108, 115]) = 1 ∧ initOps (some [120]) = 0 := by decide +kernel

/-- **The name comparison is the source's.**  `jwt_strcmp` as translated statement by statement from jwt-memory.c (every store
wrapped in the width of the variable's declared type) returns 0 exactly for equal strings of every length, and agrees with
the hand-written `jwtStrcmp` the provider table is searched with: a provider is selected by its exact name only -/
theorem C12_name_compare_is_source :
    (∀ a b : List Nat, StrCmpCode.IsOctets a → StrCmpCode.IsOctets b → (Generated.StrCmpCode.jwtStrcmp a b = 0 ↔ a = b)) ∧
    (∀ a b : Bytes, Generated.StrCmpCode.jwtStrcmp (a.map UInt8.toNat) (b.map UInt8.toNat) = 0 ↔ jwtStrcmp a b = 0) :=
  ⟨StrCmpCode.jwtStrcmp_zero_iff, StrCmpCode.translated_agrees_with_model⟩


end Jwt.Props.C12
