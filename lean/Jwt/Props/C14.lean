import Jwt.Lemmas.Verify
import Jwt.Lemmas.Decisions
import Jwt.Checker
import Jwt.SetGet
import Jwt.Builder
import Jwt.Lemmas.Pipeline
import Jwt.Lemmas.PipelineBuilder
import Jwt.Lemmas.PipelineClosed
/-!
# C14 — error reporting contract: failure is always flagged and explained

Checker part and value part here; `jwt_builder_generate` and keyring items are in
`Jwt/Props/C14b.lean` over the builder and JWK models.
-/
namespace Jwt.Props.C14
open Jwt

/-- **`jwt_checker_verify`**: it returns non-zero exactly when the error flag is set afterwards;
a set flag comes with a non-empty message; after a success the flag is clear and the message
empty — from *every* prior state (clean, flag set with a stale message, flag cleared), for every
token and callback. -/
theorem C14_verify (env : Env) (ck : Checker) (tok : Option Bytes) :
    let r := verify env ck tok
    (r.2 ≠ 0 ↔ r.1.error = true) ∧ (r.1.error = true → r.1.msg.isSome = true) ∧
    (r.2 = 0 → r.1.error = false ∧ r.1.msg = none) := by
  unfold verify Checker.writeError
  cases tok with
  | none => cases h : ck.msg <;> simp [h]
  | some t =>
    cases t with
    | nil => cases h : ck.msg <;> simp [h]
    | cons x xs =>
      simp only
      cases (verifyCore env ck.cfg (x :: xs)).1 <;> cases h : ck.msg <;> simp [h]

/-- `jwt_checker_setkey`: a refusal sets the flag with a message, an admission changes neither -/
theorem C14_setkey (ck : Checker) (alg : Alg) (key : Option KeyItem) :
    let r := ck.setkey alg key
    (r.2 ≠ 0 → r.1.error = true ∧ r.1.msg.isSome = true) ∧
    (r.2 = 0 → r.1.error = ck.error ∧ r.1.msg = ck.msg) := by
  unfold Checker.setkey Checker.writeError
  cases setkeyCheck .checker alg key <;> cases h : ck.msg <;> simp [h]

/-- **Header/claim calls return the code they store**: `setter` computes one code, which the C
function both stores in `value->error` and returns (`return jval->error = …` / `return jval->error`).
In the model the two are the same component by construction; what can be stated is that the code
is `none` exactly when the object changed as requested or was already as requested, and that an
error leaves a scalar set without effect unless it is the documented "replace then invalid" case. -/
theorem C14_setter_exist (ls : Bytes → Option Json) (which : Json) (r : SetReq) (n : Bytes) (hn : nameOk r.name = some n)
    (hex : (which.objGet n).isSome = true) (hr : r.replace = false) (ht : r.type ≠ .json) :
    setter ls which r = (which, .exist) ∨ (r.type = .str ∧ r.strVal = none ∧ setter ls which r = (which, .invalid)) := by
  unfold setter
  cases htype : r.type with
  | json => exact absurd htype ht
  | int => simp [hn, checkedSet, hex, hr]
  | bool => simp [hn, checkedSet, hex, hr]
  | str =>
    cases hs : r.strVal with
    | none => right; simp [hn, hs]
    | some s => left; simp [hn, hs, checkedSet, hex, hr]

/-- **`jwt_builder_generate`** returns NULL exactly when the builder's error flag is set afterwards,
and then with a non-empty message; a returned token leaves flag and message clear — from every
prior state and for every callback. -/
theorem C14_generate (env : Env) (b : Builder) :
    let r := generate env b
    (r.2 = none ↔ r.1.error = true) ∧ (r.1.error = true → r.1.msg.isSome = true) ∧
    (r.2.isSome = true → r.1.error = false ∧ r.1.msg = none) := by
  unfold generate Builder.writeError
  cases hg : generateCore env b.cfg with
  | mk ex rest =>
    obtain ⟨t, tr⟩ := rest
    cases ex with
    | direct e => cases h : b.msg <;> simp [h]
    | viaJwt e => simp
    | ok =>
      simp only
      -- an `ok` exit always carries a token
      cases t with
      | some tok => simp
      | none =>
        exfalso
        unfold generateCore at hg
        simp only at hg
        split at hg
        · simp at hg
        · split at hg
          · simp at hg
          · split at hg
            · simp at hg
            · split at hg <;> simp at hg

/-! ### non-vacuity: the three prior states of the statement exist -/
example : (Checker.new).error = false ∧ (Checker.new).msg = none := by decide
example : ({ Checker.new with error := true, msg := some .claims } : Checker).msg.isSome = true := rfl
example : (({ Checker.new with error := true, msg := some .claims } : Checker).errorClear).error = false := rfl

/-- **Every refusal of the two admission functions comes with a message, in the source** (translated
`__setkey_check`, both compilations, and `__verify_config_post`): the function has called
`jwt_write_error` exactly on the paths on which it returns 1 (a non-NULL object given), and it returns
nothing but 0 or 1. -/
theorem C14_admission_messages (side : Side) (alg : Alg) (key : Option KeyItem) (ka : Alg) (kp : Bool)
    (cfg : Config) (jalg : Alg) (n : Nat) (claimsFail : Bool) :
    ((setkeyCheckGen side alg key ka kp).2 = true ↔ (setkeyCheckGen side alg key ka kp).1 = 1) ∧
    ((setkeyCheckGen side alg key ka kp).1 = 0 ∨ (setkeyCheckGen side alg key ka kp).1 = 1) ∧
    (let r := Generated.verifyConfigPost claimsFail cfg.key.isNone n cfg.alg (cfg.key.elim ka (·.alg)) jalg
     (r.2 = true ↔ r.1 = 1) ∧ (r.1 = 0 ∨ r.1 = 1)) := by
  refine ⟨(setkeyCheck_generated side alg key ka kp).2.2, (setkeyCheck_generated side alg key ka kp).2.1, ?_⟩
  cases claimsFail
  · exact ⟨(configPost_generated cfg jalg n ka).2.2, (configPost_generated cfg jalg n ka).2.1⟩
  · simp [configPost_claims_first]

/-- **`jwt_checker_verify`'s exits are the source's.** For every environment, configuration and non-empty token the
model returns what the decision skeleton *generated* from `jwt-common.c` returns, and the exits on which the source
copies the per-call object's error state to the checker are exactly the ones the model does not mark `direct`
(on those the source, or `__setkey_check`, writes the checker's message itself). -/
theorem C14_verify_exits_are_source (env : Env) (ck : Checker) (t : Bytes) (ht : t ≠ []) (x : Bool) :
    (verify env ck (some t)).2 = (checkerVerifyGen env ck.cfg t x).1 ∧
    ((checkerVerifyGen env ck.cfg t x).2.2 = true ↔ ∀ e, (verifyCore env ck.cfg t).1 ≠ .direct e) :=
  checkerVerify_generated env ck t ht x

/-- in the generated code every exit but the last returns 1, and the last returns the checker's flag; the early exits
for a missing token and for a failing callback have written a message to the checker -/
theorem C14_verify_returns_are_source (a b c d e f g h i : Bool) (n : Nat) :
    ((Jwt.Generated.Pipeline.checkerVerify a b c d e f g h i n).1 = 1 ∨ (Jwt.Generated.Pipeline.checkerVerify a b c d e f g h i n).1 = n) ∧
    (Jwt.Generated.Pipeline.checkerVerify false true c d e f g h i n = (1, true, false)) ∧
    (Jwt.Generated.Pipeline.checkerVerify false false true d e f g h i n = (1, true, false)) := by
  refine ⟨checkerVerify_returns a b c d e f g h i n, ?_, ?_⟩ <;> simp [Jwt.Generated.Pipeline.checkerVerify]

/-- **`jwt_builder_generate`'s exits are the source's**: the per-token object's error state is copied to the builder
on exactly the exits the model does not mark `direct`; on the others (allocation, callback, admission) the generated
code has written the builder's message itself. -/
theorem C14_generate_exits_are_source (env : Env) (b : Builder) :
    ((builderGenerateGen env b.cfg).2.2 = true ↔ ∀ e, (generateCore env b.cfg).1 ≠ .direct e) :=
  (builderGenerate_generated env b).2

/-- **No silent failure, in the code as written.** Over every combination of the tests of the *generated*
`jwt_checker_verify` and `jwt_builder_generate` (kernel evaluation): verify returns 0 only on its last exit with the
checker's flag at 0, generate returns a token only when every step before `jwt_encode_str` succeeded; and every failing
exit (other than a NULL object, or no memory for the per-call object in generate) has written a message to the object,
copied the per-call object's error state to it, or -- verify's admission exit -- left the message to `__setkey_check`
(`C14_admission_messages` shows that one writes it). -/
theorem C14_no_silent_failure_is_source :
    (∀ a b c d e f g h i : Bool,
      let reach := !a && !b && !c && !d && !e && (f || (!g && h)) && !i
      (Jwt.Generated.Pipeline.checkerVerify a b c d e f g h i 0).1 = (if reach then 0 else 1) ∧
      ((!a && !reach) = true → (Jwt.Generated.Pipeline.checkerVerify a b c d e f g h i 0).2.1 = true ∨
        (Jwt.Generated.Pipeline.checkerVerify a b c d e f g h i 0).2.2 = true ∨ i = true)) ∧
    (∀ a b c d iat is_ nbf ns exp es cbn cbr sk hs : Bool,
      let ok := !a && !b && !c && !d && (!iat || is_) && (!nbf || ns) && (!exp || es) && !(!cbn && cbr) && !sk && !hs
      (Jwt.Generated.Pipeline.builderGenerate a b c d iat is_ nbf ns exp es cbn cbr sk hs 1).1 = (if ok then 1 else 0) ∧
      ((!a && !b && !ok) = true → (Jwt.Generated.Pipeline.builderGenerate a b c d iat is_ nbf ns exp es cbn cbr sk hs 1).2.1 = true ∨
        (Jwt.Generated.Pipeline.builderGenerate a b c d iat is_ nbf ns exp es cbn cbr sk hs 1).2.2 = true)) :=
  ⟨fun a b c d e f g h i => ⟨(Jwt.Generated.Pipeline.checkerVerify_closed a b c d e f g h i).1, (Jwt.Generated.Pipeline.checkerVerify_closed a b c d e f g h i).2.2⟩,
   fun a b c d iat is_ nbf ns exp es cbn cbr sk hs =>
     ⟨(Jwt.Generated.Pipeline.builderGenerate_closed a b c d iat is_ nbf ns exp es cbn cbr sk hs).1,
      (Jwt.Generated.Pipeline.builderGenerate_closed a b c d iat is_ nbf ns exp es cbn cbr sk hs).2.2⟩⟩

end Jwt.Props.C14
