import Jwt.Alloc
/-!
# C17 — allocation failure is reported: never a crash, never a wrong success

Theorem on the propagation model of `Jwt/Alloc.lean`, for **every set** of failing steps (the
property asks for single faults; sets are no harder). The model is at libjwt's step granularity,
not jansson's: the exhaustive `k`-th-allocation enumeration (suite `oom`) is what exercises the
real sites and ties them to the rows (PARTIAL).
-/
namespace Jwt.Props.C17
open Jwt.Alloc

/-- **Outcomes.** If no step of an operation has a `degrade` or `crash` reaction, then whatever
subset of its allocations fails, the operation either completes with the fault-free result or
reports failure. -/
theorem C17_outcomes (steps : List Step) (h : ∀ s ∈ steps, s.reaction = .propagate ∨ s.reaction = .absorb)
    (fails : Nat → Bool) (i : Nat) : run steps fails i = .same ∨ run steps fails i = .reported := by
  induction steps generalizing i with
  | nil => left; rfl
  | cons s rest ih =>
    unfold run
    have hs := h s (by simp)
    have hr := fun i => ih (fun t ht => h t (by simp [ht])) i
    split
    · rcases hs with hs | hs <;> rw [hs]
      · right; rfl
      · exact hr (i + 1)
    · exact hr (i + 1)

/-- conversely: a wrong success or a crash can only come from a step whose reaction says so -/
theorem C17_blame (steps : List Step) (fails : Nat → Bool) (i : Nat) :
    (run steps fails i = .wrongSuccess → ∃ s ∈ steps, s.reaction = .degrade) ∧
    (run steps fails i = .crash → ∃ s ∈ steps, s.reaction = .crash) := by
  induction steps generalizing i with
  | nil => constructor <;> intro h <;> cases h
  | cons s rest ih =>
    have lift : ∀ (r : Reaction), (∃ t ∈ rest, t.reaction = r) → ∃ t ∈ s :: rest, t.reaction = r := by
      rintro r ⟨t, ht, e⟩
      exact ⟨t, by simp [ht], e⟩
    unfold run
    by_cases hf : fails i = true
    · simp only [hf, if_true]
      cases hr : s.reaction <;> simp only
      · constructor <;> intro h <;> cases h
      · exact ⟨fun h => lift _ ((ih (i + 1)).1 h), fun h => lift _ ((ih (i + 1)).2 h)⟩
      · constructor
        · intro _; exact ⟨s, by simp, hr⟩
        · intro h; cases h
      · constructor
        · intro h; cases h
        · intro _; exact ⟨s, by simp, hr⟩
    · simp only [hf, if_false]
      exact ⟨fun h => lift _ ((ih (i + 1)).1 h), fun h => lift _ ((ih (i + 1)).2 h)⟩

/-- the rows of configuring, getting/setting and verifying all propagate … -/
theorem C17_tables : ∀ s ∈ newSteps ++ setGetSteps ++ verifySteps, s.reaction = .propagate := by decide

/-- … so these operations are safe under every fault set -/
theorem C17_libjwt (fails : Nat → Bool) :
    ∀ steps ∈ [newSteps, setGetSteps, verifySteps], run steps fails 0 = .same ∨ run steps fails 0 = .reported := by
  intro steps hs
  apply C17_outcomes
  intro s hsm
  left
  apply C17_tables
  simp only [List.mem_cons, List.not_mem_nil, or_false] at hs
  rcases hs with rfl | rfl | rfl <;> simp [hsm]

/-- loading keys and generating: the only non-propagating rows are the two jansson behaviours that
are recorded as known findings (its lexer and its dumper lose bytes when a buffer cannot grow) -/
theorem C17_known : ∀ s ∈ loadSteps ++ generateSteps, s.reaction ≠ .propagate →
    s.site = "jwks_load:json_load* lexer strbuffer growth (jansson lex_save ignores strbuffer_append_byte)" ∨
    s.site = "generate:jwt_encode_str:json_dumps output buffer growth (jansson drops bytes of the dump)" := by decide

/-! ### non-vacuity -/
example : run generateSteps (fun i => i == 3) 0 = .reported := by decide
example : run generateSteps (fun _ => false) 0 = .same := by decide
example : run loadSteps (fun i => i == 2) 0 = .wrongSuccess := by decide
example : run verifySteps (fun i => i == 2 || i == 7) 0 = .reported := by decide

end Jwt.Props.C17
