import Jwt.Props.C16
import Jwt.Lemmas.Ll
import Jwt.Lemmas.JwksLoops
/-!
# C16, pointer level — the intrusive list of `ll.h` refines the abstract keyring

`Jwt/Props/C16.lean` proves the keyring laws on `List Item`. Here the same operations are taken at the
level of the code: a heap of `ll_t` nodes, the list functions *generated* from `ll.h`
(`Jwt/Generated/LlOps.lean`) and the loops of `jwks.c` written with checked loads (`Jwt/Ll.lean`).
For every well-formed list, every operation

* terminates within `length + 1` iterations and never goes through NULL or freed memory (the result is
  `some …`),
* re-establishes the list invariant (`IsList`: circular, doubly linked, no node twice, all live), and
* computes exactly what the abstract operation computes (`Abs` commutes).

So every reachable keyring state is a well-formed list whose content is the abstract list of C16,
for operation sequences of any length.
-/
namespace Jwt.Props.C16
open Jwt Jwt.Ll

/-- a keyring as the code has it: the heap, the address of the head node embedded in the set, and
what each item (named by the address of its node) contains -/
structure HSet where
  heap : Heap
  head : Addr
  item : Addr → Item

def HSet.view (s : HSet) (a : Addr) : ItemView := { error := (s.item a).error, kid := (s.item a).kid }

/-- abstraction relation: the nodes `l` form the list, and the abstract keyring holds their items in that order -/
def Abs (s : HSet) (l : List Addr) (k : KeySet) : Prop := IsList s.heap s.head l ∧ k.items = l.map s.item

/-- `jwks_create`: `INIT_LIST_HEAD` gives the empty keyring -/
theorem C16_heap_init (s : HSet) (hv : s.heap.valid s.head = true) (h0 : s.heap.valid 0 = false) :
    ∃ h', INIT_LIST_HEAD s.heap s.head = some h' ∧ Abs { s with heap := h' } [] {} := by
  obtain ⟨h', e, il, _⟩ := init_ok s.heap s.head hv h0
  exact ⟨h', e, il, rfl⟩

/-- **get / count.** `jwks_item_get(set, i)` returns the item the abstract list has at `i` (NULL beyond the
end), the walk visits `count` nodes. -/
theorem C16_heap_get (s : HSet) (l : List Addr) (k : KeySet) (fuel i : Nat) (ha : Abs s l k) (hf : l.length < fuel) :
    (itemGet s.heap s.head fuel i).map (·.map s.item) = some (k.get i) ∧
    (walk s.heap s.head fuel).map List.length = some k.count := by
  obtain ⟨il, hk⟩ := ha
  rw [itemGet_ok _ _ _ _ _ il hf, walk_ok _ _ _ _ il hf]
  simp [KeySet.get, KeySet.count, hk]

/-- **find.** `jwks_find_bykid` returns the first item whose kid is the argument — the item at the
index the abstract search reports. -/
theorem C16_heap_find (s : HSet) (l : List Addr) (k : KeySet) (fuel : Nat) (kid : Bytes) (ha : Abs s l k)
    (hf : l.length < fuel) :
    (itemFind s.heap s.view s.head fuel kid).map (·.map s.item) = some ((k.findByKid kid).bind k.get) := by
  obtain ⟨il, hk⟩ := ha
  rw [itemFind_ok _ _ _ _ _ _ il hf]
  have hget : k.get = fun i => (l.map s.item)[i]? := by funext i; simp [KeySet.get, hk]
  simp only [Option.map_some, Option.some.injEq, KeySet.findByKid, hk, hget]
  have : ∀ (l : List Addr), (l.find? (fun a => (s.item a).kid = some kid)).map s.item =
      ((l.map s.item).findIdx? (fun it => it.kid = some kid)).bind (fun i => (l.map s.item)[i]?) := by
    intro l
    induction l with
    | nil => simp
    | cons x xs ih =>
      by_cases hx : (s.item x).kid = some kid
      · simp [List.find?_cons, List.findIdx?_cons, hx]
      · simp only [List.find?_cons, hx, decide_false, List.map_cons, List.findIdx?_cons, Bool.false_eq_true, if_false]
        rw [ih]
        cases (List.map s.item xs).findIdx? (fun it => it.kid = some kid) with
        | none => simp
        | some i => simp
  exact this l

theorem map_eraseIdx {α β : Type} (f : α → β) (l : List α) (i : Nat) : (l.map f).eraseIdx i = (l.eraseIdx i).map f := by
  induction l generalizing i with
  | nil => simp
  | cons x xs ih =>
    cases i with
    | zero => simp
    | succ j => simp [ih]

/-- **add.** `jwks_item_add` of a freshly allocated item appends it. -/
theorem C16_heap_add (s : HSet) (l : List Addr) (k : KeySet) (a : Addr) (ha : Abs s l k) (ha0 : a ≠ 0)
    (hv : s.heap.valid a = false) :
    ∃ h', itemAdd s.heap s.head a = some h' ∧
      Abs { s with heap := h' } (l ++ [a]) { k with items := k.items ++ [s.item a] } := by
  obtain ⟨il, hk⟩ := ha
  obtain ⟨h', e, il', _⟩ := itemAdd_ok s.heap s.head l a il ha0 hv
  exact ⟨h', e, il', by simp [hk]⟩

/-- **free.** `jwks_item_free(set, i)` removes exactly the `i`-th item, returns what the abstract
operation returns, and the item's memory is released (and nothing else's). -/
theorem C16_heap_free (s : HSet) (l : List Addr) (k : KeySet) (fuel i : Nat) (ha : Abs s l k) (hf : l.length < fuel) :
    ∃ h', itemFree s.heap s.head fuel i = some (h', (k.free i).2) ∧
      Abs { s with heap := h' } (l.eraseIdx i) (k.free i).1 ∧
      (∀ a, a ∈ l[i]? → h'.valid a = false) ∧ (∀ a, a ∉ l[i]? → h'.valid a = s.heap.valid a) := by
  obtain ⟨il, hk⟩ := ha
  obtain ⟨h', e, il', vx, vo⟩ := itemFree_ok s.heap s.head l fuel i il hf
  have hlen : k.items.length = l.length := by rw [hk]; simp
  refine ⟨h', ?_, ⟨il', ?_⟩, vx, vo⟩
  · rw [e]; simp only [KeySet.free, hlen]; split <;> rfl
  · simp only [KeySet.free, hlen]
    split
    · simp [hk, map_eraseIdx]
    · rename_i hi
      rw [List.eraseIdx_of_length_le (by omega)]; exact hk

/-- **free_bad.** `jwks_item_free_bad` removes exactly the items that carry an error, keeps the rest in
order, reports their number and releases exactly their memory. -/
theorem C16_heap_free_bad (s : HSet) (l : List Addr) (k : KeySet) (fuel : Nat) (ha : Abs s l k) (hf : l.length < fuel) :
    ∃ h', freeBad s.heap s.view s.head fuel = some (h', k.freeBad.2) ∧
      Abs { s with heap := h' } (l.filter (fun a => !(s.item a).error)) k.freeBad.1 ∧
      (∀ a, a ∈ l → (s.item a).error = true → h'.valid a = false) := by
  obtain ⟨il, hk⟩ := ha
  obtain ⟨h', e, il', va, _⟩ := freeBad_ok s.heap s.view s.head l fuel il hf
  refine ⟨h', ?_, ⟨il', ?_⟩, va⟩
  · rw [e]
    simp only [KeySet.freeBad, hk, HSet.view, List.filter_map, List.length_map, Function.comp_def]
  · simp only [KeySet.freeBad, hk, List.filter_map, Function.comp_def]

/-- **free_all.** -/
theorem C16_heap_free_all (s : HSet) (l : List Addr) (k : KeySet) (fuel n : Nat) (ha : Abs s l k)
    (hf : l.length < fuel) (hn : l.length < n) :
    ∃ h', freeAllLoop s.head fuel n s.heap 0 = some (h', k.freeAll.2) ∧
      Abs { s with heap := h' } [] k.freeAll.1 ∧ (∀ a ∈ l, h'.valid a = false) := by
  obtain ⟨il, hk⟩ := ha
  obtain ⟨h', e, il', va, _⟩ := freeAllLoop_ok s.head fuel l s.heap n 0 il hf hn
  refine ⟨h', ?_, ⟨il', by simp [KeySet.freeAll]⟩, va⟩
  rw [e]; simp [KeySet.freeAll, hk]

/-- the operations at pointer level, as a history -/
inductive HOp where
  | add (a : Addr)
  | free (i : Nat)
  | freeBad
  | freeAll

/-- one operation on the heap keyring; `none` = it went through a dead pointer or did not terminate
within `fuel` iterations -/
def hstep (item : Addr → Item) (head : Addr) (fuel : Nat) (h : Heap) : HOp → Option Heap
  | .add a => itemAdd h head a
  | .free i => (itemFree h head fuel i).map (·.1)
  | .freeBad => (freeBad h (fun a => { error := (item a).error, kid := (item a).kid }) head fuel).map (·.1)
  | .freeAll => (freeAllLoop head fuel fuel h 0).map (·.1)

/-- the same operation on the abstract keyring -/
def kstep (item : Addr → Item) (k : KeySet) : HOp → KeySet
  | .add a => { k with items := k.items ++ [item a] }
  | .free i => (k.free i).1
  | .freeBad => k.freeBad.1
  | .freeAll => k.freeAll.1

def HOp.isAdd : HOp → Bool | .add _ => true | _ => false

def hrun (item : Addr → Item) (head : Addr) (fuel : Nat) : Heap → List HOp → Option Heap
  | h, [] => some h
  | h, op :: rest => (hstep item head fuel h op).bind fun h' => hrun item head fuel h' rest

def krun (item : Addr → Item) : KeySet → List HOp → KeySet
  | k, [] => k
  | k, op :: rest => krun item (kstep item k op) rest

/-- the allocator's contract along a run: what `jwt_malloc` hands out for a new item is not NULL and
not the address of an object that is still alive (an address freed earlier may come back) -/
def AllocOk (item : Addr → Item) (head : Addr) (fuel : Nat) : Heap → List HOp → Prop
  | _, [] => True
  | h, op :: rest =>
    (match op with | .add a => a ≠ 0 ∧ h.valid a = false | _ => True) ∧
    ∀ h', hstep item head fuel h op = some h' → AllocOk item head fuel h' rest

/-- **Every history.** Starting from a well-formed keyring, any sequence of add / free / free_bad /
free_all of any length — under the allocator's contract, with `fuel` above the number of nodes that
can be alive — runs to completion without touching dead memory, ends in a well-formed list, and that
list's content is what the abstract operations (the ones `C16_history` speaks about) compute. -/
theorem C16_heap_history (item : Addr → Item) (head : Addr) (fuel : Nat) (ops : List HOp) :
    ∀ (h : Heap) (l : List Addr) (k : KeySet), Abs ⟨h, head, item⟩ l k →
      l.length + (ops.filter HOp.isAdd).length < fuel → AllocOk item head fuel h ops →
      ∃ h' l', hrun item head fuel h ops = some h' ∧ Abs ⟨h', head, item⟩ l' (krun item k ops) := by
  induction ops with
  | nil => intro h l k ha _ _; exact ⟨h, l, rfl, ha⟩
  | cons op rest ih =>
    intro h l k ha hf hok
    obtain ⟨hfresh, hnext⟩ := hok
    cases op with
    | add a =>
      obtain ⟨h', e, ha'⟩ := C16_heap_add ⟨h, head, item⟩ l k a ha hfresh.1 hfresh.2
      have hs : hstep item head fuel h (.add a) = some h' := e
      have hc : ((HOp.add a :: rest).filter HOp.isAdd).length = (rest.filter HOp.isAdd).length + 1 := by
        simp [List.filter_cons, HOp.isAdd]
      obtain ⟨h'', l'', e2, ha2⟩ := ih h' (l ++ [a]) _ ha'
        (by rw [hc] at hf; simp only [List.length_append, List.length_singleton]; omega)
        (hnext h' hs)
      exact ⟨h'', l'', by simp only [hrun, hs, Option.bind_some]; exact e2, ha2⟩
    | free i =>
      have hc : ((HOp.free i :: rest).filter HOp.isAdd).length = (rest.filter HOp.isAdd).length := by
        simp [List.filter_cons, HOp.isAdd]
      rw [hc] at hf
      have hf' : l.length < fuel := by omega
      obtain ⟨h', e, ha', _, _⟩ := C16_heap_free ⟨h, head, item⟩ l k fuel i ha hf'
      have hs : hstep item head fuel h (.free i) = some h' := by simp only [hstep]; rw [e]; rfl
      have hlen : (l.eraseIdx i).length ≤ l.length := by rw [List.length_eraseIdx]; split <;> omega
      obtain ⟨h'', l'', e2, ha2⟩ := ih h' _ _ ha'
        (by first | omega | (simp only [List.length_nil]; omega)) (hnext h' hs)
      exact ⟨h'', l'', by simp only [hrun, hs, Option.bind_some]; exact e2, ha2⟩
    | freeBad =>
      have hc : ((HOp.freeBad :: rest).filter HOp.isAdd).length = (rest.filter HOp.isAdd).length := by
        simp [List.filter_cons, HOp.isAdd]
      rw [hc] at hf
      have hf' : l.length < fuel := by omega
      obtain ⟨h', e, ha', _⟩ := C16_heap_free_bad ⟨h, head, item⟩ l k fuel ha hf'
      have hs : hstep item head fuel h .freeBad = some h' := by
        simp only [hstep]
        have : (fun a => ({ error := (item a).error, kid := (item a).kid } : ItemView)) = HSet.view ⟨h, head, item⟩ := rfl
        rw [this, e]; rfl
      have hlen := List.length_filter_le (fun a => !(item a).error) l
      obtain ⟨h'', l'', e2, ha2⟩ := ih h' _ _ ha'
        (by first | omega | (simp only [List.length_nil]; omega)) (hnext h' hs)
      exact ⟨h'', l'', by simp only [hrun, hs, Option.bind_some]; exact e2, ha2⟩
    | freeAll =>
      have hc : ((HOp.freeAll :: rest).filter HOp.isAdd).length = (rest.filter HOp.isAdd).length := by
        simp [List.filter_cons, HOp.isAdd]
      rw [hc] at hf
      have hf' : l.length < fuel := by omega
      obtain ⟨h', e, ha', _⟩ := C16_heap_free_all ⟨h, head, item⟩ l k fuel fuel ha hf' hf'
      have hs : hstep item head fuel h .freeAll = some h' := by simp only [hstep]; rw [e]; rfl
      obtain ⟨h'', l'', e2, ha2⟩ := ih h' _ _ ha'
        (by first | omega | (simp only [List.length_nil]; omega)) (hnext h' hs)
      exact ⟨h'', l'', by simp only [hrun, hs, Option.bind_some]; exact e2, ha2⟩

/-! ## non-vacuity: a concrete heap, a concrete history -/

/-- set at address 1 (head), three item slots 10, 20, 30; 20 carries an error -/
def demoItem (a : Addr) : Item := if a = 20 then { error := true, msg := true } else { kid := some [107, a.toUInt8] }
def demoHeap : Heap := { valid := fun a => a = 1, next := fun a => if a = 1 then 1 else 0, prev := fun a => if a = 1 then 1 else 0 }

example : (hrun demoItem 1 8 demoHeap [.add 10, .add 20, .add 30, .freeBad, .free 0, .add 10]).bind
    (fun h => walk h 1 8) = some [30, 10] := by decide +kernel
example : (krun demoItem {} [.add 10, .add 20, .add 30, .freeBad, .free 0, .add 10]).items = [30, 10].map demoItem := by
  decide +kernel
-- adding an address that is still alive is the allocator's contract broken: the model refuses it
example : hrun demoItem 1 8 demoHeap [.add 10, .add 10] = none := by decide +kernel
-- a second list_del of the same node goes through NULL
example : ((hrun demoItem 1 8 demoHeap [.add 10]).bind fun h => (list_del h 10).bind fun h => list_del h 10) = none := by
  decide +kernel

/-! ## The same, for the functions as *translated* from `jwks.c`

`Jwt/Generated/JwksLoops.lean` is regenerated from the C text on every run (`tie/loops.py`); the theorems
below are the ones above, restated for the generated functions through the equalities of
`Jwt/Lemmas/JwksLoops.lean`. They are what ties the pointer-level result to the code that is there. -/

/-- `jwks_item_get`, `jwks_item_count`, `jwks_error_any` as translated: the item at `i` (NULL beyond the end), the
number of keys, the set's flag plus the number of keys that failed to load. -/
theorem C16_src_get_count_errany (s : HSet) (l : List Addr) (k : KeySet) (fuel i : Nat) (ha : Abs s l k) (hf : l.length < fuel) :
    (Src.jwks_item_get s.heap s.head i fuel).map (·.map s.item) = some (k.get i) ∧
    Src.jwks_item_count s.heap s.head fuel = some k.count ∧
    Src.jwks_error_any s.heap s.view s.head (if k.error then 1 else 0) fuel = some k.errorAny := by
  obtain ⟨h1, h2⟩ := C16_heap_get s l k fuel i ha hf
  obtain ⟨il, hk⟩ := ha
  refine ⟨by rw [src_get]; exact h1, by rw [src_count]; exact h2, ?_⟩
  rw [src_error_any, walk_ok _ _ _ _ il hf]
  simp [KeySet.errorAny, hk, List.filter_map, HSet.view, Function.comp_def]

/-- `jwks_find_bykid` as translated -/
theorem C16_src_find (s : HSet) (l : List Addr) (k : KeySet) (fuel : Nat) (kid : Bytes) (ha : Abs s l k) (hf : l.length < fuel) :
    (Src.jwks_find_bykid s.heap s.view s.head kid fuel).map (·.map s.item) = some ((k.findByKid kid).bind k.get) := by
  rw [src_find]; exact C16_heap_find s l k fuel kid ha hf

/-- `jwks_item_add` as translated (after the allocation of the item) -/
theorem C16_src_add (s : HSet) (l : List Addr) (k : KeySet) (a : Addr) (ha : Abs s l k) (ha0 : a ≠ 0) (hv : s.heap.valid a = false) :
    ∃ h', (s.heap.alloc a).bind (fun h => Src.jwks_item_add h s.head a) = some (h', 0) ∧
      Abs { s with heap := h' } (l ++ [a]) { k with items := k.items ++ [s.item a] } := by
  obtain ⟨h', e, hab⟩ := C16_heap_add s l k a ha ha0 hv
  exact ⟨h', by rw [src_add, e]; rfl, hab⟩

/-- `jwks_item_free` as translated -/
theorem C16_src_free (s : HSet) (l : List Addr) (k : KeySet) (fuel i : Nat) (ha : Abs s l k) (hf : l.length < fuel) :
    ∃ h', Src.jwks_item_free s.heap s.head false i fuel = some (h', (k.free i).2) ∧
      Abs { s with heap := h' } (l.eraseIdx i) (k.free i).1 ∧
      (∀ a, a ∈ l[i]? → h'.valid a = false) ∧ (∀ a, a ∉ l[i]? → h'.valid a = s.heap.valid a) := by
  rw [src_free]; exact C16_heap_free s l k fuel i ha hf

/-- `jwks_item_free_bad` as translated -/
theorem C16_src_free_bad (s : HSet) (l : List Addr) (k : KeySet) (fuel : Nat) (ha : Abs s l k) (hf : l.length < fuel) :
    ∃ h', Src.jwks_item_free_bad s.heap s.view s.head fuel = some (h', k.freeBad.2) ∧
      Abs { s with heap := h' } (l.filter (fun a => !(s.item a).error)) k.freeBad.1 ∧
      (∀ a, a ∈ l → (s.item a).error = true → h'.valid a = false) := by
  rw [src_free_bad]; exact C16_heap_free_bad s l k fuel ha hf

/-- `jwks_item_free_all` as translated -/
theorem C16_src_free_all (s : HSet) (l : List Addr) (k : KeySet) (fuel : Nat) (ha : Abs s l k) (hf : l.length < fuel) :
    ∃ h', Src.jwks_item_free_all s.heap s.head false fuel = some (h', k.freeAll.2) ∧
      Abs { s with heap := h' } [] k.freeAll.1 ∧ (∀ a ∈ l, h'.valid a = false) := by
  rw [src_free_all]; exact C16_heap_free_all s l k fuel fuel ha hf hf

-- the translated functions on a concrete heap: head at 1, items at 10 (good), 20 (errored), 30 (good, kid "k")
example : (hrun demoItem 1 8 demoHeap [.add 10, .add 20, .add 30]).bind (fun h => Src.jwks_item_count h 1 8) = some 3 := by decide +kernel
example : (hrun demoItem 1 8 demoHeap [.add 10, .add 20, .add 30]).bind (fun h => Src.jwks_item_get h 1 1 8) = some (some 20) := by decide +kernel
example : (hrun demoItem 1 8 demoHeap [.add 10, .add 20, .add 30]).bind (fun h => Src.jwks_item_get h 1 3 8) = some none := by decide +kernel
example : ((hrun demoItem 1 8 demoHeap [.add 10, .add 20, .add 30]).bind (fun h => Src.jwks_item_free_bad h (fun a => { error := (demoItem a).error, kid := (demoItem a).kid }) 1 8)).map (·.2)
    = ((krun demoItem {} [.add 10, .add 20, .add 30]).freeBad).2 := by decide +kernel

end Jwt.Props.C16
