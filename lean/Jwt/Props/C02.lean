import Jwt.Lemmas.Policy
import Jwt.Lemmas.Decisions
/-!
# C02 — algorithm pinning: a token cannot choose its own algorithm or key family (checker side)

All statements are for every `Env` (every crypto primitive, every JSON codec, either provider),
every checker state, every callback (an arbitrary function) and every token string.
The builder-side clauses are in `Jwt/Props/C03.lean` / `C10.lean` (they need the builder model).
-/
namespace Jwt.Props.C02
open Jwt

/-- **The documented setkey table** (checker): exactly these (alg, key) pairs are admitted. -/
theorem C02_table_checker (alg : Alg) (key : Option KeyItem) :
    setkeyCheck .checker alg key = none ↔
      (key = none ∧ alg = .none) ∨
      (∃ k, key = some k ∧ ((k.alg = .none ∧ alg ≠ .none) ∨ (k.alg ≠ .none ∧ (alg = .none ∨ alg = k.alg)))) := by
  cases key with
  | none => by_cases h : alg = .none <;> simp [setkeyCheck, setkeyCheck.setkeyTable, h]
  | some k =>
    by_cases h1 : k.alg = .none <;> by_cases h2 : alg = .none <;> by_cases h3 : alg = k.alg <;>
      simp_all [setkeyCheck, setkeyCheck.setkeyTable]

/-- … and the builder admits the same pairs, for private keys only. -/
theorem C02_table_builder (alg : Alg) (key : Option KeyItem) :
    setkeyCheck .builder alg key = none ↔
      setkeyCheck .checker alg key = none ∧ (∀ k, key = some k → k.isPrivate = true) := by
  cases key with
  | none => simp [setkeyCheck]
  | some k => by_cases hp : k.isPrivate = true <;> simp [setkeyCheck, hp]

/-- **A key is never used without a pinned algorithm**: an admitted (alg, key) pair with a key has
a pinned algorithm other than `none`. -/
theorem C02_key_has_pin (side : Side) (cfg : Config) (k : KeyItem) (hk : cfg.key = some k)
    (h : setkeyCheck side cfg.alg cfg.key = none) : pinned cfg ≠ .none := by
  have hc : setkeyCheck .checker cfg.alg cfg.key = none := by
    cases side with
    | checker => exact h
    | builder => exact ((C02_table_builder _ _).1 h).1
  rw [hk] at hc
  unfold pinned
  by_cases ha : cfg.alg = .none
  · simp only [ha, ne_eq, not_true_eq_false, if_false, hk]
    intro hka
    simp [setkeyCheck, setkeyCheck.setkeyTable, ha, hka] at hc
  · simp [ha]

/-- **Pinning.** If `jwt_checker_verify` returns 0 and the configuration in force after the callback
holds a key, the algorithm named in the token header *is* the pinned algorithm (explicit one, else
the key's own), it is not `none`, and the third segment is not empty — whatever the signature. -/
theorem C02_pinned (env : Env) (ck : Checker) (tok : Option Bytes) (h : (verify env ck tok).2 = 0) :
    ∃ t p, tok = some t ∧ parse env.jc t = .ok p ∧
      ∀ k, (afterCb ck.cfg p).2.key = some k →
        p.alg = pinned (afterCb ck.cfg p).2 ∧ p.alg ≠ .none ∧ p.sig ≠ [] := by
  obtain ⟨t, rfl, _, hok⟩ := (verify_rc_zero env ck tok).1 h
  obtain ⟨p, hp, _, _, _, hcp, _⟩ := verifyCore_ok env ck.cfg t hok
  refine ⟨t, p, rfl, hp, ?_⟩
  intro k hk
  obtain ⟨hn, hj, hpin⟩ := configPost_key _ _ _ k hk hcp
  exact ⟨hpin, hj, fun he => hn (by simp [he])⟩

/-- the same without a callback: the pin is the checker's own configuration -/
theorem C02_pinned_nocb (env : Env) (ck : Checker) (tok : Option Bytes) (hcb : ck.cfg.cb = none)
    (k : KeyItem) (hk : ck.cfg.key = some k) (h : (verify env ck tok).2 = 0) :
    ∃ t p, tok = some t ∧ parse env.jc t = .ok p ∧ p.alg = pinned { key := ck.cfg.key, alg := ck.cfg.alg } := by
  obtain ⟨t, p, ht, hp, hall⟩ := C02_pinned env ck tok h
  have : afterCb ck.cfg p = (0, { key := ck.cfg.key, alg := ck.cfg.alg }) := by simp [afterCb, hcb]
  rw [this] at hall
  exact ⟨t, p, ht, hp, (hall k hk).1⟩

/-- **Exact header parsing.** The token's algorithm is `a` only if its header has a *string* member
`alg` that is byte-for-byte `a`'s registered name (so `hs256`, `None`, `HS256 ` … name nothing). -/
theorem C02_exact (jc : JsonCodec) (tok : Bytes) (p : Parsed) (h : parse jc tok = .ok p) :
    ∃ s, p.headers.objGet N.alg = some (.str s) ∧ algStr p.alg = some s ∧ p.alg ≠ .inval := by
  exact parseHeadAlg_ok _ _ (parse_ok jc tok p h).2.2.2.2.2

/-- **Family.** Every call the verification makes into a cryptographic primitive is made with the
key in force and the token's algorithm, and that key belongs to the algorithm's family with the
required size: HS* ↔ oct, RS*/PS* ↔ RSA, ES* ↔ EC of matching size, EdDSA ↔ OKP. -/
theorem C02_family (env : Env) (c : CheckerCfg) (tok : Bytes) :
    ∀ call ∈ (verifyCore env c tok).2, ∃ p k, parse env.jc tok = .ok p ∧ (afterCb c p).2.key = some k ∧
      (call = .hmac p.alg k ∨ call = .pkVerify p.alg k) ∧ k.kty = p.alg.family ∧ strengthOk p.alg k := by
  intro call hc
  obtain ⟨p, k, hp, hk, hcall, hs⟩ := verifyCore_trace env c tok call hc
  exact ⟨p, k, hp, hk, hcall, (strengthOk_family _ _ hs).1, hs⟩

/-! ### non-vacuity -/

def rsaPub : KeyItem := { id := 1, kty := .rsa, alg := .rs256, bits := 2048, isPrivate := false, oct := [] }
-- the pinned-RS256 configuration of the original defect is admitted by setkey …
example : setkeyCheck .checker .rs256 (some rsaPub) = none := by decide
-- … and `configPost` now refuses an HS256 token against it (it returned `none` before the fix)
example : configPost { key := some rsaPub, alg := .rs256 } .hs256 43 = some .cfgAlgMismatch := by decide
example : configPost { key := some rsaPub, alg := .rs256 } .rs256 342 = none := by decide
example : pinned { key := some rsaPub, alg := .none } = .rs256 := by decide
-- the family rule is satisfiable and refutable
example : strengthOk .rs256 rsaPub ∧ ¬ strengthOk .hs256 rsaPub := by simp [strengthOk, rsaPub]

/-- **The admission table is the source's** (`__setkey_check` of `jwt-common.c`, translated on every run,
once as compiled for builders and once for checkers): the model's `setkeyCheck` — which `C02_table_checker`,
`C02_table_builder`, `C02_key_has_pin` speak about — admits a pair (alg, key) exactly when the translated
function returns 0, whatever lies behind a NULL key pointer. -/
theorem C02_table_is_source (side : Side) (alg : Alg) (key : Option KeyItem) (ka : Alg) (kp : Bool) :
    setkeyCheck side alg key = none ↔ (setkeyCheckGen side alg key ka kp).1 = 0 :=
  (setkeyCheck_generated side alg key ka kp).1

/-- **The pinning gate is the source's** (`__verify_config_post` of `jwt-verify.c`, translated on every run):
once the claims have passed, the model's `configPost` lets a token through exactly when the translated
function returns 0 — for every configuration, header algorithm and signature length. -/
theorem C02_gate_is_source (cfg : Config) (jalg : Alg) (n : Nat) (ka : Alg) :
    configPost cfg jalg n = none ↔
      (Generated.verifyConfigPost false cfg.key.isNone n cfg.alg (cfg.key.elim ka (·.alg)) jalg).1 = 0 :=
  (configPost_generated cfg jalg n ka).1

end Jwt.Props.C02
