import Jwt.Lemmas.Policy
import Jwt.Generated.DispatchTables
import Jwt.Props.C01
import Jwt.Lemmas.Builder
import Jwt.Lemmas.PipelineSig
/-!
# C09 — key-strength floor for signing and verification (verification side; signing in C09b)
-/
namespace Jwt.Props.C09
open Jwt

/-- **The floor, as a table** (for every `bits : Nat`): the gate passes exactly for
HS256/384/512 with an oct key of ≥ 256/384/512 bits; RS*/PS* with an RSA key of ≥ 2048 bits;
ES256/ES256K with an EC key of exactly 256, ES384 of 384, ES512 of 521 bits; EdDSA with an OKP key
of 256 or 456 bits. -/
theorem C09_gate (a : Alg) (k : KeyItem) :
    (checkHmac a k = none ↔ a.isHmac = true ∧ strengthOk a k) ∧
    (checkKeyBits a k = none ↔ a.isPk = true ∧ strengthOk a k) :=
  ⟨checkHmac_none_iff a k, checkKeyBits_none_iff a k⟩

/-- **No path to a primitive goes round the gate** (generated from `jwt_sign`, `jwt_verify_sig` and
`_verify_sha_hmac` of `jwt.c`): signing calls `__check_hmac` before `sign_sha_hmac` for HS256/384/512 and
`__check_key_bits` before the provider's `sign_sha_pem` for the eleven public-key algorithms, leaving the case
when the gate refuses; verification calls `__check_key_bits` before decoding and handing the signature to
the provider's `verify_sha_pem`, and for HS* tests the key type and recomputes the MAC through `jwt_sign`
(which carries the HMAC gate) — never through `sign_sha_hmac` directly. Every algorithm with a gate is
dispatched. -/
theorem C09_dispatch :
    (∀ r ∈ Generated.signDispatch,
      (r.1.isHmac = true → r.2 = ("__check_hmac", "sign_sha_hmac", true)) ∧
      (r.1.isPk = true → r.2 = ("__check_key_bits", "jwt_ops->sign_sha_pem", true)) ∧ (r.1.isHmac = true ∨ r.1.isPk = true)) ∧
    (∀ r ∈ Generated.verifyDispatch,
      (r.1.isHmac = true → r.2.2.1 = "_verify_sha_hmac") ∧
      (r.1.isPk = true → r.2 = ("__check_key_bits", "jwt_ops->verify_sha_pem", true)) ∧ (r.1.isHmac = true ∨ r.1.isPk = true)) ∧
    Generated.verifyHmacVia = "jwt_sign" ∧ Generated.verifyHmacKtyGuard = true ∧
    (∀ a ∈ [Alg.hs256, .hs384, .hs512, .rs256, .rs384, .rs512, .ps256, .ps384, .ps512, .es256, .es256k, .es384, .es512, .eddsa],
      a ∈ Generated.signDispatch.map (·.1) ∧ a ∈ Generated.verifyDispatch.map (·.1)) := by
  decide

/-- **The floor is the one in the source** (generated from `__check_hmac` / `__check_key_bits` of `jwt.c`):
the rule every C09 theorem is stated with, `strengthOk`, holds for an algorithm and a key exactly when the
size test written in that algorithm's `case` lets `key->bits` through and the key has the type the case
passes to `__check_key_type`. -/
theorem C09_floor_is_source (a : Alg) (k : KeyItem) :
    strengthOk a k ↔ (Generated.gateSize a k.bits ∧ Generated.gateType a = some k.kty) :=
  strengthOk_iff_generated a k

/-- **No primitive is reached below the floor**: every call verification makes into HMAC or the
provider's public-key verification is for a (key, algorithm) pair that satisfies the rule. -/
theorem C09_verify_calls (env : Env) (c : CheckerCfg) (tok : Bytes) :
    ∀ call ∈ (verifyCore env c tok).2, ∃ a k, (call = .hmac a k ∨ call = .pkVerify a k) ∧ strengthOk a k := by
  intro call hc
  obtain ⟨p, k, _, _, h, hs⟩ := verifyCore_trace env c tok call hc
  exact ⟨p.alg, k, h, hs⟩

/-- **Verification never succeeds below the floor**: acceptance with a key implies the rule. -/
theorem C09_verify_floor (env : Env) (ck : Checker) (tok : Option Bytes) (h : (verify env ck tok).2 = 0) :
    ∃ t p, tok = some t ∧ parse env.jc t = .ok p ∧
      ∀ k, (afterCb ck.cfg p).2.key = some k → strengthOk p.alg k := by
  obtain ⟨t, p, ht, hp, _, _, _, hall⟩ := Props.C01.C01_sound env ck tok h
  exact ⟨t, p, ht, hp, fun k hk => (hall k hk).2.1⟩

/-- **The gate is live**: at or above the floor it lets the call through (so the theorems above
are not satisfied by rejecting everything). -/
theorem C09_live (a : Alg) (k : KeyItem) (h : strengthOk a k) :
    (a.isHmac = true → checkHmac a k = none) ∧ (a.isPk = true → checkKeyBits a k = none) :=
  ⟨fun ha => (checkHmac_none_iff a k).2 ⟨ha, h⟩, fun ha => (checkKeyBits_none_iff a k).2 ⟨ha, h⟩⟩

/-- an oct key of `n` bytes passes the HS256 gate iff `n ≥ 32` (with `bits = 8·n` as import sets it) -/
theorem C09_hs256_bytes (k : KeyItem) (n : Nat) (hk : k.kty = .oct) (hb : k.bits = 8 * n) :
    checkHmac .hs256 k = none ↔ n ≥ 32 := by
  rw [checkHmac_none_iff]; simp [strengthOk, Alg.isHmac, hk, hb]; omega

/-- **Signing never succeeds below the floor**: a token comes out only if the key in force satisfies
the rule for the algorithm used; and every primitive call `generate` makes is for such a pair. -/
theorem C09_sign_floor (env : Env) (b : Builder) (t : Bytes) (h : (generate env b).2 = some t) :
    ∀ k, (genAfterCb b.cfg env.now).2.2.2.key = some k → usedAlg (genAfterCb b.cfg env.now).2.2.2 ≠ .none →
      strengthOk (usedAlg (genAfterCb b.cfg env.now).2.2.2) k := by
  intro k hk hne
  obtain ⟨tr, hg⟩ := generate_some env b t h
  obtain ⟨H, tok, _, _, _, he, _⟩ := generateCore_ok env b.cfg (some t) tr hg
  obtain ⟨_, _, hcase⟩ := encodeToken_ok env H _ _ _ tok tr he
  rcases hcase with ⟨hn, _⟩ | ⟨_, k', sig, hk', hs, _⟩
  · exact absurd hn hne
  · rw [hk] at hk'; cases hk'
    exact (sign_ok env k _ _ sig tr hs).1

theorem C09_sign_gate (env : Env) (k : KeyItem) (a : Alg) (msg : Bytes) (h : ¬ strengthOk a k) :
    ∃ e, sign env k a msg = (.error e, []) := by
  unfold sign
  cases a <;> simp only
  all_goals first
    | exact ⟨_, rfl⟩
    | (cases hg : checkHmac _ k with
       | some e => exact ⟨e, rfl⟩
       | none => exact absurd ((checkHmac_none_iff _ k).1 hg).2 h)
    | (cases hg : checkKeyBits _ k with
       | some e => exact ⟨e, rfl⟩
       | none => exact absurd ((checkKeyBits_none_iff _ k).1 hg).2 h)

/-! ### non-vacuity: both sides of each boundary -/
def oct (n : Nat) : KeyItem := { id := 1, kty := .oct, alg := .none, bits := 8 * n, isPrivate := true, oct := List.replicate n 7 }
example : checkHmac .hs256 (oct 31) = some .keyTooShort ∧ checkHmac .hs256 (oct 32) = none := by decide
example : checkHmac .hs512 (oct 63) = some .keyTooShort ∧ checkHmac .hs512 (oct 64) = none := by decide
def rsa (b : Nat) : KeyItem := { id := 2, kty := .rsa, alg := .none, bits := b, isPrivate := false, oct := [] }
example : checkKeyBits .rs256 (rsa 2047) = some .keyTooShort ∧ checkKeyBits .ps512 (rsa 2048) = none := by decide
def ec (b : Nat) : KeyItem := { id := 3, kty := .ec, alg := .none, bits := b, isPrivate := false, oct := [] }
example : checkKeyBits .es256 (ec 384) = some .keyTooShort ∧ checkKeyBits .es512 (ec 521) = none ∧
    checkKeyBits .es512 (ec 512) = some .keyTooShort := by decide
example : checkKeyBits .es256 (rsa 256) = some .keyType ∧ checkHmac .hs256 (rsa 2048) = some .keyType := by decide

/-- **The gate comes first, in the code as written.** In the `jwt_sign` *generated* from `jwt.c` (all combinations of its
tests, kernel evaluation) both arms ask the size-and-type gate before anything else, and a refusal ends the call with 1
before the primitive is touched; a signature comes out of the model exactly when the generated code returns 0. -/
theorem C09_gate_first_is_source :
    (∀ h p g f : Bool, (h || p) = true → g = true → Jwt.Generated.Pipeline.sign h p g f = (1, false)) ∧
    (∀ (env : Env) (k : KeyItem) (alg : Alg) (msg : Bytes), (∃ s, (sign env k alg msg).1 = .ok s) ↔ (signGen env k alg msg).1 = 0) :=
  ⟨fun h p g f hp hg => (sign_closed h p g f).2 hp hg, sign_generated⟩

end Jwt.Props.C09
