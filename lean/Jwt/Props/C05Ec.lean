import Jwt.Props.C05
import Jwt.Lemmas.EcFrame
import Jwt.Props.C01
/-!
# C05, ECDSA part — the `r‖s` framing between libjwt and the libraries

`C05_roundtrip` takes the law "what the provider's `sign` produced, the provider's `verify`
accepts" as a hypothesis about the whole `sign_sha_pem`/`verify_sha_pem` pair. For ES256/ES384/
ES512/ES256K a good part of that pair is libjwt's own buffer arithmetic (DER ↔ fixed-width `r‖s`);
here it is taken out of the hypothesis and proved, for every pair of integers below the field
size, every provider pair and every leading-zero pattern: the law that remains assumed is about the
*mathematical* signature `(r, s)` only.
-/
namespace Jwt.Props.C05
open Jwt Jwt.Cli Jwt.EcFrame Jwt.Generated Jwt.Props.C20

def Alg.isEcdsa : Alg → Bool | .es256 | .es384 | .es512 | .es256k => true | _ => false

/-- the coordinate width RFC 7518 §3.4 prescribes -/
def coordWidth : Alg → Nat | .es256 | .es256k => 32 | .es384 => 48 | .es512 => 66 | _ => 0

theorem widths (a : Alg) (k : KeyItem) (he : Alg.isEcdsa a = true) (hs : strengthOk a k) :
    osslBnLenSign k.bits = coordWidth a ∧ osslBnLenVerify k.bits = coordWidth a := by
  cases a <;> simp [Alg.isEcdsa] at he <;> simp only [strengthOk] at hs <;>
    simp [osslBnLenSign, osslBnLenVerify, coordWidth, hs.2]

theorem gnutls_adj (a : Alg) (he : Alg.isEcdsa a = true) : gnutlsAdjOf a = some (coordWidth a) := by
  cases a <;> simp [Alg.isEcdsa] at he <;> decide

/-- **What a framed signature is.** For a key that passes the size gate of its algorithm and integers
below `256^w`, both providers' sign paths deliver exactly `w` big-endian octets of `r` followed by
`w` big-endian octets of `s` — whatever the lengths the library reported (short values, values with
the top bit set and hence a DER sign octet, zero). -/
theorem C05_frame (p : Provider) (a : Alg) (k : KeyItem) (r s : Nat) (he : Alg.isEcdsa a = true)
    (hs : strengthOk a k) (hr : r < 256 ^ coordWidth a) (hsz : s < 256 ^ coordWidth a) :
    frame p a k.bits r s = some (exportPad (coordWidth a) r ++ exportPad (coordWidth a) s) := by
  have hw := widths a k he hs
  cases p with
  | openssl =>
    simp only [frame, osslFrame_eq, hw.1]
    simp [toBytesMin_length r _ hr, toBytesMin_length s _ hsz]
  | gnutls =>
    simp only [frame, gnutls_adj a he, Option.bind_some, gnutlsFrame_eq, fit_derInt _ _ hr, fit_derInt _ _ hsz]

theorem foldl_lt (l : List Nat) (acc : Nat) (h : ∀ b ∈ l, b < 256) :
    l.foldl (fun a b => a * 256 + b) acc < (acc + 1) * 256 ^ l.length := by
  induction l generalizing acc with
  | nil => simp
  | cons b t ih =>
    simp only [List.foldl_cons, List.length_cons]
    have hb := h b (by simp)
    have := ih (acc * 256 + b) (fun x hx => h x (by simp [hx]))
    calc List.foldl (fun a b => a * 256 + b) (acc * 256 + b) t
        < (acc * 256 + b + 1) * 256 ^ t.length := this
      _ ≤ ((acc + 1) * 256) * 256 ^ t.length := Nat.mul_le_mul_right _ (by omega)
      _ = (acc + 1) * 256 ^ (t.length + 1) := by rw [Nat.pow_succ, Nat.mul_assoc, Nat.mul_comm 256]

theorem fromBytes_lt (l : List Nat) (h : ∀ b ∈ l, b < 256) : fromBytes l < 256 ^ l.length := by
  have := foldl_lt l 0 h
  simpa [fromBytes] using this

/-- **An oversized integer is refused by the OpenSSL path** (never silently truncated). -/
theorem C05_frame_oversize (bits r s : Nat) (h : 256 ^ osslBnLenSign bits ≤ r) : osslFrame bits r s = none := by
  rw [osslFrame_eq]
  have : ¬ (toBytesMin r).length ≤ osslBnLenSign bits := by
    intro hl
    have hb := fromBytes_lt _ (toBytesMin_lt r)
    rw [fromBytes_toBytesMin] at hb
    have : 256 ^ (toBytesMin r).length ≤ 256 ^ osslBnLenSign bits := Nat.pow_le_pow_right (by omega) hl
    omega
  simp [this]

theorem gnutls_vwidth (a : Alg) (he : Alg.isEcdsa a = true) : gnutlsVerifyWidth a = coordWidth a := by
  cases a <;> simp [Alg.isEcdsa] at he <;> decide

/-- **Verify side: only the exact width is read.** On both providers a signature reaches the library
only when it is exactly `2·w` octets long, `w` the width RFC 7518 prescribes for the algorithm (the key
has passed the size gate) — no truncated, extended or zero-extended form is ever re-encoded. -/
theorem C05_unframe_len (p : Provider) (a : Alg) (k : KeyItem) (sig : Octets) (rs : Nat × Nat)
    (he : Alg.isEcdsa a = true) (hs : strengthOk a k)
    (h : unframe p a k.bits sig = some rs) : sig.length = 2 * coordWidth a := by
  have hw := widths a k he hs
  cases p with
  | openssl =>
    simp only [unframe, osslUnframe, osslVerifyMul_eq, hw.2] at h
    by_cases hne : coordWidth a * 2 = sig.length
    · omega
    · simp [hne] at h
  | gnutls =>
    simp only [unframe, gnutlsUnframe, gnutls_vwidth a he] at h
    by_cases hne : sig.length = gnutlsVerifyMul * coordWidth a
    · simpa [gnutlsVerifyMul] using hne
    · simp [hne] at h

/-- **Framing round trip, all four provider pairs.** What either provider frames, either provider
reads back as the same pair of integers. -/
theorem C05_unframe_frame (pB pC : Provider) (a : Alg) (ks kc : KeyItem) (r s : Nat)
    (he : Alg.isEcdsa a = true) (hs : strengthOk a ks) (hbits : kc.bits = ks.bits)
    (hr : r < 256 ^ coordWidth a) (hsz : s < 256 ^ coordWidth a) :
    ∃ sig, frame pB a ks.bits r s = some sig ∧ sig.length = 2 * coordWidth a ∧
      unframe pC a kc.bits sig = some (r, s) := by
  refine ⟨_, C05_frame pB a ks r s he hs hr hsz, ?_, ?_⟩
  · simp only [List.length_append, exportPad_length _ _ (toBytesMin_length r _ hr),
      exportPad_length _ _ (toBytesMin_length s _ hsz)]; omega
  · have hw := widths a ks he hs
    have la := exportPad_length _ _ (toBytesMin_length r _ hr)
    have lb := exportPad_length _ _ (toBytesMin_length s _ hsz)
    have hh := halves (coordWidth a) _ _ la lb
    cases pC with
    | openssl =>
      simp only [unframe, osslUnframe, hbits, hw.2, osslVerifyMul_eq, List.length_append, la, lb]
      have : ¬ (coordWidth a * 2 ≠ coordWidth a + coordWidth a) := by omega
      simp only [this, if_false, hh.1, hh.2, fromBytes_exportPad]
    | gnutls =>
      simp only [unframe, gnutlsUnframe, gnutls_vwidth a he, List.length_append, la, lb, gnutlsVerifyMul]
      have : ¬ (coordWidth a + coordWidth a ≠ 2 * coordWidth a) := by omega
      simp only [this, if_false, hh.1, hh.2, fromBytes_exportPad]

/-! ## Plugging the framing into the round trip -/

/-- the mathematical ECDSA primitive: signing yields a pair of integers, verification takes one -/
structure RawEc where
  sign : Provider → KeyItem → Alg → Bytes → Option (Nat × Nat)
  verify : Provider → KeyItem → Alg → Bytes → Nat × Nat → Bool

def toU8 (l : Octets) : Bytes := l.map UInt8.ofNat
def ofU8 (b : Bytes) : Octets := b.map UInt8.toNat

/-- `sign_sha_pem` for an EC key: the primitive, then libjwt's framing -/
def ecSign (raw : RawEc) (p : Provider) (k : KeyItem) (a : Alg) (m : Bytes) : Option Bytes :=
  (raw.sign p k a m).bind fun rs => (frame p a k.bits rs.1 rs.2).map toU8

/-- `verify_sha_pem` for an EC key: libjwt's un-framing, then the primitive -/
def ecVerify (raw : RawEc) (p : Provider) (k : KeyItem) (a : Alg) (m sig : Bytes) : Bool :=
  match unframe p a k.bits (ofU8 sig) with
  | none => false
  | some rs => raw.verify p k a m rs

/-- **C01/C12 for ECDSA: only the algorithm's exact form reaches the library.** If the framed `verify`
of either provider accepts a third segment, that segment is exactly `2·w` octets — `w` big-endian octets
of `r`, then `w` of `s` — and it is this pair of integers the mathematical primitive accepted. No
truncated, extended or zero-extended re-framing of a valid pair is accepted, on either provider. -/
theorem C01_ecdsa_exact_form (raw : RawEc) (p : Provider) (a : Alg) (k : KeyItem) (m sig : Bytes)
    (he : Alg.isEcdsa a = true) (hs : strengthOk a k) (h : ecVerify raw p k a m sig = true) :
    sig.length = 2 * coordWidth a ∧
    raw.verify p k a m (fromBytes ((ofU8 sig).take (coordWidth a)),
      fromBytes (((ofU8 sig).drop (coordWidth a)).take (coordWidth a))) = true := by
  unfold ecVerify at h
  cases hu : unframe p a k.bits (ofU8 sig) with
  | none => simp [hu] at h
  | some rs =>
    simp only [hu] at h
    have hl := C05_unframe_len p a k (ofU8 sig) rs he hs hu
    have hw := widths a k he hs
    refine ⟨by simpa [ofU8] using hl, ?_⟩
    cases p with
    | openssl =>
      simp only [unframe, osslUnframe, hw.2, osslVerifyMul_eq] at hu
      split at hu
      · cases hu
      · cases hu; exact h
    | gnutls =>
      simp only [unframe, gnutlsUnframe, gnutls_vwidth a he] at hu
      split at hu
      · cases hu
      · cases hu; exact h

theorem ofU8_toU8 (l : Octets) (h : ∀ b ∈ l, b < 256) : ofU8 (toU8 l) = l := by
  induction l with
  | nil => rfl
  | cons x xs ih =>
    simp only [toU8, ofU8, List.map_cons, List.map_map] at ih ⊢
    rw [ih (fun b hb => h b (by simp [hb]))]
    have hx := h x (by simp)
    congr 1
    simp only [UInt8.toNat_ofNat']
    omega

theorem exportPad_lt (w n : Nat) : ∀ b ∈ exportPad w n, b < 256 := by
  intro b hb
  simp only [exportPad, List.mem_append, List.mem_replicate] at hb
  rcases hb with ⟨_, rfl⟩ | hb
  · omega
  · exact toBytesMin_lt n b hb

/-- **The law `C05_roundtrip` assumes, derived for ECDSA.** If the mathematical primitive's signatures
are pairs below the field size that the (possibly other) provider's primitive accepts, then the
framed `sign` output is non-empty and the framed `verify` accepts it. -/
theorem C05_ecdsa_law (raw : RawEc) (pB pC : Provider) (a : Alg) (ks kc : KeyItem)
    (he : Alg.isEcdsa a = true) (hs : strengthOk a ks) (hbits : kc.bits = ks.bits)
    (hraw : ∀ m r s, raw.sign pB ks a m = some (r, s) →
      r < 256 ^ coordWidth a ∧ s < 256 ^ coordWidth a ∧ raw.verify pC kc a m (r, s) = true) :
    ∀ m sig, ecSign raw pB ks a m = some sig → sig ≠ [] ∧ ecVerify raw pC kc a m sig = true := by
  intro m sig h
  unfold ecSign at h
  cases hsg : raw.sign pB ks a m with
  | none => simp [hsg] at h
  | some rs =>
    obtain ⟨r, s⟩ := rs
    obtain ⟨hr, hsz, hv⟩ := hraw m r s hsg
    obtain ⟨fr, hfr, hlen, hun⟩ := C05_unframe_frame pB pC a ks kc r s he hs hbits hr hsz
    simp only [hsg, Option.bind_some, hfr, Option.map_some, Option.some.injEq] at h
    subst h
    constructor
    · intro e
      have : (toU8 fr).length = 0 := by rw [e]; rfl
      simp only [toU8, List.length_map] at this
      have hw : coordWidth a ≠ 0 := by cases a <;> simp [Alg.isEcdsa] at he <;> simp [coordWidth]
      omega
    · unfold ecVerify
      have hfr' := C05_frame pB a ks r s he hs hr hsz
      rw [hfr] at hfr'
      have hlt : ∀ b ∈ fr, b < 256 := by
        intro b hb
        simp only [Option.some.injEq] at hfr'
        rw [hfr'] at hb
        rcases List.mem_append.1 hb with hb | hb
        · exact exportPad_lt _ _ b hb
        · exact exportPad_lt _ _ b hb
      rw [ofU8_toU8 fr hlt, hun]
      exact hv

/-- **C05 for ECDSA with the framing inside the proved part.** `C05_roundtrip` instantiated with a
crypto environment whose public-key operations are "mathematical ECDSA + libjwt's framing": the
remaining assumption is about integer pairs only. -/
theorem C05_roundtrip_ecdsa (raw : RawEc) (hm : Alg → Bytes → Bytes → Bytes) (envB envC : Env)
    (b : Builder) (ck : Checker) (tok : Bytes)
    (hcrB : envB.cr = { hmac := hm, pkVerify := ecVerify raw, pkSign := ecSign raw })
    (hgen : (generate envB b).2 = some tok)
    (hjc : envC.jc = envB.jc) (hcr : envC.cr = envB.cr)
    (hobj : Props.C15.IsObj (genAfterCb b.cfg envB.now).2.1)
    (ks kc : KeyItem) (hks : (genAfterCb b.cfg envB.now).2.2.2.key = some ks)
    (hkty : kc.kty = ks.kty) (hbits : kc.bits = ks.bits) (hoct : kc.oct = ks.oct)
    (hnocb : ck.cfg.cb = none) (hckey : ck.cfg.key = some kc)
    (hadm : setkeyCheck .checker ck.cfg.alg (some kc) = none)
    (hpin : pinned { key := some kc, alg := ck.cfg.alg } = usedAlg (genAfterCb b.cfg envB.now).2.2.2)
    (he : Alg.isEcdsa (usedAlg (genAfterCb b.cfg envB.now).2.2.2) = true)
    (hclaims : claimsFail ck.cfg.claims (genAfterCb b.cfg envB.now).2.2.1 envC.now = false)
    (hload : ∀ t, envB.jc.dump t ≠ [] → envB.jc.load (cstr (envB.jc.dump t)) = some t)
    (hmac_ne : ∀ a k m, hm a k m ≠ [])
    (hsup : envC.prov.supports (usedAlg (genAfterCb b.cfg envB.now).2.2.2) = true)
    (hstr : strengthOk (usedAlg (genAfterCb b.cfg envB.now).2.2.2) ks)
    (hraw : ∀ m r s, raw.sign envB.prov ks (usedAlg (genAfterCb b.cfg envB.now).2.2.2) m = some (r, s) →
      r < 256 ^ coordWidth (usedAlg (genAfterCb b.cfg envB.now).2.2.2) ∧
      s < 256 ^ coordWidth (usedAlg (genAfterCb b.cfg envB.now).2.2.2) ∧
      raw.verify envC.prov kc (usedAlg (genAfterCb b.cfg envB.now).2.2.2) m (r, s) = true) :
    (verify envC ck (some tok)).2 = 0 := by
  have halg : usedAlg (genAfterCb b.cfg envB.now).2.2.2 ≠ .none := by
    intro e; rw [e] at he; simp [Alg.isEcdsa] at he
  refine (C05_roundtrip envB envC b ck tok hgen hjc hcr hobj ks kc hks hkty hbits hoct hnocb hckey hadm hpin
    halg hclaims hload ?_ hsup ?_).1
  · intro a k m; rw [hcrB]; exact hmac_ne a k m
  · intro m sig hsg
    rw [hcrB] at hsg ⊢
    exact C05_ecdsa_law raw envB.prov envC.prov _ ks kc he hstr hbits hraw m sig hsg

/-! ## non-vacuity / sanity -/

-- a 3-octet field for readability: r = 0x0000ff (short, top bit set → DER sign octet), s = 0x800001
example : gnutlsFrame 3 (derInt 255) (derInt 0x800001) = some [0, 0, 255, 128, 0, 1] := by decide +kernel
example : derInt 255 = [0, 255] ∧ derInt 0x800001 = [0, 128, 0, 1] ∧ derInt 0 = [0] := by decide +kernel
example : osslFrame 24 255 0x800001 = some [0, 0, 255, 128, 0, 1] := by decide +kernel
example : osslFrame 24 0x1000000 1 = none := by decide +kernel
example : osslUnframe 24 [0, 0, 255, 128, 0, 1] = some (255, 0x800001) := by decide +kernel
example : osslUnframe 24 [0, 255, 128, 0, 1] = none := by decide +kernel
example : gnutlsUnframe .es384 (List.replicate 47 0 ++ [7] ++ List.replicate 47 0 ++ [9]) = some (7, 9) := by decide +kernel
-- the zero-extended form GnuTLS used to accept for ES256 (fixed in /repo 83e8028)
example : gnutlsUnframe .es256 (List.replicate 47 0 ++ [7] ++ List.replicate 47 0 ++ [9]) = none := by decide +kernel

end Jwt.Props.C05

namespace Jwt.Props.C05
open Jwt Jwt.Cli Jwt.EcFrame Jwt.Generated Jwt.Props.C20 Jwt.Base64

/-- **C01 for ES256/ES384/ES512/ES256K, down to the integers.** With the provider's public-key verification
being "libjwt's un-framing, then the mathematical primitive" (`ecVerify`), a checker that holds a key
returns 0 on a token naming an ECDSA algorithm only if the third segment base64url-decodes to exactly
`2·w` octets — `w` the coordinate width of the pinned algorithm — and the two big-endian integers they
denote are a signature the primitive accepts, under that key, over the raw `header.payload` text. -/
theorem C01_sound_ecdsa (raw : RawEc) (hm : Alg → Bytes → Bytes → Bytes) (env : Env) (ck : Checker) (tok : Option Bytes)
    (hcr : env.cr = { hmac := hm, pkVerify := ecVerify raw, pkSign := ecSign raw })
    (h : (verify env ck tok).2 = 0) :
    ∃ t p, tok = some t ∧ parse env.jc t = .ok p ∧ t = p.head ++ [46] ++ p.payload ++ [46] ++ p.sig ∧
      ∀ k, (afterCb ck.cfg p).2.key = some k → Alg.isEcdsa p.alg = true →
        p.alg = pinned (afterCb ck.cfg p).2 ∧
        ∃ sig, uriDecode p.sig = some sig ∧ sig.length = 2 * coordWidth p.alg ∧
          raw.verify env.prov k p.alg (signingInput p.head p.payload)
            (fromBytes ((ofU8 sig).take (coordWidth p.alg)),
             fromBytes (((ofU8 sig).drop (coordWidth p.alg)).take (coordWidth p.alg))) = true := by
  obtain ⟨t, p, ht, hp, hshape, _, _, hk⟩ := Jwt.Props.C01.C01_sound env ck tok h
  refine ⟨t, p, ht, hp, hshape, ?_⟩
  intro k hkey hec
  obtain ⟨hpin, hstr, hsig⟩ := hk k hkey
  refine ⟨hpin, ?_⟩
  rcases hsig with ⟨hh, _⟩ | ⟨_, sig, hdec, hver⟩
  · cases hpa : p.alg <;> simp [hpa, Alg.isEcdsa, Alg.isHmac] at hec hh
  · rw [hcr] at hver
    obtain ⟨hl, hv⟩ := C01_ecdsa_exact_form raw env.prov p.alg k _ sig hec hstr hver
    exact ⟨sig, hdec, hl, hv⟩

end Jwt.Props.C05
