import Jwt.Lemmas.Policy
import Jwt.Lemmas.PipelineSig
import Jwt.Lemmas.StrCmpCode
/-!
# C01 — no token is accepted without a valid signature by the configured key

Cryptographic validity itself is the oracle `env.cr` (an arbitrary `Crypto`): the theorem says that
acceptance *is* a positive answer of that oracle — for the key in force, the algorithm named in
the header, over exactly the raw text of the first two segments — on either provider, for every
callback, with no assumption about the primitives or the JSON codec.
-/
namespace Jwt.Props.C01
open Jwt Jwt.Base64

/-- "the third segment is a valid signature under `k` and `a` over `msg`" -/
def SigValid (env : Env) (k : KeyItem) (a : Alg) (msg sigText : Bytes) : Prop :=
  strengthOk a k ∧
  ((a.isHmac = true ∧ sigText = uriEncode (env.cr.hmac a k.oct msg)) ∨
   (a.isPk = true ∧ ∃ sig, uriDecode sigText = some sig ∧ env.cr.pkVerify env.prov k a msg sig = true))

theorem verifySig_none (env : Env) (k : KeyItem) (a : Alg) (msg s : Bytes)
    (h : (verifySig env k a msg s).1 = none) : SigValid env k a msg s := by
  unfold verifySig at h
  unfold SigValid
  cases a <;> simp only at h
  all_goals first
    | (simp at h; done)
    | (split at h
       · simp at h
       · split at h
         · simp at h
         · rename_i hg
           have hs := ((checkHmac_none_iff _ k).1 hg)
           refine ⟨hs.2, Or.inl ⟨hs.1, ?_⟩⟩
           split at h
           · rename_i hok
             exact ((jwtStrcmp_eq_zero_iff _ _).1 hok.2).symm
           · simp at h)
    | (split at h
       · simp at h
       · rename_i hg
         have hs := ((checkKeyBits_none_iff _ k).1 hg)
         refine ⟨hs.2, Or.inr ⟨hs.1, ?_⟩⟩
         split at h
         · simp at h
         · rename_i sig hsig
           refine ⟨sig, hsig, ?_⟩
           split at h
           · simp at h
           · split at h
             · assumption
             · simp at h)

/-- **Soundness.** If `jwt_checker_verify` returns 0 and the configuration in force holds a key `k`,
then the token is `h.p.s` split at its first two dots, the header names the pinned algorithm `a`,
and `s` is a valid signature under `k` and `a` over the bytes `h.p` exactly as they stand in the
token. For HS* that means `s` is textually the base64url of the MAC; for the public-key
algorithms `s` base64url-decodes to a signature the provider's verification accepts. -/
theorem C01_sound (env : Env) (ck : Checker) (tok : Option Bytes) (h : (verify env ck tok).2 = 0) :
    ∃ t p, tok = some t ∧ parse env.jc t = .ok p ∧
      t = p.head ++ [46] ++ p.payload ++ [46] ++ p.sig ∧ (46 : UInt8) ∉ p.head ∧ (46 : UInt8) ∉ p.payload ∧
      ∀ k, (afterCb ck.cfg p).2.key = some k →
        p.alg = pinned (afterCb ck.cfg p).2 ∧
        SigValid env k p.alg (signingInput p.head p.payload) p.sig := by
  obtain ⟨t, rfl, _, hok⟩ := (verify_rc_zero env ck tok).1 h
  obtain ⟨p, hp, _, _, _, hcp, hsig⟩ := verifyCore_ok env ck.cfg t hok
  obtain ⟨hsplit, hd1, hd2, _⟩ := parse_ok env.jc t p hp
  refine ⟨t, p, rfl, hp, hsplit, hd1, hd2, ?_⟩
  intro k hk
  obtain ⟨hn, _, hpin⟩ := configPost_key _ _ _ k hk hcp
  refine ⟨hpin, ?_⟩
  rcases hsig with hz | ⟨k', hk', hv⟩
  · exact absurd hz hn
  · rw [hk] at hk'
    cases hk'
    exact verifySig_none env k p.alg _ p.sig hv

/-- Anything that is rejected leaves a non-zero return value — there is no third outcome. -/
theorem C01_reject_or_accept (env : Env) (ck : Checker) (tok : Option Bytes) :
    (verify env ck tok).2 = 0 ∨ (verify env ck tok).2 = 1 := by
  unfold verify
  cases tok with
  | none => simp
  | some t =>
    cases t with
    | nil => simp
    | cons x xs => simp only; cases (verifyCore env ck.cfg (x :: xs)).1 <;> simp

/-! ### non-vacuity: a concrete accepted token under a concrete oracle -/

def octKey : KeyItem := { id := 7, kty := .oct, alg := .hs256, bits := 256, isPrivate := true, oct := [1, 2, 3] }
/-- a toy primitive: the "MAC" of anything is the single byte 0x5A ("Wg" in base64url) -/
def toyEnv : Env :=
  { jc := { load := fun b => if b = [123, 125] then some (.obj [(N.alg, .str [72, 83, 50, 53, 54])]) else none, dump := fun _ => [] },
    cr := { hmac := fun _ _ _ => [0x5A], pkVerify := fun _ _ _ _ _ => false, pkSign := fun _ _ _ _ => none },
    prov := .openssl, now := 0 }
def toyChecker : Checker := { (Checker.mk { key := some octKey, alg := .none, claims := default } false none) with }
-- token "e30.e30.Wg": header and payload both decode to "{}", which the toy codec loads as {"alg":"HS256"}
example : (verify toyEnv toyChecker (some [101, 51, 48, 46, 101, 51, 48, 46, 87, 103])).2 = 0 := by decide +kernel
example : (verify toyEnv toyChecker (some [101, 51, 48, 46, 101, 51, 48, 46, 87, 119])).2 = 1 := by decide +kernel

/-- **`jwt_verify_sig` is the source's.** The model reports a signature failure exactly when the `jwt_verify_sig`
*generated* from `jwt.c`, fed with the model's quantities, writes its message or (public-key arm) the gate refused the key:
an HS* token fails when the key is not an oct key or the recomputed MAC text differs; an RS*/PS*/ES*/EdDSA token when the
gate refuses, the third segment does not decode, or the provider's verification fails; any other algorithm always. -/
theorem C01_verify_sig_is_source (env : Env) (k : KeyItem) (alg : Alg) (msg sigB64 : Bytes) :
    (verifySig env k alg msg sigB64).1.isSome =
      ((verifySigGen env k alg msg sigB64).2 || (algIsPk alg && (checkKeyBits alg k).isSome)) :=
  verifySig_generated env k alg msg sigB64


/-- **The MAC comparison is the source's.**  The HS* check compares the recomputed MAC's text with the token's through
`jwt_strcmp`; as translated from jwt-memory.c it returns 0 exactly when the two texts are equal, whatever their lengths
(in particular: not when they differ by a multiple of some power of two in length, or only beyond a common prefix) -/
theorem C01_mac_compare_is_source (mac sig : Bytes) :
    Generated.StrCmpCode.jwtStrcmp (mac.map UInt8.toNat) (sig.map UInt8.toNat) = 0 ↔ mac = sig := by
  rw [StrCmpCode.translated_agrees_with_model, jwtStrcmp_eq_zero_iff]


end Jwt.Props.C01
