import Jwt.Cli
/-!
# C20 — command-line tools mirror the library

Proved over *generated* facts (tools/*.c): the exit-status arithmetic of jwt-verify for every number
of failing tokens, the consistency of every tool's option tables with its usage text, and the
fixed-width export arithmetic of key2jwk for every value below the field size. Process behaviour
(exec, pipes, files, the tools' glue around the library) is exercised by suite `cli` on the built
tools, not modelled (PARTIAL).
-/
namespace Jwt.Props.C20
open Jwt.Cli Jwt.Generated

/-- **Exit status.** jwt-verify exits with status 0 exactly when no token failed — for token lists
of every length (in particular 256, 512, … failing tokens). -/
theorem C20_exit (fails : Nat) : verifyStatus fails = 0 ↔ fails = 0 := by
  unfold verifyStatus status verifyExitArg
  split <;> omega

/-- **Options.** For each of the four tools, every option the usage text documents can be given
in its short spelling, which takes an argument exactly when the usage line shows `=ARG` and the
long option is `required_argument`. -/
theorem C20_opts : ∀ t ∈ toolOpts, usageConsistent t = true := by decide +kernel

theorem toBytesMin_lt (n : Nat) : ∀ b ∈ toBytesMin n, b < 256 := by
  induction n using Nat.strongRecOn with
  | _ n ih =>
    cases n with
    | zero => intro b hb; simp [toBytesMin] at hb
    | succ k =>
      intro b hb
      rw [toBytesMin] at hb
      simp only [List.mem_append, List.mem_singleton] at hb
      rcases hb with hb | rfl
      · exact ih _ (by omega) b hb
      · omega

theorem fromBytes_append (a : List Nat) (b : Nat) : fromBytes (a ++ [b]) = fromBytes a * 256 + b := by
  simp [fromBytes, List.foldl_append]

theorem fromBytes_toBytesMin (n : Nat) : fromBytes (toBytesMin n) = n := by
  induction n using Nat.strongRecOn with
  | _ n ih =>
    cases n with
    | zero => simp [toBytesMin, fromBytes]
    | succ k =>
      rw [toBytesMin, fromBytes_append, ih _ (by omega)]
      omega

theorem toBytesMin_length (n w : Nat) (h : n < 256 ^ w) : (toBytesMin n).length ≤ w := by
  induction w generalizing n with
  | zero =>
    have : n = 0 := by simpa using h
    subst this; simp [toBytesMin]
  | succ w ih =>
    cases n with
    | zero => simp [toBytesMin]
    | succ k =>
      rw [toBytesMin]
      simp only [List.length_append, List.length_singleton]
      have : (k + 1) / 256 < 256 ^ w := by
        rw [Nat.pow_succ] at h
        exact Nat.div_lt_of_lt_mul (by rw [Nat.mul_comm]; exact h)
      have := ih _ this
      omega

theorem fromBytes_zeros (k : Nat) (m : List Nat) : fromBytes (List.replicate k 0 ++ m) = fromBytes m := by
  induction k with
  | zero => simp
  | succ k ih =>
    have : fromBytes (List.replicate (k + 1) 0 ++ m) = fromBytes (List.replicate k 0 ++ m) := by
      simp [fromBytes, List.replicate_succ]
    rw [this, ih]

/-- **Fixed width.** For every value below the field size `256^w` the padded export has exactly `w`
octets, and importing it (leading zeros and all) denotes the same number — so does importing the
minimal form, which is why both spellings load as the same key. -/
theorem C20_width (w n : Nat) (h : n < 256 ^ w) :
    (exportPad w n).length = w ∧ fromBytes (exportPad w n) = n ∧ fromBytes (toBytesMin n) = n := by
  have hl := toBytesMin_length n w h
  refine ⟨?_, ?_, fromBytes_toBytesMin n⟩
  · simp only [exportPad, List.length_append, List.length_replicate]; omega
  · simp only [exportPad]; rw [fromBytes_zeros, fromBytes_toBytesMin]

/-- key2jwk exports EC `x`, `y` and `d` through the padded path (generated fact) -/
theorem C20_ec_members : ecMembersFixedWidth = [("x", true), ("y", true), ("d", true)] := by decide

/-! ### non-vacuity -/
example : verifyStatus 256 ≠ 0 ∧ verifyStatus 512 ≠ 0 ∧ verifyStatus 255 = 255 ∧ verifyStatus 0 = 0 := by decide
-- the failure mode the fix removed: the unclamped status of 256 failures is 0
example : status 256 = 0 := by decide
example : exportPad 4 258 = [0, 0, 1, 2] ∧ toBytesMin 258 = [1, 2] := by simp [exportPad, toBytesMin]
example : optLookup "hk:a:lvqp:".toList 'a' = some true ∧ optLookup "hk:alvqp:".toList 'a' = some false := by decide

end Jwt.Props.C20
