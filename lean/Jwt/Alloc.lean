/-! Allocation-failure propagation model (C17).

Every libjwt-level step that can return NULL or -1 because an allocation failed, with what its
caller does with that result — copied from the source, site by site. The tables are tied to the code
by the exhaustive fault enumeration of suite `oom`: every allocation index of every scenario is
failed once, the failing site is named by `backtrace()`, mapped to a row here, and the observed
class must be the one `run` predicts. jansson's and OpenSSL's own reaction to an internal failure
("return NULL or -1, object unchanged") is an assumption, except where a row says otherwise. -/
namespace Jwt.Alloc

/-- what the caller does when the step fails -/
inductive Reaction where
  | propagate   -- reports through its own documented channel (NULL / non-zero / item or object error flag)
  | absorb      -- optional work is skipped; the result is the same (e.g. PEM text for OpenSSL-only use)
  | degrade     -- carries on with different content and no report  (a defect)
  | crash       -- dereferences the NULL                            (a defect)
  deriving DecidableEq, Repr

inductive Outcome where | same | reported | wrongSuccess | crash
  deriving DecidableEq, Repr

/-- a fallible step: the innermost libjwt (or exported jansson) function the allocation happens
under, and its caller's reaction -/
structure Step where
  site : String
  reaction : Reaction
  deriving Repr

/-- the outcome of an operation when exactly the steps selected by `fails` fail: decided by the first
failing step that is reached (a propagated failure ends the operation) -/
def run : List Step → (Nat → Bool) → Nat → Outcome
  | [], _, _ => .same
  | s :: rest, fails, i =>
    if fails i then
      match s.reaction with
      | .propagate => .reported
      | .absorb => run rest fails (i + 1)
      | .degrade => .wrongSuccess
      | .crash => .crash
    else run rest fails (i + 1)

def P (site : String) : Step := { site, reaction := .propagate }

/-! Row names are what the fault enumeration can observe: the public entry point and the visible
callee under which the allocation happens (static functions do not show in a backtrace). -/

/-- `jwks_load*` / `jwks_create*` → `jwks_process` → `jwk_process_one` → key parsers -/
def loadSteps : List Step :=
  [P "jwks_load:direct (jwks_new, jwk_item_t, kid copy)", P "jwks_load:json_load* internal",
   ⟨"jwks_load:json_load* lexer strbuffer growth (jansson lex_save ignores strbuffer_append_byte)", .degrade⟩,
   P "jwks_load:json_deep_copy", P "jwks_load:jwt_base64uri_decode (oct k)", P "jwks_load:openssl_process_rsa:jwt_base64uri_decode",
   P "jwks_load:openssl_process_ec:jwt_base64uri_decode", P "jwks_load:openssl_process_eddsa:jwt_base64uri_decode"]

/-- `jwt_builder_new` / `jwt_checker_new` -/
def newSteps : List Step := [P "new:direct", P "new:json_object"]

/-- header/claim set, get, delete and the checker's claim_set -/
def setGetSteps : List Step :=
  [P "set:json_loads", P "set:value constructor (json_string/json_integer/json_boolean)", P "set:json_object_set_new",
   P "set:json_object_update", P "get:json_dumps"]

/-- `jwt_builder_generate` -/
def generateSteps : List Step :=
  [P "generate:direct (jwt_t)", P "generate:json_deep_copy", P "generate:jwt_claim_set (iat/nbf/exp)",
   P "generate:jwt_head_setup", P "generate:jwt_encode_str:json_dumps",
   ⟨"generate:jwt_encode_str:json_dumps output buffer growth (jansson drops bytes of the dump)", .degrade⟩,
   P "generate:jwt_encode_str:jwt_base64uri_encode", P "generate:jwt_encode_str:direct (signing input, token)",
   P "generate:jwt_sign", P "generate:callback set/get"]

/-- `jwt_checker_verify` -/
def verifySteps : List Step :=
  [P "verify:jwt_new", P "verify:jwt_parse:direct (token copy)", P "verify:jwt_parse:jwt_base64uri_decode",
   P "verify:jwt_parse:json_loads", P "verify:json_deep_copy (claims kept from the callback)", P "verify:callback set/get",
   P "verify:jwt_verify_sig:jwt_sign", P "verify:jwt_verify_sig:jwt_base64uri_encode", P "verify:jwt_verify_sig:jwt_base64uri_decode",
   P "verify:provider"]

end Jwt.Alloc
