import Jwt
import Driver.Codec
import Std.Data.HashMap
/-! Line-protocol driver: the same operation lines as harness/exec.c, answered by the model.

Oracle answers (JSON text ↔ tree, HMAC, public-key verdicts) arrive as `oracle …` lines and are
looked up by the exact input they answer for; when the model asks something that is not in the
tables the driver prints `need …` instead of a result and the harness re-runs the whole file with
the answer added (the driver is a pure function of its input file). -/
open Jwt Jwt.Base64 Jwt.Generated Driver

namespace Driver

structure Oracles where
  load : Std.HashMap String (Option Json) := {}
  loadStrict : Std.HashMap String (Option Json) := {}
  dump : Std.HashMap String Bytes := {}
  hmac : Std.HashMap String Bytes := {}
  pkv : Std.HashMap String Bool := {}
  pks : Std.HashMap String (Option Bytes) := {}
  keyorc : Std.HashMap String (Option (Nat × Bool)) := {}

structure CkSlot where
  ck : Checker
  prog : String := ""

structure BlSlot where
  bl : Builder
  prog : String := ""

structure St where
  now : Int := 1700000000
  prov : Provider := .openssl
  provIdx : Nat := 0
  keys : Std.HashMap String KeyItem := {}       -- "set:idx" ↦ item
  cks : Std.HashMap Nat CkSlot := {}
  bls : Std.HashMap Nat BlSlot := {}
  lastTok : Option Bytes := none
  sets : Std.HashMap Nat KeySet := {}
  orc : Oracles := {}

def provName : Provider → String | .openssl => "openssl" | .gnutls => "gnutls"
def provId : Provider → Nat | .openssl => 1 | .gnutls => 2

def hmacKey (a : Alg) (key msg : Bytes) : String := s!"{a.ord}:{hex key}:{hex msg}"
def pkvKey (p : Provider) (kid : Nat) (a : Alg) (msg sig : Bytes) : String :=
  s!"{provName p}:{kid}:{a.ord}:{hex msg}:{hex sig}"

/-- what the model's `pkSign` oracle returns (followed by `:<key id>:<alg ordinal>` of the signer): the
harness replaces the real token's signature by this placeholder after an independent verifier has
accepted it (ECDSA/PSS are randomised), and answers `pkVerify` on a placeholder with "same key, same
algorithm, usable" -/
def sigPlaceholder : Bytes := [0x53, 0x49, 0x47, 0x2d, 0x4f, 0x4b]

def mkEnv (st : St) : Env :=
  { jc := { load := fun b => (st.orc.load.get? (hex b)).getD none, dump := fun j => (st.orc.dump.get? (enc j)).getD [] },
    cr := { hmac := fun a k m => (st.orc.hmac.get? (hmacKey a k m)).getD [],
            pkVerify := fun p k a m s => (st.orc.pkv.get? (pkvKey p k.id a m s)).getD false,
            pkSign := fun _ k a _ => some (sigPlaceholder ++ s!":{k.id}:{a.ord}".toUTF8.toList) },
    prov := st.prov, now := st.now }

/-- provider acceptance of key material, from the `oracle keyorc …` lines; a query that is not in
the table shows up as the impossible size 999999 (a harness gap, never a verdict) -/
def keyOracle (st : St) : KeyOracle :=
  let look (k : String) : Option (Nat × Bool) := (st.orc.keyorc.get? k).getD (some (999999, true))
  { rsa := fun pss n e comps =>
      look (s!"rsa {if pss then 1 else 0} {hex n} {hex e}" ++ (match comps with | some cs => String.join (cs.map fun c => " " ++ hex c) | none => "")),
    ec := fun crv x y d => look (s!"ec {hex crv} {hex x} {hex y}" ++ (match d with | some dv => " " ++ hex dv | none => "")),
    okp := fun crv priv b => look s!"okp {hex crv} {if priv then 1 else 0} {hex b}" }

def showItem : Option Item → String
  | none => "none"
  | some it =>
    let octS := if it.kty = 4 ∧ !it.oct.isEmpty then hex it.oct else "NULL"
    s!"kty={it.kty} alg={it.alg.ord} bits={it.bits} priv={if it.isPrivate then 1 else 0} err={if it.error then 1 else 0} emsg={if it.msg then 1 else 0} kid={hexOpt it.kid} use={it.use} ops={it.keyOps} crv={hexOpt it.curve} pem={if it.hasPem then 1 else 0} oct={octS}"

def loadStrictFn (st : St) : Bytes → Option Json := fun b => (st.orc.loadStrict.get? (hex b)).getD none

def claimOf (s : String) : ClaimId :=
  match s with
  | "iss" => .iss | "sub" => .sub | "aud" => .aud | "exp" => .exp | "nbf" => .nbf | "iat" => .iat | "jti" => .jti
  | _ => .other

def vtypeOf (s : String) : VType :=
  match s with | "int" => .int | "str" => .str | "bool" => .bool | _ => .json

/-- render the result of a get exactly like the executor (JSON values as `json:`JENC) -/
def showGet (t : VType) (r : VErr × Option Json) : String :=
  let v := match r.1, r.2, t with
    | .none, some (.int i), .int => toString i
    | .none, some (.str s), .str => hex s
    | .none, some (.bool b), .bool => if b then "1" else "0"
    | .none, some j, .json => "json:" ++ enc j
    | _, _, _ => "x"
  s!"rc={r.1.code} verr={r.1.code} val={v}"

def mkSetReq (type name val repl : String) : Option SetReq :=
  match unhex name with
  | none => none
  | some n =>
    let t := vtypeOf type
    let r : SetReq := { type := t, name := n, replace := repl != "0" }
    match t with
    | .int => val.toInt?.map fun i => { r with intVal := i }
    | .bool => val.toInt?.map fun i => { r with boolVal := i }
    | .str => (unhex val).map fun s => { r with strVal := s }
    | .json => (unhex val).map fun s => { r with jsonVal := s }

/-- state threaded through a scripted callback -/
structure CbSt where
  headers : Json
  claims : Json
  cfg : Config
  ret : Int := 0
  obs : String
  needs : List String := []

/-- one step of a callback program (same syntax as harness/exec.c `run_cb`) -/
def cbStep (st : St) (jalg : Alg) (s : CbSt) (step : String) : CbSt :=
  let a := step.splitOn ":"
  let s := { s with obs := s.obs ++ ";" }
  let needStrict (r : SetReq) (s : CbSt) : CbSt :=
    match r.type, r.jsonVal with
    | .json, some t => if st.orc.loadStrict.contains (hex t) then s else { s with needs := s!"need loadstrict {hex t}" :: s.needs }
    | _, _ => s
  match a with
  | ["hset", ty, nm, v, rp] =>
    match mkSetReq ty nm v rp with
    | some r => let (h, e) := setter (loadStrictFn st) s.headers r
                needStrict r { s with headers := h, obs := s.obs ++ s!"rc={e.code} verr={e.code}" }
    | none => { s with obs := s.obs ++ "?" }
  | ["cset", ty, nm, v, rp] =>
    match mkSetReq ty nm v rp with
    | some r => let (c, e) := setter (loadStrictFn st) s.claims r
                needStrict r { s with claims := c, obs := s.obs ++ s!"rc={e.code} verr={e.code}" }
    | none => { s with obs := s.obs ++ "?" }
  | ["hget", ty, nm] =>
    match unhex nm with
    | some n => { s with obs := s.obs ++ showGet (vtypeOf ty) (getter s.headers (vtypeOf ty) n) }
    | none => { s with obs := s.obs ++ "?" }
  | ["cget", ty, nm] =>
    match unhex nm with
    | some n => { s with obs := s.obs ++ showGet (vtypeOf ty) (getter s.claims (vtypeOf ty) n) }
    | none => { s with obs := s.obs ++ "?" }
  | ["hdel", nm] =>
    match unhex nm with
    | some n => { s with headers := (deleter s.headers n).1, obs := s.obs ++ "rc=0" }
    | none => { s with obs := s.obs ++ "?" }
  | ["cdel", nm] =>
    match unhex nm with
    | some n => { s with claims := (deleter s.claims n).1, obs := s.obs ++ "rc=0" }
    | none => { s with obs := s.obs ++ "?" }
  | ["key", set, idx] => { s with cfg := { s.cfg with key := st.keys.get? s!"{set}:{idx}" }, obs := s.obs ++ "k" }
  | ["nokey"] => { s with cfg := { s.cfg with key := none }, obs := s.obs ++ "k" }
  | ["alg", n] => { s with cfg := { s.cfg with alg := (n.toNat?.bind Alg.ofOrd).getD .inval }, obs := s.obs ++ "a" }
  | ["getalg"] => { s with obs := s.obs ++ s!"jalg={jalg.ord}" }
  | ["ret", n] => { s with ret := n.toInt?.getD 0, obs := s.obs ++ "r" }
  -- the callback's context: it is handed the one the object was configured with (`ctxis1`; `ctxis0` = configured NULL),
  -- every time; what it writes into the per-call `config->ctx` is not kept (`setctx`)
  | ["ctxis1"] => { s with obs := s.obs ++ "ctx=1" }
  | ["ctxis0"] => { s with obs := s.obs ++ "ctx=0" }
  | ["setctx"] => { s with obs := s.obs ++ "x" }
  | _ => { s with obs := s.obs ++ "?" }

def runProg (st : St) (prog : String) (headers claims : Json) (jalg : Alg) (cfg : Config) : CbSt :=
  let init : CbSt := { headers, claims, cfg, obs := s!"alg={cfg.alg.ord} key={if cfg.key.isSome then 1 else 0}" }
  (prog.splitOn ",").foldl (cbStep st jalg) init

/-- a scripted program as the model's callback type -/
def progCb (st : St) (prog : String) : CheckerCb := fun headers claims jalg cfg =>
  let r := runProg st prog headers claims jalg cfg
  (r.ret, r.headers, r.claims, r.cfg)

def progBuilderCb (st : St) (prog : String) : BuilderCb := fun headers claims cfg =>
  let r := runProg st prog headers claims .none cfg
  (r.ret, r.headers, r.claims, r.cfg)

def b01 (b : Bool) : Nat := if b then 1 else 0

/-- the literal bounds-checked decoder (not subject to the `csimp` replacement of `uriDecode`) -/
def uriDecodeLiteral (src : Bytes) : Option Bytes :=
  match padCount src.length with
  | none => none
  | some z =>
    match uriDecodeBuf src (List.replicate (decodeAlloc src.length z) 0xAA) with
    | none => none
    | some (out, j) => some (out.take j)

/-- everything the model will ask the oracles while verifying `tok` that is not in the tables yet -/
def verifyNeeds (st : St) (slot : CkSlot) (tok : Bytes) : List String :=
  let env := mkEnv st
  let loads : List Bytes :=
    match splitDot tok with
    | none => []
    | some (h, rest) =>
      match splitDot rest with
      | none => []
      | some (p, _) =>
        let hq := (uriDecode h).map cstr
        let pq := (uriDecode p).map cstr
        -- the payload is only loaded when the header went through
        match hq with
        | none => []
        | some hb =>
          match (env.jc.load hb).map parseHeadAlg with
          | some (.ok _) => hb :: pq.toList
          | _ => [hb]
  let miss := loads.filter fun b => !st.orc.load.contains (hex b)
  if !miss.isEmpty then miss.map fun b => s!"need load {hex b}"
  else
    -- callback-side needs
    let cbNeeds : List String :=
      match slot.ck.cfg.cb, parse env.jc tok with
      | some _, .ok p => (runProg st slot.prog p.headers p.claims p.alg { key := slot.ck.cfg.key, alg := slot.ck.cfg.alg }).needs
      | _, _ => []
    if !cbNeeds.isEmpty then cbNeeds
    else
      match parse env.jc tok with
      | .error _ => []
      | .ok p =>
        let msg := p.head ++ [46] ++ p.payload
        let (_, tr) := verifyCore env slot.ck.cfg tok
        tr.filterMap fun c =>
          match c with
          | .hmac a k => if st.orc.hmac.contains (hmacKey a k.oct msg) then none else some s!"need hmac {a.ord} {hex k.oct} {hex msg}"
          | .pkVerify a k =>
            match uriDecode p.sig with
            | some sig => if st.orc.pkv.contains (pkvKey st.prov k.id a msg sig) then none
                          else some s!"need pkv {provName st.prov} {k.id} {a.ord} {hex msg} {hex sig}"
            | none => none
          | _ => none

def parseKV (toks : List String) : Std.HashMap String String :=
  toks.foldl (fun m t => match t.splitOn "=" with | [k, v] => m.insert k v | _ => m) {}

def ktyOf (s : String) : Kty :=
  match s with | "ec" => .ec | "rsa" => .rsa | "okp" => .okp | "oct" => .oct | _ => .none

def step (st : St) (line : String) : St × String :=
  let toks := (line.trimAscii.toString.splitOn " ").filter (· ≠ "")
  match toks with
  | [] => (st, "")
  | ["b64enc", h] =>
    match unhex h with
    | some (some b) => let o := base64Encode b; (st, s!"{hex o} {o.length} nul=1")
    | _ => (st, "badop")
  | ["b64dec", h] =>
    match unhex h with
    | some (some b) =>
      match base64Decode b (List.replicate (decodeOutSize b.length + 1) 0xAA) with
      | .oob => (st, "oob")
      | .reject => (st, "j=0 -")
      | .ok j out => (st, s!"j={j} {hex (out.take j)}")
    | _ => (st, "badop")
  | ["urienc", h] =>
    match unhex h with
    | some (some b) => (st, s!"{hex (uriEncode b)} ret={uriEncodeRet b}")
    | _ => (st, "badop")
  | ["uridec", h] =>
    match unhex h with
    | some (some b) =>
      -- The literal decoder works on a `List` buffer (`List.set` is linear, the loop quadratic):
      -- beyond 1 KiB the driver evaluates `decodeSpec`, which `Jwt.Props.C11.C11_decode_spec`
      -- proves equal to `uriDecode` on every input.
      (st, hexOpt (if b.length ≤ 1024 then uriDecodeLiteral b else decodeSpec b))
    | _ => (st, "badop")
  | ["strcmp", a, b] =>
    match unhex a, unhex b with
    | some (some x), some (some y) => (st, if jwtStrcmp x y = 0 then "0" else "1")
    | _, _ => (st, "badop")
  | ["stralg", a] =>
    match unhex a with
    | some x => (st, toString (strAlg x).ord)
    | none => (st, "badop")
  | ["algstr", n] =>
    match n.toNat? with
    | some k => (st, hexOpt ((Alg.ofOrd k).bind algStr))
    | none => (st, "badop")
  | ["echo"] => (st, "echo")
  -- ECDSA framing: provider o|g, alg ordinal, key bits, integers as hex numerals
  | ["ecframe", p, a, bits, r, s] =>
    match Alg.ofOrd (a.toNat?.getD 99), bits.toNat?, hexNat r, hexNat s with
    | some alg, some b, some rv, some sv =>
      (st, match Jwt.EcFrame.frame (if p = "g" then .gnutls else .openssl) alg b rv sv with
           | some o => hexOctets o
           | none => "fail")
    | _, _, _, _ => (st, "badop")
  | ["ecunframe", p, a, bits, sig] =>
    match Alg.ofOrd (a.toNat?.getD 99), bits.toNat?, unhexB sig with
    | some alg, some b, some sg =>
      (st, match Jwt.EcFrame.unframe (if p = "g" then .gnutls else .openssl) alg b (sg.map UInt8.toNat) with
           | some (rv, sv) => s!"{natHex rv} {natHex sv}"
           | none => "reject")
    | _, _, _ => (st, "badop")
  | ["clistatus", n] => (st, toString (Jwt.Cli.verifyStatus (n.toNat?.getD 0)))
  | ["clock", t] => ({ st with now := t.toInt?.getD 0 }, "ok")
  -- oracle tables
  | ["oracle", "load", h, j] => ({ st with orc := { st.orc with load := st.orc.load.insert h (if j = "none" then none else dec j) } }, "ok")
  | ["oracle", "loadstrict", h, j] => ({ st with orc := { st.orc with loadStrict := st.orc.loadStrict.insert h (if j = "none" then none else dec j) } }, "ok")
  | ["oracle", "dump", j, h] => ({ st with orc := { st.orc with dump := st.orc.dump.insert j ((unhexB h).getD []) } }, "ok")
  | ["oracle", "hmac", a, k, m, mac] => ({ st with orc := { st.orc with hmac := st.orc.hmac.insert s!"{a}:{k}:{m}" ((unhexB mac).getD []) } }, "ok")
  | ["oracle", "pkv", p, kid, a, m, s, v] => ({ st with orc := { st.orc with pkv := st.orc.pkv.insert s!"{p}:{kid}:{a}:{m}:{s}" (v = "1") } }, "ok")
  -- model-side declaration of a key item (the harness knows what it put into the JWK)
  | "key" :: set :: idx :: rest =>
    let kv := parseKV rest
    let item : KeyItem :=
      { id := ((kv.get? "id").bind String.toNat?).getD 0, kty := ktyOf ((kv.get? "kty").getD ""),
        alg := (((kv.get? "alg").bind String.toNat?).bind Alg.ofOrd).getD .none,
        bits := ((kv.get? "bits").bind String.toNat?).getD 0, isPrivate := (kv.get? "priv") = some "1",
        oct := ((kv.get? "oct").bind unhexB).getD [] }
    ({ st with keys := st.keys.insert s!"{set}:{idx}" item }, "ok")
  | ["prov", "name", h] =>
    match unhex h with
    | some (some n) =>
      let (i, rc) := setOpsByName st.provIdx n
      ({ st with provIdx := i, prov := providerOf i }, s!"rc={rc} cur={String.fromUTF8! (ByteArray.mk (opsName i).toArray)} id={opsId i}")
    | _ => (st, "badop")
  | ["prov", "id", n] =>
    match n.toInt? with
    | some v =>
      let (i, rc) := if v < 0 then (st.provIdx, 1) else setOpsById st.provIdx v.toNat
      ({ st with provIdx := i, prov := providerOf i }, s!"rc={rc} cur={String.fromUTF8! (ByteArray.mk (opsName i).toArray)} id={opsId i}")
    | none => (st, "badop")
  | ["provinit", h] =>
    match unhex h with
    | some v => let i := initOps v; ({ st with provIdx := i, prov := providerOf i }, "ok")
    | none => (st, "badop")
  | ["provget"] => (st, s!"cur={String.fromUTF8! (ByteArray.mk (opsName st.provIdx).toArray)} id={opsId st.provIdx}")
  | "ck" :: c :: rest =>
    match c.toNat? with
    | none => (st, "badslot")
    | some ci =>
      match rest with
      | ["new"] => ({ st with cks := st.cks.insert ci { ck := Checker.new } }, "ok")
      | _ =>
        match st.cks.get? ci with
        | none => (st, "nock")
        | some slot =>
          let put (ck : Checker) : St := { st with cks := st.cks.insert ci { slot with ck := ck } }
          match rest with
          | ["free"] => ({ st with cks := st.cks.erase ci }, "ok")
          | "setkey" :: a :: more =>
            let alg := (a.toNat?.bind Alg.ofOrd).getD .inval
            let key := match more with | [s, i] => st.keys.get? s!"{s}:{i}" | _ => none
            let (ck, rc) := slot.ck.setkey alg key
            (put ck, s!"rc={rc}")
          | ["claimset", cl, v] =>
            match unhex v with
            | some val => let (ck, rc) := slot.ck.claimSet (claimOf cl) val; (put ck, s!"rc={rc}")
            | none => (st, "badop")
          | ["claimdel", cl] => let (ck, rc) := slot.ck.claimDel (claimOf cl); (put ck, s!"rc={rc}")
          | ["claimget", cl] => (st, hexOpt (slot.ck.claimGet (claimOf cl)))
          | ["leeway", cl, secs] =>
            match secs.toInt? with
            | some s => let (ck, rc) := slot.ck.timeLeeway (claimOf cl) s; (put ck, s!"rc={rc}")
            | none => (st, "badop")
          | ["setcb", prog] =>
            if prog = "@ctx" then
              -- NULL callback, non-NULL context: the installed callback (kept as text in the slot) stays
              let ck' : Checker := if slot.prog = "" then slot.ck else (slot.ck.setcb (some (progCb st slot.prog))).1
              let (ck2, rc) := ck'.setcbCtx
              -- an installed callback now has a context (the harness hands in the object's own)
              ({ st with cks := st.cks.insert ci { slot with ck := { slot.ck with error := ck2.error, msg := ck2.msg },
                                                              prog := slot.prog.replace "ctxis0" "ctxis1" } }, s!"rc={rc}")
            else if prog = "-" then
              ({ st with cks := st.cks.insert ci { ck := (slot.ck.setcb none).1, prog := "" } }, "rc=0")
            else
              -- the callback closes over the driver state *at call time*: stored as text, built in `verify`
              ({ st with cks := st.cks.insert ci { ck := slot.ck, prog := prog } }, "rc=0")
          | ["verify", h] =>
            match (if h = "@last" then some st.lastTok else unhex h) with
            | none => (st, "badop")
            | some tok =>
              let slot' : CkSlot := if slot.prog = "" then slot
                else { slot with ck := (slot.ck.setcb (some (progCb st slot.prog))).1 }
              let needs := match tok with | some t => if t.isEmpty then [] else verifyNeeds st slot' t | none => []
              if !needs.isEmpty then (st, " | ".intercalate needs)
              else
                let (ck, rc) := verify (mkEnv st) slot'.ck tok
                -- observations of the callback, if it ran
                let obs := match tok, slot'.ck.cfg.cb with
                  | some t, some _ =>
                    if t.isEmpty then "" else
                    match parse (mkEnv st).jc t with
                    | .ok p => (runProg st slot.prog p.headers p.claims p.alg { key := slot.ck.cfg.key, alg := slot.ck.cfg.alg }).obs
                    | .error _ => ""
                  | _, _ => ""
                ({ st with cks := st.cks.insert ci { slot with ck := { ck with cfg := slot.ck.cfg } } },
                 s!"rc={rc} err={b01 ck.error} msg={b01 ck.msg.isSome} cb=[{obs}]")
          | ["err"] => (st, s!"err={b01 slot.ck.error} msg={b01 slot.ck.msg.isSome}")
          | ["errclr"] => (put slot.ck.errorClear, "ok")
          | _ => (st, "badop")
  | ["oracle", "keyorc", k, v] =>
    -- k has its spaces written as '+'
    ({ st with orc := { st.orc with keyorc := st.orc.keyorc.insert (k.replace "+" " ") (if v = "none" then none else match v.splitOn ":" with
      | [b] => b.toNat?.map fun n => (n, true)
      | [b, _] => b.toNat?.map fun n => (n, false)
      | _ => none) } }, "ok")
  | "jwks" :: sidx :: rest =>
    match sidx.toNat? with
    | none => (st, "badslot")
    | some si =>
      match rest with
      | "load" :: doc :: _ =>
        let cur := (st.sets.get? si).getD {}
        let parsed : Option Json := if doc = "none" then none else dec doc
        let s' := jwksProcess (keyOracle st) cur parsed
        ({ st with sets := st.sets.insert si s' }, s!"err={b01 s'.error} emsg={b01 s'.msg} n={s'.count}")
      | _ =>
        match st.sets.get? si with
        | none => (st, "noset")
        | some ks =>
          let put (k : KeySet) : St := { st with sets := st.sets.insert si k }
          match rest with
          | ["item", i] => (st, showItem (ks.get (i.toNat?.getD 0)))
          | ["count"] => (st, toString ks.count)
          | ["free", i] => let (k, r) := ks.free (i.toNat?.getD 0); (put k, toString r)
          | ["freebad"] => let (k, r) := ks.freeBad; (put k, toString r)
          | ["freeall"] => let (k, r) := ks.freeAll; (put k, toString r)
          | ["errany"] => (st, toString ks.errorAny)
          | ["err"] => (st, s!"err={b01 ks.error} emsg={b01 ks.msg}")
          | ["errclr"] => (put ks.errorClear, "ok")
          | ["find", h] =>
            match unhexB h with
            | some kid => (st, match ks.findByKid kid with | some i => toString i | none => "-1")
            | none => (st, "badop")
          | ["del"] => ({ st with sets := st.sets.erase si }, "ok")
          | _ => (st, "badop")
  | "bl" :: c :: rest =>
    match c.toNat? with
    | none => (st, "badslot")
    | some bi =>
      match rest with
      | ["new"] => ({ st with bls := st.bls.insert bi { bl := Builder.new } }, "ok")
      | _ =>
        match st.bls.get? bi with
        | none => (st, "nobl")
        | some slot =>
          let put (b : Builder) : St := { st with bls := st.bls.insert bi { slot with bl := b } }
          let ls := loadStrictFn st
          let needStrict (r : SetReq) : Option String :=
            match r.type, r.jsonVal with
            | .json, some t => if st.orc.loadStrict.contains (hex t) then none else some s!"need loadstrict {hex t}"
            | _, _ => none
          match rest with
          | ["free"] => ({ st with bls := st.bls.erase bi }, "ok")
          | "setkey" :: a :: more =>
            let alg := (a.toNat?.bind Alg.ofOrd).getD .inval
            let key := match more with | [s, i] => st.keys.get? s!"{s}:{i}" | _ => none
            let (b, rc) := slot.bl.setkey alg key
            (put b, s!"rc={rc}")
          | ["iat", e] => let (b, rc) := slot.bl.enableIat (e.toInt?.getD 0); (put b, s!"rc={rc}")
          | ["offset", cl, secs] =>
            match secs.toInt? with
            | some s => let (b, rc) := slot.bl.timeOffset (claimOf cl) s; (put b, s!"rc={rc}")
            | none => (st, "badop")
          | ["setcb", prog] =>
            if prog = "@ctx" then
              if slot.prog = "" then
                let (b2, rc) := slot.bl.setcbCtx
                ({ st with bls := st.bls.insert bi { slot with bl := b2 } }, s!"rc={rc}")
              else ({ st with bls := st.bls.insert bi { slot with prog := slot.prog.replace "ctxis0" "ctxis1" } }, "rc=0")
            else if prog = "-" then ({ st with bls := st.bls.insert bi { bl := (slot.bl.setcb none).1, prog := "" } }, "rc=0")
            else ({ st with bls := st.bls.insert bi { bl := slot.bl, prog := prog } }, "rc=0")
          | [op, ty, nm, v, rp] =>
            if op = "hset" || op = "cset" then
              match mkSetReq ty nm v rp with
              | some r =>
                match needStrict r with
                | some n => (st, n)
                | none =>
                  let (b, e) := if op = "hset" then slot.bl.headerSet ls r else slot.bl.claimSet ls r
                  (put b, s!"rc={e.code} verr={e.code}")
              | none => (st, "badop")
            else (st, "badop")
          | [op, ty, nm] =>
            if op = "hget" || op = "cget" then
              match unhex nm with
              | some n => (st, showGet (vtypeOf ty) (getter (if op = "hget" then slot.bl.cfg.headers else slot.bl.cfg.payload) (vtypeOf ty) n))
              | none => (st, "badop")
            else (st, "badop")
          | [op, nm] =>
            if op = "hdel" || op = "cdel" then
              match unhex nm with
              | some n => (put (if op = "hdel" then (slot.bl.headerDel n).1 else (slot.bl.claimDel n).1), "rc=0")
              | none => (st, "badop")
            else (st, "badop")
          | ["gen"] =>
            let slot' : BlSlot := if slot.prog = "" then slot
              else { slot with bl := (slot.bl.setcb (some (progBuilderCb st slot.prog))).1 }
            let env := mkEnv st
            let r := genAfterCb slot'.bl.cfg st.now
            -- callback-side needs (JSON text handed to set calls)
            let cbNeeds : List String := if slot.prog = "" then [] else
              let alg0 := if slot.bl.cfg.alg = .none then (match slot.bl.cfg.key with | some k => k.alg | none => .none) else slot.bl.cfg.alg
              (runProg st slot.prog slot.bl.cfg.headers (baseClaims slot.bl.cfg st.now) .none { key := slot.bl.cfg.key, alg := alg0 }).needs
            if !cbNeeds.isEmpty then (st, " | ".intercalate cbNeeds)
            else
              let cfg := r.2.2.2
              let alg := if cfg.alg = .none then (match cfg.key with | some k => k.alg | none => .none) else cfg.alg
              -- which dumps will be asked for?
              let dumpNeeds : List String :=
                if r.1 ≠ 0 then [] else
                match setkeyCheck .builder alg cfg.key, headSetup r.2.1 alg with
                | none, .ok h => ([h, r.2.2.1].filter fun j => !st.orc.dump.contains (enc j)).map fun j => s!"need dump {enc j}"
                | _, _ => []
              if !dumpNeeds.isEmpty then (st, " | ".intercalate dumpNeeds)
              else
                let (_, _, tr) := generateCore env slot'.bl.cfg
                let msg : Bytes := match headSetup r.2.1 alg with
                  | .ok h => uriEncode (env.jc.dump h) ++ [46] ++ uriEncode (env.jc.dump r.2.2.1)
                  | .error _ => []
                let macNeeds := tr.filterMap fun c =>
                  match c with
                  | .hmac a k => if st.orc.hmac.contains (hmacKey a k.oct msg) then none else some s!"need hmac {a.ord} {hex k.oct} {hex msg}"
                  | _ => none
                if !macNeeds.isEmpty then (st, " | ".intercalate macNeeds)
                else
                  let (b, tok) := generate env slot'.bl
                  let obs := if slot.prog = "" then "" else
                    let alg0 := if slot.bl.cfg.alg = .none then (match slot.bl.cfg.key with | some k => k.alg | none => .none) else slot.bl.cfg.alg
                    (runProg st slot.prog slot.bl.cfg.headers (baseClaims slot.bl.cfg st.now) .none { key := slot.bl.cfg.key, alg := alg0 }).obs
                  let sigby := tr.filterMap fun c => match c with | .pkSign a k => some s!" sigby={k.id}:{a.ord}" | _ => none
                  ({ st with lastTok := tok, bls := st.bls.insert bi { slot with bl := { b with cfg := slot.bl.cfg } } },
                   s!"tok={hexOpt tok} err={b01 b.error} msg={b01 b.msg.isSome} cb=[{obs}]" ++ String.join sigby)
          | ["err"] => (st, s!"err={b01 slot.bl.error} msg={b01 slot.bl.msg.isSome}")
          | ["errclr"] => (put slot.bl.errorClear, "ok")
          | _ => (st, "badop")
  | _ => (st, "badop")

partial def loop (h : IO.FS.Stream) (out : IO.FS.Stream) (st : St) : IO Unit := do
  let line ← h.getLine
  if line.isEmpty then return ()
  if line.startsWith "#" then
    loop h out st
  else
    let (st', o) := step st line
    out.putStrLn o
    loop h out st'

end Driver

def main : IO Unit := do
  let stdin ← IO.getStdin
  let stdout ← IO.getStdout
  Driver.loop stdin stdout {}
