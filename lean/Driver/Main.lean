import Jwt
/-! Line-protocol driver: same operation lines as harness/exec.c, answered by the model. -/
open Jwt Jwt.Base64 Jwt.Generated

namespace Driver

def hexDigit (c : Char) : Option Nat :=
  if '0' ≤ c ∧ c ≤ '9' then some (c.toNat - 48)
  else if 'a' ≤ c ∧ c ≤ 'f' then some (c.toNat - 87)
  else if 'A' ≤ c ∧ c ≤ 'F' then some (c.toNat - 55)
  else none

def unhexList : List Char → Option Bytes
  | [] => some []
  | [_] => none
  | a :: b :: rest => do
    let x ← hexDigit a
    let y ← hexDigit b
    let r ← unhexList rest
    pure (UInt8.ofNat (x * 16 + y) :: r)

/-- `some none` = the NULL pointer -/
def unhex (s : String) : Option (Option Bytes) :=
  if s = "NULL" then some none
  else if s = "-" then some (some [])
  else (unhexList s.toList).map some

def hexChar (n : Nat) : Char := if n < 10 then Char.ofNat (48 + n) else Char.ofNat (87 + n)

def hex (b : Bytes) : String :=
  if b.isEmpty then "-"
  else String.ofList (b.flatMap fun x => [hexChar (x.toNat / 16), hexChar (x.toNat % 16)])

def hexOpt : Option Bytes → String
  | none => "NULL"
  | some b => hex b

structure St where
  dummy : Nat := 0

def step (st : St) (line : String) : St × String :=
  let toks := (line.trimAscii.toString.splitOn " ").filter (· ≠ "")
  match toks with
  | [] => (st, "")
  | ["b64enc", h] =>
    match unhex h with
    | some (some b) => let o := base64Encode b; (st, s!"{hex o} {o.length} nul=1")
    | _ => (st, "badop")
  | ["b64dec", h] =>
    match unhex h with
    | some (some b) =>
      match base64Decode b (List.replicate (decodeOutSize b.length + 1) 0xAA) with
      | .oob => (st, "oob")
      | .reject => (st, "j=0 -")
      | .ok j out => (st, s!"j={j} {hex (out.take j)}")
    | _ => (st, "badop")
  | ["urienc", h] =>
    match unhex h with
    | some (some b) => (st, s!"{hex (uriEncode b)} ret={uriEncodeRet b}")
    | _ => (st, "badop")
  | ["uridec", h] =>
    match unhex h with
    | some (some b) =>
      -- The literal decoder works on a `List` buffer (`List.set` is linear, the loop quadratic):
      -- beyond 1 KiB the driver evaluates `decodeSpec`, which `Jwt.Props.C11.C11_decode_spec`
      -- proves equal to `uriDecode` on every input.
      (st, hexOpt (if b.length ≤ 1024 then uriDecode b else decodeSpec b))
    | _ => (st, "badop")
  | ["strcmp", a, b] =>
    match unhex a, unhex b with
    | some (some x), some (some y) => (st, if jwtStrcmp x y = 0 then "0" else "1")
    | _, _ => (st, "badop")
  | ["stralg", a] =>
    match unhex a with
    | some x => (st, toString (strAlg x).ord)
    | none => (st, "badop")
  | ["algstr", n] =>
    match n.toNat? with
    | some k => (st, hexOpt ((Alg.ofOrd k).bind algStr))
    | none => (st, "badop")
  | ["echo"] => (st, "echo")
  | _ => (st, "badop")

partial def loop (h : IO.FS.Stream) (out : IO.FS.Stream) (st : St) : IO Unit := do
  let line ← h.getLine
  if line.isEmpty then return ()
  if line.startsWith "#" then
    loop h out st
  else
    let (st', o) := step st line
    out.putStrLn o
    loop h out st'

end Driver

def main : IO Unit := do
  let stdin ← IO.getStdin
  let stdout ← IO.getStdout
  Driver.loop stdin stdout {}
