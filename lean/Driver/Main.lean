import Jwt
def main : IO Unit := IO.println "stub"
