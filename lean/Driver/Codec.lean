import Jwt
/-! Hex and JSON-tree (JENC) encodings used on the op lines; driver-only (no theorems depend on this). -/
open Jwt
namespace Driver

def hexDigit (c : Char) : Option Nat :=
  if '0' ≤ c ∧ c ≤ '9' then some (c.toNat - 48)
  else if 'a' ≤ c ∧ c ≤ 'f' then some (c.toNat - 87)
  else if 'A' ≤ c ∧ c ≤ 'F' then some (c.toNat - 55)
  else none

def unhexList (cs : List Char) : Option Bytes :=
  let rec go : List Char → List UInt8 → Option Bytes
    | [], acc => some acc.reverse
    | [_], _ => none
    | a :: b :: rest, acc =>
      match hexDigit a, hexDigit b with
      | some x, some y => go rest (UInt8.ofNat (x * 16 + y) :: acc)
      | _, _ => none
  go cs []

/-- `some none` = the NULL pointer -/
def unhex (s : String) : Option (Option Bytes) :=
  if s = "NULL" then some none
  else if s = "-" then some (some [])
  else (unhexList s.toList).map some

def unhexB (s : String) : Option Bytes := (unhex s).bind id

def hexChar (n : Nat) : Char := if n < 10 then Char.ofNat (48 + n) else Char.ofNat (87 + n)

def hex (b : Bytes) : String :=
  if b.isEmpty then "-"
  else String.ofList (b.foldr (fun x acc => hexChar (x.toNat / 16) :: hexChar (x.toNat % 16) :: acc) [])

/-- a hexadecimal numeral (any length, `0` = zero) -/
def hexNat (s : String) : Option Nat :=
  s.toList.foldl (fun acc c => match acc, hexDigit c with
    | some a, some d => some (a * 16 + d)
    | _, _ => none) (some 0)

/-- octets given as numbers -/
def hexOctets (l : List Nat) : String := hex (l.map UInt8.ofNat)

def natHex (n : Nat) : String :=
  if n = 0 then "0" else String.ofList ((Nat.toDigits 16 n))

def hexOpt : Option Bytes → String
  | none => "NULL"
  | some b => hex b

def bytesLt : Bytes → Bytes → Bool
  | [], [] => false
  | [], _ => true
  | _, [] => false
  | a :: as, b :: bs => a < b || (a == b && bytesLt as bs)

/-- canonical JENC: n t f i<int> r<hex> s<hex> a(..,..) o(<hexkey>=<v>,..) with keys sorted -/
partial def enc : Json → String
  | .null => "n"
  | .bool true => "t"
  | .bool false => "f"
  | .int i => s!"i{i}"
  | .real r => s!"r{hex (strBytes r)}"
  | .str s => s!"s{hex s}"
  | .arr xs => "a(" ++ ",".intercalate (xs.map enc) ++ ")"
  | .obj kvs =>
    let sorted := kvs.toArray.qsort (fun a b => bytesLt a.1 b.1) |>.toList
    "o(" ++ ",".intercalate (sorted.map fun (k, v) => s!"{hex k}={enc v}") ++ ")"

/-- parse one JENC value from the front of the character list -/
partial def decAt : List Char → Option (Json × List Char)
  | 'n' :: r => some (.null, r)
  | 't' :: r => some (.bool true, r)
  | 'f' :: r => some (.bool false, r)
  | 'i' :: r =>
    let tok := r.takeWhile (fun c => c.isDigit || c == '-')
    (String.ofList tok).toInt?.map fun i => (.int i, r.drop tok.length)
  | 'r' :: r =>
    let tok := r.takeWhile (fun c => c.isAlphanum || c == '-')
    (unhexB (String.ofList tok)).map fun b => (.real (String.fromUTF8! (ByteArray.mk b.toArray)), r.drop tok.length)
  | 's' :: r =>
    let tok := r.takeWhile (fun c => c.isAlphanum || c == '-')
    (unhexB (String.ofList tok)).map fun b => (.str b, r.drop tok.length)
  | 'a' :: '(' :: r =>
    let rec elems (r : List Char) (acc : List Json) : Option (List Json × List Char) :=
      match r with
      | ')' :: r' => some (acc.reverse, r')
      | ',' :: r' => elems r' acc
      | _ => match decAt r with
        | some (v, r') => elems r' (v :: acc)
        | none => none
    (elems r []).map fun (xs, r') => (.arr xs, r')
  | 'o' :: '(' :: r =>
    let rec members (r : List Char) (acc : List (Bytes × Json)) : Option (List (Bytes × Json) × List Char) :=
      match r with
      | ')' :: r' => some (acc.reverse, r')
      | ',' :: r' => members r' acc
      | _ =>
        let ktok := r.takeWhile (· != '=')
        match unhexB (String.ofList ktok), r.drop ktok.length with
        | some k, '=' :: r' =>
          match decAt r' with
          | some (v, r'') => members r'' ((k, v) :: acc)
          | none => none
        | _, _ => none
    (members r []).map fun (kvs, r') => (.obj kvs, r')
  | _ => none

def dec (s : String) : Option Json :=
  match decAt s.toList with
  | some (j, []) => some j
  | _ => none

end Driver
