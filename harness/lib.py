"""Common machinery for the property checks: build, tie, correspondence run, verdict, evidence.

Everything is driven from /verif/check.  Nothing here is specific to one property.
"""
import concurrent.futures
import fcntl
import hashlib
import json
import os
import random
import re
import shutil
import subprocess
import sys
import tempfile
import time

VERIF = os.path.dirname(os.path.dirname(os.path.abspath(__file__)))
LEAN = os.environ.get("VERIF_LEAN_DIR") or os.path.join(VERIF, "lean")
EVID = os.environ.get("VERIF_EVIDENCE_DIR") or os.path.join(VERIF, "evidence")
REPO = os.environ.get("VERIF_REPO", "/repo")
NCPU = min(16, os.cpu_count() or 4)

SAN_FLAGS = "-g -O1 -fno-omit-frame-pointer -fsanitize=address,undefined -fno-sanitize-recover=undefined"
FORBIDDEN = r"sorry|admit|^\s*axiom |native_decide|bv_decide|implemented_by|unsafe |maxHeartbeats 0|ofReduceBool"
ALLOWED_AXIOMS = {"propext", "Classical.choice", "Quot.sound"}


def log(*a):
    print(*a, file=sys.stderr, flush=True)


def hx(b):
    if b is None:
        return "NULL"
    if len(b) == 0:
        return "-"
    return bytes(b).hex()


def unhx(s):
    if s == "NULL":
        return None
    if s == "-":
        return b""
    return bytes.fromhex(s)


class Ctx:
    """One check run: scratch dir, builds, timers, results."""

    def __init__(self, prop, tier, seed):
        self.prop = prop
        self.tier = tier
        self.seed = seed
        self.rng = random.Random(seed)
        self.t0 = time.time()
        self.scratch = tempfile.mkdtemp(prefix="verif_%s_" % prop)
        self.build = os.path.join(self.scratch, "build")
        self.exec_path = None
        self.driver = os.path.join(LEAN, ".lake", "build", "bin", "jwt-driver")
        self.violations = []   # dicts: key, what, replay_lines / detail
        self.notes = []
        self.suites = []       # per-suite coverage dicts
        self.proof = {}
        self.tie = {}

    def cleanup(self):
        shutil.rmtree(self.scratch, ignore_errors=True)

    # ---------------- build of the repository (ASan+UBSan) and the executor ----------------
    def build_repo(self, tsan=False):
        flags = SAN_FLAGS if not tsan else "-g -O1 -fno-omit-frame-pointer -fsanitize=thread"
        b = self.build if not tsan else self.build + "_tsan"
        t = time.time()
        r = subprocess.run(["cmake", "-S", REPO, "-B", b, "-G", "Ninja", "-DWITH_TESTS=OFF", "-DWITH_GNUTLS=ON",
                            "-DCMAKE_BUILD_TYPE=Debug", "-DCMAKE_C_FLAGS=" + flags],
                           capture_output=True, text=True)
        if r.returncode != 0:
            raise RuntimeError("cmake configure failed:\n" + r.stdout[-2000:] + r.stderr[-2000:])
        r = subprocess.run(["ninja", "-C", b], capture_output=True, text=True)
        if r.returncode != 0:
            raise RuntimeError("repo build failed:\n" + r.stdout[-3000:] + r.stderr[-2000:])
        exe = os.path.join(b, "exec")
        cmd = ["gcc"] + flags.split() + ["-DHAVE_OPENSSL", "-DHAVE_GNUTLS", "-DJWT_STATIC_DEFINE",
               "-I" + os.path.join(REPO, "include"), "-I" + b, "-I" + os.path.join(REPO, "libjwt"),
               os.path.join(VERIF, "harness", "exec.c"), os.path.join(b, "libjwt.a"),
               "-lssl", "-lcrypto", "-ljansson", "-lgnutls", "-rdynamic", "-o", exe]
        r = subprocess.run(cmd, capture_output=True, text=True)
        if r.returncode != 0:
            raise RuntimeError("executor build failed (the working tree no longer offers the interface the harness uses):\n" + r.stderr[-3000:])
        if not tsan:
            self.exec_path = exe
        self.notes.append("repo+executor build %s: %.1fs" % ("tsan" if tsan else "asan", time.time() - t))
        return exe

    # ---------------- tie 1: regenerate facts from the source ----------------
    def regenerate(self):
        r = subprocess.run([sys.executable, os.path.join(VERIF, "tie", "extract.py"), REPO, self.build,
                            os.path.join(LEAN, "Jwt", "Generated")], capture_output=True, text=True)
        try:
            self.tie = json.loads(r.stdout)
        except Exception:
            self.tie = {"errors": [{"generator": "extract.py", "error": (r.stdout + r.stderr)[-500:]}], "files": {}}
        return self.tie

    # ---------------- Lean: build model+driver, build proofs, audit ----------------
    def _lake(self, targets, timeout=1800):
        lock = open(os.path.join(LEAN, ".lake.lock"), "w")
        fcntl.flock(lock, fcntl.LOCK_EX)
        try:
            r = subprocess.run(["lake", "build"] + targets, cwd=LEAN, capture_output=True, text=True, timeout=timeout)
        finally:
            fcntl.flock(lock, fcntl.LOCK_UN)
            lock.close()
        return r

    def build_driver(self):
        t = time.time()
        r = self._lake(["jwt-driver"])
        self.notes.append("lake build jwt-driver: %.1fs" % (time.time() - t))
        if r.returncode != 0:
            return False, (r.stdout + r.stderr)[-4000:]
        return True, ""

    def build_proofs(self, modules):
        t = time.time()
        r = self._lake(modules)
        self.notes.append("lake build %s: %.1fs" % (" ".join(modules), time.time() - t))
        out = r.stdout + r.stderr
        if r.returncode != 0:
            errs = re.findall(r"error: (\S+\.lean):(\d+):\d+: (.*)", out)
            return False, out[-6000:], errs
        return True, out, []

    def prop_theorems(self, files):
        """names of theorems and count of examples in the given Lean files (comments stripped)"""
        names, examples = [], 0
        for f in files:
            src = open(os.path.join(LEAN, f)).read()
            src = re.sub(r"/-.*?-/", "", src, flags=re.S)
            src = re.sub(r"--.*", "", src)
            ns = []
            for line in src.splitlines():
                m = re.match(r"\s*namespace\s+(\S+)", line)
                if m:
                    ns.append(m.group(1))
                m = re.match(r"\s*end\s+(\S+)", line)
                if m and ns and ns[-1] == m.group(1):
                    ns.pop()
                m = re.match(r"\s*(?:private\s+)?theorem\s+(\S+)", line)
                if m:
                    names.append(".".join(ns + [m.group(1)]))
                if re.match(r"\s*example\b", line):
                    examples += 1
        return names, examples

    def audit(self, modules, files):
        """#print axioms for every theorem of the property files; forbidden-token grep over lean/"""
        names, examples = self.prop_theorems(files)
        os.makedirs(os.path.join(LEAN, ".lake", "audit"), exist_ok=True)
        path = os.path.join(LEAN, ".lake", "audit", "%s_%d.lean" % (self.prop, os.getpid()))
        with open(path, "w") as f:
            for m in modules:
                f.write("import %s\n" % m)
            for n in names:
                f.write("#print axioms %s\n" % n)
        r = subprocess.run(["lake", "env", "lean", path], cwd=LEAN, capture_output=True, text=True)
        os.unlink(path)
        out = r.stdout + r.stderr
        axioms, bad = set(), []
        seen = 0
        for m in re.finditer(r"'([^']+)' (does not depend on any axioms|depends on axioms: \[([^\]]*)\])", out):
            seen += 1
            if m.group(3):
                ax = {a.strip() for a in m.group(3).replace("\n", " ").split(",")}
                axioms |= ax
                if not ax <= ALLOWED_AXIOMS:
                    bad.append((m.group(1), sorted(ax - ALLOWED_AXIOMS)))
        if r.returncode != 0 or seen != len(names):
            bad.append(("audit", ["#print axioms ran for %d of %d theorems: %s" % (seen, len(names), out[-800:])]))
        # forbidden tokens anywhere in the Lean sources (comments discarded)
        hits = []
        for root, _, fs in os.walk(LEAN):
            if ".lake" in root:
                continue
            for fn in fs:
                if not fn.endswith(".lean"):
                    continue
                src = open(os.path.join(root, fn)).read()
                src = re.sub(r"/-.*?-/", "", src, flags=re.S)
                src = re.sub(r"--.*", "", src)
                for i, line in enumerate(src.splitlines()):
                    if re.search(FORBIDDEN, line):
                        hits.append("%s: %s" % (os.path.relpath(os.path.join(root, fn), LEAN), line.strip()[:80]))
        self.proof = {"theorems": names, "examples": examples, "axioms": sorted(axioms), "axiom_violations": bad,
                      "forbidden_hits": hits}
        return self.proof

    def leanchecker(self, modules):
        res = []
        for m in modules:
            r = subprocess.run(["lake", "env", "leanchecker", m], cwd=LEAN, capture_output=True, text=True)
            res.append((m, r.returncode, (r.stdout + r.stderr)[-300:]))
        return res

    # ---------------- running the two sides ----------------
    def _run(self, argv, lines, env=None, timeout=None):
        timeout = timeout or int(os.environ.get("VERIF_EXEC_TIMEOUT", "600"))
        inp = os.path.join(self.scratch, "in_%d_%d.txt" % (os.getpid(), random.getrandbits(32)))
        with open(inp, "w") as f:
            f.write("\n".join(lines) + "\n")
        e = dict(os.environ)
        e.update({"ASAN_OPTIONS": "detect_leaks=1:exitcode=86:abort_on_error=0:allocator_may_return_null=1",
                  "UBSAN_OPTIONS": "halt_on_error=1:exitcode=87:print_stacktrace=1",
                  "LSAN_OPTIONS": "exitcode=88", "JWT_CRYPTO": ""})
        e.pop("JWT_CRYPTO")
        if env:
            e.update(env)
        with open(inp) as fin:
            p = subprocess.Popen(argv, stdin=fin, stdout=subprocess.PIPE, stderr=subprocess.PIPE, env=e)
            try:
                out, err = p.communicate(timeout=timeout)
                rc = p.returncode
            except subprocess.TimeoutExpired:
                # an operation that does not return is a result: everything printed so far is kept
                p.kill()
                out, err = p.communicate()
                rc = -9
                err += b"\n<<harness: the process did not finish within %d s and was killed: the operation after the last answered line does not return>>" % timeout
        os.unlink(inp)
        return rc, out.decode("latin-1").split("\n"), err.decode("latin-1")

    def run_exec(self, lines, env=None, exe=None):
        rc, out, err = self._run([exe or self.exec_path], lines, env)
        if out and out[-1] == "":
            out.pop()
        return rc, out, err

    def run_driver(self, lines):
        rc, out, err = self._run([self.driver], lines)
        if out and out[-1] == "":
            out.pop()
        if rc != 0 or len(out) != len(lines):
            raise RuntimeError("driver failed rc=%s produced %d of %d lines: %s" % (rc, len(out), len(lines), err[-500:]))
        return out

    def run_both_stateless(self, lines, dlines=None, env=None):
        """lines are independent of each other: split into chunks and run in parallel"""
        dlines = dlines or lines
        n = len(lines)
        k = max(1, min(NCPU, n // 2000))
        step = (n + k - 1) // k
        chunks = [(i, min(n, i + step)) for i in range(0, n, step)]
        with concurrent.futures.ThreadPoolExecutor(max_workers=k) as ex:
            fe = [ex.submit(self.run_exec, lines[a:b], env) for a, b in chunks]
            fd = [ex.submit(self.run_driver, dlines[a:b]) for a, b in chunks]
            eo, do, crashes = [], [], []
            for (a, b), f in zip(chunks, fe):
                rc, out, err = f.result()
                if rc != 0 or len(out) != b - a:
                    crashes.append((a + len(out), rc, err))
                    out = out + ["<crash>"] * (b - a - len(out))
                eo.extend(out[:b - a])
            for f in fd:
                do.extend(f.result())
        return eo, do, crashes

    # ---------------- verdict ----------------
    def violation(self, key, what, replay_lines=None, detail=None, no_input=False):
        self.violations.append({"key": key, "what": what, "replay": replay_lines or [], "detail": detail or "",
                                "no_input": no_input})

    def add_suite(self, name, **kw):
        kw["suite"] = name
        self.suites.append(kw)

    def finish(self, level_text, assumptions, trusted_base, checker_cmd):
        wall = time.time() - self.t0
        known = []
        kf = os.path.join(VERIF, "known-findings.txt")
        if os.path.exists(kf):
            for line in open(kf):
                m = re.match(r"known:\s+property=(\S+)\s+key=(\S+)\s+(.*)", line)
                if m and m.group(1) == self.prop:
                    known.append((m.group(2), m.group(3).strip()))
        real, printed_known = [], set()
        for v in self.violations:
            k = [kk for kk in known if re.fullmatch(kk[0], v["key"])]
            if k:
                if k[0][0] not in printed_known:
                    print("KNOWN-FINDING: property=%s %s" % (self.prop, k[0][1]))
                    printed_known.add(k[0][0])
            else:
                real.append(v)
        # evidence
        names = self.proof.get("theorems", [])
        examples = self.proof.get("examples", 0)
        obligations = len(names) + examples + self.proof.get("generated_fact_theorems", 0)
        proof_ok = self.proof.get("ok", False)
        evals = sum(s.get("evaluations", 0) for s in self.suites)
        distinct = sum(s.get("distinct_nontrivial", 0) for s in self.suites)
        samples = []
        for s in self.suites:
            for x in s.get("samples", [])[:4]:
                samples.append({"suite": s["suite"], "case": x})
        for n in names[:6]:
            samples.append({"obligation": n})
        ev = {
            "property_id": self.prop, "tier": self.tier, "seed": self.seed, "level": "proof",
            "coverage": {
                "obligations": max(obligations, 1),
                "discharged": max(obligations, 1) if proof_ok else 0,
                "checker_cmd": checker_cmd,
                "trusted_base": trusted_base + ["axioms used by the property theorems: " + ", ".join(self.proof.get("axioms", []) or ["none"])],
                "theorems": names, "examples": examples,
                "evaluations": evals, "distinct_nontrivial": distinct,
                "traces_validated_against_impl": evals,
                "rule": "; ".join("%s: %s" % (s["suite"], s.get("rule", "")) for s in self.suites),
                "exhaustive": all(s.get("exhaustive", False) for s in self.suites) if self.suites else False,
                "suites": self.suites, "samples": samples,
                "tie": self.tie, "explanation": level_text, "notes": self.notes,
                "repo": REPO,
            },
            "assumptions": assumptions, "wall_s": round(wall, 2), "violations": len(real),
        }
        os.makedirs(EVID, exist_ok=True)
        with open(os.path.join(EVID, self.prop + ".json"), "w") as f:
            json.dump(ev, f, indent=1, default=str)
        rc = 0
        if [v for v in real if not v["no_input"]]:
            # a concrete failing input exists: report those, not the broken-correspondence notices around them
            real = [v for v in real if not v["no_input"]]
        real.sort(key=lambda v: (v["no_input"], sum(len(l) for l in v["replay"])))
        if real:
            os.makedirs(os.path.join(EVID, "replay"), exist_ok=True)
            for i, v in enumerate(real[:5]):
                path = os.path.join(EVID, "replay", "%s_%d.txt" % (self.prop, i))
                with open(path, "w") as f:
                    f.write("# property=%s seed=%d tier=%s repo=%s\n# %s\n# key=%s\n" % (self.prop, self.seed, self.tier, REPO, v["what"], v["key"]))
                    if v["detail"]:
                        for dl in str(v["detail"]).splitlines():
                            f.write("# " + dl + "\n")
                    f.write("# replay: ./check %s --replay %s\n" % (self.prop, path))
                    for l in v["replay"]:
                        f.write(l + "\n")
                tail = " no-failing-input-found" if v["no_input"] else ""
                print("VIOLATION property=%s replay=%s%s" % (self.prop, path, tail))
                log("  -> " + v["what"])
            rc = 1
        log("[%s] %s tier=%s seed=%d: %d evaluations, %d theorems, %d violation(s), %.1fs" %
            (self.prop, "FAIL" if rc else "ok", self.tier, self.seed, evals, len(names), len(real), wall))
        return rc


def shrink_lines(lines, still_fails, keep_prefix=0):
    """delta-debug a list of op lines (keeping the first keep_prefix lines)"""
    pre, body = lines[:keep_prefix], lines[keep_prefix:]
    n = 2
    while len(body) >= 2:
        step = max(1, len(body) // n)
        reduced = False
        for i in range(0, len(body), step):
            cand = body[:i] + body[i + step:]
            if cand and still_fails(pre + cand):
                body = cand
                n = max(n - 1, 2)
                reduced = True
                break
        if not reduced:
            if step == 1:
                break
            n = min(n * 2, len(body))
    return pre + body
