"""Independent JSON oracle shaped like jansson 2.14 as libjwt uses it.

loads(b, reject_dup) ~ json_loads(text, 0 | JSON_REJECT_DUPLICATES, NULL): object/array only, strict UTF-8,
no NUL escapes, 64-bit integers, finite reals, no trailing garbage.  dumps(t) ~ JSON_SORT_KEYS|JSON_COMPACT.
Trees: dict (insertion ordered), list, str, bool, None, int, float.
JENC is the tree encoding used on the driver's op lines.
"""
import json
import math

INT_MIN, INT_MAX = -(1 << 63), (1 << 63) - 1
MAX_DEPTH = 2048


class _Reject(Exception):
    pass


def _no_const(_):
    raise _Reject()


def _check(t, depth=0):
    if depth > MAX_DEPTH:
        raise _Reject()
    if isinstance(t, bool) or t is None:
        return
    if isinstance(t, int):
        if not INT_MIN <= t <= INT_MAX:
            raise _Reject()
    elif isinstance(t, float):
        if math.isinf(t) or math.isnan(t):
            raise _Reject()
    elif isinstance(t, str):
        if "\x00" in t:
            raise _Reject()
        try:
            t.encode("utf-8")
        except UnicodeEncodeError:
            raise _Reject()
    elif isinstance(t, list):
        for x in t:
            _check(x, depth + 1)
    elif isinstance(t, dict):
        for k, v in t.items():
            _check(k, depth + 1)
            _check(v, depth + 1)


def loads(b, reject_dup=False, decode_any=False):
    """returns (True, tree) or (False, None)"""
    if b is None:
        return False, None
    try:
        s = bytes(b).decode("utf-8")
    except UnicodeDecodeError:
        return False, None

    def hook(pairs):
        d = {}
        for k, v in pairs:
            if reject_dup and k in d:
                raise _Reject()
            d[k] = v
        return d
    try:
        t = json.loads(s, object_pairs_hook=hook, parse_constant=_no_const)
        _check(t)
    except (_Reject, ValueError, RecursionError):
        return False, None
    if not decode_any and not isinstance(t, (dict, list)):
        return False, None
    return True, t


def real_repr(x):
    r = "%.17g" % x
    if "." not in r and "e" not in r:
        r += ".0"
    # jansson strips the '+' and leading zeros of the exponent
    if "e" in r:
        m, e = r.split("e")
        sign = "-" if e.startswith("-") else ""
        e = e.lstrip("+-").lstrip("0") or "0"
        r = m + "e" + sign + e
    return r


def _esc(s):
    out = ['"']
    for ch in s:
        c = ord(ch)
        if ch == '"':
            out.append('\\"')
        elif ch == "\\":
            out.append("\\\\")
        elif ch == "\b":
            out.append("\\b")
        elif ch == "\f":
            out.append("\\f")
        elif ch == "\n":
            out.append("\\n")
        elif ch == "\r":
            out.append("\\r")
        elif ch == "\t":
            out.append("\\t")
        elif c < 0x20:
            out.append("\\u%04X" % c)
        else:
            out.append(ch)
    out.append('"')
    return "".join(out)


def dumps(t):
    """bytes of json_dumps(t, JSON_SORT_KEYS | JSON_COMPACT)"""
    def go(t):
        if t is None:
            return "null"
        if t is True:
            return "true"
        if t is False:
            return "false"
        if isinstance(t, int):
            return str(t)
        if isinstance(t, float):
            return real_repr(t)
        if isinstance(t, str):
            return _esc(t)
        if isinstance(t, list):
            return "[" + ",".join(go(x) for x in t) + "]"
        if isinstance(t, dict):
            items = sorted(t.items(), key=lambda kv: kv[0].encode("utf-8"))
            return "{" + ",".join(_esc(k) + ":" + go(v) for k, v in items) + "}"
        raise TypeError(t)
    return go(t).encode("utf-8")


def _hx(b):
    return b.hex() if b else "-"


def jenc(t):
    if t is None:
        return "n"
    if t is True:
        return "t"
    if t is False:
        return "f"
    if isinstance(t, int):
        return "i%d" % t
    if isinstance(t, float):
        return "r" + _hx(real_repr(t).encode())
    if isinstance(t, str):
        return "s" + _hx(t.encode("utf-8"))
    if isinstance(t, list):
        return "a(" + ",".join(jenc(x) for x in t) + ")"
    if isinstance(t, dict):
        items = sorted(t.items(), key=lambda kv: kv[0].encode("utf-8"))
        return "o(" + ",".join(_hx(k.encode("utf-8")) + "=" + jenc(v) for k, v in items) + ")"
    raise TypeError(t)


def jenc_of_text(b, decode_any=True):
    ok, t = loads(b, decode_any=decode_any)
    return jenc(t) if ok else "unparsable"
