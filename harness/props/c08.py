"""C08 -- JWK import preserves the key and its metadata."""
import keys as K
import suites as S
from props import _family as F

PROOF_MODULES = ['Jwt.Props.C08']
PROP_MODULES = ['Jwt.Props.C08']
PROP_FILES = ['Jwt/Props/C08.lean', 'Jwt/Lemmas/PipelineJwk.lean']
GENERATED_FACT_THEOREMS = 3
CHECKER_CMD = "cd lean && lake build Jwt.Props.C08 && lake env lean <generated #print axioms file>"
LEVEL_TEXT = ('Lean theorems: oct import = base64url-decoding of k (bytes, 8*len bits, private, no error) via the C11 round trip; alg/kid/use as functions of the members; frame theorem: setting any member outside the 17 names the library reads, to any JSON value, leaves the imported item unchanged (all key types); C08_param_map over the generated member-to-parameter table of openssl/jwk-parse.c (n,e,d,p,q,dp,dq,qi / x,y,d / x,d reach the parameters RFC 7518 assigns them, x and y the affine coordinates in that order). Numeric identity of RSA/EC/OKP material goes through EVP_PKEY_fromdata/PEM and is sampled: fresh keys of every type, private and public, minimal and zero-padded EC integers, optional and foreign members; imported PEM compared through an independent OpenSSL caller (EVP_PKEY_eq + cross sign/verify).')
ASSUMPTIONS = F.COMMON_ASSUME + ['PARTIAL: component-wise identity of asymmetric key material is sampled (provider code), not proved']
TRUSTED_BASE = F.COMMON_TRUSTED
replay = F.replay


def run(ctx, model_ok, deep=False):
    F.run_suites(ctx, model_ok, deep, [
        ("jwk-import", S.jwk_import_suite, S.falsify_jwk_import,
         "RSA 2048 (+3072/4096 thorough), RSA-PSS, P-256/384/521, secp256k1, Ed25519, Ed448, oct 1..512 bytes; private/public x alg attribute x padded/minimal x random kid/use/key_ops x foreign and unknown members; item fields vs what the JWK states; PEM vs the generating key", False),
    ])
