"""C12 -- crypto providers are interchangeable: switch theorems over the generated provider table,
provider-parametricity of verify/generate, cross-provider suites."""
import keys as K
import suites as S
import world as W
from lib import hx
from props import _family as F

PROOF_MODULES = ["Jwt.Props.C12", "Jwt.Props.C05Ec"]
PROP_MODULES = ["Jwt.Props.C12", "Jwt.Props.C05Ec"]
PROP_FILES = ["Jwt/Props/C12.lean", "Jwt/Props/C05Ec.lean", "Jwt/Lemmas/EcFrame.lean"]
GENERATED_FACT_THEOREMS = 4
CHECKER_CMD = "cd lean && lake build Jwt.Props.C12 && lake env lean <generated #print axioms file>"
LEVEL_TEXT = ("Lean theorems over the generated jwt_ops_available table: set_crypto_ops(_t) succeeds iff the argument is exactly a compiled-in "
              "provider's name/id and otherwise leaves the current one untouched; JWT_CRYPTO handling; both ops tables parse JWKs with the same "
              "functions; verify and generate depend on the provider only through the primitives' answers (full equality of results when those "
              "agree). The ECDSA r||s framing of both glues is modelled literally over generated constants and proved equivalent: both frame a pair of integers as the same 2w octets, both read back exactly that form and nothing else (C05_frame, C05_unframe_frame, C01_ecdsa_exact_form), tied to the glue by running it on chosen integers through interposed primitives. That the OpenSSL and GnuTLS primitives compute the same functions is sampled: every (load, sign, verify) provider triple x key x "
              "algorithm, byte-identity of HS*/RS*/EdDSA tokens, mutated tokens under both providers against one independent oracle.")
ASSUMPTIONS = F.COMMON_ASSUME + ["PARTIAL: equivalence of the two crypto libraries is sampled, not proved",
                                 "ES256K is outside the common support matrix (the GnuTLS glue refuses it)"]
TRUSTED_BASE = F.COMMON_TRUSTED
replay = F.replay


def env_suite(ctx, model_ok):
    """JWT_CRYPTO at library initialisation: re-execute the executor per value"""
    vals = [None, b"", b"openssl", b"gnutls", b"OpenSSL", b"gnutls ", b"junk", b"gnutl", b"x" * 200,
            # the names are matched exactly: another spelling of the provider that is NOT the default selects nothing
            b"GnuTLS", b"GNUTLS", b"Gnutls", b"gnutlS", b" gnutls", b"gnutls\n", b"gnutlsx", b"gnutls,openssl", b"OPENSSL", b"gnutls" + b" " * 40, b"g" + b"n" * 31,
            b"gnutls" + b"x" * 255, b"gnutls" + b"x" * 256, b"gnutls" + b"x" * 257, b"gnutls" + b"s" * 512, b"gnutls" + b" " * 1024, b"gnutls" + b"x" * 65536]
    evals, bad, samples = 0, 0, []
    for v in vals:
        env = {} if v is None else {"JWT_CRYPTO": v.decode()}
        rc, eo, err = ctx.run_exec(["provget"], env=env if v is not None else {"JWT_CRYPTO_UNSET": "1"})
        if v is None:
            import os
            e2 = dict(os.environ)
            e2.pop("JWT_CRYPTO", None)
        want = v.decode() if v in (b"openssl", b"gnutls") else "openssl"
        want_line = "cur=%s id=%d" % (want, 1 + [b"openssl", b"gnutls"].index(want.encode()))
        got = eo[0] if eo else "<crash>"
        evals += 1
        samples.append({"JWT_CRYPTO": None if v is None else v.decode()[:20], "impl": got})
        if model_ok:
            do = ctx.run_driver(["provinit " + hx(v), "provget"])
            if do[1] != got:
                bad += 1
                ctx.violation("correspondence:env", "model and implementation disagree on JWT_CRYPTO=%r" % v, replay_lines=["provget"],
                              detail="impl: %s\nmodel: %s" % (got, do[1]), no_input=True)
        if got != want_line:
            bad += 1
            ctx.violation("falsifier:env", "JWT_CRYPTO=%r selected `%s`, expected `%s`" % (v, got, want_line), replay_lines=["# JWT_CRYPTO=%r" % v, "provget"])
    ctx.add_suite("jwt-crypto-env", evaluations=evals, distinct_nontrivial=len({s["impl"] for s in samples}) + 1,
                  rule="JWT_CRYPTO in {unset, empty, each provider name, case variants of both names, leading/trailing space, newline, suffix, list, junk, prefix, 32 and 200 bytes}: provider current after library init",
                  exhaustive=True, samples=samples[:4], disagreements=bad, falsified=bad)


def run(ctx, model_ok, deep=False):
    import ecframe
    ecframe.run(ctx, model_ok, deep)
    F.run_suites(ctx, model_ok, deep, [
        ("providers", S.providers_suite, S.falsify_providers,
         "switch: 16 names (exact, case, prefix, suffix, empty, unknown, 300 bytes) and 10 ids from each current provider; "
         "for keys loaded under each provider: every key x admissible alg generated under each provider (byte-identity for HS*/RS*/EdDSA) and verified under each provider", True),
        ("verify-sig-gnutls", lambda w, p, t, r: S.verify_sig(w, p, t, r, "gnutls"), S.falsify_accept,
         "C01 mutation set under GnuTLS against the same independent oracle as OpenSSL", False),
        ("verify-sig-openssl", lambda w, p, t, r: S.verify_sig(w, p, t, r, "openssl"), S.falsify_accept,
         "C01 mutation set under OpenSSL", False),
        ("key-lifecycle", S.key_lifecycle_suite, S.falsify_accept,
         "per key type and provider: one keyring slot loaded, used, freed and re-loaded 6 (quick) / 12 (thorough) times with two keys of the same type and size in turn (freed blocks handed out again at once); after every re-load both providers must reject the retired key's token and accept the current key's", False),
    ])
    env_suite(ctx, model_ok)
