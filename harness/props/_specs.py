"""Source of truth for the per-property check modules cNN.py of the checker/builder family:
run `python3 _specs.py` in this directory to regenerate them."""
tmpl = '''"""{doc}"""
import keys as K
import suites as S
from props import _family as F

PROOF_MODULES = {mods}
PROP_MODULES = {mods}
PROP_FILES = {files}
GENERATED_FACT_THEOREMS = {gen}
CHECKER_CMD = "cd lean && lake build {mod0} && lake env lean <generated #print axioms file>"
LEVEL_TEXT = ({level!r})
ASSUMPTIONS = F.COMMON_ASSUME + {assume}
TRUSTED_BASE = F.COMMON_TRUSTED
replay = F.replay


def run(ctx, model_ok, deep=False):
{body}
'''
specs = {
 "c01": dict(doc="C01 -- no token accepted without a valid signature: theorems + verify-sig mutation suite on both providers + matrix sample.",
   mods=["Jwt.Props.C01", "Jwt.Props.C05Ec"], files=["Jwt/Props/C01.lean", "Jwt/Props/C05Ec.lean", "Jwt/Lemmas/EcFrame.lean"], gen=2,
   level="Lean theorem C01_sound for every Crypto oracle, JSON codec, provider, checker state, callback and token: rc=0 with a key => token splits at its first two dots, header alg = pinned alg, and the third segment is oracle-valid under that key/alg over the raw first two segments (HMAC: textual equality via jwt_strcmp = 0 <-> equal). For ES* the provider glue's r||s handling is inside the model (Jwt/EcFrame.lean over constants regenerated from both sign-verify.c): C01_ecdsa_exact_form proves that on either provider only the algorithm's exact 2w-octet form reaches the library, as the pair of integers it denotes. Cryptographic validity itself is the oracle; model tied to the code by systematic mutation of valid tokens for every key type on OpenSSL and GnuTLS against an independent EVP oracle.",
   assume=["base64 text malleability of the signature segment (same decoded bytes) is outside C01 for public-key algorithms and counted, not alarmed (DESIGN 10.1)"],
   body='''    import ecframe
    ecframe.run(ctx, model_ok, deep)
    F.run_suites(ctx, model_ok, deep, [
        ("header-history", S.header_history_suite, S.falsify_accept,
         "a genuine token, then on the same checker (or another one of the thread) a token whose header has the same length and the same first k base64url characters but names another algorithm / none / no algorithm of the library, or is the first header with characters appended, signed correctly over its own text; then the genuine token again; k and the header length on both sides of 16...4096 and of every size new in the source; HS256 and RS256", False),
        ("programs", S.programs_suite, S.falsify_programs,
         "110 (quick) / 1500 (thorough) random programs of 55-70 API calls over 3 checkers, 3 builders, every pool key (with/without alg attribute, private/public), callbacks, clocks and both providers; every answer compared with the model; 60% of the verifies and generates are asked of a fresh twin configured by the same calls first", False),
        ("verify-sig-openssl", lambda w, p, t, r: S.verify_sig(w, p, t, r, "openssl"), S.falsify_accept,
         "per key x admissible alg: valid token + header/payload char edits, segment swap, signature truncation/extension, every single-bit flip of the decoded signature, alt alphabet/padding, re-targeting to every other key/alg and to HMAC under public/empty key; distinct = distinct (answer, mutation class, key, alg)", False),
        ("verify-sig-gnutls", lambda w, p, t, r: S.verify_sig(w, p, t, r, "gnutls"), S.falsify_accept,
         "same mutation set under the GnuTLS provider", False),
        ("key-lifecycle", S.key_lifecycle_suite, S.falsify_accept,
         "per key type and provider: one keyring slot loaded, used, freed and re-loaded 6 (quick) / 12 (thorough) times with two keys of the same type and size in turn; after every re-load the retired key's token must fail and the current key's must verify", False),
        ("alg-matrix-sample", 150 if not (ctx.tier == "thorough" or deep) else None, S.falsify_accept,
         "sample of the C02 matrix cells (all cells in thorough)", False),
    ])'''),
 "c03": dict(doc="C03 -- unsigned tokens only without key and algorithm (checker side): theorems + matrix.",
   mods=["Jwt.Props.C03"], files=["Jwt/Props/C03.lean"], gen=0,
   level="Lean theorems for every Env/callback/token: with a key in force acceptance needs a non-empty third segment and a header alg other than none; without a key only the exact four bytes none with an empty third segment and no configured alg. Builder: with a key in force after the callback generate fails or signs with the pinned algorithm, without one it emits only alg-none tokens ending in an empty segment (all callbacks). Tied to the code by the exhaustive matrix (token shapes with absent/garbage/valid signatures, alg none/None/NONE/other/missing) on setkey and callback routes, and by exhaustive builder key/alg routes.",
   assume=[],
   body='''    F.run_suites(ctx, model_ok, deep, [
        ("header-history", S.header_history_suite, S.falsify_accept,
         "a genuine token, then on the same checker (or another one of the thread) a token whose header has the same length and the same first k base64url characters but names another algorithm / none / no algorithm of the library, or is the first header with characters appended, signed correctly over its own text; then the genuine token again; k and the header length on both sides of 16...4096 and of every size new in the source; HS256 and RS256", False),
        ("programs", S.programs_suite, S.falsify_programs,
         "110 (quick) / 1500 (thorough) random programs of 55-70 API calls over 3 checkers, 3 builders, every pool key (with/without alg attribute, private/public), callbacks, clocks and both providers; every answer compared with the model; 60% of the verifies and generates are asked of a fresh twin configured by the same calls first", False),
        ("alg-matrix", None, S.falsify_accept,
         "all cells: configured alg x key x route; 23 header variants x signature classes incl. empty third segment", True),
        ("token-shapes", S.token_shapes, S.falsify_accept, "2, 3 and 4+ segment shapes with empty/non-empty parts under keyless and keyed checkers", True),
        ("long-inputs", S.long_inputs_suite, S.falsify_long_inputs,
         "alg header names of 1-20, 180-300, 400, 511-513, 767/768, 1000-1025, 4096, 20000 characters (bare and appended to none/HS256/RS256) on an unkeyed and a keyed checker: a name that merely starts with `none` is not `none`", False),
        ("builder-routes", S.builder_routes_suite, S.falsify_builder_routes,
         "every pool key x JWK alg attribute x private/public x explicit alg x route {setkey, callback sets key only, callback sets key and alg, setkey then callback removes key}; token decoded by an independent reader", True),
    ])'''),
 "c04": dict(doc="C04 -- claim checks exactly as configured: theorems + claims suite under a controlled clock.",
   mods=["Jwt.Props.C04"], files=["Jwt/Props/C04.lean", "Jwt/Lemmas/PipelineClaims.lean"], gen=8,
   level="Lean theorems: exp/nbf thresholds, type rule, generated defaults and disable bound, string equality, enforcement for every accepted token, and refinement of every configuration history to a last-writer-wins policy (induction over op lists). Tied to the code by threshold/leeway/clock grids, 64-bit extremes, every JSON type per claim, string pairs, and exhaustive configuration sequences judged against the property's own semantics.",
   assume=[],
   body='''    F.run_suites(ctx, model_ok, deep, [
        ("programs", S.programs_suite, S.falsify_programs,
         "110 (quick) / 1500 (thorough) random programs of 55-70 API calls over 3 checkers, 3 builders, every pool key (with/without alg attribute, private/public), callbacks, clocks and both providers; every answer compared with the model; 60% of the verifies and generates are asked of a fresh twin configured by the same calls first", False),
        ("claims", S.claims_suite, S.falsify_accept,
         "threshold +-2 x leeway {-1,0,1,59,2^31,2^40} x clock {0,1,1e9,2^31-1,2^31,2^40}; int64 extremes; 11 JSON types per claim; string pairs; all configuration sequences up to length 2 (quick) / 3 (thorough) over an 11-call alphabet + random longer ones, each followed by 10 probe tokens; signed and unsigned; expected verdict computed from the property statement", False),
    ])'''),
 "c06": dict(doc="C06 -- arbitrary token bytes: theorems (rejection, bounds, structural termination) + token-bytes suite under ASan/UBSan/LSan.",
   mods=["Jwt.Props.C06"], files=["Jwt/Props/C06.lean", "Jwt/Lemmas/Pipeline.lean"], gen=3,
   level="Lean theorems: rc=0 => two dots, first segment decodes+loads to JSON with a known string alg, second decodes+loads; decoder buffer accesses in bounds for every length and buffer content (C11 instance); termination by structural recursion. Memory safety/UB/leaks of the compiled code are witnessed by sanitizer runs over exhaustive short strings, grammar-derived near-valid tokens, random bytes and long inputs, under keyless/oct/RSA/EC/OKP checkers; verdicts compared with the model.",
   assume=["PARTIAL: memory safety, UB and leaks of compiled libjwt/jansson/OpenSSL are runtime facts witnessed by ASan/UBSan/LSan on the inputs explored, not proved"],
   body='''    import ecframe
    ecframe.run(ctx, model_ok, deep)
    F.run_suites(ctx, model_ok, deep, [
        ("token-bytes", S.token_bytes, S.falsify_accept,
         "all strings of length 1-4 (quick) / 1-5 (thorough) over {e . = A - 0x80}; 12x10x8 header/payload/signature part grid; random strings over a token alphabet and over all bytes; random edits of real tokens; 1k-64k inputs; x checkers {no key, oct, RSA, P-256, Ed25519}; independent well-formedness predicate as falsifier", False),
        ("token-bytes-gnutls", lambda w, p, t, r: S.token_bytes(w, p, t, r, provider="gnutls"), S.falsify_accept,
         "the same strings under the GnuTLS provider (its own length and framing checks run ahead of the library calls)", False),
    ])'''),
 "c09": dict(doc="C09 -- key-strength floor (verification side): theorems + boundary-exhaustive strength suite.",
   mods=["Jwt.Props.C09"], files=["Jwt/Props/C09.lean"], gen=3,
   level="Lean theorems for every bits:Nat: the gates pass exactly per the documented floor table; every primitive call made by verification satisfies it (trace); acceptance implies it; the gate is live at/above the floor; the same for signing (generate). Tied to the code by every oct length 1-160 x HS256/384/512 and every generated RSA/EC/OKP key x every public-key algorithm with oracle-signed tokens.",
   assume=[],
   body='''    extra = {"rsa1024": K.gen_key("rsa", 1024, ctx.scratch), "rsa2047": K.gen_key("rsa", 2047, ctx.scratch),
             "rsa2041": K.gen_key("rsa", 2041, ctx.scratch), "rsa2050": K.gen_key("rsa", 2050, ctx.scratch), "p384": K.gen_key("ec", "P-384", ctx.scratch),
             "p521": K.gen_key("ec", "P-521", ctx.scratch), "k256": K.gen_key("ec", "secp256k1", ctx.scratch),
             "ed448": K.gen_key("okp", "ED448", ctx.scratch)}
    if ctx.tier == "thorough" or deep:
        extra.update({"rsa512": K.gen_key("rsa", 512, ctx.scratch), "rsa2040": K.gen_key("rsa", 2040, ctx.scratch),
                      "rsa3072": K.gen_key("rsa", 3072, ctx.scratch), "rsa4096": K.gen_key("rsa", 4096, ctx.scratch)})
    F.run_suites(ctx, model_ok, deep, [
        ("strength", lambda w, p, t, r: S.strength(w, p, t, r, extra), S.falsify_accept,
         "oct keys of every length 1-160 bytes x HS256/384/512 with a correct MAC; every RSA/EC/OKP key x all 11 public-key algorithms with an oracle-made signature where the family matches; must-accept at/above the floor, must-reject below", True),
        ("generate-strength", lambda w, p, t, r: S.builder_routes_suite(w, p, t, r, dict(extra, oct16=K.Key("oct", k=b"0123456789abcdef", bits=128), oct47=K.Key("oct", k=b"x" * 47, bits=376))),
         S.falsify_builder_routes, "generate with every key (incl. RSA-1024, oct 16/47 bytes, every curve) x explicit algorithms x routes: fails below the floor or across families, signs at/above it", True),
    ])'''),
 "c13": dict(doc="C13 -- verdict depends only on configuration, token and clock (checker side).",
   mods=["Jwt.Props.C13"], files=["Jwt/Props/C13.lean"], gen=3,
   level="Lean theorems: one call's return value is independent of the prior error state and leaves the configuration unchanged; by induction over any history of verify/error_clear calls every verdict equals a fresh identically configured checker's; the same for generate on builders (token and configuration). Tied to the code by exhaustive call sequences over an 11-token alphabet + error_clear, each verdict compared with a fresh checker's on the real library.",
   assume=[],
   body='''    F.run_suites(ctx, model_ok, deep, [
        ("reuse", S.reuse_suite, S.falsify_reuse,
         "all sequences of length 1-2 and 500 of length 3 (quick) / all to length 4 (thorough) over {valid, badsig, expired, nodot, onedot, badhdr, noalg, badpay, unsigned, NULL, empty, error_clear}, plus random sequences of length 5-60; reference = same token on a fresh checker", False),
        ("key-lifecycle", S.key_lifecycle_suite, S.falsify_accept,
         "per key type and provider: one keyring slot loaded, used, freed and re-loaded 6 (quick) / 12 (thorough) times with two keys of the same type and size in turn; after every re-load the retired key's token must fail and the current key's must verify", False),
        ("header-history", S.header_history_suite, S.falsify_accept,
         "a genuine token, then on the same checker (or another one of the thread) a token whose header has the same length and the same first k base64url characters but names another algorithm / none / no algorithm of the library, or is the first header with characters appended, signed correctly over its own text; then the genuine token again; k and the header length on both sides of 16...4096 and of every size new in the source; HS256 and RS256", False),
        ("programs", S.programs_suite, S.falsify_programs,
         "110 (quick) / 1500 (thorough) random programs of 55-70 API calls over 3 checkers, 3 builders, every pool key (with/without alg attribute, private/public), callbacks, clocks and both providers; every answer compared with the model; 60% of the verifies and generates are asked of a fresh twin configured by the same calls first", False),
        ("builder-reuse", S.builder_reuse_suite, S.falsify_builder_reuse,
         "all sequences to length 3 (quick) / 4 (thorough) over {ok, callback fails, weak key, callback selects inadmissible key/alg, unsigned, error_clear} + random longer ones; each generate compared with a fresh identically configured builder", False),
    ])'''),
 "c14": dict(doc="C14 -- error reporting contract (checker and value parts).",
   mods=["Jwt.Props.C14"], files=["Jwt/Props/C14.lean"], gen=5,
   level="Lean theorems: verify returns non-zero iff the flag is set afterwards, flag => message, success => clean, from every prior state; setkey refusal flags with message; generate returns NULL iff the flag is set with a message. Tied to the code by every failure cause x prior error state (reuse sequences) and by the C14 contract checked on every verify operation of the matrix.",
   assume=[],
   body='''    F.run_suites(ctx, model_ok, deep, [
        ("programs", S.programs_suite, S.falsify_programs,
         "110 (quick) / 1500 (thorough) random programs of 55-70 API calls over 3 checkers, 3 builders, every pool key (with/without alg attribute, private/public), callbacks, clocks and both providers; every answer compared with the model; 60% of the verifies and generates are asked of a fresh twin configured by the same calls first", False),
        ("errors-by-history", S.reuse_suite, S.falsify_reuse,
         "every failure cause of the token alphabet crossed with prior states reached by all short histories (fresh, flag set, set then cleared); contract rc!=0 <=> flag, flag => message, success => clean", False),
        ("alg-matrix-sample", 200 if not (ctx.tier == "thorough" or deep) else None, S.falsify_accept,
         "policy rejections, signature failures, callback-selected keys: contract checked on every verify", False),
        ("builder-errors", S.builder_reuse_suite, S.falsify_builder_reuse,
         "generate failing in the callback, on a weak key, on an inadmissible callback choice, from every prior error state: NULL <=> flag, flag => message, token => clean", False),
        ("builder-routes", S.builder_routes_suite, S.falsify_builder_routes,
         "unusable keys/algorithms on the builder (inadmissible pairs, JWT_ALG_INVAL, weak or cross-family keys, public keys) through setkey and callback routes: NULL <=> flag with message", True),
        ("callback-admission", S.callback_admission_suite, S.falsify_accept,
         "keys chosen by the callback (incl. JWKs whose use/key_ops say encryption): every refusal sets the flag and a message", False),
        ("long-inputs", S.long_inputs_suite, S.falsify_long_inputs,
         "alg header names of 1-20, 180-300, 400, 511-513, 767/768, 1000-1025, 4096, 20000 characters (bare and appended to none/HS256/RS256) on an unkeyed and a keyed checker; JWKs whose kty/crv/kid/alg member has those lengths; contract flag <=> rc, flag => message on every answer", False),
        ("setget-codes", S.setget_suite, S.falsify_setget, "return code of every header/claim set/get/del equals the code stored in the value (executor prints both) and the typed-map answer", False),
    ])'''),
 "c19": dict(doc="C19 -- a verification callback cannot bend the verdict.",
   mods=["Jwt.Props.C19"], files=["Jwt/Props/C19.lean"], gen=1,
   level="Lean theorems for every callback function: returning 0 with key/alg untouched leaves the whole outcome unchanged whatever it did to the token object; non-zero return always fails; selected (alg,key) passes the setkey table. Tied to the code by scripted callback programs (set/replace/delete/delete-all of claims and headers, whole-object JSON merge, reads) x claim-check configurations x passing/failing tokens, with vs without the callback on the real library.",
   assume=[],
   body='''    F.run_suites(ctx, model_ok, deep, [
        ("header-history", S.header_history_suite, S.falsify_accept,
         "a genuine token, then on the same checker (or another one of the thread) a token whose header has the same length and the same first k base64url characters but names another algorithm / none / no algorithm of the library, or is the first header with characters appended, signed correctly over its own text; then the genuine token again; k and the header length on both sides of 16...4096 and of every size new in the source; HS256 and RS256", False),
        ("programs", S.programs_suite, S.falsify_programs,
         "110 (quick) / 1500 (thorough) random programs of 55-70 API calls over 3 checkers, 3 builders, every pool key (with/without alg attribute, private/public), callbacks, clocks and both providers; every answer compared with the model; 60% of the verifies and generates are asked of a fresh twin configured by the same calls first", False),
        ("callback-admission", S.callback_admission_suite, S.falsify_accept,
         "per key x alg attribute (absent, two admissible) x algorithm left by the callback (none, four of the family, one foreign) x style (writes alg only and keeps the key setkey installed / re-installs the same item / reads the configuration first) x header alg in {attribute, callback alg, admissible}: validly signed token accepted exactly when the documented setkey table admits (alg, key) and the pinned algorithm is the header's", False),
        ("callbacks", S.callbacks_suite, S.falsify_callbacks,
         "21 single steps + 120 (quick) / all 441 (thorough) two-step programs x 5 claim-check configurations x 9 payloads x signed/unsigned x return 0/3; reference = same checker without callback", False),
        ("alg-matrix-sample", 120 if not (ctx.tier == "thorough" or deep) else None, S.falsify_accept,
         "callback-selected and callback-overridden (alg,key) pairs against the admission table", False),
    ])'''),

 "c05": dict(doc="C05 -- every generated token verifies and delivers the same header and claims.",
   mods=["Jwt.Props.C05", "Jwt.Props.C05Ec"], files=["Jwt/Props/C05.lean", "Jwt/Props/C05Ec.lean", "Jwt/Lemmas/EcFrame.lean"], gen=1,
   level="Lean theorem C05_roundtrip: for every builder/callback/token, under explicit laws of the delegated parts (jansson load(dump t)=t for the two objects, non-empty MAC/signature, the primitive's own sign->verify law, possibly across providers), the generated token is accepted by a checker holding the corresponding key and pinned alg, and the header/claims it parses are exactly the per-token objects (builder content + typ/alg + iat/nbf/exp per C10). Proved from C11 (decode(encode x)=x, URL alphabet has no dot), exact alg naming/parsing over generated tables, pinning, gates, jwt_strcmp = 0 <-> equal. The ECDSA r||s framing inside both providers' glue is modelled literally (Jwt/EcFrame.lean, constants regenerated from the two sign-verify.c) and proved for every pair of integers below the field size, every leading-zero pattern and all four provider pairs (C05_frame, C05_unframe_len, C05_unframe_frame, C05_ecdsa_law, C05_roundtrip_ecdsa: the law left assumed for ES* is about the mathematical pair (r,s) only); the model is tied to the glue by running the real sign/verify paths on chosen (r,s) through interposed primitives (harness/ecframe.c). Provider mathematics is sampled: every key type x admissible alg x random JSON trees x both provider pairs, plus ECDSA volume runs.",
   assume=["PARTIAL: the sign->verify law of the OpenSSL/GnuTLS primitives (for ES*: on integer pairs), PSS parameter compatibility and the libraries' DER coding (gnutls_decode_rs_value returns INTEGER content octets, gnutls_encode_rs_value takes unsigned octets, BN_bn2bin is minimal big-endian) are assumed in the theorems and exercised by the suites"],
   body='''    import ecframe
    ecframe.run(ctx, model_ok, deep)
    p384 = K.gen_key("ec", "P-384", ctx.scratch)
    F.run_suites(ctx, model_ok, deep, [
        ("ecdsa-volume", lambda w, p, t, r: S.ecdsa_volume_suite(w, p, t, r, [("p256", p.keys["p256"], "ES256"), ("p384", p384, "ES384")]), S.falsify_roundtrip,
         "2500 (quick) / 12000 (thorough) ES256 and ES384 signatures made under GnuTLS and verified under OpenSSL, a fifth as many the other way round; every token also compared with the model and its signature checked by the independent verifier; short r / s counted in oracle_answers", False),
        ("roundtrip", S.roundtrip_suite, S.falsify_roundtrip,
         "per key x admissible alg: random header/claim JSON trees (nesting<=6, unicode, 64-bit extremes, reals, empty containers, 4 KiB strings), sign under openssl|gnutls, verify under openssl|gnutls with the public half, read header+claims in the checker callback; plus ECDSA volume runs", False),
    ])'''),
 "c10": dict(doc="C10 -- generated tokens are well-formed and say exactly what the builder was told.",
   mods=["Jwt.Props.C10"], files=["Jwt/Props/C10.lean", "Jwt/Lemmas/PipelineBuilder.lean"], gen=7,
   level="Lean theorems for every builder state and callback: token shape (three unpadded base64url parts, none <-> empty third), header = per-token headers with alg forced and typ defaulted (jwt_head_setup as two typed-map sets), claims = builder claims overridden by iat/nbf/exp, offsets on iff > 0 (generated __DISABLE), configuration untouched by generate, public-only keys refused. Tied to the code by configuration sequences + generate at several clocks with full token equality against the model and an independent decode against a Python builder spec.",
   assume=[],
   body='''    F.run_suites(ctx, model_ok, deep, [
        ("builder", S.builder_suite, S.falsify_builder,
         "all configuration sequences to length 1 + 250 of length 2 (quick) / all to 2 + 3000 of length 3 (thorough) over a 24-call alphabet (header/claim set/del of alg,typ,iat,exp,nbf,x; enable_iat; time_offset -5/0/1/600; setkey; unset key) + random longer ones, each with two generates at clocks {0,1,2^31,2^40}, every third with a mutating callback; builder state read back after each generate", False),
    ])'''),
 "c15": dict(doc="C15 -- header and claim set/get/delete behave as a typed map.",
   mods=["Jwt.Props.C15"], files=["Jwt/Props/C15.lean"], gen=2,
   level="Lean refinement of setter/getter/deleter to the abstract map Name -> Option Json: EXIST without change, overwrite/insert touching only the named member, typed get (value/NOEXIST/TYPE), delete one/all, whole-object merge (all members with replace, missing-only without) by induction over the document, INVALID refusals without change, and the invariant that the map stays a JSON object. Tied to the code by exhaustive one- and two-operation sequences (sampled for 2 in quick) over names {a,c,empty,NULL} x 16 typed values x replace on builder headers and claims and on the jwt_t inside callbacks, with a whole-object read-back after every step, judged by an independent Python typed map.",
   assume=["names and string values outside valid UTF-8 are excluded from the theorems' hypotheses (json_string refuses them); the excluded point is exercised by the suite as an observation"],
   body='''    F.run_suites(ctx, model_ok, deep, [
        ("setget", S.setget_suite, S.falsify_setget,
         "148-operation alphabet: set x {int 0/-1/2^63-1, str empty/x/NULL, bool 0/1/2, json {} / {a,c} / [1] / 1 / malformed / NULL / duplicate} x replace, get x 4 types, del, on names {a, c, empty, NULL}; all single ops, 6000 (quick) / all 21904 (thorough) pairs, random longer; same programs inside builder callbacks on the jwt_t", False),
    ])'''),

 "c07": dict(doc="C07 -- arbitrary JWK/JWKS input: no crash, and a well-formed keyring comes back.",
   mods=["Jwt.Props.C07"], files=["Jwt/Props/C07.lean", "Jwt/Lemmas/PipelineJwk.lean"], gen=3,
   level="Lean theorems for every JSON value and every key-material oracle: set error and no items for non-JSON, exactly one item without a keys member, exactly n items in document order for a keys array, none for a non-array keys; every item is flagged with a message or is a usable key (known kty, PEM or non-empty oct bytes), by case analysis over the member handling of all four key types with Option-tracked json_string_value; preserved by every load. Memory safety/UB/leaks of the compiled code are witnessed by ASan/UBSan/LSan runs: every member x 9 JSON types/absent/truncated/extended/flipped for every key type, non-JWK documents, keys of every type, 0-50 elements, mutated text, all five entry points incl. embedded NUL.",
   assume=["PARTIAL: memory safety, UB and leaks of compiled libjwt/jansson/OpenSSL on these inputs are witnessed by sanitizers, not proved", "EVP_PKEY_fromdata / PEM export acceptance of key material is a parameter (KeyOracle), answered in the harness by an independent OpenSSL caller"],
   body='''    F.run_suites(ctx, model_ok, deep, [
        ("long-inputs", S.long_inputs_suite, S.falsify_long_inputs,
         "alg header names of 1-20, 180-300, 400, 511-513, 767/768, 1000-1025, 4096, 20000 characters (bare and appended to none/HS256/RS256) on an unkeyed and a keyed checker; JWKs whose kty/crv/kid/alg member has those lengths; contract flag <=> rc, flag => message on every answer", False),
        ("jwk-shapes", S.jwk_shapes_suite, S.falsify_jwk_shapes,
         "per key type (oct, RSA, P-256, Ed25519; more in thorough) private and public: each member absent / null / int / real / bool / array / object / empty / non-base64 / 1 char / truncated / extended / first char flipped (+ random pairs in thorough); 30 non-JWK documents; keys of 11 types and 0-50 elements; 300 (quick) / 3000 (thorough) byte-mutated texts; entry points load/strn/create/fromfile/fromfp with good, bad, NUL-containing and set input", False),
    ])'''),
 "c08": dict(doc="C08 -- JWK import preserves the key and its metadata.",
   mods=["Jwt.Props.C08"], files=["Jwt/Props/C08.lean", "Jwt/Lemmas/PipelineJwk.lean"], gen=3,
   level="Lean theorems: oct import = base64url-decoding of k (bytes, 8*len bits, private, no error) via the C11 round trip; alg/kid/use as functions of the members; frame theorem: setting any member outside the 17 names the library reads, to any JSON value, leaves the imported item unchanged (all key types); C08_param_map over the generated member-to-parameter table of openssl/jwk-parse.c (n,e,d,p,q,dp,dq,qi / x,y,d / x,d reach the parameters RFC 7518 assigns them, x and y the affine coordinates in that order). Numeric identity of RSA/EC/OKP material goes through EVP_PKEY_fromdata/PEM and is sampled: fresh keys of every type, private and public, minimal and zero-padded EC integers, optional and foreign members; imported PEM compared through an independent OpenSSL caller (EVP_PKEY_eq + cross sign/verify).",
   assume=["PARTIAL: component-wise identity of asymmetric key material is sampled (provider code), not proved"],
   body='''    F.run_suites(ctx, model_ok, deep, [
        ("jwk-import", S.jwk_import_suite, S.falsify_jwk_import,
         "RSA 2048 (+3072/4096 thorough), RSA-PSS, P-256/384/521, secp256k1, Ed25519, Ed448, oct 1..512 bytes; private/public x alg attribute x padded/minimal x random kid/use/key_ops x foreign and unknown members; item fields vs what the JWK states; PEM vs the generating key", False),
    ])'''),
 "c16": dict(doc="C16 -- a keyring is an ordered list of keys under every sequence of operations.",
   mods=["Jwt.Props.C16", "Jwt.Props.C16Heap"], files=["Jwt/Props/C16.lean", "Jwt/Props/C16Heap.lean", "Jwt/Lemmas/Ll.lean", "Jwt/Lemmas/JwksLoops.lean"], gen=7,
   level="Lean theorems at two levels. List level: loads append in document order, get/count, find = first exact kid match, free removes exactly the indexed item or reports 0, free_bad removes exactly the errored items keeping order, free_all, error_any, and by induction over any operation history every item stays well-formed. Pointer level: the list functions of ll.h are TRANSLATED statement by statement from the source on every run into heap transformers with checked loads/stores (Jwt/Generated/LlOps.lean); over them the circular doubly-linked invariant is proved for init/add_tail/del, the jwks.c loops (list_for_each_entry, the _safe variant with deletion, the indexed walk, free_all) are shown to terminate within length+1 iterations, never to go through NULL or freed memory, to preserve the invariant and to compute exactly the abstract operations; C16_heap_history lifts this to every operation sequence under the allocator's contract. The keyring functions of jwks.c themselves (jwks_item_get/count/error_any/find_bykid/add/free/free_bad/free_all, __item_free) are TRANSLATED from the C text on every run (tie/loops.py over the mini-C parser tie/cmini.py -> Jwt/Generated/JwksLoops.lean), proved equal to the model's loops (Jwt/Lemmas/JwksLoops.lean) and the pointer-level theorems are restated for them (C16_src_*). Additionally tied to the compiled code by exhaustive operation sequences under ASan/LSan with probes (count, error_any, first/last/one-past item) after every step, judged by an independent Python list.",
   assume=["ll.h's functions and the keyring functions of jwks.c are translated from the source (counters as natural numbers; what hangs off an item outside the node heap -- key material, kid, JSON -- is listed as not modelled in the generated file); use-after-free and leaks in the compiled code are additionally witnessed by ASan/LSan on all explored sequences",
           "the allocator never returns NULL-as-success or a live address (AllocOk)"],
   body='''    F.run_suites(ctx, model_ok, deep, [
        ("keyring", S.keyring_suite, S.falsify_keyring,
         "all sequences to length 2 + 700 of length 3 (quick) / all to 3 + 6000 of length 4 (thorough) over {load good, load bad, load mixed-3 with duplicate kid, load non-JSON, free 0/1/last/99, free_bad, free_all, find k1/kbad/absent/empty, error_clear} + random sequences up to 200 ops; 5 probes after every step", False),
    ])'''),
}
for k, sp in specs.items():
    sp["mod0"] = sp["mods"][0]
    open(k + ".py", "w").write(tmpl.format(**sp))
