"""C17 -- allocation failure is reported: theorem on the propagation model + exhaustive enumeration of
every allocation index of every scenario on the real library (jwt_set_alloc injection)."""
import collections
import os
import time

import keys as K
import lib
import oom
import suites as S
from props import _family as F

PROOF_MODULES = ["Jwt.Props.C17"]
PROP_MODULES = ["Jwt.Props.C17"]
PROP_FILES = ["Jwt/Props/C17.lean"]
CHECKER_CMD = "cd lean && lake build Jwt.Props.C17 && lake env lean <generated #print axioms file>"
TECHNIQUE = "Lean 4 proof on an allocation-failure propagation model (induction over step lists) tied row by row to an exhaustive k-th-allocation fault enumeration of the real library"
LEVEL_TEXT = ("Lean theorems on a propagation model (Jwt/Alloc.lean): for every SET of failing steps an operation whose rows all propagate "
              "ends 'same' or 'reported'; a wrong success or crash can only come from a row that says so; the tables of new/set/get/verify "
              "contain only propagating rows and the only non-propagating rows of load/generate are two jansson behaviours recorded as known "
              "findings. Rows are at the granularity a backtrace shows (public entry point + visible callee). Tie: every allocation index of "
              "every scenario (all key types, both providers, builder and checker paths, callbacks, get/set) is failed once through "
              "jwt_set_alloc under ASan/UBSan; the failing site is mapped to a row and the observed class must be what the model predicts.")
ASSUMPTIONS = ["PARTIAL: the model is at libjwt's step granularity; jansson's and OpenSSL's own reaction to an internal allocation failure is assumed (return NULL/-1, object unchanged) except for the two rows marked degrade",
               "OpenSSL/GnuTLS internal allocations are not routed through jwt_set_alloc and are not failed", "leaks on failure paths are not part of C17 and LeakSanitizer is off for this suite"]
TRUSTED_BASE = ["Lean 4.33.0 kernel", "harness/exec.c (x_malloc fault injection, backtrace site naming), harness/oom.py (scenarios, classification, site->row map)",
                "the row tables of lean/Jwt/Alloc.lean are written by hand from the source; the enumeration checks them row by row"]
replay = F.replay


def run(ctx, model_ok, deep=False):
    tier = "thorough" if (ctx.tier == "thorough" or deep) else "quick"
    orc = K.Oracle(K.build_oracle(ctx))
    pool = S.KeyPool(ctx, orc, tier)
    rows = oom.lean_rows(os.path.join(lib.LEAN, "Jwt", "Alloc.lean"))
    total, classes, by_row, samples, unmapped = 0, collections.Counter(), collections.Counter(), [], collections.Counter()
    try:
        for name, lines in oom.scenarios(pool, {}, tier).items():
            t = time.time()
            try:
                n, base, res = oom.enumerate_scenario(ctx, name, lines)
            except RuntimeError as e_:
                # the scenario does not even run to its end WITHOUT a failing allocation (with the application's allocator installed
                # through jwt_set_alloc: a block that is not the allocator's released through it, a crash): that is a result
                ctx.violation("crash:fault-free:%s" % name.split("-")[0], "scenario %s does not complete with the application allocator installed and no "
                              "allocation failing: %s" % (name, str(e_)[:160]), replay_lines=["# scenario %s, no failing allocation" % name, "allochook -1"] + lines,
                              detail=str(e_)[-1500:])
                continue
            rnd = any(a in name for a in ("ES", "PS"))
            for k, e in sorted(res.items()):
                cls, i, site = oom.classify(lines, base, e, randomised=rnd)
                total += 1
                classes[cls] += 1
                row = oom.row_of(site) if cls != "crash" else None
                opkind = lines[i].split()[2] if (i is not None and len(lines[i].split()) > 2) else "-"
                replay_lines = ["# scenario %s, allocation %d fails; site %s" % (name, k, site), "allochook %d" % k] + lines
                if cls == "crash":
                    ctx.violation("crash:%s:%s" % (opkind, site.split("<")[0]), "scenario %s crashes when allocation %d fails (%s)" % (name, k, site),
                                  replay_lines=replay_lines, detail=e[2][-1200:])
                    continue
                if cls == "reported":
                    for j in oom.later_accepts(lines, base, e, i):
                        ctx.violation("wrong-accept:%s" % site.split("<")[0],
                                      "scenario %s: allocation %d fails at %s (reported by `%s`), and afterwards `%s…` ACCEPTS a token the fault-free run rejects" % (
                                          name, k, site, lines[i][:40], lines[j][:30]), replay_lines=replay_lines)
                        break
                if cls == "wrong-success":
                    got = e[1][i]
                    ctx.violation("wrong-success:%s:%s" % (opkind, site.split("<")[0]),
                                  "scenario %s: allocation %d fails at %s and `%s` answers `%s` (fault-free `%s`) without reporting failure" % (
                                      name, k, site, lines[i][:40], got[:90], base[i][:90]), replay_lines=replay_lines)
                    row = oom.DEGRADE.get(row, row)
                if row is None:
                    if cls != "same":
                        unmapped[site] += 1
                    continue
                by_row[row] += 1
                react = rows.get(row)
                if react is None:
                    ctx.violation("tie:row-missing", "site %s maps to row `%s` which lean/Jwt/Alloc.lean does not have" % (site, row), no_input=True)
                elif (react == "propagate" and cls == "wrong-success") or (react == "degrade" and cls != "wrong-success"):
                    if react == "propagate":
                        pass   # already a violation above
                if len(samples) < 6 and k % 37 == 0:
                    samples.append({"scenario": name, "k": k, "site": site, "row": row, "class": cls, "first_diff_op": lines[i][:50] if i is not None else None})
            ctx.notes.append("scenario %s: %d allocations enumerated, %.1fs" % (name, n, time.time() - t))
    finally:
        orc.close()
    if unmapped:
        ctx.violation("tie:unmapped-site", "failing sites with no row in the propagation model: %s" % dict(unmapped.most_common(5)), no_input=True,
                      detail=str(dict(unmapped)))
    ctx.add_suite("oom", evaluations=total, distinct_nontrivial=len(by_row) + len(classes),
                  rule="every allocation index k of every scenario fails once; class in {same, reported, wrong-success, crash}; distinct = rows of the model hit + classes seen",
                  exhaustive=True, classes=dict(classes), rows_hit=dict(by_row), rows_in_model=len(rows), samples=samples)
