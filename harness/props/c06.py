"""C06 -- arbitrary token bytes: theorems (rejection, bounds, structural termination) + token-bytes suite under ASan/UBSan/LSan."""
import keys as K
import suites as S
from props import _family as F

PROOF_MODULES = ['Jwt.Props.C06']
PROP_MODULES = ['Jwt.Props.C06']
PROP_FILES = ['Jwt/Props/C06.lean', 'Jwt/Lemmas/Pipeline.lean']
GENERATED_FACT_THEOREMS = 3
CHECKER_CMD = "cd lean && lake build Jwt.Props.C06 && lake env lean <generated #print axioms file>"
LEVEL_TEXT = ('Lean theorems: rc=0 => two dots, first segment decodes+loads to JSON with a known string alg, second decodes+loads; decoder buffer accesses in bounds for every length and buffer content (C11 instance); termination by structural recursion. Memory safety/UB/leaks of the compiled code are witnessed by sanitizer runs over exhaustive short strings, grammar-derived near-valid tokens, random bytes and long inputs, under keyless/oct/RSA/EC/OKP checkers; verdicts compared with the model.')
ASSUMPTIONS = F.COMMON_ASSUME + ['PARTIAL: memory safety, UB and leaks of compiled libjwt/jansson/OpenSSL are runtime facts witnessed by ASan/UBSan/LSan on the inputs explored, not proved']
TRUSTED_BASE = F.COMMON_TRUSTED
replay = F.replay


def run(ctx, model_ok, deep=False):
    import ecframe
    ecframe.run(ctx, model_ok, deep)
    F.run_suites(ctx, model_ok, deep, [
        ("token-bytes", S.token_bytes, S.falsify_accept,
         "all strings of length 1-4 (quick) / 1-5 (thorough) over {e . = A - 0x80}; 12x10x8 header/payload/signature part grid; random strings over a token alphabet and over all bytes; random edits of real tokens; 1k-64k inputs; x checkers {no key, oct, RSA, P-256, Ed25519}; independent well-formedness predicate as falsifier", False),
        ("token-bytes-gnutls", lambda w, p, t, r: S.token_bytes(w, p, t, r, provider="gnutls"), S.falsify_accept,
         "the same strings under the GnuTLS provider (its own length and framing checks run ahead of the library calls)", False),
    ])
