"""C16 -- a keyring is an ordered list of keys under every sequence of operations."""
import keys as K
import suites as S
from props import _family as F

PROOF_MODULES = ['Jwt.Props.C16']
PROP_MODULES = ['Jwt.Props.C16']
PROP_FILES = ['Jwt/Props/C16.lean']
GENERATED_FACT_THEOREMS = 0
CHECKER_CMD = "cd lean && lake build Jwt.Props.C16 && lake env lean <generated #print axioms file>"
LEVEL_TEXT = ('Lean theorems at the list level: loads append in document order, get/count, find = first exact kid match, free removes exactly the indexed item or reports 0, free_bad removes exactly the errored items keeping order, free_all, error_any, and by induction over any operation history every item stays well-formed. The pointer level (ll.h) is tied by exhaustive operation sequences under ASan/LSan with probes (count, error_any, first/last/one-past item) after every step, judged by an independent Python list.')
ASSUMPTIONS = F.COMMON_ASSUME + ['PARTIAL: absence of use-after-free and leaks in the intrusive list code is witnessed by ASan/LSan on all explored sequences; the heap-level refinement of ll.h is not machine-checked']
TRUSTED_BASE = F.COMMON_TRUSTED
replay = F.replay


def run(ctx, model_ok, deep=False):
    F.run_suites(ctx, model_ok, deep, [
        ("keyring", S.keyring_suite, S.falsify_keyring,
         "all sequences to length 2 + 700 of length 3 (quick) / all to 3 + 6000 of length 4 (thorough) over {load good, load bad, load mixed-3 with duplicate kid, load non-JSON, free 0/1/last/99, free_bad, free_all, find k1/kbad/absent/empty, error_clear} + random sequences up to 200 ops; 5 probes after every step", False),
    ])
