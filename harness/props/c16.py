"""C16 -- a keyring is an ordered list of keys under every sequence of operations."""
import keys as K
import suites as S
from props import _family as F

PROOF_MODULES = ['Jwt.Props.C16', 'Jwt.Props.C16Heap']
PROP_MODULES = ['Jwt.Props.C16', 'Jwt.Props.C16Heap']
PROP_FILES = ['Jwt/Props/C16.lean', 'Jwt/Props/C16Heap.lean', 'Jwt/Lemmas/Ll.lean', 'Jwt/Lemmas/JwksLoops.lean']
GENERATED_FACT_THEOREMS = 7
CHECKER_CMD = "cd lean && lake build Jwt.Props.C16 && lake env lean <generated #print axioms file>"
LEVEL_TEXT = ("Lean theorems at two levels. List level: loads append in document order, get/count, find = first exact kid match, free removes exactly the indexed item or reports 0, free_bad removes exactly the errored items keeping order, free_all, error_any, and by induction over any operation history every item stays well-formed. Pointer level: the list functions of ll.h are TRANSLATED statement by statement from the source on every run into heap transformers with checked loads/stores (Jwt/Generated/LlOps.lean); over them the circular doubly-linked invariant is proved for init/add_tail/del, the jwks.c loops (list_for_each_entry, the _safe variant with deletion, the indexed walk, free_all) are shown to terminate within length+1 iterations, never to go through NULL or freed memory, to preserve the invariant and to compute exactly the abstract operations; C16_heap_history lifts this to every operation sequence under the allocator's contract. The keyring functions of jwks.c themselves (jwks_item_get/count/error_any/find_bykid/add/free/free_bad/free_all, __item_free) are TRANSLATED from the C text on every run (tie/loops.py over the mini-C parser tie/cmini.py -> Jwt/Generated/JwksLoops.lean), proved equal to the model's loops (Jwt/Lemmas/JwksLoops.lean) and the pointer-level theorems are restated for them (C16_src_*). Additionally tied to the compiled code by exhaustive operation sequences under ASan/LSan with probes (count, error_any, first/last/one-past item) after every step, judged by an independent Python list.")
ASSUMPTIONS = F.COMMON_ASSUME + ["ll.h's functions and the keyring functions of jwks.c are translated from the source (counters as natural numbers; what hangs off an item outside the node heap -- key material, kid, JSON -- is listed as not modelled in the generated file); use-after-free and leaks in the compiled code are additionally witnessed by ASan/LSan on all explored sequences", 'the allocator never returns NULL-as-success or a live address (AllocOk)']
TRUSTED_BASE = F.COMMON_TRUSTED
replay = F.replay


def run(ctx, model_ok, deep=False):
    F.run_suites(ctx, model_ok, deep, [
        ("keyring", S.keyring_suite, S.falsify_keyring,
         "all sequences to length 2 + 700 of length 3 (quick) / all to 3 + 6000 of length 4 (thorough) over {load good, load bad, load mixed-3 with duplicate kid, load non-JSON, free 0/1/last/99, free_bad, free_all, find k1/kbad/absent/empty, error_clear} + random sequences up to 200 ops; 5 probes after every step", False),
    ])
