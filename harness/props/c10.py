"""C10 -- generated tokens are well-formed and say exactly what the builder was told."""
import keys as K
import suites as S
from props import _family as F

PROOF_MODULES = ['Jwt.Props.C10']
PROP_MODULES = ['Jwt.Props.C10']
PROP_FILES = ['Jwt/Props/C10.lean', 'Jwt/Lemmas/PipelineBuilder.lean']
GENERATED_FACT_THEOREMS = 7
CHECKER_CMD = "cd lean && lake build Jwt.Props.C10 && lake env lean <generated #print axioms file>"
LEVEL_TEXT = ('Lean theorems for every builder state and callback: token shape (three unpadded base64url parts, none <-> empty third), header = per-token headers with alg forced and typ defaulted (jwt_head_setup as two typed-map sets), claims = builder claims overridden by iat/nbf/exp, offsets on iff > 0 (generated __DISABLE), configuration untouched by generate, public-only keys refused. Tied to the code by configuration sequences + generate at several clocks with full token equality against the model and an independent decode against a Python builder spec.')
ASSUMPTIONS = F.COMMON_ASSUME + []
TRUSTED_BASE = F.COMMON_TRUSTED
replay = F.replay


def run(ctx, model_ok, deep=False):
    F.run_suites(ctx, model_ok, deep, [
        ("builder", S.builder_suite, S.falsify_builder,
         "all configuration sequences to length 1 + 250 of length 2 (quick) / all to 2 + 3000 of length 3 (thorough) over a 24-call alphabet (header/claim set/del of alg,typ,iat,exp,nbf,x; enable_iat; time_offset -5/0/1/600; setkey; unset key) + random longer ones, each with two generates at clocks {0,1,2^31,2^40}, every third with a mutating callback; builder state read back after each generate", False),
    ])
