"""C04 -- claim checks exactly as configured: theorems + claims suite under a controlled clock."""
import keys as K
import suites as S
from props import _family as F

PROOF_MODULES = ['Jwt.Props.C04']
PROP_MODULES = ['Jwt.Props.C04']
PROP_FILES = ['Jwt/Props/C04.lean', 'Jwt/Lemmas/PipelineClaims.lean']
GENERATED_FACT_THEOREMS = 8
CHECKER_CMD = "cd lean && lake build Jwt.Props.C04 && lake env lean <generated #print axioms file>"
LEVEL_TEXT = ("Lean theorems: exp/nbf thresholds, type rule, generated defaults and disable bound, string equality, enforcement for every accepted token, and refinement of every configuration history to a last-writer-wins policy (induction over op lists). Tied to the code by threshold/leeway/clock grids, 64-bit extremes, every JSON type per claim, string pairs, and exhaustive configuration sequences judged against the property's own semantics.")
ASSUMPTIONS = F.COMMON_ASSUME + []
TRUSTED_BASE = F.COMMON_TRUSTED
replay = F.replay


def run(ctx, model_ok, deep=False):
    F.run_suites(ctx, model_ok, deep, [
        ("programs", S.programs_suite, S.falsify_programs,
         "110 (quick) / 1500 (thorough) random programs of 55-70 API calls over 3 checkers, 3 builders, every pool key (with/without alg attribute, private/public), callbacks, clocks and both providers; every answer compared with the model; 60% of the verifies and generates are asked of a fresh twin configured by the same calls first", False),
        ("claims", S.claims_suite, S.falsify_accept,
         "threshold +-2 x leeway {-1,0,1,59,2^31,2^40} x clock {0,1,1e9,2^31-1,2^31,2^40}; int64 extremes; 11 JSON types per claim; string pairs; all configuration sequences up to length 2 (quick) / 3 (thorough) over an 11-call alphabet + random longer ones, each followed by 10 probe tokens; signed and unsigned; expected verdict computed from the property statement", False),
    ])
