"""C01 -- no token accepted without a valid signature: theorems + verify-sig mutation suite on both providers + matrix sample."""
import keys as K
import suites as S
from props import _family as F

PROOF_MODULES = ['Jwt.Props.C01']
PROP_MODULES = ['Jwt.Props.C01']
PROP_FILES = ['Jwt/Props/C01.lean']
GENERATED_FACT_THEOREMS = 0
CHECKER_CMD = "cd lean && lake build Jwt.Props.C01 && lake env lean <generated #print axioms file>"
LEVEL_TEXT = ('Lean theorem C01_sound for every Crypto oracle, JSON codec, provider, checker state, callback and token: rc=0 with a key => token splits at its first two dots, header alg = pinned alg, and the third segment is oracle-valid under that key/alg over the raw first two segments (HMAC: textual equality via jwt_strcmp = 0 <-> equal). Cryptographic validity itself is the oracle; model tied to the code by systematic mutation of valid tokens for every key type on OpenSSL and GnuTLS against an independent EVP oracle.')
ASSUMPTIONS = F.COMMON_ASSUME + ['base64 text malleability of the signature segment (same decoded bytes) is outside C01 for public-key algorithms and counted, not alarmed (DESIGN 10.1)']
TRUSTED_BASE = F.COMMON_TRUSTED
replay = F.replay


def run(ctx, model_ok, deep=False):
    F.run_suites(ctx, model_ok, deep, [
        ("verify-sig-openssl", lambda w, p, t, r: S.verify_sig(w, p, t, r, "openssl"), S.falsify_accept,
         "per key x admissible alg: valid token + header/payload char edits, segment swap, signature truncation/extension, every single-bit flip of the decoded signature, alt alphabet/padding, re-targeting to every other key/alg and to HMAC under public/empty key; distinct = distinct (answer, mutation class, key, alg)", False),
        ("verify-sig-gnutls", lambda w, p, t, r: S.verify_sig(w, p, t, r, "gnutls"), S.falsify_accept,
         "same mutation set under the GnuTLS provider", False),
        ("alg-matrix-sample", 150 if not (ctx.tier == "thorough" or deep) else None, S.falsify_accept,
         "sample of the C02 matrix cells (all cells in thorough)", False),
    ])
