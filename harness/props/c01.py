"""C01 -- no token accepted without a valid signature: theorems + verify-sig mutation suite on both providers + matrix sample."""
import keys as K
import suites as S
from props import _family as F

PROOF_MODULES = ['Jwt.Props.C01', 'Jwt.Props.C05Ec']
PROP_MODULES = ['Jwt.Props.C01', 'Jwt.Props.C05Ec']
PROP_FILES = ['Jwt/Props/C01.lean', 'Jwt/Props/C05Ec.lean', 'Jwt/Lemmas/EcFrame.lean']
GENERATED_FACT_THEOREMS = 2
CHECKER_CMD = "cd lean && lake build Jwt.Props.C01 && lake env lean <generated #print axioms file>"
LEVEL_TEXT = ("Lean theorem C01_sound for every Crypto oracle, JSON codec, provider, checker state, callback and token: rc=0 with a key => token splits at its first two dots, header alg = pinned alg, and the third segment is oracle-valid under that key/alg over the raw first two segments (HMAC: textual equality via jwt_strcmp = 0 <-> equal). For ES* the provider glue's r||s handling is inside the model (Jwt/EcFrame.lean over constants regenerated from both sign-verify.c): C01_ecdsa_exact_form proves that on either provider only the algorithm's exact 2w-octet form reaches the library, as the pair of integers it denotes. Cryptographic validity itself is the oracle; model tied to the code by systematic mutation of valid tokens for every key type on OpenSSL and GnuTLS against an independent EVP oracle.")
ASSUMPTIONS = F.COMMON_ASSUME + ['base64 text malleability of the signature segment (same decoded bytes) is outside C01 for public-key algorithms and counted, not alarmed (DESIGN 10.1)']
TRUSTED_BASE = F.COMMON_TRUSTED
replay = F.replay


def run(ctx, model_ok, deep=False):
    import ecframe
    ecframe.run(ctx, model_ok, deep)
    F.run_suites(ctx, model_ok, deep, [
        ("header-history", S.header_history_suite, S.falsify_accept,
         "a genuine token, then on the same checker (or another one of the thread) a token whose header has the same length and the same first k base64url characters but names another algorithm / none / no algorithm of the library, or is the first header with characters appended, signed correctly over its own text; then the genuine token again; k and the header length on both sides of 16...4096 and of every size new in the source; HS256 and RS256", False),
        ("programs", S.programs_suite, S.falsify_programs,
         "110 (quick) / 1500 (thorough) random programs of 55-70 API calls over 3 checkers, 3 builders, every pool key (with/without alg attribute, private/public), callbacks, clocks and both providers; every answer compared with the model; 60% of the verifies and generates are asked of a fresh twin configured by the same calls first", False),
        ("verify-sig-openssl", lambda w, p, t, r: S.verify_sig(w, p, t, r, "openssl"), S.falsify_accept,
         "per key x admissible alg: valid token + header/payload char edits, segment swap, signature truncation/extension, every single-bit flip of the decoded signature, alt alphabet/padding, re-targeting to every other key/alg and to HMAC under public/empty key; distinct = distinct (answer, mutation class, key, alg)", False),
        ("verify-sig-gnutls", lambda w, p, t, r: S.verify_sig(w, p, t, r, "gnutls"), S.falsify_accept,
         "same mutation set under the GnuTLS provider", False),
        ("key-lifecycle", S.key_lifecycle_suite, S.falsify_accept,
         "per key type and provider: one keyring slot loaded, used, freed and re-loaded 6 (quick) / 12 (thorough) times with two keys of the same type and size in turn; after every re-load the retired key's token must fail and the current key's must verify", False),
        ("alg-matrix-sample", 150 if not (ctx.tier == "thorough" or deep) else None, S.falsify_accept,
         "sample of the C02 matrix cells (all cells in thorough)", False),
    ])
