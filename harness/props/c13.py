"""C13 -- verdict depends only on configuration, token and clock (checker side)."""
import keys as K
import suites as S
from props import _family as F

PROOF_MODULES = ['Jwt.Props.C13']
PROP_MODULES = ['Jwt.Props.C13']
PROP_FILES = ['Jwt/Props/C13.lean']
GENERATED_FACT_THEOREMS = 3
CHECKER_CMD = "cd lean && lake build Jwt.Props.C13 && lake env lean <generated #print axioms file>"
LEVEL_TEXT = ("Lean theorems: one call's return value is independent of the prior error state and leaves the configuration unchanged; by induction over any history of verify/error_clear calls every verdict equals a fresh identically configured checker's; the same for generate on builders (token and configuration). Tied to the code by exhaustive call sequences over an 11-token alphabet + error_clear, each verdict compared with a fresh checker's on the real library.")
ASSUMPTIONS = F.COMMON_ASSUME + []
TRUSTED_BASE = F.COMMON_TRUSTED
replay = F.replay


def run(ctx, model_ok, deep=False):
    F.run_suites(ctx, model_ok, deep, [
        ("reuse", S.reuse_suite, S.falsify_reuse,
         "all sequences of length 1-2 and 500 of length 3 (quick) / all to length 4 (thorough) over {valid, badsig, expired, nodot, onedot, badhdr, noalg, badpay, unsigned, NULL, empty, error_clear}, plus random sequences of length 5-60; reference = same token on a fresh checker", False),
        ("key-lifecycle", S.key_lifecycle_suite, S.falsify_accept,
         "per key type and provider: one keyring slot loaded, used, freed and re-loaded 6 (quick) / 12 (thorough) times with two keys of the same type and size in turn; after every re-load the retired key's token must fail and the current key's must verify", False),
        ("header-history", S.header_history_suite, S.falsify_accept,
         "a genuine token, then on the same checker (or another one of the thread) a token whose header has the same length and the same first k base64url characters but names another algorithm / none / no algorithm of the library, or is the first header with characters appended, signed correctly over its own text; then the genuine token again; k and the header length on both sides of 16...4096 and of every size new in the source; HS256 and RS256", False),
        ("programs", S.programs_suite, S.falsify_programs,
         "110 (quick) / 1500 (thorough) random programs of 55-70 API calls over 3 checkers, 3 builders, every pool key (with/without alg attribute, private/public), callbacks, clocks and both providers; every answer compared with the model; 60% of the verifies and generates are asked of a fresh twin configured by the same calls first", False),
        ("builder-reuse", S.builder_reuse_suite, S.falsify_builder_reuse,
         "all sequences to length 3 (quick) / 4 (thorough) over {ok, callback fails, weak key, callback selects inadmissible key/alg, unsigned, error_clear} + random longer ones; each generate compared with a fresh identically configured builder", False),
    ])
