"""C05 -- every generated token verifies and delivers the same header and claims."""
import keys as K
import suites as S
from props import _family as F

PROOF_MODULES = ['Jwt.Props.C05', 'Jwt.Props.C05Ec']
PROP_MODULES = ['Jwt.Props.C05', 'Jwt.Props.C05Ec']
PROP_FILES = ['Jwt/Props/C05.lean', 'Jwt/Props/C05Ec.lean', 'Jwt/Lemmas/EcFrame.lean']
GENERATED_FACT_THEOREMS = 1
CHECKER_CMD = "cd lean && lake build Jwt.Props.C05 && lake env lean <generated #print axioms file>"
LEVEL_TEXT = ("Lean theorem C05_roundtrip: for every builder/callback/token, under explicit laws of the delegated parts (jansson load(dump t)=t for the two objects, non-empty MAC/signature, the primitive's own sign->verify law, possibly across providers), the generated token is accepted by a checker holding the corresponding key and pinned alg, and the header/claims it parses are exactly the per-token objects (builder content + typ/alg + iat/nbf/exp per C10). Proved from C11 (decode(encode x)=x, URL alphabet has no dot), exact alg naming/parsing over generated tables, pinning, gates, jwt_strcmp = 0 <-> equal. The ECDSA r||s framing inside both providers' glue is modelled literally (Jwt/EcFrame.lean, constants regenerated from the two sign-verify.c) and proved for every pair of integers below the field size, every leading-zero pattern and all four provider pairs (C05_frame, C05_unframe_len, C05_unframe_frame, C05_ecdsa_law, C05_roundtrip_ecdsa: the law left assumed for ES* is about the mathematical pair (r,s) only); the model is tied to the glue by running the real sign/verify paths on chosen (r,s) through interposed primitives (harness/ecframe.c). Provider mathematics is sampled: every key type x admissible alg x random JSON trees x both provider pairs, plus ECDSA volume runs.")
ASSUMPTIONS = F.COMMON_ASSUME + ["PARTIAL: the sign->verify law of the OpenSSL/GnuTLS primitives (for ES*: on integer pairs), PSS parameter compatibility and the libraries' DER coding (gnutls_decode_rs_value returns INTEGER content octets, gnutls_encode_rs_value takes unsigned octets, BN_bn2bin is minimal big-endian) are assumed in the theorems and exercised by the suites"]
TRUSTED_BASE = F.COMMON_TRUSTED
replay = F.replay


def run(ctx, model_ok, deep=False):
    import ecframe
    ecframe.run(ctx, model_ok, deep)
    p384 = K.gen_key("ec", "P-384", ctx.scratch)
    F.run_suites(ctx, model_ok, deep, [
        ("ecdsa-volume", lambda w, p, t, r: S.ecdsa_volume_suite(w, p, t, r, [("p256", p.keys["p256"], "ES256"), ("p384", p384, "ES384")]), S.falsify_roundtrip,
         "2500 (quick) / 12000 (thorough) ES256 and ES384 signatures made under GnuTLS and verified under OpenSSL, a fifth as many the other way round; every token also compared with the model and its signature checked by the independent verifier; short r / s counted in oracle_answers", False),
        ("roundtrip", S.roundtrip_suite, S.falsify_roundtrip,
         "per key x admissible alg: random header/claim JSON trees (nesting<=6, unicode, 64-bit extremes, reals, empty containers, 4 KiB strings), sign under openssl|gnutls, verify under openssl|gnutls with the public half, read header+claims in the checker callback; plus ECDSA volume runs", False),
    ])
