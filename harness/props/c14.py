"""C14 -- error reporting contract (checker and value parts)."""
import keys as K
import suites as S
from props import _family as F

PROOF_MODULES = ['Jwt.Props.C14']
PROP_MODULES = ['Jwt.Props.C14']
PROP_FILES = ['Jwt/Props/C14.lean']
GENERATED_FACT_THEOREMS = 5
CHECKER_CMD = "cd lean && lake build Jwt.Props.C14 && lake env lean <generated #print axioms file>"
LEVEL_TEXT = ('Lean theorems: verify returns non-zero iff the flag is set afterwards, flag => message, success => clean, from every prior state; setkey refusal flags with message; generate returns NULL iff the flag is set with a message. Tied to the code by every failure cause x prior error state (reuse sequences) and by the C14 contract checked on every verify operation of the matrix.')
ASSUMPTIONS = F.COMMON_ASSUME + []
TRUSTED_BASE = F.COMMON_TRUSTED
replay = F.replay


def run(ctx, model_ok, deep=False):
    F.run_suites(ctx, model_ok, deep, [
        ("programs", S.programs_suite, S.falsify_programs,
         "110 (quick) / 1500 (thorough) random programs of 55-70 API calls over 3 checkers, 3 builders, every pool key (with/without alg attribute, private/public), callbacks, clocks and both providers; every answer compared with the model; 60% of the verifies and generates are asked of a fresh twin configured by the same calls first", False),
        ("errors-by-history", S.reuse_suite, S.falsify_reuse,
         "every failure cause of the token alphabet crossed with prior states reached by all short histories (fresh, flag set, set then cleared); contract rc!=0 <=> flag, flag => message, success => clean", False),
        ("alg-matrix-sample", 200 if not (ctx.tier == "thorough" or deep) else None, S.falsify_accept,
         "policy rejections, signature failures, callback-selected keys: contract checked on every verify", False),
        ("builder-errors", S.builder_reuse_suite, S.falsify_builder_reuse,
         "generate failing in the callback, on a weak key, on an inadmissible callback choice, from every prior error state: NULL <=> flag, flag => message, token => clean", False),
        ("builder-routes", S.builder_routes_suite, S.falsify_builder_routes,
         "unusable keys/algorithms on the builder (inadmissible pairs, JWT_ALG_INVAL, weak or cross-family keys, public keys) through setkey and callback routes: NULL <=> flag with message", True),
        ("callback-admission", S.callback_admission_suite, S.falsify_accept,
         "keys chosen by the callback (incl. JWKs whose use/key_ops say encryption): every refusal sets the flag and a message", False),
        ("long-inputs", S.long_inputs_suite, S.falsify_long_inputs,
         "alg header names of 1-20, 180-300, 400, 511-513, 767/768, 1000-1025, 4096, 20000 characters (bare and appended to none/HS256/RS256) on an unkeyed and a keyed checker; JWKs whose kty/crv/kid/alg member has those lengths; contract flag <=> rc, flag => message on every answer", False),
        ("setget-codes", S.setget_suite, S.falsify_setget, "return code of every header/claim set/get/del equals the code stored in the value (executor prints both) and the typed-map answer", False),
    ])
