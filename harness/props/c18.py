"""C18 -- concurrent use of separate builders/checkers over shared keys: interleaving theorem on the
model, generated footprint facts (symbol table of the built library), ThreadSanitizer stress runs."""
import json
import os
import re
import subprocess
import time

import keys as K
import lib
from props import _family as F

PROOF_MODULES = ["Jwt.Props.C18"]
PROP_MODULES = ["Jwt.Props.C18"]
PROP_FILES = ["Jwt/Props/C18.lean"]
GENERATED_FACT_THEOREMS = 2
CHECKER_CMD = "cd lean && lake build Jwt.Props.C18 && lake env lean <generated #print axioms file>"
TECHNIQUE = "Lean 4 proof (induction over interleavings) on a per-object footprint model + kernel-decided facts generated from the built library's symbol table and sources + ThreadSanitizer stress runs"
LEVEL_TEXT = ("Lean theorem: in a system whose operations are functions of read-only shared state and the caller's own object (which verify and "
              "generate are in the model) every interleaving of any number of threads gives each thread the results and final state of its "
              "sequential run (induction over the schedule), instantiated for libjwt's generate/verify. Generated facts, re-derived from the "
              "freshly built libjwt.a (nm) and the sources on every run and decided in the kernel: the writable static objects are exactly "
              "jwt_ops, jwt_ops_available, the provider tables and the allocator hooks (no function-local static, no cache), assigned only by "
              "jwt_set_crypto_ops(_t)/jwt_init/jwt_set_alloc, no write through an ops table, no cast-away const on key items. Data races of "
              "the compiled code are witnessed by ThreadSanitizer: N in {2,4,16} threads, own builder/checker each, shared keyring with every "
              "key type, both providers, random start skew; per-thread tokens/verdicts compared with the sequential run.")
ASSUMPTIONS = ["PARTIAL: data-race freedom of compiled libjwt and of OpenSSL/GnuTLS internals on shared EVP_PKEY/PEM objects is a runtime property; the model cannot exhibit a race",
               "OpenSSL, GnuTLS and jansson are not TSan-instrumented: races inside them are visible only through interceptors",
               "threads do not call jwt_set_crypto_ops/jwt_set_alloc concurrently (the property excludes it)"]
TRUSTED_BASE = ["Lean 4.33.0 kernel", "tie/extract.py gen_conc (nm on libjwt.a, assignment scan of the sources)", "harness/threads.c, ThreadSanitizer (clang/gcc runtime)"]
replay = F.replay


class _R:
    pass


def run_bounded(argv, env, limit):
    """a run that does not come back (a corrupted list walked for ever, a deadlock) is a result, not a harness failure"""
    p = subprocess.Popen(argv, stdout=subprocess.PIPE, stderr=subprocess.PIPE, text=True, env=env)
    r = _R()
    try:
        r.stdout, r.stderr = p.communicate(timeout=limit)
        r.returncode = p.returncode
    except subprocess.TimeoutExpired:
        p.kill()
        r.stdout, r.stderr = p.communicate()
        r.returncode = -9
        r.stderr = "the run did not finish within %d s (hang: endless walk of a corrupted list, or deadlock) and was killed\n" % limit + r.stderr
    return r


def run(ctx, model_ok, deep=False):
    tier = "thorough" if (ctx.tier == "thorough" or deep) else "quick"
    t0 = time.time()
    b = ctx.build + "_tsan"
    flags = "-g -O1 -fno-omit-frame-pointer -fsanitize=thread"
    for cmd in (["cmake", "-S", lib.REPO, "-B", b, "-G", "Ninja", "-DWITH_TESTS=OFF", "-DWITH_GNUTLS=ON", "-DCMAKE_BUILD_TYPE=Debug", "-DCMAKE_C_FLAGS=" + flags],
                ["ninja", "-C", b, "jwt_static"]):
        r = subprocess.run(cmd, capture_output=True, text=True)
        if r.returncode != 0:
            raise RuntimeError("tsan build failed: " + (r.stdout + r.stderr)[-1500:])
    exe = os.path.join(b, "threads")
    r = subprocess.run(["gcc"] + flags.split() + ["-DJWT_STATIC_DEFINE", "-I" + os.path.join(lib.REPO, "include"), "-I" + b,
                        os.path.join(lib.VERIF, "harness", "threads.c"), os.path.join(b, "libjwt.a"),
                        "-lssl", "-lcrypto", "-ljansson", "-lgnutls", "-lpthread", "-o", exe], capture_output=True, text=True)
    if r.returncode != 0:
        raise RuntimeError("threads harness build failed: " + r.stderr[-1500:])
    ctx.notes.append("tsan build + harness: %.1fs" % (time.time() - t0))
    # keyring: (private+alg, public) pairs for every key type
    specs = [("oct", 32, "HS256"), ("oct", 64, "HS512"), ("rsa", 2048, "RS256"), ("rsa", 2048, "PS256"), ("ec", "P-256", "ES256"),
             ("ec", "P-384", "ES384"), ("ec", "P-521", "ES512"), ("okp", "ED25519", "EdDSA"), ("okp", "ED448", "EdDSA"),
             # secp256k1: works under OpenSSL, refused under GnuTLS -- in every thread, every time, exactly as in the sequential run
             ("ec", "secp256k1", "ES256K")]
    items = []
    cache = {}
    for kind, param, alg in specs:
        key = cache.get((kind, param)) or K.gen_key(kind, param, ctx.scratch)
        cache[(kind, param)] = key
        items.append(key.jwk(private=True, alg=alg, extra={"kid": "priv-%d" % (len(items) // 2)}))
        items.append(key.jwk(private=(kind == "oct"), alg=alg, extra={"kid": "pub-%d" % (len(items) // 2)}))
    jf = os.path.join(ctx.scratch, "threads.jwks")
    json.dump({"keys": items}, open(jf, "w"))
    # (threads, rounds per cold start, cold starts): every cold start hands the threads a keyring nobody has used yet
    runs = [(2, 4, 5), (4, 2, 6), (16, 1, 4)] if tier == "quick" else [(2, 40, 10), (4, 30, 10), (16, 12, 10), (64, 2, 10)]
    env = dict(os.environ, TSAN_OPTIONS="exitcode=66:halt_on_error=0:second_deadlock_stack=1:history_size=4")
    ev, outs, samples = 0, set(), []
    for prov in ("openssl", "gnutls"):
        for n, rounds, cold in runs:
            for rep in range(1 if tier == "quick" else 2):
                if len([v for v in ctx.violations if not v["no_input"]]) >= 4:
                    continue        # enough concrete failures to report; do not sit through more hangs
                run_env = env
                first_use = (n + rep) % 4 != 2 or tier != "quick"
                if first_use and not (tier != "quick" and rep == 1):
                    # the reference results come from another process: the threads make this process's first calls
                    ref = os.path.join(ctx.scratch, "threads_%s_%d.ref" % (prov, n))
                    w = run_bounded([exe, jf, str(n), str(rounds), prov, str(ctx.seed + rep), str(cold)], dict(env, THREADS_REF=ref, THREADS_REF_WRITE="1"), 120)
                    if w.returncode == 0 and os.path.exists(ref):
                        run_env = dict(env, THREADS_REF=ref)
                r = run_bounded([exe, jf, str(n), str(rounds), prov, str(ctx.seed + rep), str(cold)], run_env, 60 if ctx.tier == "quick" else 1500)
                ev += 1
                outs.add((prov, n, r.returncode))
                line = r.stdout.strip().splitlines()[-1] if r.stdout.strip() else ""
                if len(samples) < 4:
                    samples.append({"provider": prov, "threads": n, "rounds": rounds, "exit": r.returncode, "out": line})
                replay_lines = ["# harness/threads.c <jwks with %d keys> %d %d %s %d %d  (ThreadSanitizer build%s)" % (
                    len(items) // 2, n, rounds, prov, ctx.seed + rep, cold, "; reference results from another process, THREADS_REF" if run_env is not env else "")]
                finished = line.startswith("threads=")
                if not finished:
                    # the harness must always reach its last line; a crash (also a TSan DEADLYSIGNAL) is a result
                    ctx.violation("falsifier:threads-crash", "concurrent run did not complete (%s, %d threads, exit %d): %s" % (
                        prov, n, r.returncode, (r.stderr.strip().splitlines() or ["?"])[1 if "DEADLYSIGNAL" in r.stderr else 0][:160]),
                                  replay_lines=replay_lines, detail=r.stderr[-2500:])
                elif "mismatches=0" not in line:
                    ctx.violation("falsifier:threads-results", "per-thread results differ from the sequential run (%s, %d threads): %s" % (prov, n, line),
                                  replay_lines=replay_lines, detail=r.stderr[-1500:])
                reports = r.stderr.split("WARNING: ThreadSanitizer:")[1:]
                ours = [rep_ for rep_ in reports if re.search(r"/libjwt/|\bjwt_\w+|\bjwks_\w+", rep_)]
                if ours:
                    first = ours[0]
                    fn = re.findall(r"#\d+ (\w+) ", first)[:4]
                    ctx.violation("falsifier:tsan:%s" % (fn[0] if fn else "?"), "ThreadSanitizer report with a libjwt frame (%s, %d threads): %s" % (prov, n, " < ".join(fn)),
                                  replay_lines=replay_lines, detail=("WARNING: ThreadSanitizer:" + first)[:2500])
                elif reports:
                    ctx.notes.append("%d ThreadSanitizer report(s) without any libjwt frame under %s/%d threads (library internals): %s" % (
                        len(reports), prov, n, reports[0].splitlines()[0][:100]))
    ctx.add_suite("threads", evaluations=ev, distinct_nontrivial=len(outs) + 1,
                  rule="TSan build; N threads x cold starts (fresh, never used keyring each) x rounds x 10 (key, alg) pairs (incl. ES256K, which the GnuTLS provider must refuse in every thread as it does sequentially) x {generate, verify own, verify sequential, verify corrupted}, every second verification through a callback that looks the key up by kid in the shared keyring; both providers; start skew from rand_r; distinct = (provider, N, exit status)",
                  exhaustive=False, samples=samples)
