"""Shared runner for the checker/verify properties: each property picks suites from harness/suites.py."""
import time

import keys as K
import suites as S
import world as W

COMMON_TRUSTED = ["Lean 4.33.0 kernel", "tie/extract.py (tables, constants, defaults)",
                  "harness/exec.c, harness/world.py, harness/suites.py, harness/jsonlib.py (jansson-shaped JSON oracle), "
                  "harness/oracle.c (independent EVP verifier/signer), Python hmac/hashlib",
                  "compiled lean_exe driver runs the same definitions the theorems are about (leanc, not the kernel)"]
COMMON_ASSUME = ["cryptographic primitives (HMAC, RSA, ECDSA, EdDSA of OpenSSL/GnuTLS) enter the model as parameters; soundness theorems assume nothing about them",
                 "jansson json_loads/json_dumps enter as parameters (JsonCodec); the harness answers them with an independent Python oracle",
                 "|now|, |leeway| < 2^62 so that 64-bit time_t arithmetic does not wrap",
                 "MbedTLS/wincrypt/libcurl/kcapi code paths are not compiled in this configuration and not covered"]


def run_parallel(ctx, model_ok, name, make, falsifier, rule, exhaustive, orc, nparts=8):
    """a suite whose cells are independent: build `nparts` worlds, run them concurrently, judge each"""
    import concurrent.futures
    t = time.time()
    worlds = []
    for i in range(nparts):
        w = W.World(ctx, orc)
        metas = make(w, (i, nparts))
        worlds.append((w, metas))

    def one(wm):
        w, metas = wm
        if model_ok:
            return w.run()
        rc, eo, err = ctx.run_exec([o.ex for o in w.ops])
        crash = (len(eo), rc, err) if (rc != 0 or len(eo) != len(w.ops)) else None
        return [W.canon_exec(l) for l in eo] + ["<crash>"] * (len(w.ops) - len(eo)), None, crash
    with concurrent.futures.ThreadPoolExecutor(max_workers=nparts) as ex:
        results = list(ex.map(one, worlds))
    agg = None
    for (w, metas), (eo, do, crash) in zip(worlds, results):
        S.judge(ctx, name, w, metas, eo, do, crash, falsifier, rule, exhaustive)
        s = ctx.suites.pop()
        if agg is None:
            agg = s
        else:
            for k in ("evaluations", "distinct_nontrivial", "ops", "disagreements", "falsified", "oracle_rounds"):
                agg[k] += s[k]
            agg["samples"] = (agg["samples"] + s["samples"])[:4]
    ctx.suites.append(agg)
    ctx.notes.append("suite %s: %d ops in %d parallel parts, %.1fs" % (name, agg["ops"], nparts, time.time() - t))


def run_suites(ctx, model_ok, deep, plan):
    """plan: list of (suite_name, builder(world, pool, tier, rng) -> metas, falsifier, rule, exhaustive, pool_spec)"""
    orc = K.Oracle(K.build_oracle(ctx))
    tier = "thorough" if (ctx.tier == "thorough" or deep) else "quick"
    pool = S.KeyPool(ctx, orc, tier)
    S.falsify_jwk_import.oracle = orc
    try:
        for name, builder, falsifier, rule, exhaustive in plan:
            if name.startswith("alg-matrix"):
                sample = builder   # for the matrix the "builder" slot carries the sample size (None = all cells)
                seed_rng = __import__("random").Random(ctx.seed)
                run_parallel(ctx, model_ok, name,
                             lambda w, part: S.alg_matrix(w, pool, tier, __import__("random").Random(ctx.seed), sample=sample, part=part),
                             falsifier, rule, exhaustive and sample is None, orc)
                continue
            t = time.time()
            w = W.World(ctx, orc)
            metas = builder(w, pool, tier, ctx.rng)
            if model_ok:
                eo, do, crash = w.run()
            else:
                rc, eo, err = ctx.run_exec([o.ex for o in w.ops], w.exec_env)
                crash = (len(eo), rc, err) if (rc != 0 or len(eo) != len(w.ops)) else None
                eo = [W.canon_exec(l) for l in eo] + ["<crash>"] * (len(w.ops) - len(eo))
                do = None
            S.judge(ctx, name, w, metas, eo, do, crash, falsifier, rule, exhaustive)
            ctx.notes.append("suite %s: %d ops, %.1fs" % (name, len(w.ops), time.time() - t))
    finally:
        orc.close()


def replay(ctx, path):
    raw = [l.rstrip("\n") for l in open(path) if l.strip()]
    if "#ecframe" in raw:
        import ecframe
        return ecframe.replay(ctx, [l for l in raw if not l.startswith("#")])
    lines = [l.rstrip("\n") for l in open(path) if not l.startswith("#") and l.strip()]
    rc, eo, err = ctx.run_exec(lines, env={"EXEC_MSG": "1"})
    for l, e in zip(lines, eo):
        print("%s\n  impl: %s" % (l[:200], e))
    if rc != 0:
        print(err[-2000:])
    print("(replay shows the implementation's answers; the violated expectation is in the file's header comments)")
    return 1
