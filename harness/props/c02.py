"""C02 -- algorithm pinning (checker side): exhaustive alg-matrix + theorems."""
import suites as S
from props import _family as F

PROOF_MODULES = ["Jwt.Props.C02"]
PROP_MODULES = ["Jwt.Props.C02"]
PROP_FILES = ["Jwt/Props/C02.lean"]
GENERATED_FACT_THEOREMS = 4
CHECKER_CMD = "cd lean && lake build Jwt.Props.C02 && lake env lean <generated #print axioms file>"
LEVEL_TEXT = ("Lean theorems for every Env/callback/token: setkey admission table, accept => header alg = pinned alg, "
              "every primitive call is family- and size-matched (trace), exact alg-name parsing over generated tables; "
              "model tied to the code by the configured-alg x key x header-alg x route x signature-class matrix.")
ASSUMPTIONS = F.COMMON_ASSUME
TRUSTED_BASE = F.COMMON_TRUSTED
replay = F.replay


def run(ctx, model_ok, deep=False):
    full = ctx.tier == "thorough" or deep
    F.run_suites(ctx, model_ok, deep, [
        ("header-history", S.header_history_suite, S.falsify_accept,
         "a genuine token, then on the same checker (or another one of the thread) a token whose header has the same length and the same first k base64url characters but names another algorithm / none / no algorithm of the library, or is the first header with characters appended, signed correctly over its own text; then the genuine token again; k and the header length on both sides of 16...4096 and of every size new in the source; HS256 and RS256", False),
        ("programs", S.programs_suite, S.falsify_programs,
         "110 (quick) / 1500 (thorough) random programs of 55-70 API calls over 3 checkers, 3 builders, every pool key (with/without alg attribute, private/public), callbacks, clocks and both providers; every answer compared with the model; 60% of the verifies and generates are asked of a fresh twin configured by the same calls first", False),
        ("alg-matrix", None, S.falsify_accept,
         "cell = configured alg(16) x key(absent | kty x JWK alg attribute) x route(setkey, callback-selected, callback-overrides); "
         "per cell 23 header-alg variants x 3-5 signature classes; distinct = distinct (implementation answer, cell meta)", True),
        ("builder-routes", S.builder_routes_suite, S.falsify_builder_routes,
         "builder side of the admission table: key via setkey / callback / both (same item, another item carrying its own alg), explicit alg none/equal/different, alg attribute present/absent, private/public", False),
        ("long-inputs", S.long_inputs_suite, S.falsify_long_inputs,
         "alg header names of 1-20, 180-300, 400, 511-513, 767/768, 1000-1025, 4096, 20000 characters (bare and appended to none/HS256/RS256) on an unkeyed and a keyed checker; JWKs whose kty/crv/kid/alg member has those lengths; contract flag <=> rc, flag => message on every answer", False),
    ])
