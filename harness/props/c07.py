"""C07 -- arbitrary JWK/JWKS input: no crash, and a well-formed keyring comes back."""
import keys as K
import suites as S
from props import _family as F

PROOF_MODULES = ['Jwt.Props.C07']
PROP_MODULES = ['Jwt.Props.C07']
PROP_FILES = ['Jwt/Props/C07.lean', 'Jwt/Lemmas/PipelineJwk.lean']
GENERATED_FACT_THEOREMS = 3
CHECKER_CMD = "cd lean && lake build Jwt.Props.C07 && lake env lean <generated #print axioms file>"
LEVEL_TEXT = ('Lean theorems for every JSON value and every key-material oracle: set error and no items for non-JSON, exactly one item without a keys member, exactly n items in document order for a keys array, none for a non-array keys; every item is flagged with a message or is a usable key (known kty, PEM or non-empty oct bytes), by case analysis over the member handling of all four key types with Option-tracked json_string_value; preserved by every load. Memory safety/UB/leaks of the compiled code are witnessed by ASan/UBSan/LSan runs: every member x 9 JSON types/absent/truncated/extended/flipped for every key type, non-JWK documents, keys of every type, 0-50 elements, mutated text, all five entry points incl. embedded NUL.')
ASSUMPTIONS = F.COMMON_ASSUME + ['PARTIAL: memory safety, UB and leaks of compiled libjwt/jansson/OpenSSL on these inputs are witnessed by sanitizers, not proved', 'EVP_PKEY_fromdata / PEM export acceptance of key material is a parameter (KeyOracle), answered in the harness by an independent OpenSSL caller']
TRUSTED_BASE = F.COMMON_TRUSTED
replay = F.replay


def run(ctx, model_ok, deep=False):
    F.run_suites(ctx, model_ok, deep, [
        ("long-inputs", S.long_inputs_suite, S.falsify_long_inputs,
         "alg header names of 1-20, 180-300, 400, 511-513, 767/768, 1000-1025, 4096, 20000 characters (bare and appended to none/HS256/RS256) on an unkeyed and a keyed checker; JWKs whose kty/crv/kid/alg member has those lengths; contract flag <=> rc, flag => message on every answer", False),
        ("jwk-shapes", S.jwk_shapes_suite, S.falsify_jwk_shapes,
         "per key type (oct, RSA, P-256, Ed25519; more in thorough) private and public: each member absent / null / int / real / bool / array / object / empty / non-base64 / 1 char / truncated / extended / first char flipped (+ random pairs in thorough); 30 non-JWK documents; keys of 11 types and 0-50 elements; 300 (quick) / 3000 (thorough) byte-mutated texts; entry points load/strn/create/fromfile/fromfp with good, bad, NUL-containing and set input", False),
    ])
