"""C20 -- command-line tools: theorems over generated option tables / exit arithmetic / export width,
and the built tools run as processes (suite `cli`)."""
import base64
import glob
import json
import os
import subprocess
import tempfile

import jsonlib
import keys as K
import suites as S
from lib import hx
from props import _family as F

PROOF_MODULES = ["Jwt.Props.C20"]
PROP_MODULES = ["Jwt.Props.C20"]
PROP_FILES = ["Jwt/Props/C20.lean"]
GENERATED_FACT_THEOREMS = 3
CHECKER_CMD = "cd lean && lake build Jwt.Props.C20 && lake env lean <generated #print axioms file>"
TECHNIQUE = "Lean 4 proof over facts generated from tools/*.c (exit expression, getopt tables, usage text, EC export path) + running the built tools"
LEVEL_TEXT = ("Lean theorems over facts regenerated from tools/*.c on every run: jwt-verify's exit status is 0 iff no token failed, for every "
              "count (the exit expression is translated from main); every documented option's short form is in the getopt string and takes "
              "an argument iff the usage text and the long-option table say so (all four tools); the padded export of EC x/y/d has exactly "
              "the coordinate width for every value below the field size and denotes the same number as the minimal form. Process behaviour is "
              "exercised on the tools built from the working tree: token lists of 0..512 good/bad tokens as arguments and on stdin, every "
              "documented option in both spellings, generate->verify round trips per key type, key2jwk/jwk2key on fresh keys of every type "
              "with EC keys drawn until leading-zero coordinates occur.")
ASSUMPTIONS = ["PARTIAL: exec/pipes/file writing and the tools' glue around the library are exercised, not modelled", "--print piping is covered for jwt-generate only (what reaches stdout), not for jwt-verify",
               "bats is not installed, so the repository's own CLI tests are not part of any baseline here"]
TRUSTED_BASE = ["Lean 4.33.0 kernel", "tie/extract.py (optstr, long-option tables, usage lines, exit expression, EC export calls)",
                "harness/props/c20.py (process runs), harness/keys.py (independent DER/JWK), harness/oracle.c"]
replay = F.replay
ENV = dict(os.environ, ASAN_OPTIONS="detect_leaks=0", UBSAN_OPTIONS="halt_on_error=1:exitcode=87")


def tool(ctx, name, args, stdin=None):
    r = subprocess.run([os.path.join(ctx.build, "tools", name)] + args, input=stdin, capture_output=True, env=ENV, timeout=120)
    return r.returncode, r.stdout, r.stderr


def b64d(s):
    return base64.urlsafe_b64decode(s + "=" * (-len(s) % 4))


def run(ctx, model_ok, deep=False):
    tier = "thorough" if (ctx.tier == "thorough" or deep) else "quick"
    orc = K.Oracle(K.build_oracle(ctx))
    pool = S.KeyPool(ctx, orc, tier)
    d = tempfile.mkdtemp(dir=ctx.scratch)
    ev, distinct, samples = 0, set(), []

    def V(key, what, lines=None, detail=""):
        ctx.violation(key, what, replay_lines=lines or ["# " + what], detail=detail)
    try:
        # ---------------- exit status of jwt-verify -------------------------------------------------
        oct_ = pool.keys["oct32"]
        kf = os.path.join(d, "oct.json")
        json.dump(oct_.jwk(alg="HS256"), open(kf, "w"))
        msg = S.seg({"alg": "HS256"}) + b"." + S.seg({"sub": "cli"})
        good = (msg + b"." + pool.sign("oct32", "HS256", msg)).decode()
        bad = good[:-2] + ("AA" if not good.endswith("AA") else "BB")
        counts = [(0, 1), (0, 3), (1, 0), (1, 2), (2, 0), (3, 1), (255, 0), (255, 1), (256, 0), (256, 2), (257, 0), (512, 0), (512, 1)]
        if tier == "thorough":
            counts += [(768, 0), (1024, 3), (100, 100)]
        for nbad, ngood in counts:
            toks = [bad] * nbad + [good] * ngood
            ctx.rng.shuffle(toks)
            for mode in ("args", "stdin"):
                if mode == "args":
                    rc, out, err = tool(ctx, "jwt-verify", ["-q", "-k", kf] + toks)
                else:
                    rc, out, err = tool(ctx, "jwt-verify", ["-q", "-k", kf, "-"], stdin=("\n".join(toks) + "\n").encode())
                ev += 1
                distinct.add(("exit", nbad > 0, rc, mode))
                want_zero = nbad == 0
                if (rc == 0) != want_zero:
                    V("falsifier:cli-exit", "jwt-verify given %d failing and %d good tokens (%s) exited with status %d" % (nbad, ngood, mode, rc),
                      ["# jwt-verify -q -k oct.json " + ("<%d bad, %d good tokens>" % (nbad, ngood))])
                if model_ok:
                    m = ctx.run_driver(["clistatus %d" % nbad])[0]
                    if str(rc) != m:
                        ctx.violation("correspondence:cli-exit", "exit status %d for %d failures, model says %s" % (rc, nbad, m), no_input=True)
                if len(samples) < 3:
                    samples.append({"tool": "jwt-verify", "bad": nbad, "good": ngood, "mode": mode, "status": rc})
        # ---------------- a failing token among the arguments fails the run, whatever else is on the command line or on stdin ----
        for argv_, stdin_ in (([bad, "-"], good), ([good, bad, "-"], good), ([bad, "-", good], good), ([bad, good, "-"], good + "\n" + good)):      # a leading "-" means "read stdin" (the rest is then not looked at: usage text)
            rc, out, err = tool(ctx, "jwt-verify", ["-q", "-k", kf] + argv_, stdin=(stdin_ + "\n").encode())
            ev += 1
            distinct.add(("mixed", tuple("b" if a_ == bad else ("g" if a_ == good else a_) for a_ in argv_), rc == 0))
            if rc == 0:
                V("falsifier:cli-exit", "jwt-verify given a failing token among its arguments (%s, good tokens on stdin) exited with status 0" % (
                    " ".join("BAD" if a_ == bad else ("GOOD" if a_ == good else a_) for a_ in argv_)),
                  ["# jwt-verify -q -k oct.json " + " ".join("BAD" if a_ == bad else ("GOOD" if a_ == good else a_) for a_ in argv_) + "  < good tokens"])
        # ---------------- token length: arguments and standard input must agree -----------------------
        for size in ((100, 4000, 8150, 8185, 8200, 12000, 16384, 70000) if tier == "quick" else (100, 1000, 4000, 8100, 8150, 8180, 8185, 8190, 8195, 8200, 9000, 12000, 16384, 32768, 70000, 300000)):
            m2 = S.seg({"alg": "HS256"}) + b"." + S.seg({"sub": "cli", "pad": "x" * size})
            lgood = (m2 + b"." + pool.sign("oct32", "HS256", m2)).decode()
            lbad = lgood[:-2] + ("AA" if not lgood.endswith("AA") else "BB")
            lforged = (m2 + b"." + S.hs_sig(1, b"not-the-key-not-the-key-not-the-key", m2)).decode()
            for toks, nbad in (([lgood], 0), ([lbad], 1), ([lforged], 1), ([good, lgood, good], 0), ([good, lbad, good], 1), ([lgood, lforged, lgood, bad], 2)):
                for mode in ("args", "stdin", "stdin-no-final-newline"):
                    if mode == "args":
                        if sum(len(t) for t in toks) > 120000:
                            continue
                        rc, out, err = tool(ctx, "jwt-verify", ["-q", "-k", kf] + toks)
                    else:
                        rc, out, err = tool(ctx, "jwt-verify", ["-q", "-k", kf, "-"], stdin=("\n".join(toks) + ("\n" if mode == "stdin" else "")).encode())
                    ev += 1
                    distinct.add(("len", size > 8000, nbad, rc == 0, mode))
                    if (rc == 0) != (nbad == 0):
                        V("falsifier:cli-exit", "jwt-verify given %d failing and %d good tokens, one of them %d characters long (%s), exited with status %d" % (
                            nbad, len(toks) - nbad, len(lgood), mode, rc), ["# jwt-verify -q -k oct.json " + ("- < tokens" if mode != "args" else "<tokens>"),
                                                                          "# token lengths: " + " ".join(str(len(t)) for t in toks)])
        # ---------------- neighbours: each token is judged on its own text, whatever came before it ------
        # consecutive tokens that agree in their first k characters and differ afterwards (a damaged signature tail,
        # a changed character right after position k), in every order, k on both sides of the usual buffer sizes
        for k in S.sizes([100, 200, 300, 600, 700] + S.STD_SIZES + ([8191, 8192, 8193] if tier == "thorough" else []), lo=100, hi=20000):
            padn = max(0, ((k + 45 - 43 - 21) * 3 // 4) - 24)
            m3 = S.seg({"alg": "HS256"}) + b"." + S.seg({"sub": "cli", "pad": "y" * padn})
            g = (m3 + b"." + pool.sign("oct32", "HS256", m3)).decode()
            if len(g) <= k + 2:
                continue
            flip = lambda t, i: t[:i] + ("A" if t[i] != "A" else "B") + t[i + 1:]
            b_tail, b_mid = flip(g, len(g) - 2), flip(g, k + 1)
            for toks, nbad in (([g, b_tail], 1), ([b_tail, g], 1), ([g, b_mid, g], 1), ([b_mid, b_tail, g, g, b_tail], 3), ([g, g, b_tail, b_tail, g], 2)):
                for mode in ("args", "stdin"):
                    if mode == "args":
                        rc, out, err = tool(ctx, "jwt-verify", ["-q", "-k", kf] + toks)
                    else:
                        rc, out, err = tool(ctx, "jwt-verify", ["-q", "-k", kf, "-"], stdin=("\n".join(toks) + "\n").encode())
                    ev += 1
                    distinct.add(("neigh", k > 500, nbad, rc, mode))
                    want = ctx.run_driver(["clistatus %d" % nbad])[0] if model_ok else None
                    if ((rc == 0) != (nbad == 0) or (want is not None and str(rc) != want)) and len(ctx.violations) < 6:
                        V("falsifier:cli-exit", "jwt-verify given %d tokens of %d characters that agree in their first %d characters, %d of them damaged further on (%s), exited with status %d" % (
                            len(toks), len(g), k + 1, nbad, mode, rc), ["# jwt-verify -q -k oct.json " + ("- < tokens" if mode != "args" else "<tokens>"),
                                                                        "# order (g = genuine, b = damaged after character %d): %s" % (k + 1, " ".join("g" if t == g else "b" for t in toks))] + toks)
        # ---------------- option spellings ----------------------------------------------------------
        kf_noalg = os.path.join(d, "oct_noalg.json")
        json.dump(oct_.jwk(), open(kf_noalg, "w"))
        pairs = [
            ("jwt-verify", ["-q", "-k", kf, good], ["--quiet", "--key=" + kf, good], 0),
            ("jwt-verify", ["-q", "-k", kf_noalg, "-a", "HS256", good], ["--quiet", "--key", kf_noalg, "--algorithm=HS256", good], 0),
            ("jwt-verify", ["-q", "-a", "HS256", "-k", kf_noalg, bad], ["--quiet", "--algorithm", "HS256", "--key=" + kf_noalg, bad], 1),
            ("jwt-verify", ["-v", "-k", kf, good], ["--verbose", "--key=" + kf, good], 0),
            ("jwt-verify", ["-l"], ["--list"], 0), ("jwt-verify", ["-h"], ["--help"], 0),
            ("jwt-generate", ["-l"], ["--list"], 0), ("jwt-generate", ["-h"], ["--help"], 0),
            ("key2jwk", ["-l"], ["--list"], 0), ("key2jwk", ["-h"], ["--help"], 0), ("jwk2key", ["-h"], ["--help"], 0),
        ]
        for name, short, long_, want in pairs:
            r1, r2 = tool(ctx, name, short), tool(ctx, name, long_)
            ev += 1
            distinct.add(("opts", name, tuple(short[:2]), r1[0]))
            if r1[0] != want or r2[0] != want or r1[1] != r2[1]:
                V("falsifier:cli-opts", "%s: short spelling %s -> status %d, long spelling %s -> status %d (expected %d, same output=%s)" % (
                    name, short[:5], r1[0], long_[:5], r2[0], want, r1[1] == r2[1]), ["# %s %s" % (name, " ".join(short))[:300]],
                  detail=(r1[2] + r2[2]).decode("latin-1")[-600:])
        # ---------------- -a ALG with key files that carry no alg: every algorithm name, exactly ------
        extra = dict(pool.keys)
        if "k256" not in extra:
            extra["k256"] = K.gen_key("ec", "secp256k1", ctx.scratch)
        for kname, key in extra.items():
            kfile = os.path.join(d, kname + "_noalg.json")
            json.dump(key.jwk(private=True), open(kfile, "w"))
            pfile = os.path.join(d, kname + "_noalg_pub.json")
            json.dump(key.jwk(private=(key.kind == "oct")), open(pfile, "w"))
            for alg in key.admissible_algs():
                for gargs in (["-q", "-n", "-a", alg, "-k", kfile, "-c", "s:sub=a"], ["--quiet", "--no-iat", "--algorithm=" + alg, "--key=" + kfile, "--claim=s:sub=a"]):
                    rc, out, err = tool(ctx, "jwt-generate", gargs)
                    tok = out.decode().strip().split("\n")[-1] if out else ""
                    ev += 1
                    distinct.add(("gen-a", kname, alg, rc))
                    if rc != 0 or tok.count(".") != 2:
                        V("falsifier:cli-generate", "jwt-generate %s with %s failed (status %d)" % (gargs[2:4], kname, rc), detail=err.decode("latin-1")[-400:])
                        continue
                    try:
                        halg = json.loads(b64d(tok.split(".")[0])).get("alg")
                    except Exception:
                        halg = None
                    rc2, _, err2 = tool(ctx, "jwt-verify", ["-q", "-a", alg, "-k", pfile, tok])
                    if rc2 != 0:
                        V("falsifier:cli-roundtrip", "token from jwt-generate -a %s (%s; its header says alg=%s) is rejected by jwt-verify -a %s with the same key (status %d)" % (alg, kname, halg, alg, rc2),
                          ["# jwt-generate -a %s | jwt-verify -a %s (key %s without alg member)" % (alg, alg, kname)], detail=err2.decode("latin-1")[-400:])
        # ---------------- key files that are JWK Sets: both tools take the same key from the same file ----
        for kname, key in list(pool.keys.items()):
            if key.kind == "oct":
                other = K.Key("oct", k=os.urandom(len(key.k)), bits=key.bits)
            else:
                param = {"rsa": key.bits, "rsapss": key.bits}.get(key.kind) or {"Ed25519": "ED25519", "Ed448": "ED448"}.get(key.crv, key.crv)
                other = K.gen_key(key.kind, param, ctx.scratch)
            alg = key.admissible_algs()[0]
            layouts = [("first-plain,second-pinned", [key.jwk(private=True), other.jwk(private=True, alg=alg)]),
                       ("first-pinned,second-plain", [key.jwk(private=True, alg=alg), other.jwk(private=True)]),
                       ("both-pinned-differently", [key.jwk(private=True, alg=alg), other.jwk(private=True, alg=key.admissible_algs()[-1])])]
            for lname, ks in layouts:
                sfile = os.path.join(d, "%s_%s_set.json" % (kname, lname.replace(",", "_")))
                json.dump({"keys": ks}, open(sfile, "w"))
                for use_a in (True, False):
                    if not use_a and "alg" not in ks[0]:
                        continue
                    ga = ["-q", "-n", "-k", sfile, "-c", "s:sub=set"] + (["-a", alg] if use_a else [])
                    rc, out, err = tool(ctx, "jwt-generate", ga)
                    tok = out.decode().strip().split("\n")[-1] if out else ""
                    ev += 1
                    distinct.add(("set", kname, lname, use_a, rc))
                    if rc != 0 or tok.count(".") != 2:
                        continue        # a key file the generator does not take is not a round-trip failure
                    rc2, _, err2 = tool(ctx, "jwt-verify", ["-q", "-k", sfile] + (["-a", alg] if use_a else []) + [tok])
                    if rc2 != 0:
                        V("falsifier:cli-roundtrip", "jwt-generate%s -k <JWK Set: %s> (%s) printed a token that jwt-verify rejects with the same file and options (status %d)" % (
                            " -a " + alg if use_a else "", lname, kname, rc2), ["# key file: a JWK Set of two %s keys, %s" % (key.kind, lname)],
                          detail=err2.decode("latin-1")[-400:])
        # ---------------- generate -> verify round trips per key type --------------------------------
        for kname, key in pool.keys.items():
            alg = key.admissible_algs()[0]
            kfile = os.path.join(d, kname + ".json")
            json.dump(key.jwk(private=True, alg=alg), open(kfile, "w"))
            pfile = os.path.join(d, kname + "_pub.json")
            json.dump(key.jwk(private=(key.kind == "oct"), alg=alg), open(pfile, "w"))
            variants = [(["-q", "-k", kfile, "-c", "s:sub=cli", "-c", "i:n=5", "-n"], ["--quiet", "--key=" + kfile, "--claim=s:sub=cli", "--claim", "i:n=5", "--no-iat"]),
                        (["-q", "-k", kfile, "-j", '{"a":[1,2]}'], ["--quiet", "--key", kfile, "--json={\"a\":[1,2]}"]),
                        # integer claims of every width, among them the ones jwt-verify judges: an expiry after 2038, one at the
                        # far end of time_t, a not-before long past
                        (["-q", "-k", kfile, "-c", "i:exp=4102444800", "-c", "i:n=2147483648"], ["--quiet", "--key=" + kfile, "--claim=i:exp=4102444800", "--claim", "i:n=2147483648"]),
                        (["-q", "-k", kfile, "-c", "i:exp=%d" % (2 ** 62), "-c", "i:nbf=-4294967297", "-c", "i:n=9007199254740993"],
                         ["--quiet", "--key=" + kfile, "--claim=i:exp=%d" % (2 ** 62), "--claim=i:nbf=-4294967297", "--claim=i:n=9007199254740993"])]
            for short, long_ in variants:
                for args in (short, long_):
                    rc, out, err = tool(ctx, "jwt-generate", args)
                    tok = out.decode().strip().split("\n")[-1] if out else ""
                    ev += 1
                    distinct.add(("gen", kname, args[0]))
                    if rc != 0 or tok.count(".") != 2:
                        V("falsifier:cli-generate", "jwt-generate %s failed for %s (status %d)" % (args[:3], kname, rc), detail=err.decode("latin-1")[-400:])
                        continue
                    for vargs in (["-q", "-k", pfile, tok], ["--quiet", "--key=" + pfile, tok]):
                        rc2, _, err2 = tool(ctx, "jwt-verify", vargs)
                        if rc2 != 0:
                            V("falsifier:cli-roundtrip", "token from jwt-generate (%s, %s) is rejected by jwt-verify with the same key (status %d)" % (kname, alg, rc2),
                              detail=err2.decode("latin-1")[-400:])
        # ---------------- --print: what the print command writes never lands among the tokens ------------------
        # `jwt-generate -v -p CMD` pipes header and payload through CMD for display; stdout still carries the token and nothing
        # a verifier reading it line by line would take for a bad token -- whatever shape CMD has (a compound shell command too)
        kfile = os.path.join(d, "oct32.json")
        for cmd_ in ("cat", "cat && true", "cat; echo", "cat | cat", "true"):
            for gargs in (["-v", "-p", cmd_, "-k", kfile, "-c", "s:sub=print"], ["--verbose", "--print=" + cmd_, "--key=" + kfile, "--claim=s:sub=print"]):
                if not os.path.exists(kfile):
                    continue
                rc, out, err = tool(ctx, "jwt-generate", gargs)
                ev += 1
                distinct.add(("print", cmd_, gargs[0], rc))
                toks_ = [l for l in out.decode("latin-1").split("\n") if l.count(".") == 2 and l.startswith("ey")]
                rc2, _, err2 = tool(ctx, "jwt-verify", ["-q", "-k", kfile, "-"], stdin=out) if rc == 0 else (99, b"", b"")
                if rc != 0 or len(toks_) != 1 or rc2 != 0:
                    V("falsifier:cli-print", "jwt-generate %s --print=%r: status %d, %d token line(s) on stdout, and jwt-verify reading that stdout exits with %d" % (
                        gargs[0], cmd_, rc, len(toks_), rc2), ["# jwt-generate %s | jwt-verify -q -k oct32.json -" % " ".join(gargs[:3])], detail=out.decode("latin-1")[:400])
        # ---------------- key2jwk: the same key in every legal PEM dress ------------------------------
        def dress(pem, how, key, private):
            if how == "bag-attributes":
                return b"Bag Attributes\n    friendlyName: test\n    localKeyID: 01 02 03\nKey Attributes: <No Attributes>\n" + pem
            if how == "blank-and-comment":
                return b"\n\n# exported by some tool\n" + pem
            if how == "crlf":
                return pem.replace(b"\n", b"\r\n")
            if how == "trailing-text":
                return pem + b"\nsome trailing remark\n"
            if how == "traditional":
                src_ = os.path.join(d, "trad_in.pem")
                open(src_, "wb").write(pem)
                r_ = subprocess.run(["openssl", "pkey", "-in", src_, "-traditional"] + ([] if private else ["-pubin", "-pubout"]), capture_output=True)
                return r_.stdout if r_.returncode == 0 and r_.stdout else None
            if how == "ecparam-first":
                if key.kind != "ec" or not private:
                    return None
                src_ = os.path.join(d, "trad_in.pem")
                open(src_, "wb").write(pem)
                crv = {"P-256": "prime256v1", "P-384": "secp384r1", "P-521": "secp521r1", "secp256k1": "secp256k1"}[key.crv]
                p1 = subprocess.run(["openssl", "ecparam", "-name", crv], capture_output=True).stdout
                p2 = subprocess.run(["openssl", "pkey", "-in", src_, "-traditional"], capture_output=True).stdout
                return (p1 + p2) if p1 and p2 else None
            return pem
        dkeys = [(("rsa", 2048), K.gen_key("rsa", 2048, ctx.scratch)), (("ec", "P-384"), K.gen_key("ec", "P-384", ctx.scratch)),
                 (("okp", "ED25519"), K.gen_key("okp", "ED25519", ctx.scratch))]
        for spec, key in dkeys:
            for private in (True, False):
                want = key.jwk(private=private)
                for how in ("plain", "bag-attributes", "blank-and-comment", "crlf", "trailing-text", "traditional", "ecparam-first"):
                    data = dress(key.pem(private), how, key, private)
                    if not data:
                        continue
                    # only dresses OpenSSL itself reads as this key are put to the tool
                    chk = os.path.join(d, "dress_chk.pem")
                    open(chk, "wb").write(data)
                    if subprocess.run(["openssl", "pkey", "-in", chk, "-noout"] + ([] if private else ["-pubin"]), capture_output=True).returncode != 0:
                        continue
                    rc, out, err = tool(ctx, "key2jwk", ["-q", "-o", "-", chk])
                    ev += 1
                    distinct.add(("key2jwk-dress", spec, private, how, rc))
                    ok, tree = jsonlib.loads(out)
                    jwk = tree["keys"][0] if ok and isinstance(tree, dict) and isinstance(tree.get("keys"), list) and len(tree["keys"]) == 1 else None
                    bad = None
                    if rc != 0 or jwk is None:
                        bad = "fails (status %d)" % rc
                    elif jwk.get("kty") != want["kty"]:
                        bad = "emits a JWK of kty %s" % jwk.get("kty")
                    else:
                        for mname, wv in want.items():
                            if mname in ("kty", "crv") or (key.kind == "okp" and mname == "x" and private):
                                continue
                            gv = jwk.get(mname)
                            if not isinstance(gv, str) or int.from_bytes(b64d(gv), "big") != int.from_bytes(b64d(wv), "big"):
                                bad = "emits a JWK whose member %s does not denote the key's value" % mname
                    if bad:
                        V("falsifier:cli-key2jwk", "key2jwk on a %s %s key in PEM dress '%s' (which openssl reads as that key) %s" % (
                            spec, "private" if private else "public", how, bad), ["# key2jwk -q -o - <%s key, %s>" % (spec, how)], detail=err.decode("latin-1")[-300:])
        # ---------------- key2jwk / jwk2key ---------------------------------------------------------
        specs = [("rsa", 2048), ("rsapss", 2048), ("ec", "P-384"), ("ec", "P-521"), ("ec", "secp256k1"), ("okp", "ED25519"), ("okp", "ED448")]
        conv = [(s_, K.gen_key(*s_, workdir=ctx.scratch)) for s_ in specs]
        # EC P-256 keys until a coordinate or private value with a leading zero octet has occurred
        lead0, n_ec, cap = 0, 0, (900 if tier == "thorough" else 500)
        want_lead = 6 if tier == "thorough" else 1
        while n_ec < cap and (lead0 < want_lead or n_ec < (600 if tier == "thorough" else 40)):
            k = K.gen_key("ec", "P-256", workdir=ctx.scratch)
            n_ec += 1
            z = any(v < 256 ** (k.width - 1) for v in (k.x, k.y, k.d))
            lead0 += z
            if z or n_ec <= 3:
                conv.append((("ec", "P-256" + ("-leading-zero" if z else "")), k))
        # ... and one such key on every other curve (P-521 values have a zero or one top octet half of the time)
        for crv in ("secp256k1", "P-384", "P-521"):
            for _ in range(400 if tier == "thorough" else 260):
                k = K.gen_key("ec", crv, workdir=ctx.scratch)
                if any(v < 256 ** (k.width - 1) for v in (k.x, k.y, k.d)):
                    conv.append((("ec", crv + "-leading-zero"), k))
                    break
        conv.append((("oct", 40), K.Key("oct", k=os.urandom(40), bits=320)))
        # raw oct key files are key material byte for byte, whatever their last byte is
        for n in (32, 40, 48, 64):
            for tail in (b"\n", b"\r", b"\r\n", b" ", b"\x00", b"="):
                kb = os.urandom(n - len(tail)) + tail
                conv.append((("oct", "%d-ending-%r" % (n, tail)), K.Key("oct", k=kb, bits=8 * n)))
        for spec, key in conv:
            for private in ((True, False) if key.kind != "oct" else (True,)):
                src = os.path.join(d, "in.pem")
                open(src, "wb").write(key.k if key.kind == "oct" else key.pem(private))
                rc, out, err = tool(ctx, "key2jwk", ["-q", "-o", "-", src])
                ev += 1
                distinct.add(("key2jwk", spec, private))
                ok, tree = jsonlib.loads(out)
                if rc != 0 or not ok or not isinstance(tree.get("keys"), list) or len(tree["keys"]) != 1:
                    V("falsifier:cli-key2jwk", "key2jwk failed on a %s %s key (status %d)" % (spec, "private" if private else "public", rc), detail=err.decode("latin-1")[-400:])
                    continue
                jwk = tree["keys"][0]
                want = key.jwk(private=private)
                # same key: every key member denotes the same number / octets
                for mname, wv in want.items():
                    if mname in ("kty", "crv"):
                        same = jwk.get(mname) == wv
                    elif key.kind == "okp" and mname == "x" and private:
                        continue          # key2jwk writes only d for private OKP keys
                    else:
                        gv = jwk.get(mname)
                        same = isinstance(gv, str) and int.from_bytes(b64d(gv), "big") == int.from_bytes(b64d(wv), "big") and (
                            key.kind not in ("oct", "okp") or b64d(gv) == b64d(wv))
                    if not same:
                        V("falsifier:cli-key2jwk", "key2jwk: member %s of the JWK for a %s key does not denote the same value" % (mname, spec))
                if key.kind == "ec":
                    for mname in ("x", "y") + (("d",) if private else ()):
                        if len(b64d(jwk.get(mname, ""))) != key.width:
                            V("falsifier:cli-key2jwk-width", "key2jwk: EC member %s has %d octets, RFC 7518 wants %d (%s)" % (
                                mname, len(b64d(jwk.get(mname, ""))), key.width, spec))
                # the library imports it without error
                rc3, eo, _ = ctx.run_exec(["jwks 1 load %s strn" % hx(json.dumps(jwk).encode()), "jwks 1 item 0"])
                if len(eo) < 2 or "err=0" not in eo[1] or " err=0 " not in (" " + eo[1] + " "):
                    V("falsifier:cli-import", "the library does not import key2jwk's JWK for a %s key cleanly: %s" % (spec, eo[-1:] and eo[-1][:120]))
                # jwk2key writes back the identical key
                if key.kind == "oct":
                    jf = os.path.join(d, "conv.json")
                    open(jf, "wb").write(out)
                    od = tempfile.mkdtemp(dir=d)
                    rc4, _, err4 = tool(ctx, "jwk2key", ["-d", od, jf])
                    files = glob.glob(os.path.join(od, "*"))
                    if rc4 != 0 or len(files) != 1 or open(files[0], "rb").read() != key.k:
                        V("falsifier:cli-jwk2key", "jwk2key did not write back the bytes of the %s key file (status %d)" % (spec, rc4))
                if key.kind != "oct":
                    jf = os.path.join(d, "conv.json")
                    open(jf, "wb").write(out)
                    od = tempfile.mkdtemp(dir=d)
                    rc4, _, err4 = tool(ctx, "jwk2key", ["-d", od, jf])
                    files = glob.glob(os.path.join(od, "*"))
                    if rc4 != 0 or len(files) != 1:
                        V("falsifier:cli-jwk2key", "jwk2key failed on the JWK of a %s key (status %d, %d files)" % (spec, rc4, len(files)), detail=err4.decode("latin-1")[-300:])
                        continue
                    pem = open(files[0], "rb").read()
                    try:
                        a, b = orc.add_key(pem), orc.add_key(key.pem(private))
                        same = orc._ask("eq %d %d" % (a, b)) == "1" or key.kind == "rsapss"
                        alg = key.admissible_algs()[0]
                        if private:
                            sig = orc.sign(a, alg, b"cli")
                            same = same and sig is not None and orc.verify(orc.add_key(key.pem(False)), alg, b"cli", sig)
                        else:
                            sig = orc.sign(orc.add_key(key.pem(True)), alg, b"cli")
                            same = same and orc.verify(a, alg, b"cli", sig)
                    except RuntimeError:
                        same = False
                    if not same:
                        V("falsifier:cli-jwk2key", "jwk2key did not write back the same %s key" % (spec,))
        # ---------------- several key files in one run: each is converted as if it were alone -----------------
        files_ = []
        for fi, (kind_, param_, private) in enumerate([("oct", 32, True), ("rsa", 2048, False), ("ec", "P-256", False), ("okp", "ED25519", True), ("oct", 48, True),
                                                       ("ec", "P-384", True), ("rsa", 2048, True), ("okp", "ED448", False)]):
            key = K.Key("oct", k=os.urandom(param_), bits=8 * param_) if kind_ == "oct" else K.gen_key(kind_, param_, workdir=ctx.scratch)
            fp_ = os.path.join(d, "multi_%d.key" % fi)
            open(fp_, "wb").write(key.k if kind_ == "oct" else key.pem(private))
            rc, out, err = tool(ctx, "key2jwk", ["-q", "-o", "-", fp_])
            ok, tree = jsonlib.loads(out)
            if rc == 0 and ok and isinstance(tree.get("keys"), list) and len(tree["keys"]) == 1:
                files_.append((fp_, "%s%s" % (kind_, "" if private else "-public"), tree["keys"][0]))
        orders = [list(range(len(files_))), list(range(len(files_)))[::-1]] + [ctx.rng.sample(range(len(files_)), len(files_)) for _ in range(8 if tier == "thorough" else 4)]
        for od_ in orders:
            rc, out, err = tool(ctx, "key2jwk", ["-q", "-o", "-"] + [files_[i][0] for i in od_])
            ev += 1
            distinct.add(("key2jwk-multi", tuple(od_)[:3], rc))
            ok, tree = jsonlib.loads(out)
            got = tree.get("keys") if ok and isinstance(tree, dict) else None
            strip_ = lambda j: {k_: v_ for k_, v_ in j.items() if k_ != "kid"}
            if rc != 0 or not isinstance(got, list) or len(got) != len(od_) or any(strip_(g_) != strip_(files_[i][2]) for g_, i in zip(got, od_)):
                wrong = [files_[i][1] for n_, i in enumerate(od_) if not isinstance(got, list) or n_ >= len(got) or strip_(got[n_]) != strip_(files_[i][2])]
                V("falsifier:cli-key2jwk-multi", "key2jwk given %d key files in one run (order: %s) does not convert each as it does alone (status %d; differing: %s)" % (
                    len(od_), " ".join(files_[i][1] for i in od_), rc, ", ".join(wrong[:4])), ["# key2jwk -q -o - " + " ".join(files_[i][1] for i in od_)])
        # ---------------- a JWK Set of several keys with structured kids: jwk2key writes every key back -----------------
        stem = "urn:example:tenant-0001:service-auth:signing-key:2026-09:region-eu-west-1"     # 73 characters
        kidsets = [["primary", "secondary", "third"],
                   [stem + ".primary", stem + ".secondary", stem + ".tertiary"],               # same first 64+ characters
                   ["key:1", "key;1", "key 1", "key+1", "key_1", "key=1", "key@1", "key~1", "key,1"],   # differ in punctuation only
                   ["K" * 64 + "a", "K" * 64 + "b", "K" * 64, "K" * 63],
                   ["k" * n_ for n_ in (1, 2, 31, 32, 33, 63, 64, 65, 100, 127, 128, 129, 200)],
                   ["éa", "éb", "èa"]]
        for ks_ in kidsets:
            keys_ = [os.urandom(32) for i_ in range(len(ks_))]       # same kind and size: only the kid tells the files apart
            doc_ = {"keys": [{"kty": "oct", "kid": kid_, "k": K.b64u(kb_)} for kid_, kb_ in zip(ks_, keys_)]}
            jf = os.path.join(d, "set.json")
            open(jf, "wb").write(json.dumps(doc_).encode())
            od = tempfile.mkdtemp(dir=d)
            rc4, _, err4 = tool(ctx, "jwk2key", ["-d", od, jf])
            ev += 1
            distinct.add(("jwk2key-set", ks_[0][:8], len(ks_), rc4))
            back = sorted(open(f_, "rb").read() for f_ in glob.glob(os.path.join(od, "*")))
            if rc4 != 0 or back != sorted(keys_):
                V("falsifier:cli-jwk2key-set", "jwk2key given a JWK Set of %d oct keys with distinct kids (%s ...) wrote back %d of them (status %d)" % (
                    len(ks_), ", ".join(repr(k_[-12:]) for k_ in ks_[:3]), len([b_ for b_ in back if b_ in keys_]), rc4),
                  ["# jwk2key -d OUT set.json   with set.json = " + json.dumps(doc_)[:600]], detail=err4.decode("latin-1")[-300:])
        ctx.notes.append("EC P-256 keys drawn: %d, with a leading-zero coordinate/private value: %d" % (n_ec, lead0))
        ctx.add_suite("cli", evaluations=ev, distinct_nontrivial=len(distinct),
                      rule="jwt-verify with 0..512 failing and 0..3 good tokens as arguments and on stdin; short vs long spelling of every documented option; jwt-generate -> jwt-verify per key type; key2jwk/jwk2key on fresh keys of every type (EC P-256 drawn until leading-zero values occur); distinct = (tool, case class, status)",
                      exhaustive=False, samples=samples, ec_keys_drawn=n_ec, ec_leading_zero=lead0)
    finally:
        orc.close()
