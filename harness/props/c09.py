"""C09 -- key-strength floor (verification side): theorems + boundary-exhaustive strength suite."""
import keys as K
import suites as S
from props import _family as F

PROOF_MODULES = ['Jwt.Props.C09']
PROP_MODULES = ['Jwt.Props.C09']
PROP_FILES = ['Jwt/Props/C09.lean']
GENERATED_FACT_THEOREMS = 3
CHECKER_CMD = "cd lean && lake build Jwt.Props.C09 && lake env lean <generated #print axioms file>"
LEVEL_TEXT = ('Lean theorems for every bits:Nat: the gates pass exactly per the documented floor table; every primitive call made by verification satisfies it (trace); acceptance implies it; the gate is live at/above the floor; the same for signing (generate). Tied to the code by every oct length 1-160 x HS256/384/512 and every generated RSA/EC/OKP key x every public-key algorithm with oracle-signed tokens.')
ASSUMPTIONS = F.COMMON_ASSUME + []
TRUSTED_BASE = F.COMMON_TRUSTED
replay = F.replay


def run(ctx, model_ok, deep=False):
    extra = {"rsa1024": K.gen_key("rsa", 1024, ctx.scratch), "rsa2047": K.gen_key("rsa", 2047, ctx.scratch),
             "rsa2041": K.gen_key("rsa", 2041, ctx.scratch), "rsa2050": K.gen_key("rsa", 2050, ctx.scratch), "p384": K.gen_key("ec", "P-384", ctx.scratch),
             "p521": K.gen_key("ec", "P-521", ctx.scratch), "k256": K.gen_key("ec", "secp256k1", ctx.scratch),
             "ed448": K.gen_key("okp", "ED448", ctx.scratch), "brainpool512": K.gen_key("ec", "brainpoolP512r1", ctx.scratch)}
    if ctx.tier == "thorough" or deep:
        extra.update({"rsa512": K.gen_key("rsa", 512, ctx.scratch), "rsa2040": K.gen_key("rsa", 2040, ctx.scratch),
                      "rsa3072": K.gen_key("rsa", 3072, ctx.scratch), "rsa4096": K.gen_key("rsa", 4096, ctx.scratch)})
    F.run_suites(ctx, model_ok, deep, [
        ("strength", lambda w, p, t, r: S.strength(w, p, t, r, extra), S.falsify_accept,
         "oct keys of every length 1-160 bytes x HS256/384/512 with a correct MAC; every RSA/EC/OKP key x all 11 public-key algorithms with an oracle-made signature where the family matches; must-accept at/above the floor, must-reject below", True),
        ("generate-strength", lambda w, p, t, r: S.builder_routes_suite(w, p, t, r, dict(extra, oct16=K.Key("oct", k=b"0123456789abcdef", bits=128), oct47=K.Key("oct", k=b"x" * 47, bits=376))),
         S.falsify_builder_routes, "generate with every key (incl. RSA-1024, oct 16/47 bytes, every curve) x explicit algorithms x routes: fails below the floor or across families, signs at/above it", True),
    ])
