"""C03 -- unsigned tokens only without key and algorithm (checker side): theorems + matrix."""
import keys as K
import suites as S
from props import _family as F

PROOF_MODULES = ['Jwt.Props.C03']
PROP_MODULES = ['Jwt.Props.C03']
PROP_FILES = ['Jwt/Props/C03.lean']
GENERATED_FACT_THEOREMS = 0
CHECKER_CMD = "cd lean && lake build Jwt.Props.C03 && lake env lean <generated #print axioms file>"
LEVEL_TEXT = ('Lean theorems for every Env/callback/token: with a key in force acceptance needs a non-empty third segment and a header alg other than none; without a key only the exact four bytes none with an empty third segment and no configured alg. Builder: with a key in force after the callback generate fails or signs with the pinned algorithm, without one it emits only alg-none tokens ending in an empty segment (all callbacks). Tied to the code by the exhaustive matrix (token shapes with absent/garbage/valid signatures, alg none/None/NONE/other/missing) on setkey and callback routes, and by exhaustive builder key/alg routes.')
ASSUMPTIONS = F.COMMON_ASSUME + []
TRUSTED_BASE = F.COMMON_TRUSTED
replay = F.replay


def run(ctx, model_ok, deep=False):
    F.run_suites(ctx, model_ok, deep, [
        ("header-history", S.header_history_suite, S.falsify_accept,
         "a genuine token, then on the same checker (or another one of the thread) a token whose header has the same length and the same first k base64url characters but names another algorithm / none / no algorithm of the library, or is the first header with characters appended, signed correctly over its own text; then the genuine token again; k and the header length on both sides of 16...4096 and of every size new in the source; HS256 and RS256", False),
        ("programs", S.programs_suite, S.falsify_programs,
         "110 (quick) / 1500 (thorough) random programs of 55-70 API calls over 3 checkers, 3 builders, every pool key (with/without alg attribute, private/public), callbacks, clocks and both providers; every answer compared with the model; 60% of the verifies and generates are asked of a fresh twin configured by the same calls first", False),
        ("alg-matrix", None, S.falsify_accept,
         "all cells: configured alg x key x route; 23 header variants x signature classes incl. empty third segment", True),
        ("token-shapes", S.token_shapes, S.falsify_accept, "2, 3 and 4+ segment shapes with empty/non-empty parts under keyless and keyed checkers", True),
        ("long-inputs", S.long_inputs_suite, S.falsify_long_inputs,
         "alg header names of 1-20, 180-300, 400, 511-513, 767/768, 1000-1025, 4096, 20000 characters (bare and appended to none/HS256/RS256) on an unkeyed and a keyed checker: a name that merely starts with `none` is not `none`", False),
        ("builder-routes", S.builder_routes_suite, S.falsify_builder_routes,
         "every pool key x JWK alg attribute x private/public x explicit alg x route {setkey, callback sets key only, callback sets key and alg, setkey then callback removes key}; token decoded by an independent reader", True),
    ])
