"""C15 -- header and claim set/get/delete behave as a typed map."""
import keys as K
import suites as S
from props import _family as F

PROOF_MODULES = ['Jwt.Props.C15']
PROP_MODULES = ['Jwt.Props.C15']
PROP_FILES = ['Jwt/Props/C15.lean']
GENERATED_FACT_THEOREMS = 2
CHECKER_CMD = "cd lean && lake build Jwt.Props.C15 && lake env lean <generated #print axioms file>"
LEVEL_TEXT = ('Lean refinement of setter/getter/deleter to the abstract map Name -> Option Json: EXIST without change, overwrite/insert touching only the named member, typed get (value/NOEXIST/TYPE), delete one/all, whole-object merge (all members with replace, missing-only without) by induction over the document, INVALID refusals without change, and the invariant that the map stays a JSON object. Tied to the code by exhaustive one- and two-operation sequences (sampled for 2 in quick) over names {a,c,empty,NULL} x 16 typed values x replace on builder headers and claims and on the jwt_t inside callbacks, with a whole-object read-back after every step, judged by an independent Python typed map.')
ASSUMPTIONS = F.COMMON_ASSUME + ["names and string values outside valid UTF-8 are excluded from the theorems' hypotheses (json_string refuses them); the excluded point is exercised by the suite as an observation"]
TRUSTED_BASE = F.COMMON_TRUSTED
replay = F.replay


def run(ctx, model_ok, deep=False):
    F.run_suites(ctx, model_ok, deep, [
        ("setget", S.setget_suite, S.falsify_setget,
         "148-operation alphabet: set x {int 0/-1/2^63-1, str empty/x/NULL, bool 0/1/2, json {} / {a,c} / [1] / 1 / malformed / NULL / duplicate} x replace, get x 4 types, del, on names {a, c, empty, NULL}; all single ops, 6000 (quick) / all 21904 (thorough) pairs, random longer; same programs inside builder callbacks on the jwt_t", False),
    ])
