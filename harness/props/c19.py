"""C19 -- a verification callback cannot bend the verdict."""
import keys as K
import suites as S
from props import _family as F

PROOF_MODULES = ['Jwt.Props.C19']
PROP_MODULES = ['Jwt.Props.C19']
PROP_FILES = ['Jwt/Props/C19.lean']
GENERATED_FACT_THEOREMS = 1
CHECKER_CMD = "cd lean && lake build Jwt.Props.C19 && lake env lean <generated #print axioms file>"
LEVEL_TEXT = ('Lean theorems for every callback function: returning 0 with key/alg untouched leaves the whole outcome unchanged whatever it did to the token object; non-zero return always fails; selected (alg,key) passes the setkey table. Tied to the code by scripted callback programs (set/replace/delete/delete-all of claims and headers, whole-object JSON merge, reads) x claim-check configurations x passing/failing tokens, with vs without the callback on the real library.')
ASSUMPTIONS = F.COMMON_ASSUME + []
TRUSTED_BASE = F.COMMON_TRUSTED
replay = F.replay


def run(ctx, model_ok, deep=False):
    F.run_suites(ctx, model_ok, deep, [
        ("header-history", S.header_history_suite, S.falsify_accept,
         "a genuine token, then on the same checker (or another one of the thread) a token whose header has the same length and the same first k base64url characters but names another algorithm / none / no algorithm of the library, or is the first header with characters appended, signed correctly over its own text; then the genuine token again; k and the header length on both sides of 16...4096 and of every size new in the source; HS256 and RS256", False),
        ("programs", S.programs_suite, S.falsify_programs,
         "110 (quick) / 1500 (thorough) random programs of 55-70 API calls over 3 checkers, 3 builders, every pool key (with/without alg attribute, private/public), callbacks, clocks and both providers; every answer compared with the model; 60% of the verifies and generates are asked of a fresh twin configured by the same calls first", False),
        ("callback-admission", S.callback_admission_suite, S.falsify_accept,
         "per key x alg attribute (absent, two admissible) x algorithm left by the callback (none, four of the family, one foreign) x style (writes alg only and keeps the key setkey installed / re-installs the same item / reads the configuration first) x header alg in {attribute, callback alg, admissible}: validly signed token accepted exactly when the documented setkey table admits (alg, key) and the pinned algorithm is the header's", False),
        ("callbacks", S.callbacks_suite, S.falsify_callbacks,
         "21 single steps + 120 (quick) / all 441 (thorough) two-step programs x 5 claim-check configurations x 9 payloads x signed/unsigned x return 0/3; reference = same checker without callback", False),
        ("alg-matrix-sample", 120 if not (ctx.tier == "thorough" or deep) else None, S.falsify_accept,
         "callback-selected and callback-overridden (alg,key) pairs against the admission table", False),
    ])
