"""C11 -- base64url codec: correspondence suite `codec` + direct falsifier."""
import base64
import itertools

from lib import hx, unhx

PROOF_MODULES = ["Jwt.Props.C11"]
PROP_MODULES = ["Jwt.Props.C11", "Jwt.Lemmas.TableFacts"]
PROP_FILES = ["Jwt/Props/C11.lean", "Jwt/Lemmas/TableFacts.lean"]
CHECKER_CMD = "cd lean && lake build Jwt.Props.C11 && lake env lean <generated #print axioms file>"
LEVEL_TEXT = ("Lean 4 theorems over a literal model of base64.c / jwt_base64uri_* for byte strings of every length "
              "(round trip, RFC 4648 form, rejection, buffer bounds for every initial buffer content); tables, pad, "
              "range bounds and size macros regenerated from the source each run and re-proved; model tied to the "
              "code by exhaustive/structured differential runs of the ASan/UBSan build.")
ASSUMPTIONS = ["malloc sizes in jwt_base64uri_encode/decode (len+z+1, macro+1) are modelled by hand and witnessed by ASan",
               "C strings longer than INT_MAX are out of scope"]
TRUSTED_BASE = ["Lean 4.33.0 kernel", "tie/extract.py (regex extraction of base64en/base64de/macros)",
                "harness/exec.c + harness/lib.py + harness/props/c11.py (differential run)",
                "compiled lean_exe driver runs the same definitions the theorems are about (leanc, not the kernel)"]

URLSAFE = set(b"ABCDEFGHIJKLMNOPQRSTUVWXYZabcdefghijklmnopqrstuvwxyz0123456789-_")
BOTH = URLSAFE | set(b"+/")


def ref_encode(b):
    return base64.urlsafe_b64encode(b).rstrip(b"=")


def falsify(line, out):
    """direct falsifier, stated in the property's own terms on the implementation's answer only"""
    op, arg = line.split(" ", 1)
    if op == "urienc":
        b = unhx(arg)
        got = unhx(out.split(" ")[0])
        if got != ref_encode(b):
            return "encoding of %s is %r, RFC 4648 section 5 unpadded is %r" % (arg, got, ref_encode(b))
    elif op == "uridec":
        t = unhx(arg)
        head = t.split(b"=")[0]
        foreign = any(c not in BOTH for c in head)
        if (foreign or len(t) % 4 == 1) and out != "NULL":
            return "text %r (foreign byte before '=' or length 1 mod 4) decoded to %s instead of being rejected" % (t, out)
        if not foreign and b"=" not in t and all(c in URLSAFE for c in t) and len(t) % 4 != 1 and len(t) > 0:
            # canonical unpadded text: must decode to the bytes whose encoding it is (when it is canonical)
            try:
                want = base64.urlsafe_b64decode(t + b"=" * (-len(t) % 4))
            except Exception:
                want = None
            if want is not None and ref_encode(want) == t:
                if out == "NULL" or unhx(out) != want:
                    return "decode(encode(x)) != x for x=%s: got %s" % (want.hex(), out)
    return None


def gen_cases(ctx, deep):
    rng = ctx.rng
    thorough = ctx.tier == "thorough" or deep
    # --- encode: every string of length 0..2, 3-byte blocks exhaustively (thorough) or on a lattice
    for n in range(0, 3):
        for t in itertools.product(range(256), repeat=n):
            yield (("enc-exh-len0-2", "urienc " + hx(bytes(t))))
    for n in range(0, 2):
        for t in itertools.product(range(256), repeat=n):
            yield (("enc-raw", "b64enc " + hx(bytes(t))))
    stride = 1 if thorough else 251
    start = 0 if thorough else rng.randrange(251)
    for v in range(start, 1 << 24, stride):
        yield (("enc-3byte-blocks", "urienc %06x" % v))
    # round trip of every encoded tail/block: decode the reference encoding
    for n in range(1, 3):
        for t in itertools.product(range(256), repeat=n):
            yield (("dec-roundtrip", "uridec " + hx(ref_encode(bytes(t)))))
    for v in range(start, 1 << 24, stride * (1 if thorough else 3)):
        yield (("dec-roundtrip", "uridec " + hx(ref_encode(v.to_bytes(3, "big")))))
    # --- decode: all 1- and 2-char texts over the full (non-NUL) byte range
    for n in range(1, 3):
        for t in itertools.product(range(1, 256), repeat=n):
            yield (("dec-exh-len1-2", "uridec " + hx(bytes(t))))
    # 4-char groups: one free position over all bytes, the others over representatives
    reps = b"Az09+/-_=.\x80\xff" if thorough else b"Az9/_=."
    for pos in range(4):
        for free in range(1, 256):
            for others in itertools.product(reps, repeat=3):
                o = list(others)
                o.insert(pos, free)
                yield (("dec-4char-groups", "uridec " + hx(bytes(o))))
    # 5..8 char texts around the pad/length gates
    alpha = b"AQgw-_=+/.~"
    for n in (5, 6, 7, 8):
        for _ in range(4000 if thorough else 800):
            yield (("dec-gates", "uridec " + hx(bytes(rng.choice(alpha) for _ in range(n)))))
    # raw base64_decode incl. lengths that are not multiples of 4
    for _ in range(3000 if thorough else 600):
        n = rng.randrange(0, 13)
        yield (("dec-raw", "b64dec " + hx(bytes(rng.choice(b"AQgw+/=z.") for _ in range(n)))))
    # --- random strings up to 64 KiB (buffer arithmetic under ASan)
    for _ in range(400 if thorough else 60):
        n = rng.choice([rng.randrange(0, 64), rng.randrange(64, 4096), rng.randrange(4096, 65537)])
        b = rng.randbytes(n)
        yield (("rand-enc", "urienc " + hx(b)))
        t = bytearray(ref_encode(b))
        if t and rng.random() < 0.5:
            for _ in range(rng.randrange(1, 4)):
                i = rng.randrange(len(t))
                t[i] = rng.choice(b"=.+/-_A\x7f\x80") if rng.random() < 0.7 else rng.randrange(1, 256)
        if rng.random() < 0.3:
            t += bytes(rng.choice(b"=A") for _ in range(rng.randrange(1, 4)))
        yield (("rand-dec", "uridec " + hx(bytes(t))))
    # table/compare helpers
    for s in [b"none", b"HS256", b"hs256", b"HS2567", b"", b"EdDSA", b"EDDSA", b"ES256K", b"ES256k", b"RS256\x01"]:
        yield (("alg-names", "stralg " + hx(s)))
    for i in range(0, 18):
        yield (("alg-names", "algstr %d" % i))


def jwk_users(ctx):
    """users of the decoder: an oct JWK's "k" is base64url of the key octets, every one of them (leading and trailing
    zero octets included); the imported key is read back through jwks_item_key_oct.  Implementation only (the
    falsifier speaks): the model's statement about this is C08_oct."""
    import json as _json
    rng = ctx.rng
    keys = [b"\x00", b"\x00\x00\x00", b"A\x00", b"\x00A", b"\x00" * 32, rng.randbytes(31) + b"\x00", rng.randbytes(99) + b"\x00\x00",
            b"\xff" * 33, rng.randbytes(64)] + [rng.randbytes(rng.randrange(1, 80)) + bytes(rng.randrange(0, 3)) for _ in range(60)]
    lines = []
    for kb in keys:
        doc = _json.dumps({"kty": "oct", "k": ref_encode(kb).decode()}).encode()
        lines += ["jwks 1 del", "jwks 1 load " + hx(doc), "jwks 1 item 0"]
    rc, eo, err = ctx.run_exec(lines)
    bad = 0
    for i, kb in enumerate(keys):
        out = eo[3 * i + 2] if 3 * i + 2 < len(eo) else "<crash>"
        got = dict(t.split("=", 1) for t in out.split() if "=" in t)
        if got.get("oct") != hx(kb) or got.get("bits") != str(8 * len(kb)) or got.get("err") != "0":
            bad += 1
            if bad <= 2:
                ctx.violation("falsifier:jwk-oct-k", "oct JWK whose k is the base64url form of %s imports as key %s (%s bits, err=%s)" % (
                    hx(kb), got.get("oct"), got.get("bits"), got.get("err")), replay_lines=lines[3 * i:3 * i + 3], detail="impl: %s" % out)
    # ... and the integer members of an RSA key: text with a foreign byte, a stray pad or white space anywhere is not the
    # base64url form of anything -- the key is refused, never read as the integer its leading characters spell
    import keys as K
    rsa = K.gen_key("rsa", 2048, ctx.scratch)
    good = rsa.jwk(private=True)
    bads = []
    for member in ("n", "e", "d", "p", "dq"):
        v = good[member]
        for pos in sorted({1, len(v) // 2, len(v) - 1} if len(v) > 4 else {1}):
            for junk in ("!", " ", "\n", "*", ".", "\x7f", "\x00", "\u00e9", "\x80", "\u20ac"):   # not "=": the decoder documents that it stops at the first pad
                j2 = dict(good)
                j2[member] = v[:pos] + junk + v[pos:]
                bads.append(("%s with %r at %d" % (member, junk, pos), j2))
        j2 = dict(good)
        j2[member] = v + "\n"
        bads.append(("%s with a trailing newline" % member, j2))
    # the same for the octets of an oct key and the coordinates of an EC key (an escaped NUL, non-ASCII text included:
    # whether the JSON reader or the decoder refuses it, what follows the foreign byte never becomes key material)
    okv = ref_encode(rng.randbytes(32)).decode()
    ec = K.gen_key("ec", "P-256", ctx.scratch).jwk(private=False)
    for junk in ("!", " ", "\x00", "\u00e9", "\x80", "*"):
        for pos in (0, 4, len(okv) // 2, len(okv)):
            bads.append(("oct k with %r at %d" % (junk, pos), {"kty": "oct", "k": okv[:pos] + junk + okv[pos:]}))
        for member in ("x", "y"):
            j2 = dict(ec)
            j2[member] = ec[member] + junk + "AAAA"
            bads.append(("EC %s followed by %r and more text" % (member, junk), j2))
    rlines = []
    for _, j2 in bads:
        rlines += ["jwks 2 del", "jwks 2 load " + hx(_json.dumps(j2).encode()), "jwks 2 item 0"]
    rc2, eo2, err2 = ctx.run_exec(rlines)
    rbad = 0
    for i, (what, j2) in enumerate(bads):
        out = eo2[3 * i + 2] if 3 * i + 2 < len(eo2) else "<crash>"
        got = dict(t.split("=", 1) for t in out.split() if "=" in t)
        if got.get("err") != "1" and out != "none":          # refused: the item is flagged, or the document was not taken at all
            rbad += 1
            if rbad <= 2:
                ctx.violation("falsifier:jwk-rsa-member", "JWK whose member is %s imports without error (bits=%s)" % (what, got.get("bits")),
                              replay_lines=rlines[3 * i:3 * i + 3], detail="impl: %s" % out)
    if rc2 != 0:
        ctx.violation("sanitizer", "executor died (rc=%s) while importing RSA keys with malformed members" % rc2, replay_lines=rlines[:3 * (len(eo2) // 3 + 1)], detail=err2[-1500:])
    ctx.add_suite("jwk-rsa-members", evaluations=len(bads), distinct_nontrivial=len(bads), rule="RSA private JWK with one integer member carrying a foreign byte / pad / white space at the start, middle or end: must be refused", exhaustive=False, disagreements=0, falsified=rbad, samples=[])
    if rc != 0:
        ctx.violation("sanitizer", "executor died (rc=%s) while importing oct keys" % rc, replay_lines=lines[:3 * (len(eo) // 3 + 1)], detail=err[-1500:])
    ctx.add_suite("jwk-oct-k", evaluations=len(keys), distinct_nontrivial=len(set(keys)), rule="oct JWKs whose k encodes octet strings with leading/trailing zero octets and random ones; imported key read back and compared octet for octet", exhaustive=False, disagreements=0, falsified=bad, samples=[])


def run(ctx, model_ok, deep=False):
    per = {}
    # generated lazily and judged in batches of 1M cases, so that the exhaustive tier (16.8M three-byte
    # blocks) does not have to hold everything in memory
    batch = []

    def flush():
        if not batch:
            return
        cases = list(batch)
        del batch[:]
        lines = [c[1] for c in cases]
        if model_ok:
            eo, do, crashes = ctx.run_both_stateless(lines)
        else:
            rc, eo, err = ctx.run_exec(lines)
            do, crashes = None, ([(len(eo), rc, err)] if rc != 0 else [])
            eo = eo + ["<crash>"] * (len(lines) - len(eo))
        for i, (suite, line) in enumerate(cases):
            s = per.setdefault(suite, {"evaluations": 0, "outs": set(), "samples": [], "disagree": 0, "falsified": 0})
            s["evaluations"] += 1
            if len(s["outs"]) < 200000:
                s["outs"].add(eo[i][:40])
            if len(s["samples"]) < 3 and i % 97 == 0:
                s["samples"].append({"op": line[:120], "impl": eo[i][:120], "model": (do[i][:120] if do else None)})
            f = falsify(line, eo[i]) if eo[i] != "<crash>" else None
            if f:
                s["falsified"] += 1
                if s["falsified"] <= 2:
                    ctx.violation("falsifier:" + suite, f, replay_lines=[line], detail="impl: %s" % eo[i])
            if do is not None and eo[i] != do[i] and eo[i] != "<crash>":
                s["disagree"] += 1
                if s["disagree"] <= 2 and not f:
                    ctx.violation("correspondence:" + suite, "model and implementation disagree on `%s`" % line[:100],
                                  replay_lines=[line], detail="impl:  %s\nmodel: %s" % (eo[i], do[i]), no_input=True)
        for at, rc, err in crashes:
            ctx.violation("sanitizer", "executor died (rc=%s) on `%s`" % (rc, lines[at][:100] if at < len(lines) else "<exit>"),
                          replay_lines=[lines[at]] if at < len(lines) else [], detail=err[-1500:])
    for c in gen_cases(ctx, deep):
        batch.append(c)
        if len(batch) >= 1000000:
            flush()
    flush()
    jwk_users(ctx)
    # the decoders as the checker uses them, with a history: a segment that only STARTS like the previous token's
    from props import _family as F
    import suites as S
    F.run_suites(ctx, model_ok, deep, [
        ("header-history", S.header_history_suite, S.falsify_accept,
         "a genuine token, then on the same checker (or another one of the thread) a token whose header has the same length and the same first k base64url characters but names another algorithm / none / no algorithm of the library, or is the first header with characters appended, signed correctly over its own text; then the genuine token again; k and the header length on both sides of 16...4096 and of every size new in the source; HS256 and RS256", False),
        # the codec's callers size their own buffers from the codec's macros: every signature length the library produces or
        # compares goes through them in the instrumented build (a one-octet overrun in a caller's buffer is a sanitizer report)
        ("codec-callers", S.providers_suite, S.falsify_providers,
         "every key x admissible alg (MACs of 32/48/64 octets, RSA 256..512 octets, ECDSA 64..132, EdDSA 64/114) generated under each provider and verified under each provider, in the AddressSanitizer build", True),
    ])
    for suite, s in per.items():
        ctx.add_suite(suite, evaluations=s["evaluations"], distinct_nontrivial=len(s["outs"]),
                      rule="distinct = distinct implementation answers (counted up to 200000 per suite); every case compared with the Lean model and judged by the falsifier",
                      exhaustive=suite in ("enc-exh-len0-2", "dec-exh-len1-2", "dec-4char-groups", "enc-raw") or
                      (suite == "enc-3byte-blocks" and (ctx.tier == "thorough" or deep)),
                      disagreements=s["disagree"], falsified=s["falsified"], samples=s["samples"])


def replay(ctx, path):
    lines = [l.rstrip("\n") for l in open(path) if not l.startswith("#") and l.strip()]
    ok, _ = ctx.build_driver()
    rc, eo, err = ctx.run_exec(lines)
    do = ctx.run_driver(lines) if ok else [None] * len(lines)
    bad = 0
    for l, e, d in zip(lines, eo, do):
        f = falsify(l, e)
        print("%s\n  impl : %s\n  model: %s\n  falsifier: %s" % (l, e, d, f))
        bad += bool(f) or (d is not None and d != e)
    if rc != 0:
        print(err[-2000:])
        bad += 1
    return 1 if bad else 0
