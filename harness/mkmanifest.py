#!/usr/bin/env python3
"""Regenerates MANIFEST.json from the table below (kept in one place so it is always valid)."""
import json, os
HERE = os.path.dirname(os.path.dirname(os.path.abspath(__file__)))
ALL = ["C%02d" % i for i in range(1, 21)]
CLAIMED = {
    "C11": dict(
        text="Machine-checked Lean 4 theorems (round trip, RFC 4648 form, rejection, buffer bounds for every input length and every initial buffer content) over a literal model of base64.c and jwt_base64uri_*; tables/constants/size macros regenerated from the source on every run and re-proved; model tied to the code by exhaustive and structured differential runs of the ASan/UBSan build plus an independent (Python base64) falsifier.",
        ref="DESIGN.md section 8, C11",
        note="Trusted: Lean kernel; axioms propext/Classical.choice/Quot.sound only; tie/extract.py; harness/exec.c and the Python differ; malloc sizes in jwt.c are modelled by hand and witnessed by ASan.",
        technique="Lean 4 proof by induction (fun_induction, omega, decide +kernel over complete byte tables) + generated facts + differential correspondence"),
}
REASONS = {p: "check not built yet in this round (design in DESIGN.md section 8); not claimed until its theorems and correspondence suite exist" for p in ALL}
m = {
    "version": 1,
    "setup_cmd": "cd lean && lake build",
    "hooks": {"guard": "LIBJWT_VERIF", "enable": "none needed: the executor links the static library and supplies time(); no guarded source changes exist",
              "baseline_off_cmd": "selftest/repo_tests.sh /repo", "source_commits": [], "add_only": True},
    "engines": [{"name": "lean-model", "path": "lean/", "serves_properties": sorted(CLAIMED), "kind_free_text": "Lean 4 model + theorems (core only), compiled line-protocol driver"},
                {"name": "correspondence", "path": "harness/", "serves_properties": sorted(CLAIMED), "kind_free_text": "C executor over the ASan/UBSan static build of the working tree, Python generators/differ/falsifiers"},
                {"name": "translator", "path": "tie/extract.py", "serves_properties": sorted(CLAIMED), "kind_free_text": "source -> Jwt/Generated/*.lean (tables, constants, macros)"}],
    "checks": [], "not_applicable": [],
    "notes": "Single entry point ./check <id> --tier quick|thorough. VERIF_SEED seeds every random choice; VERIF_REPO points the checks at another tree (self-test only).",
}
for p in ALL:
    if p in CLAIMED:
        c = CLAIMED[p]
        m["checks"].append({"property_id": p, "quick_cmd": "./check %s --tier quick" % p, "thorough_cmd": "./check %s --tier thorough" % p,
                            "evidence_file": "evidence/%s.json" % p, "replay_cmd_template": "./check %s --replay {path}" % p,
                            "engine": "lean-model", "level_claimed": {"category": "proof", "text": c["text"], "design_ref": c["ref"]},
                            "level_note": c["note"], "technique": c["technique"]})
    else:
        m["not_applicable"].append({"property_id": p, "reason": REASONS[p]})
json.dump(m, open(os.path.join(HERE, "MANIFEST.json"), "w"), indent=1)
print("claimed:", sorted(CLAIMED))
