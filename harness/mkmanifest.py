#!/usr/bin/env python3
"""Regenerates MANIFEST.json: a property is claimed iff harness/props/cNN.py exists (its LEVEL_TEXT,
ASSUMPTIONS, TRUSTED_BASE feed the entry); everything else is listed under not_applicable with a reason."""
import importlib
import json
import os
import sys

HERE = os.path.dirname(os.path.dirname(os.path.abspath(__file__)))
sys.path.insert(0, os.path.join(HERE, "harness"))
ALL = ["C%02d" % i for i in range(1, 21)]
TECH = ("Lean 4 machine-checked proof (induction / invariants / refinement / kernel-decided finite tables) over a model that is partly hand-written "
        "and partly TRANSLATED from the C source on every run (tables, ll.h, base64 arms, keyring functions, decision skeletons of the verify / "
        "generate / import / configuration / typed-map functions, each proved equal to the hand-written part) + differential correspondence "
        "of the executable model with the ASan/UBSan build")
NOT_YET = "check not built yet in this round (design in DESIGN.md section 8); not claimed until its theorems and correspondence suite exist"
REASONS = {}
m = {
    "version": 1,
    "setup_cmd": "cd lean && lake build",
    "hooks": {"guard": "LIBJWT_VERIF", "enable": "none needed: the executor links the static library and supplies time(); no guarded source changes exist",
              "baseline_off_cmd": "selftest/repo_tests.sh /repo", "source_commits": [], "add_only": True},
    "engines": [], "checks": [], "not_applicable": [],
    "notes": "Single entry point ./check <id> --tier quick|thorough. VERIF_SEED seeds every random choice; VERIF_REPO points the checks at another tree (self-test only). Unguarded 'fix:' commits in /repo are listed in known-findings.txt.",
}
claimed = []
for p in ALL:
    path = os.path.join(HERE, "harness", "props", p.lower() + ".py")
    if os.path.exists(path):
        mod = importlib.import_module("props." + p.lower())
        claimed.append(p)
        m["checks"].append({
            "property_id": p, "quick_cmd": "./check %s --tier quick" % p, "thorough_cmd": "./check %s --tier thorough" % p,
            "evidence_file": "evidence/%s.json" % p, "replay_cmd_template": "./check %s --replay {path}" % p,
            "engine": "lean-model",
            "level_claimed": {"category": "proof", "text": mod.LEVEL_TEXT, "design_ref": "DESIGN.md section 8, %s" % p},
            "level_note": "Trusted: " + "; ".join(mod.TRUSTED_BASE) + ". Assumed: " + "; ".join(mod.ASSUMPTIONS),
            "technique": getattr(mod, "TECHNIQUE", TECH)})
    else:
        m["not_applicable"].append({"property_id": p, "reason": REASONS.get(p, NOT_YET)})
m["engines"] = [
    {"name": "lean-model", "path": "lean/", "serves_properties": claimed, "kind_free_text": "Lean 4 model + theorems (core only), compiled line-protocol driver"},
    {"name": "correspondence", "path": "harness/", "serves_properties": claimed, "kind_free_text": "C executor over the ASan/UBSan static build of the working tree, independent oracles, Python generators/differ/falsifiers"},
    {"name": "translator", "path": "tie/extract.py", "serves_properties": claimed, "kind_free_text": "source -> Jwt/Generated/*.lean (tables, constants, macros, defaults)"}]
json.dump(m, open(os.path.join(HERE, "MANIFEST.json"), "w"), indent=1)
print("claimed:", claimed)
