"""The properties' own semantics for headers/claims maps and token generation, written in Python from
the property statements (C10, C15).  Used only as direct falsifiers on the implementation's answers;
independent of the Lean model."""
import jsonlib

NONE, EXIST, NOEXIST, TYPE, INVALID = 0, 1, 2, 3, 4


def _utf8(b):
    try:
        return b.decode("utf-8")
    except UnicodeDecodeError:
        return None


class PyMap:
    """a map from names to typed JSON values (C15)"""

    def __init__(self, d=None):
        self.d = dict(d or {})

    def copy(self):
        import copy
        return PyMap(copy.deepcopy(self.d))

    def set(self, typ, name, val, replace):
        if typ == "json":
            ok, tree = jsonlib.loads(val, reject_dup=True) if val is not None else (False, None)
            if not ok:
                return INVALID
            if not name:
                if not isinstance(tree, dict):
                    return INVALID
                for k, v in tree.items():
                    if replace or k not in self.d:
                        self.d[k] = v
                return NONE
            value = tree
        else:
            if not name:
                return INVALID
            if typ == "str":
                if val is None:
                    return INVALID
                value = _utf8(val)
            elif typ == "int":
                value = int(val)
            else:
                value = bool(int(val))
        n = _utf8(name)
        key = n if n is not None else name      # a non-UTF-8 name can never be stored
        if key in self.d:
            if not replace:
                return EXIST
            del self.d[key]
        if n is None or value is None and typ == "str":
            return INVALID
        self.d[n] = value
        return NONE

    def get(self, typ, name):
        if typ == "json":
            if not name:
                return NONE, self.d
            n = _utf8(name)
            if n is None or n not in self.d:
                return NOEXIST, None
            if not isinstance(self.d[n], (dict, list)):
                return TYPE, None        # a JSON-typed get asks for an object or array
            return NONE, self.d[n]
        if not name:
            return INVALID, None
        n = _utf8(name)
        if n is None or n not in self.d:
            return NOEXIST, None
        v = self.d[n]
        if typ == "int" and isinstance(v, int) and not isinstance(v, bool):
            return NONE, v
        if typ == "str" and isinstance(v, str):
            return NONE, v
        if typ == "bool" and isinstance(v, bool):
            return NONE, v
        return TYPE, None

    def delete(self, name):
        if not name:
            self.d.clear()
        else:
            n = _utf8(name)
            if n is not None:
                self.d.pop(n, None)
        return NONE


def show_get(typ, code, v):
    """the executor's rendering of a get result (JSON values canonicalised to JENC)"""
    if code != NONE:
        return "rc=%d verr=%d val=x" % (code, code)
    if typ == "int":
        s = str(v)
    elif typ == "str":
        s = v.encode().hex() or "-"
    elif typ == "bool":
        s = "1" if v else "0"
    else:
        s = "json:" + jsonlib.jenc(v)
    return "rc=0 verr=0 val=" + s


class PyBuilder:
    """what a builder was told (C10)"""

    def __init__(self):
        self.headers = PyMap()
        self.claims = PyMap()
        self.iat = True
        self.exp_off = None      # None = off
        self.nbf_off = None
        self.alg = None          # name of the algorithm that will be used, None = unsigned

    def expected(self, now, cb=None):
        """(header dict, payload dict) the property prescribes for a token generated now;
        cb(headers: PyMap, claims: PyMap) applies the callback's edits to the per-token copies"""
        h = self.headers.copy()
        c = self.claims.copy()
        if self.iat:
            c.d["iat"] = now
        if self.nbf_off is not None:
            c.d["nbf"] = now + self.nbf_off
        if self.exp_off is not None:
            c.d["exp"] = now + self.exp_off
        if cb:
            cb(h, c)
        if self.alg is not None and "typ" not in h.d:
            h.d["typ"] = "JWT"
        h.d["alg"] = self.alg if self.alg is not None else "none"
        return h.d, c.d
