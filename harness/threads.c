/* C18 stress: N threads, each with its own builder and checker objects, sharing one keyring read-only.
 * A sequential pass records the reference results first; every thread result must equal them.
 * usage: threads JWKS_FILE NTHREADS ROUNDS PROVIDER SEED
 * The JWKS holds pairs: item 2i = private (or oct) key with "alg", item 2i+1 = its public half. */
#define _GNU_SOURCE
#include <stdio.h>
#include <stdlib.h>
#include <string.h>
#include <pthread.h>
#include <unistd.h>
#include <time.h>
#include <jwt.h>

time_t time(time_t *t) { if (t) *t = 1234567; return 1234567; }

#define MAXK 32
static jwk_set_t *g_set;
static int g_nkeys, g_rounds;
#define MAXT 256
static char *g_ref_tok[MAXK][MAXT];   /* per key and per thread id: every thread signs its own content */
static int g_nthreads;
static int g_deterministic[MAXK];
static int g_seq_fails[MAXK];        /* the provider refuses this key/alg sequentially: it must do so concurrently too */
static long g_mismatch;
static pthread_barrier_t g_bar, g_bar_end;
static const char *g_provider = "";
static int g_cold = 4;
static jwk_set_t *g_ref_set;

static int is_det(jwt_alg_t a)
{
	return a == JWT_ALG_HS256 || a == JWT_ALG_HS384 || a == JWT_ALG_HS512 || a == JWT_ALG_RS256 ||
	       a == JWT_ALG_RS384 || a == JWT_ALG_RS512 || a == JWT_ALG_EDDSA;
}

static char *gen_one(int k, int tid, char *err, size_t el)
{
	jwt_builder_t *b = jwt_builder_new();
	jwt_value_t v;
	char *tok;
	jwt_builder_setkey(b, JWT_ALG_NONE, jwks_item_get(g_set, 2 * k));
	jwt_set_SET_JSON(&v, NULL, "{\"sub\":\"thread\",\"n\":[1,2,3]}");
	jwt_builder_claim_set(b, &v);
	jwt_set_SET_INT(&v, "tid", tid);
	jwt_builder_claim_set(b, &v);
	tok = jwt_builder_generate(b);
	if (!tok && err) snprintf(err, el, "%s", jwt_builder_error_msg(b));
	jwt_builder_free(b);
	return tok;
}

/* the usual keyring pattern: the callback picks the key by kid in the shared keyring */
static int pick_by_kid(jwt_t *jwt, jwt_config_t *config)
{
	(void)jwt;
	config->key = jwks_find_bykid(g_set, (const char *)config->ctx);
	return config->key ? 0 : 1;
}

static int verify_one(int k, const char *tok)
{
	jwt_checker_t *c = jwt_checker_new();
	int rc;
	static __thread unsigned flip;
	if (flip++ & 1) {
		char kid[32];
		snprintf(kid, sizeof kid, "pub-%d", k);
		jwt_checker_setcb(c, pick_by_kid, kid);
	} else
		jwt_checker_setkey(c, JWT_ALG_NONE, jwks_item_get(g_set, 2 * k + 1));
	rc = jwt_checker_verify(c, tok);
	jwt_checker_free(c);
	return rc;
}

static void *worker(void *arg)
{
	unsigned seed = (unsigned)(size_t)arg;
	int tid = (int)(seed % 1000);
	long bad = 0;
	for (int cold = 0; cold < g_cold; cold++) {
	/* every cold round starts on a keyring no thread (not even main) has used yet, so that anything a
	 * key item computes lazily on first use is computed under contention */
	pthread_barrier_wait(&g_bar);
	usleep(rand_r(&seed) % 300);                 /* randomised start skew */
	for (int r = 0; r < g_rounds; r++) {
		for (int i = 0; i < g_nkeys; i++) {
			int k = (i + tid) % g_nkeys;
			char err[200] = "";
			char *tok = gen_one(k, tid, err, sizeof err);
			if (g_seq_fails[k]) {
				if (tok) { bad++; if (bad <= 2) fprintf(stderr, "MISMATCH thread=%d round=%d key=%d: generate succeeded although the sequential run refuses this key/alg under this provider\n", tid, r, k); free(tok); }
				if (strcmp(jwt_get_crypto_ops(), g_provider)) { bad++; if (bad <= 2) fprintf(stderr, "MISMATCH thread=%d: the process-wide provider changed to %s during the run\n", tid, jwt_get_crypto_ops()); }
				continue;
			}
#define BAD(what) do { bad++; if (bad <= 2) fprintf(stderr, "MISMATCH thread=%d round=%d key=%d: %s %s\n", tid, r, k, what, err); } while (0)
			if (!tok) { BAD("generate failed"); continue; }
			if (g_deterministic[k] && strcmp(tok, g_ref_tok[k][tid])) BAD("token differs from the sequential one");
			if (verify_one(k, tok)) BAD("own token rejected");
			if (verify_one(k, g_ref_tok[k][(tid + 1) % g_nthreads])) BAD("sequentially made token rejected");
			tok[strlen(tok) - 2] = tok[strlen(tok) - 2] == 'A' ? 'B' : 'A';
			if (!verify_one(k, tok)) BAD("corrupted token accepted");
			free(tok);
		}
	}
	pthread_barrier_wait(&g_bar_end);
	}
	__atomic_add_fetch(&g_mismatch, bad, __ATOMIC_SEQ_CST);
	return NULL;
}

int main(int argc, char **argv)
{
	if (argc < 6) return 2;
	int nthreads = atoi(argv[2]);
	if (nthreads > MAXT) nthreads = MAXT;
	g_nthreads = nthreads;
	g_rounds = atoi(argv[3]);
	if (jwt_set_crypto_ops(argv[4])) { fprintf(stderr, "no such provider\n"); return 2; }
	g_provider = argv[4];
	if (argc > 6) g_cold = atoi(argv[6]);
	g_set = jwks_create_fromfile(argv[1]);
	if (!g_set || jwks_error(g_set) || jwks_error_any(g_set)) { fprintf(stderr, "cannot load keys\n"); return 2; }
	g_nkeys = (int)jwks_item_count(g_set) / 2;
	if (g_nkeys > MAXK) g_nkeys = MAXK;
	/* THREADS_REF=file: the sequential reference comes from ANOTHER process (made with THREADS_REF_WRITE=1), so that the
	 * threads' first calls are the first calls this process makes at all -- whatever the library sets up on first use
	 * (per algorithm, per provider, per anything) is set up by the threads, concurrently */
	const char *ref_path = getenv("THREADS_REF");
	int ref_write = ref_path && getenv("THREADS_REF_WRITE");
	if (ref_path && !ref_write) {
		FILE *f = fopen(ref_path, "r");
		static char line[1 << 16];
		if (!f) { fprintf(stderr, "cannot read reference file\n"); return 2; }
		for (int k = 0; k < g_nkeys; k++) g_deterministic[k] = is_det(jwks_item_alg(jwks_item_get(g_set, 2 * k)));
		while (fgets(line, sizeof line, f)) {
			int k, t; char tok[60000];
			if (sscanf(line, "%d %d %59999s", &k, &t, tok) != 3 || k < 0 || k >= g_nkeys || t < 0 || t >= nthreads) continue;
			if (!strcmp(tok, "-")) { if (t == 0) g_seq_fails[k] = 1; }
			else g_ref_tok[k][t] = strdup(tok);
		}
		fclose(f);
	} else
	for (int k = 0; k < g_nkeys; k++) {
		char err[256] = "";
		g_deterministic[k] = is_det(jwks_item_alg(jwks_item_get(g_set, 2 * k)));
		for (int t = 0; t < nthreads; t++) {
			g_ref_tok[k][t] = gen_one(k, t, err, sizeof err);
			if (!g_ref_tok[k][t] && t == 0) { g_seq_fails[k] = 1; break; }          /* e.g. ES256K under GnuTLS */
			if (!g_ref_tok[k][t] || verify_one(k, g_ref_tok[k][t])) { fprintf(stderr, "sequential reference failed for key %d: %s\n", k, err); return 2; }
		}
	}
	if (ref_write) {
		FILE *f = fopen(ref_path, "w");
		if (!f) return 2;
		for (int k = 0; k < g_nkeys; k++) for (int t = 0; t < nthreads; t++) fprintf(f, "%d %d %s\n", k, t, g_ref_tok[k][t] ? g_ref_tok[k][t] : "-");
		fclose(f);
		return 0;
	}
	pthread_t th[MAXT];
	/* the reference tokens were made with this keyring; the threads get fresh ones */
	g_ref_set = g_set;
	g_set = NULL;
	pthread_barrier_init(&g_bar, NULL, (unsigned)nthreads + 1);
	pthread_barrier_init(&g_bar_end, NULL, (unsigned)nthreads + 1);
	for (int i = 0; i < nthreads; i++) pthread_create(&th[i], NULL, worker, (void *)(size_t)(atoi(argv[5]) * 1000 + i));
	for (int cold = 0; cold < g_cold; cold++) {
		g_set = jwks_create_fromfile(argv[1]);
		if (!g_set || jwks_error(g_set) || jwks_error_any(g_set)) { fprintf(stderr, "cannot load keys\n"); return 2; }
		pthread_barrier_wait(&g_bar);
		pthread_barrier_wait(&g_bar_end);
		jwks_free(g_set);
		g_set = NULL;
	}
	for (int i = 0; i < nthreads; i++) pthread_join(th[i], NULL);
	g_set = g_ref_set;
	printf("threads=%d rounds=%d keys=%d provider=%s mismatches=%ld\n", nthreads, g_rounds, g_nkeys, jwt_get_crypto_ops(), g_mismatch);
	for (int k = 0; k < g_nkeys; k++) for (int t = 0; t < nthreads; t++) free(g_ref_tok[k][t]);
	jwks_free(g_set);
	return g_mismatch ? 1 : 0;
}
