/* Executor: runs the real libjwt (static, ASan/UBSan build of the working tree) in-process.
 * Reads one operation per line on stdin, prints one canonical result line per operation.
 * The same lines (modulo value encodings) are fed to the Lean driver; see harness/lib.py.
 *
 * Encodings: byte strings are hex ("-" = empty, "NULL" = null pointer). */
#define _GNU_SOURCE
#include <stdio.h>
#include <stdlib.h>
#include <string.h>
#include <stdint.h>
#include <time.h>
#include <unistd.h>
#include <sys/wait.h>
#include <execinfo.h>

#include <jwt.h>
#include "base64.h"      /* internal: size macros, base64_encode/decode, pulls jwt-private.h */

/* ---- controlled clock: the statically linked library calls this ---- */
static time_t g_now = 1700000000;
static time_t g_tick = 0;    /* the clock advances by this much with every reading */
time_t time(time_t *t) { time_t v = g_now; g_now += g_tick; if (t) *t = v; return v; }

/* ---- allocation fault injection through the public jwt_set_alloc ---- */
static long g_alloc_count = 0, g_alloc_fail_at = -1; /* fail the k-th request (1-based) */
static int g_alloc_hooked = 0;
static char g_fail_site[1024];
static void *x_malloc(size_t n)
{
	g_alloc_count++;
	if (g_alloc_fail_at > 0 && g_alloc_count == g_alloc_fail_at) {
		void *bt[24];
		int k = backtrace(bt, 24);
		char **syms = backtrace_symbols(bt, k);
		g_fail_site[0] = 0;
		if (syms) {
			for (int i = 1; i < k && strlen(g_fail_site) < sizeof(g_fail_site) - 80; i++) {
				char *p = strchr(syms[i], '('), *q = p ? strchr(p, '+') : NULL;
				if (p && q && q > p + 1) {
					if (!strncmp(p + 1, "handle", 6) || !strncmp(p + 1, "main", 4)) break;
					strncat(g_fail_site, p + 1, (size_t)(q - p - 1) < 60 ? (size_t)(q - p - 1) : 60);
				} else strcat(g_fail_site, "?");
				strcat(g_fail_site, "<");
			}
			free(syms);
		}
		return NULL;
	}
	/* the block the library sees is NOT a libc block: freeing it with free(), or freeing a libc block
	 * (strdup, OpenSSL, ...) through the library's free, is an allocator mismatch that ASan reports */
	unsigned char *p = malloc(n + 16);
	if (!p) return NULL;
	memset(p, 0xA5, 16);
	return p + 16;
}
static void x_free(void *p) { if (p) free((unsigned char *)p - 16); }

/* free memory the library returned to the caller, with the free the library was configured with */
static void lib_free(void *p)
{
	jwt_malloc_t m; jwt_free_t f;
	jwt_get_alloc(&m, &f);
	if (f) f(p); else free(p);
}

/* jwt_value_t reuse mode: one struct lives across operations and only the fields an application would
 * touch are assigned (whatever the previous call left in .error stays there) */
static int g_val_reuse = 0;
static jwt_value_t g_val;

/* ---- helpers ---- */
static int hexval(int c)
{
	if (c >= '0' && c <= '9') return c - '0';
	if (c >= 'a' && c <= 'f') return c - 'a' + 10;
	if (c >= 'A' && c <= 'F') return c - 'A' + 10;
	return -1;
}
/* returns malloc'd buffer (NUL-terminated for convenience), *len set; NULL for "NULL" */
static unsigned char *unhex(const char *s, size_t *len)
{
	*len = 0;
	if (!s || !strcmp(s, "NULL")) return NULL;
	if (!strcmp(s, "-")) { unsigned char *e = malloc(1); e[0] = 0; return e; }
	size_t n = strlen(s) / 2;
	unsigned char *b = malloc(n + 1);
	for (size_t i = 0; i < n; i++) b[i] = (unsigned char)(hexval(s[2*i]) * 16 + hexval(s[2*i+1]));
	b[n] = 0;
	*len = n;
	return b;
}
static void puthex(const void *p, size_t n)
{
	const unsigned char *b = p;
	if (!p) { fputs("NULL", stdout); return; }
	if (n == 0) { fputs("-", stdout); return; }
	for (size_t i = 0; i < n; i++) printf("%02x", b[i]);
}
static void putstr(const char *s) { puthex(s, s ? strlen(s) : 0); }

#define MAXTOK 64
static int split(char *line, char **tok, int max, const char *sep)
{
	int n = 0;
	char *save = NULL;
	for (char *t = strtok_r(line, sep, &save); t && n < max; t = strtok_r(NULL, sep, &save)) tok[n++] = t;
	return n;
}

/* ---- object tables ---- */
#define NSLOT 1024
static jwk_set_t *g_sets[NSLOT];
static jwt_checker_t *g_ck[NSLOT];
static jwt_builder_t *g_bl[NSLOT];
#define OBS_MAX (8u << 20)
/* what a callback observed: one shared buffer (only one verify / generate runs at a time, and its observations are printed
 * right after it); large, so that a whole-object JSON read of a long claim set is never cut short */
static char g_obs_shared[OBS_MAX];
struct cbctx { char prog[4096]; char *obs; };
static struct cbctx g_ckcb[NSLOT], g_blcb[NSLOT];
static char *g_last_tok;   /* the token most recently returned by a `bl N gen` ("@last") */

static const jwk_item_t *get_item(const char *s, const char *i)
{
	int si = atoi(s);
	if (si < 0 || si >= NSLOT || !g_sets[si]) return NULL;
	return jwks_item_get(g_sets[si], (size_t)atol(i));
}

/* ---- typed values (set/get) ---- */
static void obs_append(char *obs, const char *fmt, ...)
{
	va_list ap;
	size_t l = strlen(obs);
	if (l + 64 >= OBS_MAX) { fprintf(stderr, "executor: observation buffer full\n"); exit(3); }
	va_start(ap, fmt);
	vsnprintf(obs + l, OBS_MAX - l, fmt, ap);
	va_end(ap);
}
static void obs_hex(char *obs, const void *p, size_t n)
{
	const unsigned char *b = p;
	if (!p) { obs_append(obs, "NULL"); return; }
	if (!n) { obs_append(obs, "-"); return; }
	size_t l = strlen(obs);
	if (l + 2 * n + 64 >= OBS_MAX) { fprintf(stderr, "executor: observation buffer full\n"); exit(3); }
	for (size_t i = 0; i < n; i++) { obs[l++] = "0123456789abcdef"[b[i] >> 4]; obs[l++] = "0123456789abcdef"[b[i] & 15]; }
	obs[l] = 0;
}

typedef jwt_value_error_t (*vfn_t)(void *, jwt_value_t *);
typedef jwt_value_error_t (*dfn_t)(void *, const char *);

/* which: 0 builder header, 1 builder claim, 2 jwt header, 3 jwt claim */
static jwt_value_error_t do_set(int which, void *obj, jwt_value_t *v)
{
	switch (which) {
	case 0: return jwt_builder_header_set(obj, v);
	case 1: return jwt_builder_claim_set(obj, v);
	case 2: return jwt_header_set(obj, v);
	default: return jwt_claim_set(obj, v);
	}
}
static jwt_value_error_t do_get(int which, void *obj, jwt_value_t *v)
{
	switch (which) {
	case 0: return jwt_builder_header_get(obj, v);
	case 1: return jwt_builder_claim_get(obj, v);
	case 2: return jwt_header_get(obj, v);
	default: return jwt_claim_get(obj, v);
	}
}
static jwt_value_error_t do_del(int which, void *obj, const char *name)
{
	switch (which) {
	case 0: return jwt_builder_header_del(obj, name);
	case 1: return jwt_builder_claim_del(obj, name);
	case 2: return jwt_header_del(obj, name);
	default: return jwt_claim_del(obj, name);
	}
}

/* set: TYPE NAME VALUE REPL ; appends "rc=<n> verr=<n>" to obs */
static void op_set(char *obs, int which, void *obj, const char *type, const char *name_h, const char *val, const char *repl)
{
	jwt_value_t v;
	size_t nl, vl;
	unsigned char *name = unhex(name_h, &nl), *sv = NULL;
	jwt_value_error_t rc;
	if (g_val_reuse) {
		/* an application that keeps one jwt_value_t and fills in what the next call needs -- and that builds its texts
		 * in ONE buffer it refills for every call: the same address holds another text each time */
		static char txt[1 << 17];
		g_val.name = (char *)name;
		g_val.replace = atoi(repl);
		if (!strcmp(type, "int")) { g_val.type = JWT_VALUE_INT; g_val.int_val = atol(val); }
		else if (!strcmp(type, "bool")) { g_val.type = JWT_VALUE_BOOL; g_val.bool_val = atoi(val); }
		else {
			char *p;
			sv = unhex(val, &vl);
			p = (char *)sv;
			if (sv && vl + 1 <= sizeof txt) { memcpy(txt, sv, vl + 1); p = txt; }
			if (!strcmp(type, "str")) { g_val.type = JWT_VALUE_STR; g_val.str_val = p; }
			else { g_val.type = JWT_VALUE_JSON; g_val.json_val = p; }
		}
		rc = do_set(which, obj, &g_val);
		obs_append(obs, "rc=%d verr=%d", (int)rc, (int)g_val.error);
		/* the value members share a union: whatever this call left in it stays for the next one */
		g_val.name = NULL;
		free(name); free(sv);
		return;
	}
	memset(&v, 0, sizeof(v));
	if (!strcmp(type, "int")) { jwt_set_SET_INT(&v, (char *)name, atol(val)); }
	else if (!strcmp(type, "str")) { sv = unhex(val, &vl); jwt_set_SET_STR(&v, (char *)name, (char *)sv); }
	else if (!strcmp(type, "bool")) { jwt_set_SET_BOOL(&v, (char *)name, atoi(val)); }
	else { sv = unhex(val, &vl); jwt_set_SET_JSON(&v, (char *)name, (char *)sv); }
	v.replace = atoi(repl);
	rc = do_set(which, obj, &v);
	obs_append(obs, "rc=%d verr=%d", (int)rc, (int)v.error);
	free(name); free(sv);
}
/* get: TYPE NAME ; appends "rc=<n> verr=<n> val=<...>" */
static void op_get(char *obs, int which, void *obj, const char *type, const char *name_h)
{
	jwt_value_t v;
	size_t nl;
	unsigned char *name = unhex(name_h, &nl);
	jwt_value_error_t rc;
	memset(&v, 0, sizeof(v));
	if (g_val_reuse) {
		v = g_val;                         /* carries the previous call's .error */
		v.name = (char *)name;
		v.type = !strcmp(type, "int") ? JWT_VALUE_INT : !strcmp(type, "str") ? JWT_VALUE_STR : !strcmp(type, "bool") ? JWT_VALUE_BOOL : JWT_VALUE_JSON;
		v.int_val = 0; v.str_val = NULL; v.bool_val = 0; v.json_val = NULL; v.pretty = 0;
	} else
	if (!strcmp(type, "int")) { jwt_set_GET_INT(&v, (char *)name); }
	else if (!strcmp(type, "str")) { jwt_set_GET_STR(&v, (char *)name); }
	else if (!strcmp(type, "bool")) { jwt_set_GET_BOOL(&v, (char *)name); }
	else { jwt_set_GET_JSON(&v, (char *)name); }
	rc = do_get(which, obj, &v);
	if (g_val_reuse) { g_val.error = v.error; }
	obs_append(obs, "rc=%d verr=%d val=", (int)rc, (int)v.error);
	if (rc == JWT_VALUE_ERR_NONE) {
		if (!strcmp(type, "int")) obs_append(obs, "%ld", v.int_val);
		else if (!strcmp(type, "str")) obs_hex(obs, v.str_val, v.str_val ? strlen(v.str_val) : 0);
		else if (!strcmp(type, "bool")) obs_append(obs, "%d", v.bool_val);
		else { obs_append(obs, "json:"); obs_hex(obs, v.json_val, v.json_val ? strlen(v.json_val) : 0); lib_free(v.json_val); }
	} else obs_append(obs, "x");
	free(name);
}
static void op_del(char *obs, int which, void *obj, const char *name_h)
{
	size_t nl;
	unsigned char *name = unhex(name_h, &nl);
	obs_append(obs, "rc=%d", (int)do_del(which, obj, (char *)name));
	free(name);
}

/* ---- scripted callbacks: PROG = step,step,... ; step = op:arg:arg... ---- */
static struct cbctx *g_cb_cur;      /* the object whose verify / generate is running (set by the executor before the call) */
static struct cbctx g_cb_alt;
static int run_cb(jwt_t *jwt, jwt_config_t *config)
{
	/* the program is found through the executor's own pointer: the callback can then SAY what context it was handed */
	struct cbctx *c = g_cb_cur ? g_cb_cur : config->ctx;
	char prog[4096];
	char *steps[64];
	int ret = 0;
	strcpy(prog, c->prog);
	int n = split(prog, steps, 64, ",");
	obs_append(c->obs, "alg=%d key=%d", (int)config->alg, config->key ? 1 : 0);
	for (int i = 0; i < n; i++) {
		char *a[8] = {0};
		char step[1024];
		strncpy(step, steps[i], sizeof(step) - 1); step[sizeof(step) - 1] = 0;
		int k = split(step, a, 8, ":");
		if (k < 1) continue;
		obs_append(c->obs, ";");
		if (!strcmp(a[0], "hset") && k >= 5) op_set(c->obs, 2, jwt, a[1], a[2], a[3], a[4]);
		else if (!strcmp(a[0], "cset") && k >= 5) op_set(c->obs, 3, jwt, a[1], a[2], a[3], a[4]);
		else if (!strcmp(a[0], "hget") && k >= 3) op_get(c->obs, 2, jwt, a[1], a[2]);
		else if (!strcmp(a[0], "cget") && k >= 3) op_get(c->obs, 3, jwt, a[1], a[2]);
		else if (!strcmp(a[0], "hdel") && k >= 2) op_del(c->obs, 2, jwt, a[1]);
		else if (!strcmp(a[0], "cdel") && k >= 2) op_del(c->obs, 3, jwt, a[1]);
		else if (!strcmp(a[0], "key") && k >= 3) { config->key = get_item(a[1], a[2]); obs_append(c->obs, "k"); }
		else if (!strcmp(a[0], "nokey")) { config->key = NULL; obs_append(c->obs, "k"); }
		else if (!strcmp(a[0], "alg") && k >= 2) { config->alg = (jwt_alg_t)atoi(a[1]); obs_append(c->obs, "a"); }
		else if (!strcmp(a[0], "getalg")) obs_append(c->obs, "jalg=%d", (int)jwt_get_alg(jwt));
		else if (!strcmp(a[0], "ret") && k >= 2) { ret = atoi(a[1]); obs_append(c->obs, "r"); }
		else if (!strcmp(a[0], "ctx")) obs_append(c->obs, "ctx=%d", config->ctx == NULL ? 0 : config->ctx == (void *)c ? 1 : 2);
		else if (!strcmp(a[0], "setctx")) { config->ctx = &g_cb_alt; obs_append(c->obs, "x"); }
		else obs_append(c->obs, "?");
	}
	return ret;
}

static jwt_claims_t claim_of(const char *s)
{
	if (!strcmp(s, "iss")) return JWT_CLAIM_ISS;
	if (!strcmp(s, "sub")) return JWT_CLAIM_SUB;
	if (!strcmp(s, "aud")) return JWT_CLAIM_AUD;
	if (!strcmp(s, "exp")) return JWT_CLAIM_EXP;
	if (!strcmp(s, "nbf")) return JWT_CLAIM_NBF;
	if (!strcmp(s, "iat")) return JWT_CLAIM_IAT;
	if (!strcmp(s, "jti")) return JWT_CLAIM_JTI;
	return (jwt_claims_t)atoi(s);
}

static void print_item(const jwk_item_t *it)
{
	const unsigned char *ob = NULL; size_t ol = 0;
	if (!it) { printf("none"); return; }
	printf("kty=%d alg=%d bits=%d priv=%d err=%d emsg=%d kid=", (int)jwks_item_kty(it), (int)jwks_item_alg(it),
	       jwks_item_key_bits(it), jwks_item_is_private(it), jwks_item_error(it) ? 1 : 0,
	       jwks_item_error_msg(it)[0] ? 1 : 0);
	putstr(jwks_item_kid(it));
	printf(" use=%d ops=%d crv=", (int)jwks_item_use(it), (int)jwks_item_key_ops(it));
	putstr(jwks_item_curve(it));
	printf(" pem=%d oct=", jwks_item_pem(it) ? 1 : 0);
	if (jwks_item_kty(it) == JWK_KEY_TYPE_OCT && !jwks_item_key_oct(it, &ob, &ol)) puthex(ob, ol);
	else printf("NULL");
}

static void handle(char *line)
{
	char *t[MAXTOK] = {0};
	int n = split(line, t, MAXTOK, " \t\r\n");
	size_t l1, l2;
	if (n == 0) { printf("\n"); return; }

	if (!strcmp(t[0], "b64enc") && n >= 2) {
		unsigned char *in = unhex(t[1], &l1);
		size_t osz = BASE64_ENCODE_OUT_SIZE(l1);
		char *out = malloc(osz);
		memset(out, 0xAA, osz);
		unsigned int j = base64_encode(in, (unsigned int)l1, out);
		puthex(out, j); printf(" %u nul=%d", j, out[j] == 0);
		free(out); free(in);
	} else if (!strcmp(t[0], "b64dec") && n >= 2) {
		unsigned char *in = unhex(t[1], &l1);
		char *inx = malloc(l1 ? l1 : 1);          /* exact-size, not NUL-terminated: catches over-reads */
		memcpy(inx, in, l1);
		size_t osz = BASE64_DECODE_OUT_SIZE(l1) + 1;
		unsigned char *out = malloc(osz);
		memset(out, 0xAA, osz);
		unsigned int j = base64_decode(inx, (unsigned int)l1, out);
		printf("j=%u ", j); puthex(out, j);
		free(out); free(inx); free(in);
	} else if (!strcmp(t[0], "urienc") && n >= 2) {
		unsigned char *in = unhex(t[1], &l1);
		unsigned char *inx = malloc(l1 ? l1 : 1);
		memcpy(inx, in, l1);
		char *dst = NULL;
		int r = jwt_base64uri_encode(&dst, (char *)inx, (int)l1);
		putstr(dst); printf(" ret=%d", r);
		lib_free(dst); free(inx); free(in);
	} else if (!strcmp(t[0], "uridec") && n >= 2) {
		unsigned char *in = unhex(t[1], &l1);
		char *inx = malloc(l1 + 1);               /* exact-size C string */
		memcpy(inx, in, l1); inx[l1] = 0;
		int rl = -12345;
		unsigned char *out = jwt_base64uri_decode(inx, &rl);
		if (!out) printf("NULL"); else { puthex(out, (size_t)rl); lib_free(out); }
		free(inx); free(in);
	} else if (!strcmp(t[0], "strcmp") && n >= 3) {
		unsigned char *a = unhex(t[1], &l1), *b = unhex(t[2], &l2);
		char *ax = malloc(l1 + 1), *bx = malloc(l2 + 1);
		memcpy(ax, a, l1); ax[l1] = 0; memcpy(bx, b, l2); bx[l2] = 0;
		printf("%d", jwt_strcmp(ax, bx) ? 1 : 0);
		free(ax); free(bx); free(a); free(b);
	} else if (!strcmp(t[0], "stralg") && n >= 2) {
		unsigned char *a = unhex(t[1], &l1);
		printf("%d", (int)jwt_str_alg((char *)a));
		free(a);
	} else if (!strcmp(t[0], "algstr") && n >= 2) {
		putstr(jwt_alg_str((jwt_alg_t)atoi(t[1])));
	} else if (!strcmp(t[0], "clock") && n >= 2) {
		g_now = (time_t)atoll(t[1]);
		printf("ok");
	} else if (!strcmp(t[0], "prov") && n >= 3) {
		int rc;
		if (!strcmp(t[1], "name")) { unsigned char *a = unhex(t[2], &l1); rc = jwt_set_crypto_ops((char *)a); free(a); }
		else rc = jwt_set_crypto_ops_t((jwt_crypto_provider_t)atoi(t[2]));
		printf("rc=%d cur=%s id=%d", rc ? 1 : 0, jwt_get_crypto_ops(), (int)jwt_get_crypto_ops_t());
	} else if (!strcmp(t[0], "provget")) {
		printf("cur=%s id=%d", jwt_get_crypto_ops(), (int)jwt_get_crypto_ops_t());
	} else if (!strcmp(t[0], "jwks") && n >= 3) {
		int s = atoi(t[1]);
		if (s < 0 || s >= NSLOT) { printf("badslot"); goto done; }
		if (!strcmp(t[2], "load") && n >= 4) {
			unsigned char *js = unhex(t[3], &l1);
			const char *via = n >= 5 ? t[4] : "strn";
			jwk_set_t *r;
			if (!strcmp(via, "str")) r = jwks_load(g_sets[s], (char *)js);
			else if (!strcmp(via, "create")) { r = g_sets[s] ? jwks_load(g_sets[s], (char *)js) : jwks_create((char *)js); }
			else if (!strcmp(via, "file") || !strcmp(via, "fp")) {
				char path[] = "/tmp/execjwkXXXXXX";
				int fd = mkstemp(path);
				FILE *f = fdopen(fd, "w+");
				if (js) fwrite(js, 1, l1, f);
				fflush(f);
				if (!strcmp(via, "file")) r = jwks_load_fromfile(g_sets[s], path);
				else { rewind(f); r = jwks_load_fromfp(g_sets[s], f); }
				fclose(f); unlink(path);
			} else if (!strcmp(via, "pipe")) {
				/* a stream that cannot seek: a child process writes the document into a pipe */
				int pfd[2];
				r = NULL;
				fflush(stdout);
				if (!pipe(pfd)) {
					pid_t pid = fork();
					if (pid == 0) {
						close(pfd[0]);
						size_t off = 0;
						while (js && off < l1) { ssize_t w = write(pfd[1], js + off, l1 - off); if (w <= 0) break; off += (size_t)w; }
						_exit(0);
					}
					close(pfd[1]);
					FILE *f = fdopen(pfd[0], "r");
					r = jwks_load_fromfp(g_sets[s], f);
					fclose(f);
					if (pid > 0) { int st; waitpid(pid, &st, 0); }
				}
			} else r = jwks_load_strn(g_sets[s], (char *)js, l1);
			if (r) g_sets[s] = r;
			if (!r) printf("NULL");
			else printf("err=%d emsg=%d n=%zu", jwks_error(r), jwks_error_msg(r)[0] ? 1 : 0, jwks_item_count(r));
			free(js);
		} else if (!g_sets[s]) { printf("noset");
		} else if (!strcmp(t[2], "item") && n >= 4) { print_item(jwks_item_get(g_sets[s], (size_t)strtoull(t[3], NULL, 10)));
		} else if (!strcmp(t[2], "pem") && n >= 4) {
			const jwk_item_t *it = jwks_item_get(g_sets[s], (size_t)strtoull(t[3], NULL, 10));
			putstr(it ? jwks_item_pem(it) : NULL);
		} else if (!strcmp(t[2], "count")) { printf("%zu", jwks_item_count(g_sets[s]));
		} else if (!strcmp(t[2], "free") && n >= 4) { printf("%d", jwks_item_free(g_sets[s], (size_t)strtoull(t[3], NULL, 10)));
		} else if (!strcmp(t[2], "drop")) { jwks_free(g_sets[s]); g_sets[s] = NULL; printf("ok");
		} else if (!strcmp(t[2], "freebad")) { printf("%d", jwks_item_free_bad(g_sets[s]));
		} else if (!strcmp(t[2], "freeall")) { printf("%d", jwks_item_free_all(g_sets[s]));
		} else if (!strcmp(t[2], "errany")) { printf("%d", jwks_error_any(g_sets[s]));
		} else if (!strcmp(t[2], "err")) { printf("err=%d emsg=%d", jwks_error(g_sets[s]), jwks_error_msg(g_sets[s])[0] ? 1 : 0);
		} else if (!strcmp(t[2], "errclr")) { jwks_error_clear(g_sets[s]); printf("ok");
		} else if (!strcmp(t[2], "find") && n >= 4) {
			unsigned char *k = unhex(t[3], &l1);
			jwk_item_t *it = jwks_find_bykid(g_sets[s], (char *)k);
			/* report position of the found item */
			long pos = -1;
			for (size_t i = 0; it && i < jwks_item_count(g_sets[s]); i++) if (jwks_item_get(g_sets[s], i) == it) { pos = (long)i; break; }
			printf("%ld", pos);
			free(k);
		} else if (!strcmp(t[2], "del")) { jwks_free(g_sets[s]); g_sets[s] = NULL; printf("ok");
		} else printf("badop");
	} else if (!strcmp(t[0], "ck") && n >= 3) {
		int c = atoi(t[1]);
		if (c < 0 || c >= NSLOT) { printf("badslot"); goto done; }
		if (!strcmp(t[2], "new")) { if (g_ck[c]) jwt_checker_free(g_ck[c]); g_ck[c] = jwt_checker_new(); g_ckcb[c].prog[0] = 0; printf(g_ck[c] ? "ok" : "NULL"); goto done; }
		if (!g_ck[c]) { printf("nock"); goto done; }
		jwt_checker_t *ck = g_ck[c];
		if (!strcmp(t[2], "free")) { jwt_checker_free(ck); g_ck[c] = NULL; printf("ok");
		} else if (!strcmp(t[2], "setkey") && n >= 4) {
			const jwk_item_t *it = (n >= 6) ? get_item(t[4], t[5]) : NULL;
			printf("rc=%d", jwt_checker_setkey(ck, (jwt_alg_t)atoi(t[3]), it) ? 1 : 0);
		} else if (!strcmp(t[2], "claimset") && n >= 5) {
			unsigned char *v = unhex(t[4], &l1);
			printf("rc=%d", jwt_checker_claim_set(ck, claim_of(t[3]), (char *)v) ? 1 : 0);
			free(v);
		} else if (!strcmp(t[2], "claimdel") && n >= 4) { printf("rc=%d", jwt_checker_claim_del(ck, claim_of(t[3])) ? 1 : 0);
		} else if (!strcmp(t[2], "claimget") && n >= 4) { putstr(jwt_checker_claim_get(ck, claim_of(t[3])));
		} else if (!strcmp(t[2], "leeway") && n >= 5) { printf("rc=%d", jwt_checker_time_leeway(ck, claim_of(t[3]), (time_t)atoll(t[4])) ? 1 : 0);
		} else if ((!strcmp(t[2], "setcb") || !strcmp(t[2], "setcb0")) && n >= 4) {
			int rc;
			if (!strcmp(t[2], "setcb0")) { strncpy(g_ckcb[c].prog, t[3], sizeof(g_ckcb[c].prog) - 1); rc = jwt_checker_setcb(ck, run_cb, NULL); }   /* no context */
			else if (!strcmp(t[3], "@ctx")) rc = jwt_checker_setcb(ck, NULL, &g_ckcb[c]);        /* context only: an installed callback stays */
			else if (!strcmp(t[3], "-")) { g_ckcb[c].prog[0] = 0; rc = jwt_checker_setcb(ck, NULL, NULL); }
			else { strncpy(g_ckcb[c].prog, t[3], sizeof(g_ckcb[c].prog) - 1); rc = jwt_checker_setcb(ck, run_cb, &g_ckcb[c]); }
			printf("rc=%d", rc ? 1 : 0);
		} else if (!strcmp(t[2], "verify") && n >= 4) {
			unsigned char *tok = NULL;
			char *tx = NULL;
			if (!strcmp(t[3], "@last")) { if (g_last_tok) tx = strdup(g_last_tok); }
			else {
				tok = unhex(t[3], &l1);
				if (tok) { tx = malloc(l1 + 1); memcpy(tx, tok, l1); tx[l1] = 0; }
			}
			g_ckcb[c].obs = g_obs_shared; g_obs_shared[0] = 0;
			g_cb_cur = &g_ckcb[c];
			int rc = jwt_checker_verify(ck, tx);
			g_cb_cur = NULL;
			printf("rc=%d err=%d msg=%d cb=[%s]", rc ? 1 : 0, jwt_checker_error(ck), jwt_checker_error_msg(ck)[0] ? 1 : 0, g_ckcb[c].obs);
			if (getenv("EXEC_MSG")) printf(" text=%s", jwt_checker_error_msg(ck));
			free(tx); free(tok);
		} else if (!strcmp(t[2], "err")) { printf("err=%d msg=%d", jwt_checker_error(ck), jwt_checker_error_msg(ck)[0] ? 1 : 0);
		} else if (!strcmp(t[2], "errclr")) { jwt_checker_error_clear(ck); printf("ok");
		} else printf("badop");
	} else if (!strcmp(t[0], "bl") && n >= 3) {
		int b = atoi(t[1]);
		if (b < 0 || b >= NSLOT) { printf("badslot"); goto done; }
		if (!strcmp(t[2], "new")) { if (g_bl[b]) jwt_builder_free(g_bl[b]); g_bl[b] = jwt_builder_new(); g_blcb[b].prog[0] = 0; printf(g_bl[b] ? "ok" : "NULL"); goto done; }
		if (!g_bl[b]) { printf("nobl"); goto done; }
		jwt_builder_t *bl = g_bl[b];
		static char obs[OBS_MAX]; obs[0] = 0;
		if (!strcmp(t[2], "free")) { jwt_builder_free(bl); g_bl[b] = NULL; printf("ok");
		} else if (!strcmp(t[2], "setkey") && n >= 4) {
			const jwk_item_t *it = (n >= 6) ? get_item(t[4], t[5]) : NULL;
			printf("rc=%d", jwt_builder_setkey(bl, (jwt_alg_t)atoi(t[3]), it) ? 1 : 0);
		} else if (!strcmp(t[2], "iat") && n >= 4) { printf("rc=%d", jwt_builder_enable_iat(bl, atoi(t[3])));
		} else if (!strcmp(t[2], "offset") && n >= 5) { printf("rc=%d", jwt_builder_time_offset(bl, claim_of(t[3]), (time_t)atoll(t[4])) ? 1 : 0);
		} else if ((!strcmp(t[2], "setcb") || !strcmp(t[2], "setcb0")) && n >= 4) {
			int rc;
			if (!strcmp(t[2], "setcb0")) { strncpy(g_blcb[b].prog, t[3], sizeof(g_blcb[b].prog) - 1); rc = jwt_builder_setcb(bl, run_cb, NULL); }
			else if (!strcmp(t[3], "@ctx")) rc = jwt_builder_setcb(bl, NULL, &g_blcb[b]);
			else if (!strcmp(t[3], "-")) { g_blcb[b].prog[0] = 0; rc = jwt_builder_setcb(bl, NULL, NULL); }
			else { strncpy(g_blcb[b].prog, t[3], sizeof(g_blcb[b].prog) - 1); rc = jwt_builder_setcb(bl, run_cb, &g_blcb[b]); }
			printf("rc=%d", rc ? 1 : 0);
		} else if ((!strcmp(t[2], "hset") || !strcmp(t[2], "cset")) && n >= 7) { op_set(obs, t[2][0] == 'h' ? 0 : 1, bl, t[3], t[4], t[5], t[6]); fputs(obs, stdout);
		} else if ((!strcmp(t[2], "hget") || !strcmp(t[2], "cget")) && n >= 5) { op_get(obs, t[2][0] == 'h' ? 0 : 1, bl, t[3], t[4]); fputs(obs, stdout);
		} else if ((!strcmp(t[2], "hdel") || !strcmp(t[2], "cdel")) && n >= 4) { op_del(obs, t[2][0] == 'h' ? 0 : 1, bl, t[3]); fputs(obs, stdout);
		} else if (!strcmp(t[2], "gen")) {
			g_blcb[b].obs = g_obs_shared; g_obs_shared[0] = 0;
			g_cb_cur = &g_blcb[b];
			char *tok = jwt_builder_generate(bl);
			g_cb_cur = NULL;
			printf("tok="); putstr(tok);
			printf(" err=%d msg=%d cb=[%s]", jwt_builder_error(bl), jwt_builder_error_msg(bl)[0] ? 1 : 0, g_blcb[b].obs);
			if (getenv("EXEC_MSG")) printf(" text=%s", jwt_builder_error_msg(bl));
			lib_free(g_last_tok);
			g_last_tok = tok;
		} else if (!strcmp(t[2], "err")) { printf("err=%d msg=%d", jwt_builder_error(bl), jwt_builder_error_msg(bl)[0] ? 1 : 0);
		} else if (!strcmp(t[2], "errclr")) { jwt_builder_error_clear(bl); printf("ok");
		} else printf("badop");
	} else if (!strcmp(t[0], "allochook")) {
		if (!g_alloc_hooked) { jwt_set_alloc(x_malloc, x_free); g_alloc_hooked = 1; }
		g_alloc_count = 0; g_alloc_fail_at = n >= 2 ? atol(t[1]) : -1; g_fail_site[0] = 0;
		printf("ok");
	} else if (!strcmp(t[0], "clocktick") && n >= 2) {
		g_tick = (time_t)atoll(t[1]);
		printf("ok");
	} else if (!strcmp(t[0], "valreuse") && n >= 2) {
		g_val_reuse = atoi(t[1]);
		memset(&g_val, 0, sizeof(g_val));
		printf("ok");
	} else if (!strcmp(t[0], "alloccount")) {
		printf("%ld site=%s", g_alloc_count, g_fail_site[0] ? g_fail_site : "-");
	} else if (!strcmp(t[0], "echo")) {
		printf("echo");
	} else {
		printf("badop");
	}
done:
	printf("\n");
	fflush(stdout);
}

int main(void)
{
	char *line = NULL;
	size_t cap = 0;
	setvbuf(stdout, NULL, _IOFBF, 1 << 16);
	/* every run uses an application-supplied allocator whose blocks are not libc blocks (unless the
	 * environment asks for the library's default): pairing mistakes between the two show up under ASan */
	if (!getenv("EXEC_DEFAULT_ALLOC")) { jwt_set_alloc(x_malloc, x_free); g_alloc_hooked = 1; }
	while (getline(&line, &cap, stdin) > 0) {
		if (line[0] == '#') continue;
		handle(line);
	}
	free(line);
	lib_free(g_last_tok);
	for (int i = 0; i < NSLOT; i++) {
		if (g_ck[i]) jwt_checker_free(g_ck[i]);
		if (g_bl[i]) jwt_builder_free(g_bl[i]);
		if (g_sets[i]) jwks_free(g_sets[i]);
	}
	return 0;
}
