"""C17 fault enumeration: fail the k-th allocation of a scenario, for every k, classify the outcome."""
import json
import re

import keys as K
from lib import hx

ENV = {"ASAN_OPTIONS": "detect_leaks=0:exitcode=86:allocator_may_return_null=1:abort_on_error=0"}


def is_reported(op, out):
    """does `out` signal failure through the operation's documented channel?"""
    t = op.split()
    if out in ("NULL", "noset", "nock", "nobl", "none", "badslot"):
        return True
    if t[0] == "jwks":
        if t[2] == "load":
            return "err=1" in out
        if t[2] == "item":
            return "err=1" in out
        if t[2] == "errany":           # jwks_error_any: the documented way to ask whether any key of the set failed to load
            return out != "0"
        return False
    if t[0] in ("ck", "bl"):
        if t[2] in ("verify",):
            # a get/set the callback made reports through its own return code (visible in the callback's observations)
            return out.startswith("rc=1") or re.search(r"cb=\[[^\]]*rc=[1-9]", out) is not None
        if t[2] == "gen":
            return out.startswith("tok=NULL")
        if t[2] in ("hget", "cget", "hset", "cset"):
            return not out.startswith("rc=0")
        if t[2] == "claimget":
            return out == "NULL"
        return out.startswith("rc=1") or out.startswith("rc=-1")
    return False


def norm_site(site):
    frames = [f for f in site.replace("site=", "").split("<") if f and f != "?" and f != "jwt_malloc" and f != "x_malloc"]
    return "<".join(frames) or "-"


def enumerate_scenario(ctx, name, lines):
    """returns (n_allocs, baseline outputs, {k: (kind, detail)})"""
    rc, base, err = ctx.run_exec(["allochook -1"] + lines + ["alloccount"], env=ENV)
    if rc != 0 or len(base) != len(lines) + 2:
        raise RuntimeError("fault-free run of scenario %s failed: rc=%s %s" % (name, rc, err[-400:]))
    n = int(base[-1].split()[0])
    base = base[1:-1]
    per = len(lines) + 3
    res = {}
    k0 = 1
    while k0 <= n:
        script = []
        for kk in range(k0, n + 1):
            script += ["allochook %d" % kk] + lines + ["alloccount", "echo"]
        rc, out, err = ctx.run_exec(script, env=ENV)
        done = len(out) // per
        for i in range(done):
            chunk = out[i * per:(i + 1) * per]
            res[k0 + i] = ("ran", chunk[1:-2], chunk[-2])
        if rc != 0 and k0 + done <= n:
            res[k0 + done] = ("crash", out[done * per:], err[-1500:])
            k0 = k0 + done + 1
        else:
            break
    return n, base, res


def canon(op, out, randomised):
    """tokens signed with a randomised algorithm are compared on header.payload only"""
    if randomised and out.startswith("tok=") and not out.startswith("tok=NULL"):
        t = out.split(" ")
        raw = bytes.fromhex(t[0][4:]) if t[0][4:] not in ("-",) else b""
        parts = raw.split(b".")
        if len(parts) == 3:
            t[0] = "tok=" + (parts[0] + b"." + parts[1] + b"." + (b"<sig>" if parts[2] else b"")).hex()
        return " ".join(t)
    return out


def classify(lines, base, entry, randomised=False):
    """-> (class, first differing op index or None, site)"""
    if entry[0] == "crash":
        frames = re.findall(r"#\d+ 0x[0-9a-f]+ in (\w+)", entry[2])
        return "crash", len(entry[1]) - 1 if entry[1] else 0, "<".join(frames[:5]) or "?"
    outs, site = entry[1], norm_site(entry[2].split(" ", 1)[1] if " " in entry[2] else "-")
    for i, (a, b) in enumerate(zip(base, outs)):
        a, b = canon(lines[i], a, randomised), canon(lines[i], b, randomised)
        if a != b:
            if is_reported(lines[i], b):
                return "reported", i, site
            return "wrong-success", i, site
    return "same", None, site


def later_accepts(lines, base, entry, first):
    """after the first (reported) difference: verifications the fault-free run rejects and this run accepts"""
    out = []
    if entry[0] != "ran":
        return out
    for i in range(first + 1, min(len(base), len(entry[1]))):
        t = lines[i].split()
        if len(t) > 2 and t[0] == "ck" and t[2] == "verify" and base[i].startswith("rc=1") and entry[1][i].startswith("rc=0"):
            out.append(i)
    return out


def scenarios(pool, extra_keys, tier):
    """name -> op lines; every scenario is self-contained and frees what it creates"""
    sc = {}
    oct_ = K.Key("oct", k=b"0123456789abcdef0123456789abcdef", bits=256)
    jwk = json.dumps(oct_.jwk(alg="HS256", extra={"kid": "k1", "use": "sig", "key_ops": ["sign"]})).encode()
    sc["oct-load-generate-verify"] = [
        "clock 1000", "jwks 1 load %s strn" % hx(jwk), "jwks 1 item 0", "bl 0 new", "bl 0 setkey 0 1 0",
        "bl 0 cset json - %s 1" % hx(b'{"a":[1,2],"b":"x","iss":"me"}'), "bl 0 hset str %s %s 0" % (hx(b"kid"), hx(b"k1")),
        "bl 0 offset exp 60", "bl 0 gen", "ck 0 new", "ck 0 setkey 0 1 0", "ck 0 claimset iss %s" % hx(b"me"), "ck 0 verify @last",
        "ck 0 claimset iss %s" % hx(b"other"), "ck 0 verify @last", "ck 0 setcb cget:json:-,hget:str:%s" % hx(b"alg"), "ck 0 verify @last",
        # tokens that must be REJECTED, with a callback installed: no single failed allocation may turn the rejection into an accept
        "ck 0 claimset iss %s" % hx(b"me"), "clock 999999", "ck 0 verify @last", "clock 1000", "ck 0 claimset sub %s" % hx(b"nobody"), "ck 0 verify @last",
        "ck 0 claimdel sub", "ck 0 verify @last",
        "bl 0 cget json -", "bl 0 hget str %s" % hx(b"kid"), "bl 0 cget int %s" % hx(b"nope"), "jwks 1 find %s" % hx(b"k1"),
        "jwks 1 del", "bl 0 free", "ck 0 free"]
    sc["unsigned-and-malformed"] = [
        "clock 1000", "bl 0 new", "bl 0 cset int %s 5 0" % hx(b"n"), "bl 0 cset bool %s 1 0" % hx(b"t"), "bl 0 cset str %s %s 0" % (hx(b"s"), hx(b"v")),
        "bl 0 cset json %s %s 0" % (hx(b"j"), hx(b'{"y":[1,"z"]}')), "bl 0 hset json %s %s 1" % (hx(b"crit"), hx(b'["a"]')),
        "bl 0 cset json %s %s 0" % (hx(b"j"), hx(b'[2]')), "bl 0 cset str %s %s 1" % (hx(b"s"), hx(b"w")), "bl 0 cset int %s 6 1" % hx(b"n"),
        "bl 0 gen", "ck 0 new", "ck 0 verify @last", "ck 0 verify %s" % hx(b"e30.e30."), "ck 0 verify %s" % hx(b"nodots"),
        "ck 0 leeway exp 5", "bl 0 cdel %s" % hx(b"n"), "bl 0 hdel -", "bl 0 free", "ck 0 free"]
    set3 = json.dumps({"keys": [oct_.jwk(extra={"kid": "a"}), {"kty": "oct", "k": ""}, oct_.jwk(extra={"kid": "b"})]}).encode()
    sc["jwks-set"] = ["jwks 2 load %s strn" % hx(set3), "jwks 2 count", "jwks 2 item 0", "jwks 2 item 1", "jwks 2 item 2", "jwks 2 find %s" % hx(b"b"), "jwks 2 freebad",
                      "jwks 2 free 0", "jwks 2 load %s str" % hx(jwk), "jwks 2 count", "jwks 2 item 0", "jwks 2 item 1", "jwks 2 errany", "jwks 2 del"]
    # a load into a keyring whose keys are already in use: whatever the failing load does, the keys that were there
    # before stay where they are (the builder and the checker hold pointers to them)
    sc["jwks-append-in-use"] = [
        "clock 1000", "jwks 5 load %s strn" % hx(jwk), "ck 0 new", "ck 0 setkey 0 5 0", "bl 0 new", "bl 0 setkey 0 5 0", "bl 0 gen", "ck 0 verify @last",
        "jwks 5 load %s strn" % hx(set3), "jwks 5 item 0", "ck 0 verify @last", "bl 0 gen", "jwks 5 find %s" % hx(b"k1"), "jwks 5 count",
        "bl 0 free", "ck 0 free", "jwks 5 del"]
    # a keyring that is already big when more keys arrive, read at every position afterwards (whatever bookkeeping a big
    # keyring carries has to survive a load that fails half-way)
    import suites as S
    for nbig in sorted({20} | {h + d for h in S.HINTS if h <= 64 for d in (0, 1)}):
        big = json.dumps({"keys": [oct_.jwk(extra={"kid": "k-%d" % i}) for i in range(nbig)]}).encode()
        more = json.dumps({"keys": [oct_.jwk(extra={"kid": "a"}), oct_.jwk(extra={"kid": "b"})]}).encode()
        sc["jwks-append-to-%d-keys" % nbig] = [
            "jwks 6 load %s strn" % hx(big), "jwks 6 errany", "jwks 6 count", "jwks 6 item 0", "jwks 6 item %d" % (nbig // 2), "jwks 6 item %d" % (nbig - 1),
            "jwks 6 load %s strn" % hx(more), "jwks 6 errany", "jwks 6 count", "jwks 6 item 0", "jwks 6 item 1", "jwks 6 item %d" % (nbig // 2), "jwks 6 item %d" % (nbig - 1),
            "jwks 6 item %d" % nbig, "jwks 6 item %d" % (nbig + 1), "jwks 6 item %d" % (nbig + 2), "jwks 6 find %s" % hx(b"k-5"), "jwks 6 find %s" % hx(b"b"), "jwks 6 freebad",
            "jwks 6 item 5", "jwks 6 item %d" % (nbig - 1), "jwks 6 free 0", "jwks 6 item 0", "jwks 6 count", "jwks 6 del"]
    # a policy that is replaced: whichever allocation fails on the way, the checker never ends up more lenient than the
    # fault-free one (tokens it rejects stay rejected for the rest of the checker's life)
    from world import seg, hs_sig

    def tok_(claims):
        m_ = seg({"alg": "HS256"}) + b"." + seg(claims)
        return hx(m_ + b"." + hs_sig(1, oct_.k, m_))
    sc["checker-policy-replace"] = [
        "clock 1000", "jwks 7 load %s strn" % hx(jwk), "ck 0 new", "ck 0 setkey 0 7 0", "ck 0 claimset iss %s" % hx(b"issuer-A"),
        "ck 0 verify " + tok_({"iss": "issuer-A"}), "ck 0 claimset iss %s" % hx(b"issuer-B"), "ck 0 claimset aud %s" % hx(b"aud-X"),
        "ck 0 claimset sub %s" % hx(b"sub-1"), "ck 0 claimset sub %s" % hx(b"sub-2"),
        "ck 0 verify " + tok_({"iss": "issuer-B", "aud": "aud-X", "sub": "sub-2"}), "ck 0 verify " + tok_({"iss": "issuer-C", "aud": "aud-X", "sub": "sub-2"}),
        "ck 0 verify " + tok_({"iss": "issuer-A", "aud": "aud-X", "sub": "sub-2"}), "ck 0 verify " + tok_({"aud": "aud-X", "sub": "sub-2"}),
        "ck 0 verify " + tok_({"iss": "issuer-B", "aud": "aud-Y", "sub": "sub-2"}), "ck 0 verify " + tok_({"iss": "issuer-B", "aud": "aud-X", "sub": "sub-1"}),
        "ck 0 leeway exp 5", "ck 0 verify " + tok_({"iss": "issuer-B", "aud": "aud-X", "sub": "sub-2", "exp": 900}),
        "ck 0 claimdel sub", "ck 0 verify " + tok_({"iss": "issuer-C", "aud": "aud-X"}), "ck 0 free", "jwks 7 del"]
    keys = [("rsa2048", "RS256"), ("p256", "ES256"), ("ed25519", "EdDSA")]
    if tier == "thorough":
        keys += [("rsa2048", "PS384")]
    for kname, alg in keys:
        key = pool.keys[kname]
        priv = json.dumps(key.jwk(private=True)).encode()
        pub = json.dumps(key.jwk(private=False)).encode()
        for prov in ("openssl", "gnutls"):
            sc["%s-%s-%s" % (kname, alg, prov)] = [
                "clock 1000", "prov name " + hx(prov.encode()), "jwks 3 load %s strn" % hx(priv), "jwks 4 load %s strn" % hx(pub), "jwks 3 item 0",
                "bl 0 new", "bl 0 setkey %d 3 0" % K.ALG_ORD[alg], "bl 0 gen", "ck 0 new", "ck 0 setkey %d 4 0" % K.ALG_ORD[alg],
                "ck 0 verify @last", "jwks 3 del", "jwks 4 del", "bl 0 free", "ck 0 free", "prov name " + hx(b"openssl")]
    return sc


# ---- failing site -> row of lean/Jwt/Alloc.lean ------------------------------------------
ROWS = [
    (r"(jwks_load|jwks_create)\w*$", r"json_load", "jwks_load:json_load* internal"),
    (r"(jwks_load|jwks_create)\w*$", r"json_deep_copy", "jwks_load:json_deep_copy"),
    (r"(jwks_load|jwks_create)\w*$", r"jwt_base64uri_decode<openssl_process_rsa", "jwks_load:openssl_process_rsa:jwt_base64uri_decode"),
    (r"(jwks_load|jwks_create)\w*$", r"jwt_base64uri_decode<openssl_process_ec", "jwks_load:openssl_process_ec:jwt_base64uri_decode"),
    (r"(jwks_load|jwks_create)\w*$", r"jwt_base64uri_decode<openssl_process_eddsa", "jwks_load:openssl_process_eddsa:jwt_base64uri_decode"),
    (r"(jwks_load|jwks_create)\w*$", r"^jwt_base64uri_decode<jwks", "jwks_load:jwt_base64uri_decode (oct k)"),
    (r"(jwks_load|jwks_create)\w*$", r"^(jwks_load|jwks_create)\w*$", "jwks_load:direct (jwks_new, jwk_item_t, kid copy)"),
    (r"jwt_(builder|checker)_new$", r"json_object", "new:json_object"),
    (r"jwt_(builder|checker)_new$", r"^jwt_(builder|checker)_new$", "new:direct"),
    (r"jwt_builder_generate$", r"(__setter|__getter)<jwt_(claim|header)_(set|get)<jwt_builder_generate$", "generate:jwt_claim_set (iat/nbf/exp)"),
    (r"jwt_builder_generate$", r"json_deep_copy", "generate:json_deep_copy"),
    (r"jwt_builder_generate$", r"jwt_claim_set<jwt_builder_generate", "generate:jwt_claim_set (iat/nbf/exp)"),
    (r"jwt_builder_generate$", r"jwt_head_setup", "generate:jwt_head_setup"),
    (r"jwt_builder_generate$", r"json_dump", "generate:jwt_encode_str:json_dumps"),
    (r"jwt_builder_generate$", r"jwt_base64uri_encode<jwt_encode_str", "generate:jwt_encode_str:jwt_base64uri_encode"),
    (r"jwt_builder_generate$", r"jwt_sign<jwt_encode_str", "generate:jwt_sign"),
    (r"jwt_builder_generate$", r"^jwt_encode_str<", "generate:jwt_encode_str:direct (signing input, token)"),
    (r"jwt_builder_generate$", r"^jwt_builder_generate$", "generate:direct (jwt_t)"),
    (r"jwt_checker_verify$", r"(__setter|__getter)<jwt_(claim|header)_(set|get)<", "verify:callback set/get"),
    (r"jwt_checker_verify$", r"jwt_new<jwt_checker_verify", "verify:jwt_new"),
    (r"jwt_checker_verify$", r"jwt_base64uri_decode<jwt_parse", "verify:jwt_parse:jwt_base64uri_decode"),
    (r"jwt_checker_verify$", r"json_loads<jwt_parse", "verify:jwt_parse:json_loads"),
    (r"jwt_checker_verify$", r"^jwt_parse<jwt_checker_verify$", "verify:jwt_parse:direct (token copy)"),
    (r"jwt_checker_verify$", r"json_deep_copy<jwt_checker_verify", "verify:json_deep_copy (claims kept from the callback)"),
    (r"jwt_checker_verify$", r"jwt_sign<jwt_verify_sig", "verify:jwt_verify_sig:jwt_sign"),
    (r"jwt_checker_verify$", r"jwt_base64uri_encode<jwt_verify_sig", "verify:jwt_verify_sig:jwt_base64uri_encode"),
    (r"jwt_checker_verify$", r"jwt_base64uri_decode<jwt_verify_sig", "verify:jwt_verify_sig:jwt_base64uri_decode"),
    (r"jwt_checker_verify$", r"(openssl|gnutls)_verify_sha_pem|^jwt_verify_sig<jwt_verify_complete", "verify:provider"),
    (r"jwt_(builder|checker)_(claim|header)_set$|jwt_checker_claim_set$", r"json_loads", "set:json_loads"),
    (r"jwt_(builder|checker)_(claim|header)_set$|jwt_checker_claim_set$", r"json_object_update", "set:json_object_update"),
    (r"jwt_(builder|checker)_(claim|header)_set$|jwt_checker_claim_set$", r"json_object_set", "set:json_object_set_new"),
    (r"jwt_(builder|checker)_(claim|header)_set$|jwt_checker_claim_set$", r"json_(string|integer|true|false|boolean)", "set:value constructor (json_string/json_integer/json_boolean)"),
    (r"jwt_(builder|checker)_(claim|header)_get$", r"json_dump", "get:json_dumps"),
]
DEGRADE = {"jwks_load:json_load* internal": "jwks_load:json_load* lexer strbuffer growth (jansson lex_save ignores strbuffer_append_byte)",
           "generate:jwt_encode_str:json_dumps": "generate:jwt_encode_str:json_dumps output buffer growth (jansson drops bytes of the dump)"}


def row_of(site):
    outer = site.split("<")[-1]
    for rx_outer, rx_inner, row in ROWS:
        if re.search(rx_outer, outer) and re.search(rx_inner, site):
            return row
    return None


def lean_rows(path):
    """(site -> reaction) parsed from lean/Jwt/Alloc.lean"""
    src = open(path).read()
    rows = {}
    for m in re.finditer(r'P "([^"]+)"', src):
        rows[m.group(1)] = "propagate"
    for m in re.finditer(r'⟨"([^"]+)",\s*\.(\w+)⟩', src):
        rows[m.group(1)] = m.group(2)
    return rows
