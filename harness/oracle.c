/* Independent crypto oracle: direct EVP calls, written without reference to libjwt's glue.
 * Links only libcrypto.  Line protocol on stdin/stdout:
 *   key ID PEMHEX                     -> ok | err
 *   verify ID ALG MSGHEX SIGHEX       -> 1 | 0     (SIG is the JWS form: raw r||s for ES*)
 *   sign ID ALG MSGHEX                -> SIGHEX | err
 *   bits ID                           -> key size in bits and type name
 * ALG: RS256.. PS256.. ES256 ES256K ES384 ES512 EdDSA
 * JWS ECDSA rule (RFC 7518 3.4): the signature is exactly 2*ceil(bits/8) octets. */
#include <stdio.h>
#include <stdlib.h>
#include <string.h>
#include <openssl/evp.h>
#include <openssl/pem.h>
#include <openssl/ec.h>
#include <openssl/ecdsa.h>
#include <openssl/rsa.h>
#include <openssl/bn.h>
#include <openssl/err.h>
#include <openssl/core_names.h>
#include <openssl/param_build.h>
#include <openssl/objects.h>

#define NKEY 8192
static EVP_PKEY *keys[NKEY];

static unsigned char *unhex(const char *s, size_t *n)
{
	size_t l = strlen(s);
	if (!strcmp(s, "-")) { *n = 0; return calloc(1, 1); }
	unsigned char *b = malloc(l / 2 + 1);
	for (size_t i = 0; i < l / 2; i++) { unsigned v; sscanf(s + 2 * i, "%2x", &v); b[i] = (unsigned char)v; }
	*n = l / 2;
	return b;
}
static void puthex(const unsigned char *b, size_t n)
{
	if (!n) { printf("-"); return; }
	for (size_t i = 0; i < n; i++) printf("%02x", b[i]);
}

struct alginfo { const char *name; const EVP_MD *(*md)(void); int kind; /* 0 rsa,1 pss,2 ec,3 eddsa */ const char *curve; };
static const struct alginfo algs[] = {
	{"RS256", EVP_sha256, 0, NULL}, {"RS384", EVP_sha384, 0, NULL}, {"RS512", EVP_sha512, 0, NULL},
	{"PS256", EVP_sha256, 1, NULL}, {"PS384", EVP_sha384, 1, NULL}, {"PS512", EVP_sha512, 1, NULL},
	{"ES256", EVP_sha256, 2, "prime256v1"}, {"ES256K", EVP_sha256, 2, "secp256k1"},
	{"ES384", EVP_sha384, 2, "secp384r1"}, {"ES512", EVP_sha512, 2, "secp521r1"},
	{"EdDSA", NULL, 3, NULL},
};
static const struct alginfo *find_alg(const char *n)
{
	for (size_t i = 0; i < sizeof(algs) / sizeof(algs[0]); i++) if (!strcmp(algs[i].name, n)) return &algs[i];
	return NULL;
}

/* does the key belong to the family of the algorithm?  (curve identity is NOT required for ES*:
 * libjwt documents "EC of matching size"; the oracle reports family+size mismatch as invalid) */
static int family_ok(EVP_PKEY *k, const struct alginfo *a)
{
	int id = EVP_PKEY_base_id(k);
	switch (a->kind) {
	case 0: return id == EVP_PKEY_RSA;
	case 1: return id == EVP_PKEY_RSA || id == EVP_PKEY_RSA_PSS;
	case 2: return id == EVP_PKEY_EC && EVP_PKEY_bits(k) ==
		(!strcmp(a->name, "ES384") ? 384 : !strcmp(a->name, "ES512") ? 521 : 256);
	default: return id == EVP_PKEY_ED25519 || id == EVP_PKEY_ED448;
	}
}

/* A JWK cannot say "PSS only": an RSA-PSS key used with RS* stands for the plain RSA key with the same
 * numbers.  Returns a new reference (the key itself when it is not RSA-PSS). */
static EVP_PKEY *plain_rsa(EVP_PKEY *k)
{
	OSSL_PARAM *params = NULL;
	EVP_PKEY *out = NULL;
	EVP_PKEY_CTX *c = NULL;
	if (EVP_PKEY_base_id(k) != EVP_PKEY_RSA_PSS) { EVP_PKEY_up_ref(k); return k; }
	if (EVP_PKEY_todata(k, EVP_PKEY_KEYPAIR, &params) != 1 &&
	    EVP_PKEY_todata(k, EVP_PKEY_PUBLIC_KEY, &params) != 1) return NULL;
	c = EVP_PKEY_CTX_new_from_name(NULL, "RSA", NULL);
	if (c && EVP_PKEY_fromdata_init(c) == 1) EVP_PKEY_fromdata(c, &out, EVP_PKEY_KEYPAIR, params);
	EVP_PKEY_CTX_free(c);
	OSSL_PARAM_free(params);
	ERR_clear_error();
	return out;
}

static int do_verify1(EVP_PKEY *k, const struct alginfo *a, const unsigned char *msg, size_t ml, const unsigned char *sig, size_t sl);
static int do_verify(EVP_PKEY *k, const struct alginfo *a, const unsigned char *msg, size_t ml, const unsigned char *sig, size_t sl)
{
	int ok;
	if (a->kind != 0) return do_verify1(k, a, msg, ml, sig, sl);
	k = plain_rsa(k);
	if (!k) return 0;
	ok = do_verify1(k, a, msg, ml, sig, sl);
	EVP_PKEY_free(k);
	return ok;
}

static int do_verify1(EVP_PKEY *k, const struct alginfo *a, const unsigned char *msg, size_t ml, const unsigned char *sig, size_t sl)
{
	int ok = 0;
	unsigned char *der = NULL;
	int derlen = 0;
	EVP_MD_CTX *c = EVP_MD_CTX_new();
	EVP_PKEY_CTX *pc = NULL;
	if (!family_ok(k, a)) goto out;
	/* RFC 8017 8.1.2 / 8.2.2: an RSA signature is an octet string of exactly the length of the modulus (EVP_DigestVerify itself
	 * takes a shorter one as the same integer for RSASSA-PSS); "valid" here means valid as the standard defines the signature */
	if ((a->kind == 0 || a->kind == 1) && sl != (size_t)EVP_PKEY_get_size(k)) goto out;
	if (a->kind == 2) {
		size_t n = ((size_t)EVP_PKEY_bits(k) + 7) / 8;
		if (sl != 2 * n) goto out;
		ECDSA_SIG *es = ECDSA_SIG_new();
		BIGNUM *r = BN_bin2bn(sig, (int)n, NULL), *s = BN_bin2bn(sig + n, (int)n, NULL);
		ECDSA_SIG_set0(es, r, s);
		derlen = i2d_ECDSA_SIG(es, &der);
		ECDSA_SIG_free(es);
		if (derlen <= 0) goto out;
		sig = der; sl = (size_t)derlen;
	}
	if (EVP_DigestVerifyInit(c, &pc, a->md ? a->md() : NULL, NULL, k) != 1) goto out;
	if (a->kind == 1) {
		if (EVP_PKEY_CTX_set_rsa_padding(pc, RSA_PKCS1_PSS_PADDING) <= 0) goto out;
		if (EVP_PKEY_CTX_set_rsa_pss_saltlen(pc, RSA_PSS_SALTLEN_AUTO) <= 0) goto out;
	} else if (a->kind == 0) {
		if (EVP_PKEY_CTX_set_rsa_padding(pc, RSA_PKCS1_PADDING) <= 0) goto out;
	}
	ok = EVP_DigestVerify(c, sig, sl, msg, ml) == 1;
out:
	EVP_MD_CTX_free(c);
	OPENSSL_free(der);
	ERR_clear_error();
	return ok;
}

static int do_sign1(EVP_PKEY *k, const struct alginfo *a, const unsigned char *msg, size_t ml, unsigned char **out, size_t *ol);
static int do_sign(EVP_PKEY *k, const struct alginfo *a, const unsigned char *msg, size_t ml, unsigned char **out, size_t *ol)
{
	int ok;
	if (a->kind != 0) return do_sign1(k, a, msg, ml, out, ol);
	k = plain_rsa(k);
	if (!k) return 0;
	ok = do_sign1(k, a, msg, ml, out, ol);
	EVP_PKEY_free(k);
	return ok;
}

static int do_sign1(EVP_PKEY *k, const struct alginfo *a, const unsigned char *msg, size_t ml, unsigned char **out, size_t *ol)
{
	int ok = 0;
	EVP_MD_CTX *c = EVP_MD_CTX_new();
	EVP_PKEY_CTX *pc = NULL;
	unsigned char *sig = NULL;
	size_t sl = 0;
	if (!family_ok(k, a)) goto out;
	if (EVP_DigestSignInit(c, &pc, a->md ? a->md() : NULL, NULL, k) != 1) goto out;
	if (a->kind == 1) {
		if (EVP_PKEY_CTX_set_rsa_padding(pc, RSA_PKCS1_PSS_PADDING) <= 0) goto out;
		if (EVP_PKEY_CTX_set_rsa_pss_saltlen(pc, RSA_PSS_SALTLEN_DIGEST) <= 0) goto out;
	} else if (a->kind == 0) {
		if (EVP_PKEY_CTX_set_rsa_padding(pc, RSA_PKCS1_PADDING) <= 0) goto out;
	}
	if (EVP_DigestSign(c, NULL, &sl, msg, ml) != 1) goto out;
	sig = malloc(sl);
	if (EVP_DigestSign(c, sig, &sl, msg, ml) != 1) goto out;
	if (a->kind == 2) {
		const unsigned char *p = sig;
		ECDSA_SIG *es = d2i_ECDSA_SIG(NULL, &p, (long)sl);
		size_t n = ((size_t)EVP_PKEY_bits(k) + 7) / 8;
		if (!es) goto out;
		*out = calloc(1, 2 * n);
		BN_bn2binpad(ECDSA_SIG_get0_r(es), *out, (int)n);
		BN_bn2binpad(ECDSA_SIG_get0_s(es), *out + n, (int)n);
		*ol = 2 * n;
		ECDSA_SIG_free(es);
		free(sig);
	} else { *out = sig; *ol = sl; sig = NULL; }
	ok = 1;
out:
	if (!ok) free(sig);
	EVP_MD_CTX_free(c);
	ERR_clear_error();
	return ok;
}

/* fromdata rsa PSS N E [D P Q DP DQ QI] | fromdata ec CRV X Y [D] | fromdata okp CRV PRIV BYTES
 * -> "<bits>" if EVP_PKEY_fromdata builds a key from this material, "none" otherwise.
 * Written directly against the OpenSSL 3 API (own parameter construction). */
static void do_fromdata(int n, char **t)
{
	OSSL_PARAM_BLD *bld = OSSL_PARAM_BLD_new();
	OSSL_PARAM *params = NULL;
	EVP_PKEY_CTX *ctx = NULL;
	EVP_PKEY *pk = NULL;
	BIGNUM *bns[10] = {0};
	unsigned char *bufs[10] = {0};
	unsigned char *pub = NULL;
	int nb = 0, ok = 0;
	size_t l;
	if (!strcmp(t[1], "rsa") && n >= 5) {
		static const char *names[] = {OSSL_PKEY_PARAM_RSA_N, OSSL_PKEY_PARAM_RSA_E, OSSL_PKEY_PARAM_RSA_D,
			OSSL_PKEY_PARAM_RSA_FACTOR1, OSSL_PKEY_PARAM_RSA_FACTOR2, OSSL_PKEY_PARAM_RSA_EXPONENT1,
			OSSL_PKEY_PARAM_RSA_EXPONENT2, OSSL_PKEY_PARAM_RSA_COEFFICIENT1};
		ctx = EVP_PKEY_CTX_new_from_name(NULL, atoi(t[2]) ? "RSA-PSS" : "RSA", NULL);
		for (int i = 3; i < n && i < 11; i++) {
			unsigned char *b = unhex(t[i], &l);
			bns[nb] = BN_bin2bn(b, (int)l, NULL);
			free(b);
			OSSL_PARAM_BLD_push_BN(bld, names[i - 3], bns[nb]);
			nb++;
		}
	} else if (!strcmp(t[1], "ec") && n >= 5) {
		size_t cl, xl, yl;
		unsigned char *crv = unhex(t[2], &cl), *x = unhex(t[3], &xl), *y = unhex(t[4], &yl);
		char name[300];
		snprintf(name, sizeof name, "%.*s", (int)(cl > 255 ? 255 : cl), crv);
		const char *oname = !strcmp(name, "P-256") ? "prime256v1" : !strcmp(name, "P-384") ? "secp384r1" :
			!strcmp(name, "P-521") ? "secp521r1" : name;
		int nid = OBJ_sn2nid(oname);
		EC_GROUP *g = EC_GROUP_new_by_curve_name(nid);
		ctx = EVP_PKEY_CTX_new_from_name(NULL, "EC", NULL);
		if (g) {
			EC_POINT *pt = EC_POINT_new(g);
			BIGNUM *bx = BN_bin2bn(x, (int)xl, NULL), *by = BN_bin2bn(y, (int)yl, NULL);
			if (EC_POINT_set_affine_coordinates(g, pt, bx, by, NULL)) {
				size_t pl = EC_POINT_point2buf(g, pt, POINT_CONVERSION_UNCOMPRESSED, &pub, NULL);
				OSSL_PARAM_BLD_push_utf8_string(bld, OSSL_PKEY_PARAM_GROUP_NAME, oname, 0);
				OSSL_PARAM_BLD_push_octet_string(bld, OSSL_PKEY_PARAM_PUB_KEY, pub, pl);
				if (n >= 6) {
					unsigned char *d = unhex(t[5], &l);
					bns[nb] = BN_bin2bn(d, (int)l, NULL);
					free(d);
					OSSL_PARAM_BLD_push_BN(bld, OSSL_PKEY_PARAM_PRIV_KEY, bns[nb]);
					nb++;
				}
				ok = 1;
			}
			BN_free(bx); BN_free(by); EC_POINT_free(pt); EC_GROUP_free(g);
		}
		free(crv); free(x); free(y);
		if (!ok) { printf("none"); goto out; }
		ok = 0;
	} else if (!strcmp(t[1], "okp") && n >= 5) {
		size_t cl;
		unsigned char *crv = unhex(t[2], &cl);
		int priv = atoi(t[3]);
		bufs[0] = unhex(t[4], &l);
		ctx = EVP_PKEY_CTX_new_from_name(NULL, (cl == 7 && !memcmp(crv, "Ed25519", 7)) ? "ED25519" :
			(cl == 5 && !memcmp(crv, "Ed448", 5)) ? "ED448" : "nosuch", NULL);
		OSSL_PARAM_BLD_push_octet_string(bld, priv ? OSSL_PKEY_PARAM_PRIV_KEY : OSSL_PKEY_PARAM_PUB_KEY, bufs[0], l);
		free(crv);
	} else { printf("badop"); goto out; }
	params = OSSL_PARAM_BLD_to_param(bld);
	if (ctx && params && EVP_PKEY_fromdata_init(ctx) > 0 && EVP_PKEY_fromdata(ctx, &pk, EVP_PKEY_KEYPAIR, params) > 0 && pk) {
		size_t bits = 0;
		int priv = (!strcmp(t[1], "rsa") && n > 5) || (!strcmp(t[1], "ec") && n >= 6) || (!strcmp(t[1], "okp") && atoi(t[3]));
		BIO *bio = BIO_new(BIO_s_mem());
		int pem = priv ? PEM_write_bio_PrivateKey(bio, pk, NULL, NULL, 0, NULL, NULL) : PEM_write_bio_PUBKEY(bio, pk);
		BIO_free(bio);
		EVP_PKEY_get_size_t_param(pk, OSSL_PKEY_PARAM_BITS, &bits);
		printf(pem ? "%zu" : "%zu:nopem", bits);
	} else printf("none");
out:
	EVP_PKEY_free(pk); EVP_PKEY_CTX_free(ctx); OSSL_PARAM_free(params); OSSL_PARAM_BLD_free(bld);
	for (int i = 0; i < 10; i++) { BN_free(bns[i]); free(bufs[i]); }
	OPENSSL_free(pub);
	ERR_clear_error();
}

int main(void)
{
	char *line = NULL;
	size_t cap = 0;
	while (getline(&line, &cap, stdin) > 0) {
		char *t[16] = {0};
		int n = 0;
		for (char *p = strtok(line, " \n"); p && n < 16; p = strtok(NULL, " \n")) t[n++] = p;
		if (n == 0) { printf("\n"); fflush(stdout); continue; }
		if (!strcmp(t[0], "key") && n >= 3) {
			int id = atoi(t[1]);
			size_t l;
			unsigned char *pem = unhex(t[2], &l);
			BIO *b = BIO_new_mem_buf(pem, (int)l);
			EVP_PKEY *k = PEM_read_bio_PrivateKey(b, NULL, NULL, NULL);
			if (!k) { BIO_free(b); b = BIO_new_mem_buf(pem, (int)l); k = PEM_read_bio_PUBKEY(b, NULL, NULL, NULL); }
			BIO_free(b); free(pem);
			if (id >= 0 && id < NKEY && k) { if (keys[id]) EVP_PKEY_free(keys[id]); keys[id] = k; printf("ok"); }
			else printf("err");
		} else if (!strcmp(t[0], "verify") && n >= 5) {
			int id = atoi(t[1]);
			const struct alginfo *a = find_alg(t[2]);
			size_t ml, sl;
			unsigned char *m = unhex(t[3], &ml), *s = unhex(t[4], &sl);
			printf("%d", (id >= 0 && id < NKEY && keys[id] && a) ? do_verify(keys[id], a, m, ml, s, sl) : 0);
			free(m); free(s);
		} else if (!strcmp(t[0], "xsign") && n >= 5) {
			/* an ECDSA signature with the digest of ALG by a key of ANOTHER curve, framed r||s at WIDTH octets each:
			 * what a party holding that (too small) key can produce for a stronger algorithm's name */
			int id = atoi(t[1]);
			const struct alginfo *a = find_alg(t[2]);
			size_t ml, width = (size_t)atoi(t[4]);
			unsigned char *m = unhex(t[3], &ml), *sig = NULL;
			size_t sl = 0;
			int ok = 0;
			EVP_MD_CTX *c = EVP_MD_CTX_new();
			if (id >= 0 && id < NKEY && keys[id] && a && a->kind == 2 && EVP_PKEY_base_id(keys[id]) == EVP_PKEY_EC &&
			    EVP_DigestSignInit(c, NULL, a->md(), NULL, keys[id]) == 1 && EVP_DigestSign(c, NULL, &sl, m, ml) == 1) {
				sig = malloc(sl);
				if (EVP_DigestSign(c, sig, &sl, m, ml) == 1) {
					const unsigned char *p = sig;
					ECDSA_SIG *es = d2i_ECDSA_SIG(NULL, &p, (long)sl);
					if (es && width >= ((size_t)EVP_PKEY_bits(keys[id]) + 7) / 8 && width <= 128) {
						unsigned char out[256];
						BN_bn2binpad(ECDSA_SIG_get0_r(es), out, (int)width);
						BN_bn2binpad(ECDSA_SIG_get0_s(es), out + width, (int)width);
						puthex(out, 2 * width);
						ok = 1;
					}
					ECDSA_SIG_free(es);
				}
			}
			if (!ok) printf("err");
			EVP_MD_CTX_free(c);
			ERR_clear_error();
			free(sig); free(m);
		} else if (!strcmp(t[0], "sign") && n >= 4) {
			int id = atoi(t[1]);
			const struct alginfo *a = find_alg(t[2]);
			size_t ml, ol = 0;
			unsigned char *m = unhex(t[3], &ml), *o = NULL;
			if (id >= 0 && id < NKEY && keys[id] && a && do_sign(keys[id], a, m, ml, &o, &ol)) { puthex(o, ol); free(o); }
			else printf("err");
			free(m);
		} else if (!strcmp(t[0], "eq") && n >= 3) {
			int a = atoi(t[1]), b = atoi(t[2]);
			printf("%d", (a >= 0 && a < NKEY && b >= 0 && b < NKEY && keys[a] && keys[b]) ? (EVP_PKEY_eq(keys[a], keys[b]) == 1) : 0);
		} else if (!strcmp(t[0], "fromdata") && n >= 3) {
			do_fromdata(n, t);
		} else if (!strcmp(t[0], "bits") && n >= 2) {
			int id = atoi(t[1]);
			if (id >= 0 && id < NKEY && keys[id]) printf("%d %d", EVP_PKEY_bits(keys[id]), EVP_PKEY_base_id(keys[id]));
			else printf("err");
		} else printf("badop");
		printf("\n");
		fflush(stdout);
	}
	return 0;
}
