/* ECDSA framing harness: runs libjwt's real sign/verify glue of both providers on CHOSEN (r, s).
 *
 * The program defines EVP_DigestSign, EVP_DigestVerify, gnutls_privkey_sign_data and
 * gnutls_pubkey_verify_data2 itself.  libjwt.a is linked statically and the crypto libraries
 * dynamically, so the glue's calls to those four primitives bind to the definitions below while
 * everything else (key import, DER coding, gnutls_decode_rs_value / gnutls_encode_rs_value, BN_*)
 * is the real library.  "sign" makes the primitive return DER(r, s) for the integers on the command
 * line and prints the token the public API returns; "verify" records the DER signature the glue hands
 * to the primitive (decoded to integers with OpenSSL) and lets it succeed.
 *
 *   key ALGORD JWKHEX             -> ok | err
 *   sign PROV ALGORD RHEX SHEX    -> tok=<hex of token> | fail
 *   verify PROV ALGORD TOKENHEX   -> rc=N r=<hex> s=<hex> | rc=N nocall
 */
#include <stdio.h>
#include <stdlib.h>
#include <string.h>
#include <jwt.h>
#include <openssl/evp.h>
#include <openssl/ecdsa.h>
#include <openssl/bn.h>
#include <gnutls/gnutls.h>
#include <gnutls/abstract.h>

static unsigned char inj[1024];
static size_t inj_len;
static char cap_r[600], cap_s[600];
static int cap_calls;

static void capture(const unsigned char *sig, size_t len)
{
	/* the libraries are not instrumented: touch every byte the glue hands over from instrumented code, so that a
	 * buffer the glue sized too small (and the library then overran) is an AddressSanitizer report */
	static unsigned char seen[4096];
	memcpy(seen, sig, len < sizeof seen ? len : sizeof seen);
	const unsigned char *p = sig;
	ECDSA_SIG *e = d2i_ECDSA_SIG(NULL, &p, (long)len);
	cap_calls++;
	if (!e || (size_t)(p - sig) != len) {
		snprintf(cap_r, sizeof cap_r, "badder");
		snprintf(cap_s, sizeof cap_s, "badder");
		ECDSA_SIG_free(e);
		return;
	}
	char *r = BN_bn2hex(ECDSA_SIG_get0_r(e)), *s = BN_bn2hex(ECDSA_SIG_get0_s(e));
	snprintf(cap_r, sizeof cap_r, "%s", r);
	snprintf(cap_s, sizeof cap_s, "%s", s);
	OPENSSL_free(r); OPENSSL_free(s);
	ECDSA_SIG_free(e);
}

/* ---- the four interposed primitives ---- */
int EVP_DigestSign(EVP_MD_CTX *ctx, unsigned char *sig, size_t *siglen, const unsigned char *tbs, size_t tbslen)
{
	(void)ctx; (void)tbs; (void)tbslen;
	if (sig) memcpy(sig, inj, inj_len);
	*siglen = inj_len;
	return 1;
}
int EVP_DigestVerify(EVP_MD_CTX *ctx, const unsigned char *sig, size_t siglen, const unsigned char *tbs, size_t tbslen)
{
	(void)ctx; (void)tbs; (void)tbslen;
	capture(sig, siglen);
	return 1;
}
int gnutls_privkey_sign_data(gnutls_privkey_t signer, gnutls_digest_algorithm_t hash, unsigned int flags,
			     const gnutls_datum_t *data, gnutls_datum_t *signature)
{
	(void)signer; (void)hash; (void)flags; (void)data;
	signature->data = gnutls_malloc(inj_len ? inj_len : 1);
	memcpy(signature->data, inj, inj_len);
	signature->size = (unsigned int)inj_len;
	return 0;
}
int gnutls_pubkey_verify_data2(gnutls_pubkey_t pubkey, gnutls_sign_algorithm_t algo, unsigned int flags,
			       const gnutls_datum_t *data, const gnutls_datum_t *signature)
{
	(void)pubkey; (void)algo; (void)flags; (void)data;
	capture(signature->data, signature->size);
	return 0;
}

static unsigned char *unhex(const char *s, size_t *n)
{
	size_t l = strlen(s);
	unsigned char *b = malloc(l / 2 + 1);
	if (!strcmp(s, "-")) { *n = 0; b[0] = 0; return b; }
	for (size_t i = 0; i < l / 2; i++) { unsigned v; sscanf(s + 2 * i, "%2x", &v); b[i] = (unsigned char)v; }
	b[l / 2] = 0;
	*n = l / 2;
	return b;
}

static jwk_set_t *sets[32];

int main(void)
{
	static char line[1 << 16];
	while (fgets(line, sizeof line, stdin)) {
		char *t[8]; int n = 0;
		line[strcspn(line, "\r\n")] = 0;
		for (char *p = strtok(line, " "); p && n < 8; p = strtok(NULL, " ")) t[n++] = p;
		if (n == 0) { printf("badop\n"); continue; }
		if (!strcmp(t[0], "key") && n == 3) {
			size_t l; unsigned char *j = unhex(t[2], &l);
			int a = atoi(t[1]);
			if (a < 0 || a >= 32) { printf("err\n"); free(j); continue; }
			if (sets[a]) jwks_free(sets[a]);
			sets[a] = jwks_create_strn((const char *)j, l);
			free(j);
			const jwk_item_t *it = sets[a] ? jwks_item_get(sets[a], 0) : NULL;
			printf("%s\n", it && !jwks_item_error(it) ? "ok" : "err");
		} else if (!strcmp(t[0], "sign") && n == 5) {
			int a = atoi(t[2]);
			BIGNUM *r = NULL, *s = NULL;
			BN_hex2bn(&r, t[3]); BN_hex2bn(&s, t[4]);
			ECDSA_SIG *e = ECDSA_SIG_new();
			ECDSA_SIG_set0(e, r, s);
			unsigned char *p = inj;
			int dl = i2d_ECDSA_SIG(e, NULL);
			if (dl <= 0 || (size_t)dl > sizeof inj) { printf("fail\n"); ECDSA_SIG_free(e); continue; }
			inj_len = (size_t)i2d_ECDSA_SIG(e, &p);
			ECDSA_SIG_free(e);
			if (jwt_set_crypto_ops(t[1])) { printf("fail\n"); continue; }
			jwt_builder_t *b = jwt_builder_new();
			char *tok = NULL;
			if (b && sets[a] && !jwt_builder_setkey(b, (jwt_alg_t)a, jwks_item_get(sets[a], 0)))
				tok = jwt_builder_generate(b);
			if (tok) {
				printf("tok=");
				for (char *c = tok; *c; c++) printf("%02x", (unsigned char)*c);
				printf("\n");
				free(tok);
			} else
				printf("fail\n");
			jwt_builder_free(b);
		} else if (!strcmp(t[0], "verify") && n == 4) {
			int a = atoi(t[2]);
			size_t l; unsigned char *tok = unhex(t[3], &l);
			cap_calls = 0;
			if (jwt_set_crypto_ops(t[1])) { printf("fail\n"); free(tok); continue; }
			jwt_checker_t *c = jwt_checker_new();
			int rc = -1;
			if (c && sets[a] && !jwt_checker_setkey(c, (jwt_alg_t)a, jwks_item_get(sets[a], 0)))
				rc = jwt_checker_verify(c, (const char *)tok);
			if (cap_calls) printf("rc=%d r=%s s=%s\n", rc, cap_r, cap_s);
			else printf("rc=%d nocall\n", rc);
			jwt_checker_free(c);
			free(tok);
		} else
			printf("badop\n");
		fflush(stdout);
	}
	for (int i = 0; i < 32; i++) if (sets[i]) jwks_free(sets[i]);
	return 0;
}
